(** Keyword pass-through of the worklist-level calls (REVIEW.md M15, REVIEW2.md "still open"):
    [aspirate] / [dispense] hand their keyword arguments [kw] (liquid class, tip, rack id, tube id, rack type,
    forced rack type) to every A / D record they write, [transfer] to every record of every step.  Stated on the
    PARSED TEXT of the records (independent parser [parse_record] of Spec/Gwl.v).
    Part 1 is a generic skeleton ("every record appended by the pipetting calls satisfies [P]") that is also
    used by Proofs/CentsProofs.v. *)
From Robo Require Import Prelude Str Wells Utils Labware Tips Records Partition Params Worklist EvoCmd Program
  Gwl LabwareProofs PlanProofs RecordsProofs RefinementProofs WorklistLevelProofs.
From Coq Require Import Lqa Permutation.
#[local] Open Scope Q_scope.

(* ================================================================== part 1: a predicate on the appended records *)

Lemma pt_Forall_zip_snd {A B} (Q : B -> Prop) : forall (l1 : list A) (l2 : list B),
  Forall Q l2 -> Forall (fun it => Q (snd it)) (zip l1 l2).
Proof.
  induction l1 as [|a r IH]; intros [|b l2] H; cbn [zip]; try constructor.
  - inversion H; assumption.
  - apply IH. inversion H; assumption.
Qed.

Lemma pt_Forall_broadcast {A} (Q : A -> Prop) (l : list A) n : Forall Q l -> Forall Q (broadcast l n).
Proof.
  intro H. destruct l as [|x [|y r]]; cbn [broadcast]; try exact H.
  apply Forall_forall. intros z Hz. apply repeat_spec in Hz. subst z. inversion H; assumption.
Qed.

Lemma pt_In_broadcast {A} (l : list A) n x : In x (broadcast l n) -> In x l.
Proof.
  destruct l as [|y [|z r]]; cbn [broadcast]; try (intro H; exact H).
  intro H. apply repeat_spec in H. subst x. left. reflexivity.
Qed.

Lemma pt_In_zip {A B} : forall (l1 : list A) (l2 : list B) a b, In (a, b) (zip l1 l2) -> In a l1 /\ In b l2.
Proof.
  induction l1 as [|x r IH]; intros [|y l2] a b H; cbn [zip] in H; try contradiction.
  destruct H as [H|H].
  - injection H as <- <-. split; left; reflexivity.
  - destruct (IH _ _ _ H) as [H1 H2]. split; right; assumption.
Qed.

Section Emits.

Variable P : srec -> Prop.
Hypothesis P_no_ad : forall r, no_ad r = true -> P r.

(** [w'] is [w] with more records, every new one satisfying [P] *)
Definition emitsP (w w' : wstate) : Prop := exists new, w' = emit w new /\ Forall P new.

Lemma emitsP_refl w : emitsP w w.
Proof. exists []. rewrite RefinementProofs.emit_nil. split; [reflexivity|constructor]. Qed.

Lemma emitsP_trans w1 w2 w3 : emitsP w1 w2 -> emitsP w2 w3 -> emitsP w1 w3.
Proof.
  intros (n1 & -> & B1) (n2 & -> & B2). exists (n1 ++ n2)%list. rewrite emit_emit. split; [reflexivity|].
  apply Forall_app. split; [exact B1|exact B2].
Qed.

Lemma emitsP_no_ad w w' new : w' = emit w new -> forallb no_ad new = true -> emitsP w w'.
Proof.
  intros -> H. exists new. split; [reflexivity|]. apply Forall_forall. intros r Hin. apply P_no_ad.
  rewrite forallb_forall in H. exact (H r Hin).
Qed.

Lemma emitsP_quiet w w' : (exists new, w' = emit w new /\ forallb quiet new = true) -> emitsP w w'.
Proof. intros (new & Hw & Hq). eapply emitsP_no_ad; [exact Hw|apply quiet_no_ad; exact Hq]. Qed.

Lemma emitsP_cfg w w' : emitsP w w' ->
  w_max w' = w_max w /\ w_autosplit w' = w_autosplit w /\ w_dev w' = w_dev w /\ w_diti w' = w_diti w.
Proof. intros (new & -> & _). repeat split. Qed.

(** the A / D record written for volume [x] with the keyword arguments [kw] satisfies [P] *)
Definition ADok (kw : kwargs) (x : xnum) : Prop :=
  forall name pos m f, prepare_ad (ad_of_kw name pos (xq x) kw) (Some m) = Ok f -> P (RA f) /\ P (RD f).

Lemma emit_wells_P asp kw L : forall items w w' e,
  Forall (fun it => ADok kw (snd it)) items ->
  emit_wells asp w L items kw = (w', e) -> emitsP w w'.
Proof.
  induction items as [|[well x] rest IH]; intros w w' e HA H; cbn [emit_wells] in H.
  - injection H as <- <-. apply emitsP_refl.
  - inversion HA as [|it its Hx HA']; subst. cbn [snd] in Hx.
    destruct (xpos x); [|eapply IH; eassumption].
    destruct (device_position (w_dev w) (lw_geom L) well) as [pos|e0]; [|injection H as <- <-; apply emitsP_refl].
    destruct ((if asp then aspirate_well else dispense_well) w (ad_of_kw (lw_name L) pos (xq x) kw))
      as [w1 e1] eqn:E1.
    assert (H1 : emitsP w w1).
    { destruct asp; [unfold aspirate_well in E1|unfold dispense_well in E1];
        destruct (prepare_ad (ad_of_kw (lw_name L) pos (xq x) kw) (Some (w_max w))) as [f|e2] eqn:Ep;
        injection E1 as <- <-; try apply emitsP_refl;
        (eexists; split; [reflexivity|]); (constructor; [|constructor]); apply (Hx _ _ _ _ Ep). }
    destruct e1 as [e1|]; [injection H as <- <-; exact H1|].
    eapply emitsP_trans; [exact H1|eapply IH; eassumption].
Qed.

Lemma aspirate_P s k wells vols label kw s' e :
  Forall (ADok kw) (flattenF vols) ->
  aspirate s k wells vols label kw = (s', e) -> emitsP (st_wl s) (st_wl s').
Proof.
  intro HA. unfold aspirate, wells_vols. cbv zeta. intro H.
  destruct (nth_error (st_lw s) k) as [L|]; [|injection H as <- <-; apply emitsP_refl].
  cbv beta iota in H. destruct (remove L _ _ label) as [L' [e1|]]; [injection H as <- <-; apply emitsP_refl|].
  cbn [st_wl set_lw] in H. destruct (comment (st_wl s) label) as [w e2] eqn:Ec.
  pose proof (emitsP_quiet _ _ (comment_quiet _ _ _ _ Ec)) as H1.
  destruct e2 as [e2|]; [injection H as <- <-; exact H1|].
  destruct (emit_wells true w L' _ kw) as [w' e3] eqn:Ee. injection H as <- <-. cbn [st_wl set_wl].
  eapply emitsP_trans; [exact H1|eapply emit_wells_P; [|exact Ee]].
  apply pt_Forall_zip_snd. apply pt_Forall_broadcast. exact HA.
Qed.

Lemma dispense_P s k wells vols label comps kw s' e :
  Forall (ADok kw) (flattenF vols) ->
  dispense s k wells vols label comps kw = (s', e) -> emitsP (st_wl s) (st_wl s').
Proof.
  intro HA. unfold dispense, wells_vols. cbv zeta. intro H.
  destruct (nth_error (st_lw s) k) as [L|]; [|injection H as <- <-; apply emitsP_refl].
  cbv beta iota in H. destruct (add L _ _ label comps) as [L' [e1|]]; [injection H as <- <-; apply emitsP_refl|].
  cbn [st_wl set_lw] in H. destruct (comment (st_wl s) label) as [w e2] eqn:Ec.
  pose proof (emitsP_quiet _ _ (comment_quiet _ _ _ _ Ec)) as H1.
  destruct e2 as [e2|]; [injection H as <- <-; exact H1|].
  destruct (emit_wells false w L' _ kw) as [w' e3] eqn:Ee. injection H as <- <-. cbn [st_wl set_wl].
  eapply emitsP_trans; [exact H1|eapply emit_wells_P; [|exact Ee]].
  apply pt_Forall_zip_snd. apply pt_Forall_broadcast. exact HA.
Qed.

Lemma exec_step_P s ks kd sw dw v ws kw s' e :
  ADok kw (XQ v) ->
  exec_step s ks kd sw dw v ws kw = (s', e) -> emitsP (st_wl s) (st_wl s').
Proof.
  intro HA. assert (HA1 : Forall (ADok kw) (flattenF (A0 (XQ v)))) by (cbn [flattenF]; constructor; [exact HA|constructor]).
  unfold exec_step. intro H.
  destruct (aspirate s ks (A0 sw) (A0 (XQ v)) None kw) as [s1 e1] eqn:Ea.
  pose proof (aspirate_P _ _ _ _ _ _ _ _ HA1 Ea) as H1.
  destruct e1 as [e1|]; [injection H as <- <-; exact H1|].
  destruct (nth_error (st_lw s1) ks) as [Ls|]; [|injection H as <- <-; exact H1].
  destruct (get_well_composition Ls sw) as [c|e2]; [|injection H as <- <-; exact H1].
  destruct (dispense s1 kd (A0 dw) (A0 (XQ v)) None (Some [Some c]) kw) as [s2 e3] eqn:Ed.
  pose proof (emitsP_trans _ _ _ H1 (dispense_P _ _ _ _ _ _ _ _ _ HA1 Ed)) as H2.
  destruct e3 as [e3|]; [injection H as <- <-; exact H2|].
  destruct (tip_action (st_wl s2) ws) as [w e4] eqn:Et. injection H as <- <-. cbn [st_wl set_wl].
  eapply emitsP_trans; [exact H2|]. apply emitsP_quiet. eapply RefinementProofs.tip_action_spec. exact Et.
Qed.

Definition actP (kw : kwargs) (a : action) : Prop :=
  match a with Step _ _ v => ADok kw (XQ v) | Commit => True end.

Lemma exec_P ks kd ws kw acts : forall s s' e, Forall (actP kw) acts ->
  exec s ks kd acts ws kw = (s', e) -> emitsP (st_wl s) (st_wl s').
Proof.
  induction acts as [|a rest IH]; intros s s' e HA H; cbn [exec] in H.
  - injection H as <- <-. apply emitsP_refl.
  - inversion HA as [|a' r' Ha HA']; subst. destruct a as [sw dw v|].
    + destruct (exec_step s ks kd sw dw v ws kw) as [s1 e1] eqn:Es.
      pose proof (exec_step_P _ _ _ _ _ _ _ _ _ _ Ha Es) as H1.
      destruct e1 as [e1|]; [injection H as <- <-; exact H1|].
      eapply emitsP_trans; [exact H1|eapply IH; eassumption].
    + apply (IH _ _ _ HA') in H. cbn [st_wl set_wl commit fst] in H.
      eapply emitsP_trans; [|exact H]. exists [RB]. split; [reflexivity|].
      constructor; [apply P_no_ad; reflexivity|constructor].
Qed.

(** the volumes a transfer pipettes: the elements of [vol_list] of the requested volumes *)
Definition transferP (w : wstate) (vols : arr Q) (kw : kwargs) : Prop :=
  forall v0 v, In v0 (flattenF vols) -> In v (vol_list (w_autosplit w) (w_max w) v0) -> ADok kw (XQ v).

Lemma transfer_P s ks swells kd dwells vols label ws pb kw s' e :
  transferP (st_wl s) vols kw ->
  transfer s ks swells kd dwells vols label ws pb kw = (s', e) -> emitsP (st_wl s) (st_wl s').
Proof.
  intro HA. unfold transfer. cbv zeta. intro H.
  assert (Hstop : forall e0, (s, Some e0) = (s', e) -> emitsP (st_wl s) (st_wl s'))
    by (intros e0 E; injection E as <- <-; apply emitsP_refl).
  assert (Hplan : forall w mode sw dw n, emitsP (st_wl s) w ->
            Forall (actP kw) (plan (w_autosplit w) (w_max w) mode
                                   (zip (zip sw dw) (broadcast (flattenF vols) n)))).
  { intros w mode sw dw n Hw. destruct (emitsP_cfg _ _ Hw) as (Em & Ea & _). rewrite Em, Ea.
    apply Forall_forall. intros a Ha. destruct a as [s0 d0 v|]; [|exact I]. cbn [actP].
    apply plan_step_origin in Ha. destruct Ha as (v0 & Hin & Hv & _).
    apply pt_In_zip in Hin. destruct Hin as [_ Hin]. apply pt_In_broadcast in Hin.
    exact (HA v0 v Hin Hv). }
  destruct (w_dev (st_wl s)); try apply (Hstop _ H).
  all: destruct (nth_error (st_lw s) ks) as [Ls|]; [|apply (Hstop _ H)];
    destruct (nth_error (st_lw s) kd) as [Ld|]; [|apply (Hstop _ H)];
    destruct (negb _); [apply (Hstop _ H)|];
    destruct (existsb _ _); [apply (Hstop _ H)|];
    destruct (_ || _); [apply (Hstop _ H)|];
    destruct (optimize_partition_by _ _ pb) as [mode|e0]; [|apply (Hstop _ H)];
    destruct (comment (st_wl s) label) as [w e1] eqn:Ec;
    pose proof (emitsP_quiet _ _ (comment_quiet _ _ _ _ Ec)) as H1;
    (destruct e1 as [e1|]; [injection H as <- <-; exact H1|]);
    match type of H with context [exec ?st ?k1 ?k2 ?a ?sc ?kk] =>
      destruct (exec st k1 k2 a sc kk) as [s1 e2] eqn:Ee end;
    pose proof (emitsP_trans _ _ _ H1 (exec_P _ _ _ _ _ _ _ _ (Hplan _ _ _ _ _ H1) Ee)) as H2;
    (destruct e2 as [e2|]; [injection H as <- <-; exact H2|]);
    destruct (ks =? kd)%nat; injection H as <- <-; rewrite ?st_wl_condense; exact H2.
Qed.

(* ------------------------------------------------------------------ every operation of a program *)

Lemma on_wl_P s f s' e : (forall w w' e0, f w = (w', e0) -> emitsP w w') ->
  on_wl s f = (s', e) -> emitsP (st_wl s) (st_wl s').
Proof.
  intros Hf H. unfold on_wl in H. destruct (f (st_wl s)) as [w e0] eqn:E. injection H as <- <-.
  eapply Hf. exact E.
Qed.

Lemma on_lw_P s k f s' e : on_lw s k f = (s', e) -> emitsP (st_wl s) (st_wl s').
Proof.
  unfold on_lw. intro H. destruct (nth_error (st_lw s) k) as [L|].
  - destruct (f L) as [L' e0]. injection H as <- <-. apply emitsP_refl.
  - injection H as <- <-. apply emitsP_refl.
Qed.

Lemma evo_aspirate_P s k a label s' e : evo_aspirate s k a label = (s', e) -> emitsP (st_wl s) (st_wl s').
Proof.
  unfold evo_aspirate, wells_vols. cbv zeta. intro H.
  repeat match type of H with
         | context [match comment ?w ?l with _ => _ end] => destruct (comment w l) as [wc ec] eqn:Ec
         | context [match ?x with _ => _ end] => destruct x
         end;
    injection H as <- <-; cbn [st_wl set_wl set_lw]; try apply emitsP_refl;
    cbn [st_wl set_lw] in Ec; pose proof (emitsP_quiet _ _ (comment_quiet _ _ _ _ Ec)) as H1; try exact H1.
  eapply emitsP_trans; [exact H1|]. eexists. split; [reflexivity|].
  constructor; [apply P_no_ad; reflexivity|constructor].
Qed.

Lemma evo_dispense_P s k a label comps s' e :
  evo_dispense s k a label comps = (s', e) -> emitsP (st_wl s) (st_wl s').
Proof.
  unfold evo_dispense, wells_vols. cbv zeta. intro H.
  repeat match type of H with
         | context [match comment ?w ?l with _ => _ end] => destruct (comment w l) as [wc ec] eqn:Ec
         | context [match ?x with _ => _ end] => destruct x
         end;
    injection H as <- <-; cbn [st_wl set_wl set_lw]; try apply emitsP_refl;
    cbn [st_wl set_lw] in Ec; pose proof (emitsP_quiet _ _ (comment_quiet _ _ _ _ Ec)) as H1; try exact H1.
  eapply emitsP_trans; [exact H1|]. eexists. split; [reflexivity|].
  constructor; [apply P_no_ad; reflexivity|constructor].
Qed.

Lemma evo_wash_P s a s' e : evo_wash s a = (s', e) -> emitsP (st_wl s) (st_wl s').
Proof.
  unfold evo_wash. intro H. destruct (evo_wash_cmd a) as [cmd|e0]; injection H as <- <-.
  - eexists. split; [reflexivity|]. constructor; [apply P_no_ad; reflexivity|constructor].
  - apply emitsP_refl.
Qed.

(** what is asked of one operation, given the configuration [w] of the worklist *)
Definition opP (w : wstate) (o : op) : Prop :=
  match o with
  | OAspirate _ _ vols _ kw => Forall (ADok kw) (flattenF vols)
  | ODispense _ _ vols _ _ kw => Forall (ADok kw) (flattenF vols)
  | OTransfer _ _ _ _ vols _ _ _ kw => transferP w vols kw
  | OAspWell a | ODispWell a => forall m f, prepare_ad a (Some m) = Ok f -> P (RA f) /\ P (RD f)
  | _ => True
  end.

Lemma opP_cfg w w' o : w_max w' = w_max w -> w_autosplit w' = w_autosplit w -> opP w o -> opP w' o.
Proof.
  intros Em Ea H. destruct o; try exact H. cbn [opP] in *. unfold transferP in *. rewrite Em, Ea. exact H.
Qed.

Theorem step_P s o s' e : opP (st_wl s) o -> step s o = (s', e) -> emitsP (st_wl s) (st_wl s').
Proof.
  destruct o as [k wells vols label comps|k wells vols label|k n label|k wells vols label kw
                |k wells vols label comps kw|ks swells kd dwells vols label ws pb kw|ks kd dwells a
                |c|sch| | | |i|a|a|a|k a label|k a label comps|a]; cbn [step opP]; intros HA H.
  - eapply on_lw_P; exact H.
  - eapply on_lw_P; exact H.
  - eapply on_lw_P; exact H.
  - eapply aspirate_P; eassumption.
  - eapply dispense_P; eassumption.
  - eapply transfer_P; eassumption.
  - destruct (distribute_quiet_fail _ _ _ _ _ _ _ H) as (new & Hw & Hn & _). eapply emitsP_no_ad; eassumption.
  - eapply on_wl_P; [|exact H]. intros w w' e0 E. apply emitsP_quiet. eapply comment_quiet. exact E.
  - eapply on_wl_P; [|exact H]. intros w w' e0 E. apply emitsP_quiet. eapply wash_spec. exact E.
  - eapply on_wl_P; [|exact H]. intros w w' e0 E. apply emitsP_quiet. eapply decontaminate_spec. exact E.
  - eapply on_wl_P; [|exact H]. intros w w' e0 E. apply emitsP_quiet. eapply flush_spec. exact E.
  - eapply on_wl_P; [|exact H]. intros w w' e0 E. apply emitsP_quiet. eapply commit_spec. exact E.
  - eapply on_wl_P; [|exact H]. intros w w' e0 E. apply emitsP_quiet. eapply set_diti_spec. exact E.
  - eapply on_wl_P; [|exact H]. intros w w' e0 E. unfold aspirate_well in E.
    destruct (prepare_ad a (Some (w_max w))) as [f|e1] eqn:Ep; injection E as <- <-; [|apply emitsP_refl].
    eexists. split; [reflexivity|]. constructor; [apply (HA _ _ Ep)|constructor].
  - eapply on_wl_P; [|exact H]. intros w w' e0 E. unfold dispense_well in E.
    destruct (prepare_ad a (Some (w_max w))) as [f|e1] eqn:Ep; injection E as <- <-; [|apply emitsP_refl].
    eexists. split; [reflexivity|]. constructor; [apply (HA _ _ Ep)|constructor].
  - eapply on_wl_P; [|exact H]. intros w w' e0 E. apply reagent_distribution_spec in E. destruct e0 as [e0|].
    + subst. apply emitsP_refl.
    + destruct E as (f & v & -> & _). eexists. split; [reflexivity|].
      constructor; [apply P_no_ad; reflexivity|constructor].
  - destruct (w_dev (st_wl s)); try (injection H as <- <-; apply emitsP_refl). eapply evo_aspirate_P; exact H.
  - destruct (w_dev (st_wl s)); try (injection H as <- <-; apply emitsP_refl). eapply evo_dispense_P; exact H.
  - destruct (w_dev (st_wl s)); try (injection H as <- <-; apply emitsP_refl). eapply evo_wash_P; exact H.
Qed.

Theorem run_P ops : forall s, Forall (opP (st_wl s)) ops -> emitsP (st_wl s) (st_wl (fst (run s ops))).
Proof.
  induction ops as [|o r IH]; intros s HA.
  - cbn [run fst]. apply emitsP_refl.
  - rewrite run_cons. cbn [fst]. inversion HA as [|o' r' Ho Hr]; subst.
    destruct (step s o) as [s1 e1] eqn:Es. cbn [fst].
    pose proof (step_P _ _ _ _ Ho Es) as H1. destruct (emitsP_cfg _ _ H1) as (Em & Ea & _).
    eapply emitsP_trans; [exact H1|]. apply IH.
    eapply Forall_impl; [|exact Hr]. intros o1 Ho1. eapply opP_cfg; [exact Em|exact Ea|exact Ho1].
Qed.

End Emits.

(* ================================================================== part 2: the keyword arguments, on the parsed text *)

(** the keyword arguments are what the parsed record [p] shows *)
Definition pt_kw_parsed (kw : kwargs) (p : pad) : Prop :=
  k_liquid_class kw = PStr (pa_liquid_class p) /\ k_rack_id kw = PStr (pa_rack_id p) /\
  k_tube_id kw = PStr (pa_tube_id p) /\ k_rack_type kw = PStr (pa_rack_type p) /\
  k_forced kw = PStr (pa_forced_rack_type p) /\ tip_mask (k_tip kw) = Ok (pa_tip p).

Lemma pt_prepare name pos v kw m f : prepare_ad (ad_of_kw name pos v kw) m = Ok f ->
  exists p, parse_record (render (RA f)) = Some (PA p) /\ parse_record (render (RD f)) = Some (PD p) /\
    pa_rack_label p = name /\ N.to_nat (pa_position p) = pos /\ Z.of_N (pa_volume_c p) = round2c v /\
    pt_kw_parsed kw p.
Proof.
  intro H. destruct (rc_ad_end_to_end _ _ _ H) as (p & v' & A & D & H1 & H2 & H3 & H4 & H5 & H6 & H7 & H8 & H9 & H10).
  cbn [ad_of_kw x_rack_label x_position x_volume x_liquid_class x_tip x_rack_id x_tube_id x_rack_type x_forced] in *.
  injection H1 as H1. injection H4 as H4. injection H6 as H6. subst v'.
  exists p. split; [exact A|]. split; [exact D|]. split; [symmetry; exact H1|]. split; [lia|]. split; [exact H7|].
  unfold pt_kw_parsed. repeat split; assumption.
Qed.

(** the record [r] written for the pair [wx] = (well, volume): an A ([asp]) or D record whose TEXT, read by the
    independent parser, shows rack label [name], the device position of the well, the volume rounded to two
    decimals, and the keyword arguments *)
Definition pt_passes (d : device) (name : string) (g : geom) (asp : bool) (kw : kwargs)
    (wx : string * xnum) (r : srec) : Prop :=
  exists v f p, snd wx = XQ v /\ 0 < v /\
    r = (if asp then RA f else RD f) /\
    parse_record (render r) = Some (if asp then PA p else PD p) /\
    pa_rack_label p = name /\
    device_position d g (fst wx) = Ok (N.to_nat (pa_position p)) /\
    Z.of_N (pa_volume_c p) = round2c v /\
    pt_kw_parsed kw p.

(** why the record loop stopped at the pair [wx]: the well has no position on this device, or the record
    arguments were refused *)
Definition pt_offends (d : device) (name : string) (g : geom) (m : Q) (kw : kwargs)
    (wx : string * xnum) (e : err) : Prop :=
  device_position d g (fst wx) = Err e \/
  exists pos, device_position d g (fst wx) = Ok pos /\
              prepare_ad (ad_of_kw name pos (xq (snd wx)) kw) (Some m) = Err e.

Definition pt_finite (it : string * xnum) : Prop := exists v, snd it = XQ v.

Lemma pt_emit_wells asp kw L : forall items w w' e,
  Forall pt_finite items -> emit_wells asp w L items kw = (w', e) ->
  exists new pre post, w' = emit w new /\
    filter (fun wx => xpos (snd wx)) items = (pre ++ post)%list /\
    Forall2 (pt_passes (w_dev w) (lw_name L) (lw_geom L) asp kw) pre new /\
    match e with
    | None => post = []
    | Some e0 => exists wx rest, post = wx :: rest /\
                   pt_offends (w_dev w) (lw_name L) (lw_geom L) (w_max w) kw wx e0
    end.
Proof.
  induction items as [|[well x] rest IH]; intros w w' e Hfin H; cbn [emit_wells] in H.
  - injection H as <- <-. exists [], [], []. rewrite RefinementProofs.emit_nil. repeat split; constructor.
  - inversion Hfin as [|it its [v Hx] Hfin']; subst. cbn [snd] in Hx. subst x. cbn [filter snd].
    destruct (xpos (XQ v)) eqn:Ex; [|apply IH; assumption].
    assert (Hv : 0 < v) by (cbn [xpos] in Ex; apply Qltb_true; exact Ex).
    destruct (device_position (w_dev w) (lw_geom L) well) as [pos|e0] eqn:Ep.
    2:{ injection H as <- <-. exists [], [], ((well, XQ v) :: filter (fun wx => xpos (snd wx)) rest).
        rewrite RefinementProofs.emit_nil. split; [reflexivity|]. split; [reflexivity|]. split; [constructor|].
        exists (well, XQ v), (filter (fun wx => xpos (snd wx)) rest). split; [reflexivity|]. left. exact Ep. }
    cbn [xq] in H.
    destruct (prepare_ad (ad_of_kw (lw_name L) pos v kw) (Some (w_max w))) as [f|e1] eqn:Epa.
    + assert (Hstep : (if asp then aspirate_well else dispense_well) w (ad_of_kw (lw_name L) pos v kw)
                      = (emit w [if asp then RA f else RD f], None))
        by (destruct asp; [unfold aspirate_well|unfold dispense_well]; rewrite Epa; reflexivity).
      rewrite Hstep in H. destruct (IH _ _ _ Hfin' H) as (new & pre & post & Hw & Hf & HF & He).
      exists ((if asp then RA f else RD f) :: new), ((well, XQ v) :: pre), post.
      split; [rewrite Hw, emit_emit; reflexivity|]. split; [rewrite Hf; reflexivity|].
      cbn [w_dev w_max emit] in HF, He. split; [|exact He].
      constructor; [|exact HF].
      destruct (pt_prepare _ _ _ _ _ _ Epa) as (p & A & D & P1 & P2 & P3 & P4).
      exists v, f, p. cbn [fst snd]. split; [reflexivity|]. split; [exact Hv|]. split; [reflexivity|].
      split; [destruct asp; assumption|]. split; [exact P1|]. split; [rewrite P2; exact Ep|].
      split; [exact P3|exact P4].
    + assert (Hstep : (if asp then aspirate_well else dispense_well) w (ad_of_kw (lw_name L) pos v kw)
                      = (w, Some e1))
        by (destruct asp; [unfold aspirate_well|unfold dispense_well]; rewrite Epa; reflexivity).
      rewrite Hstep in H. injection H as <- <-.
      exists [], [], ((well, XQ v) :: filter (fun wx => xpos (snd wx)) rest).
      rewrite RefinementProofs.emit_nil. split; [reflexivity|]. split; [reflexivity|]. split; [constructor|].
      exists (well, XQ v), (filter (fun wx => xpos (snd wx)) rest). split; [reflexivity|].
      right. exists pos. cbn [fst snd xq]. split; [exact Ep|exact Epa].
Qed.

(** an accepted labware call has only finite volumes *)
Lemma pt_rem_run_finite L items L' e : rem_run L items L' e -> e = None -> Forall pt_finite items.
Proof.
  intro H. induction H as [L|L w x rest Hi|L w x rest i Hi Hx|L w v rest i Hi Hg
                           |L w v rest i L' e Hi Hg Hr IH]; intro He; try discriminate.
  - constructor.
  - constructor; [exists v; reflexivity|exact (IH He)].
Qed.

Lemma pt_add_run_finite L items L' e : add_run L items L' e -> e = None -> Forall pt_finite (map fst items).
Proof.
  intro H. induction H as [L|L w x oc rest Hi|L w x oc rest i Hi Hx|L w v oc rest i Hi Hg
                           |L w v oc rest i L' e Hi Hg Hr IH]; intro He; try discriminate.
  - constructor.
  - cbn [map fst]. constructor; [exists v; reflexivity|exact (IH He)].
Qed.

(** the comment lines a label produces *)
Definition pt_label_lines (label : option string) : list string :=
  match label with
  | None => []
  | Some s => if String.eqb s "" then [] else comment_lines s
  end.

Lemma pt_comment_ok w label w' : comment w label = (w', None) -> w' = emit w (map RC (pt_label_lines label)).
Proof.
  unfold comment, pt_label_lines. destruct label as [s|].
  - destruct (String.eqb s ""); [intro H; injection H as <-; symmetry; apply RefinementProofs.emit_nil|].
    destruct (contains_char semi s); [discriminate|]. intro H. injection H as <-. reflexivity.
  - intro H. injection H as <-. symmetry. apply RefinementProofs.emit_nil.
Qed.

Definition pt_items (wells : arr string) (vols : arr xnum) : list (string * xnum) :=
  filter (fun wx => xpos (snd wx)) (zip (flattenF wells) (broadcast (flattenF vols) (length (flattenF wells)))).

(** C09_aspirate_passthrough *)
Theorem pt_aspirate_ok s k wells vols label kw s' L :
  aspirate s k wells vols label kw = (s', None) -> nth_error (st_lw s) k = Some L ->
  exists new, st_wl s' = emit (st_wl s) (map RC (pt_label_lines label) ++ new) /\
    Forall2 (pt_passes (w_dev (st_wl s)) (lw_name L) (lw_geom L) true kw) (pt_items wells vols) new.
Proof.
  intros H HL. unfold aspirate, wells_vols in H. cbv zeta in H. rewrite HL in H. cbv beta iota in H.
  destruct (remove L _ _ label) as [L' [e1|]] eqn:Er; [discriminate|].
  pose proof Er as Er'. rewrite remove_norm in Er'.
  destruct (remove_accepted _ _ _ _ _ Er') as (L1 & _ & _ & Hrun & _). cbv zeta in Hrun.
  destruct (remove_any _ _ _ _ _ _ Er) as [(Hn & Hg & _) _].
  cbn [st_wl set_lw] in H. destruct (comment (st_wl s) label) as [w [e2|]] eqn:Ec; [discriminate|].
  apply pt_comment_ok in Ec.
  destruct (emit_wells true w L' _ kw) as [w' e3] eqn:Ee. injection H as <- ->.
  destruct (pt_emit_wells _ _ _ _ _ _ _ (pt_rem_run_finite _ _ _ _ Hrun eq_refl) Ee)
    as (new & pre & post & Hw' & Hf & HF & He).
  subst post. rewrite app_nil_r in Hf. exists new. cbn [st_wl set_wl].
  split; [rewrite Hw', Ec, emit_emit; reflexivity|].
  unfold pt_items. rewrite Hf. rewrite Hn, Hg, Ec in HF. exact HF.
Qed.

(** C09_dispense_passthrough *)
Theorem pt_dispense_ok s k wells vols label comps kw s' L :
  dispense s k wells vols label comps kw = (s', None) -> nth_error (st_lw s) k = Some L ->
  exists new, st_wl s' = emit (st_wl s) (map RC (pt_label_lines label) ++ new) /\
    Forall2 (pt_passes (w_dev (st_wl s)) (lw_name L) (lw_geom L) false kw) (pt_items wells vols) new.
Proof.
  intros H HL. unfold dispense, wells_vols in H. cbv zeta in H. rewrite HL in H. cbv beta iota in H.
  destruct (add L _ _ label comps) as [L' [e1|]] eqn:Er; [discriminate|].
  pose proof Er as Er'. rewrite add_norm in Er'.
  destruct (add_accepted _ _ _ _ _ _ Er') as (items & L1 & Hit & _ & _ & Hrun & _).
  destruct (add_any _ _ _ _ _ _ _ Er) as [(Hn & Hg & _) _].
  cbn [st_wl set_lw] in H. destruct (comment (st_wl s) label) as [w [e2|]] eqn:Ec; [discriminate|].
  apply pt_comment_ok in Ec.
  destruct (emit_wells false w L' _ kw) as [w' e3] eqn:Ee. injection H as <- ->.
  pose proof (pt_add_run_finite _ _ _ _ Hrun eq_refl) as Hfin. rewrite Hit in Hfin.
  destruct (pt_emit_wells _ _ _ _ _ _ _ Hfin Ee) as (new & pre & post & Hw' & Hf & HF & He).
  subst post. rewrite app_nil_r in Hf. exists new. cbn [st_wl set_wl].
  split; [rewrite Hw', Ec, emit_emit; reflexivity|].
  unfold pt_items. rewrite Hf. rewrite Hn, Hg, Ec in HF. exact HF.
Qed.

(* ------------------------------------------------------------------ the record loop stopped *)

(** a call that was accepted by the labware (which is therefore charged in full, C02_aspirate_rejected) and
    raised afterwards: either the label was refused (nothing appended) or the record loop stopped at the pair
    [wx]; the comment lines and the records of the pairs before [wx] are in the worklist *)
Theorem pt_aspirate_stopped s k wells vols label kw s' e0 L L' :
  aspirate s k wells vols label kw = (s', Some e0) -> nth_error (st_lw s) k = Some L ->
  remove L wells vols label = (L', None) ->
  st_lw s' = upd (st_lw s) k L' /\
  ((snd (comment (st_wl s) label) = Some e0 /\ st_wl s' = st_wl s) \/
   (exists new pre wx post,
      st_wl s' = emit (st_wl s) (map RC (pt_label_lines label) ++ new) /\
      pt_items wells vols = (pre ++ wx :: post)%list /\
      Forall2 (pt_passes (w_dev (st_wl s)) (lw_name L) (lw_geom L) true kw) pre new /\
      pt_offends (w_dev (st_wl s)) (lw_name L) (lw_geom L) (w_max (st_wl s)) kw wx e0)).
Proof.
  intros H HL Er'. unfold aspirate, wells_vols in H. cbv zeta in H. rewrite HL in H. cbv beta iota in H.
  rewrite remove_norm, Er' in H.
  destruct (remove_accepted _ _ _ _ _ Er') as (L1 & _ & _ & Hrun & _). cbv zeta in Hrun.
  destruct (remove_any _ _ _ _ _ _ Er') as [(Hn & Hg & _) _].
  cbn [st_wl set_lw] in H. destruct (comment (st_wl s) label) as [w [e2|]] eqn:Ec.
  { injection H as <- <-. split; [reflexivity|]. left. split; [reflexivity|]. cbn [st_wl set_wl].
    apply comment_err in Ec. exact (proj2 Ec). }
  apply pt_comment_ok in Ec.
  destruct (emit_wells true w L' _ kw) as [w' e3] eqn:Ee. injection H as <- ->.
  split; [reflexivity|]. right.
  destruct (pt_emit_wells _ _ _ _ _ _ _ (pt_rem_run_finite _ _ _ _ Hrun eq_refl) Ee)
    as (new & pre & post & Hw' & Hf & HF & (wx & rest & -> & Ho)).
  exists new, pre, wx, rest. cbn [st_wl set_wl].
  split; [rewrite Hw', Ec, emit_emit; reflexivity|]. split; [exact Hf|].
  rewrite Hn, Hg, Ec in HF, Ho. split; [exact HF|exact Ho].
Qed.

Theorem pt_dispense_stopped s k wells vols label comps kw s' e0 L L' :
  dispense s k wells vols label comps kw = (s', Some e0) -> nth_error (st_lw s) k = Some L ->
  add L wells vols label comps = (L', None) ->
  st_lw s' = upd (st_lw s) k L' /\
  ((snd (comment (st_wl s) label) = Some e0 /\ st_wl s' = st_wl s) \/
   (exists new pre wx post,
      st_wl s' = emit (st_wl s) (map RC (pt_label_lines label) ++ new) /\
      pt_items wells vols = (pre ++ wx :: post)%list /\
      Forall2 (pt_passes (w_dev (st_wl s)) (lw_name L) (lw_geom L) false kw) pre new /\
      pt_offends (w_dev (st_wl s)) (lw_name L) (lw_geom L) (w_max (st_wl s)) kw wx e0)).
Proof.
  intros H HL Er'. unfold dispense, wells_vols in H. cbv zeta in H. rewrite HL in H. cbv beta iota in H.
  rewrite add_norm, Er' in H.
  destruct (add_accepted _ _ _ _ _ _ Er') as (items & L1 & Hit & _ & _ & Hrun & _).
  destruct (add_any _ _ _ _ _ _ _ Er') as [(Hn & Hg & _) _].
  cbn [st_wl set_lw] in H. destruct (comment (st_wl s) label) as [w [e2|]] eqn:Ec.
  { injection H as <- <-. split; [reflexivity|]. left. split; [reflexivity|]. cbn [st_wl set_wl].
    apply comment_err in Ec. exact (proj2 Ec). }
  apply pt_comment_ok in Ec.
  destruct (emit_wells false w L' _ kw) as [w' e3] eqn:Ee. injection H as <- ->.
  split; [reflexivity|]. right.
  pose proof (pt_add_run_finite _ _ _ _ Hrun eq_refl) as Hfin. rewrite Hit in Hfin.
  destruct (pt_emit_wells _ _ _ _ _ _ _ Hfin Ee) as (new & pre & post & Hw' & Hf & HF & (wx & rest & -> & Ho)).
  exists new, pre, wx, rest. cbn [st_wl set_wl].
  split; [rewrite Hw', Ec, emit_emit; reflexivity|]. split; [exact Hf|].
  rewrite Hn, Hg, Ec in HF, Ho. split; [exact HF|exact Ho].
Qed.

(* ------------------------------------------------------------------ keyword arguments that cannot be represented *)

(** not a str or with a separator (liquid class, tube id), additionally longer than 32 characters (rack id,
    rack type, forced rack type), or an invalid tip *)
Definition pt_kw_bad (kw : kwargs) : Prop :=
  rc_text_bad false (k_liquid_class kw) \/ rc_text_bad true (k_rack_id kw) \/
  rc_text_bad false (k_tube_id kw) \/ rc_text_bad true (k_rack_type kw) \/
  rc_text_bad true (k_forced kw) \/ exists e, tip_mask (k_tip kw) = Err e.

Lemma pt_kw_bad_prepare name pos v kw m : pt_kw_bad kw ->
  exists e, prepare_ad (ad_of_kw name pos v kw) m = Err e.
Proof.
  intro Hb. unfold prepare_ad, ad_of_kw.
  cbn [x_rack_label x_position x_volume x_liquid_class x_tip x_rack_id x_tube_id x_rack_type x_forced].
  destruct (text_ok true (PStr name)) as [l|]; [|eexists; reflexivity].
  destruct (check_position (PInt (Z.of_nat pos))) as [z|e1]; [|eexists; reflexivity].
  destruct (check_volume (PV (XQ v)) m) as [q|e2]; [|eexists; reflexivity].
  destruct (text_ok false (k_liquid_class kw)) as [lc|] eqn:E1; [|eexists; reflexivity].
  destruct (tip_mask (k_tip kw)) as [mask|e3] eqn:E2; [|eexists; reflexivity].
  destruct (text_ok true (k_rack_id kw)) as [rid|] eqn:E3; [|eexists; reflexivity].
  destruct (text_ok false (k_tube_id kw)) as [tid|] eqn:E4; [|eexists; reflexivity].
  destruct (text_ok true (k_rack_type kw)) as [rty|] eqn:E5; [|eexists; reflexivity].
  destruct (text_ok true (k_forced kw)) as [frt|] eqn:E6; [|eexists; reflexivity].
  exfalso. destruct Hb as [B|[B|[B|[B|[B|[e B]]]]]]; try (apply rc_text_ok_none in B; congruence).
  rewrite E2 in B. discriminate B.
Qed.

(** with such arguments no A / D record is written at all: the loop stops at the first positive volume *)
Lemma pt_emit_wells_bad asp kw L : pt_kw_bad kw -> forall items w w' e,
  emit_wells asp w L items kw = (w', e) ->
  w' = w /\ (e = None <-> filter (fun wx => xpos (snd wx)) items = []).
Proof.
  intro Hb. induction items as [|[well x] rest IH]; intros w w' e H; cbn [emit_wells] in H.
  - injection H as <- <-. split; [reflexivity|]. split; reflexivity.
  - cbn [filter snd]. destruct (xpos x); [|apply IH; exact H].
    destruct (device_position (w_dev w) (lw_geom L) well) as [pos|e0].
    + destruct (pt_kw_bad_prepare (lw_name L) pos (xq x) kw (Some (w_max w)) Hb) as [e1 Ep].
      assert (Hstep : (if asp then aspirate_well else dispense_well) w (ad_of_kw (lw_name L) pos (xq x) kw)
                      = (w, Some e1))
        by (destruct asp; [unfold aspirate_well|unfold dispense_well]; rewrite Ep; reflexivity).
      rewrite Hstep in H. injection H as <- <-. split; [reflexivity|]. split; discriminate.
    + injection H as <- <-. split; [reflexivity|]. split; discriminate.
Qed.

(** C09_aspirate_kw_rejected: exactly what is left behind.  The labware is charged in full, the comment lines
    are written, no A record is; the call raises as soon as there is one positive volume *)
Theorem pt_aspirate_kw_bad s k wells vols label kw s' e L L' :
  pt_kw_bad kw -> aspirate s k wells vols label kw = (s', e) -> nth_error (st_lw s) k = Some L ->
  remove L wells vols label = (L', None) -> snd (comment (st_wl s) label) = None ->
  s' = set_wl (set_lw s k L') (emit (st_wl s) (map RC (pt_label_lines label))) /\
  (e = None <-> pt_items wells vols = []) /\ (forall e0, e = Some e0 -> rec_err e0).
Proof.
  intros Hb H HL Er' Hc. unfold aspirate, wells_vols in H. cbv zeta in H. rewrite HL in H. cbv beta iota in H.
  rewrite remove_norm, Er' in H. cbn [st_wl set_lw] in H.
  destruct (comment (st_wl s) label) as [w [e2|]] eqn:Ec; [discriminate Hc|].
  apply pt_comment_ok in Ec.
  destruct (emit_wells true w L' _ kw) as [w' e3] eqn:Ee. injection H as <- <-.
  destruct (pt_emit_wells_bad _ _ _ Hb _ _ _ _ Ee) as [-> Hiff].
  split; [rewrite Ec; reflexivity|]. split; [exact Hiff|].
  intros e0 ->. eapply emit_wells_err. exact Ee.
Qed.

Theorem pt_dispense_kw_bad s k wells vols label comps kw s' e L L' :
  pt_kw_bad kw -> dispense s k wells vols label comps kw = (s', e) -> nth_error (st_lw s) k = Some L ->
  add L wells vols label comps = (L', None) -> snd (comment (st_wl s) label) = None ->
  s' = set_wl (set_lw s k L') (emit (st_wl s) (map RC (pt_label_lines label))) /\
  (e = None <-> pt_items wells vols = []) /\ (forall e0, e = Some e0 -> rec_err e0).
Proof.
  intros Hb H HL Er' Hc. unfold dispense, wells_vols in H. cbv zeta in H. rewrite HL in H. cbv beta iota in H.
  rewrite add_norm, Er' in H. cbn [st_wl set_lw] in H.
  destruct (comment (st_wl s) label) as [w [e2|]] eqn:Ec; [discriminate Hc|].
  apply pt_comment_ok in Ec.
  destruct (emit_wells false w L' _ kw) as [w' e3] eqn:Ee. injection H as <- <-.
  destruct (pt_emit_wells_bad _ _ _ Hb _ _ _ _ Ee) as [-> Hiff].
  split; [rewrite Ec; reflexivity|]. split; [exact Hiff|].
  intros e0 ->. eapply emit_wells_err. exact Ee.
Qed.

(* ------------------------------------------------------------------ every record of aspirate / dispense / transfer *)

(** an A / D record whose text shows the keyword arguments (any other record: nothing asked) *)
Definition pt_rec_kw (kw : kwargs) (r : srec) : Prop :=
  match r with
  | RA _ => exists p, parse_record (render r) = Some (PA p) /\ pt_kw_parsed kw p
  | RD _ => exists p, parse_record (render r) = Some (PD p) /\ pt_kw_parsed kw p
  | _ => True
  end.

Lemma pt_rec_kw_no_ad kw r : no_ad r = true -> pt_rec_kw kw r.
Proof. destruct r; cbn [no_ad pt_rec_kw]; intro H; try exact I; discriminate. Qed.

Lemma pt_ADok kw x : ADok (pt_rec_kw kw) kw x.
Proof.
  intros name pos m f H. destruct (pt_prepare _ _ _ _ _ _ H) as (p & A & D & _ & _ & _ & K).
  split; exists p; split; assumption.
Qed.

Lemma pt_Forall_ADok kw (l : list xnum) : Forall (ADok (pt_rec_kw kw) kw) l.
Proof. apply Forall_forall. intros x _. apply pt_ADok. Qed.

(** whatever the outcome of the call *)
Theorem pt_aspirate_any s k wells vols label kw s' e :
  aspirate s k wells vols label kw = (s', e) -> emitsP (pt_rec_kw kw) (st_wl s) (st_wl s').
Proof. apply aspirate_P; [apply pt_rec_kw_no_ad|apply pt_Forall_ADok]. Qed.

Theorem pt_dispense_any s k wells vols label comps kw s' e :
  dispense s k wells vols label comps kw = (s', e) -> emitsP (pt_rec_kw kw) (st_wl s) (st_wl s').
Proof. apply dispense_P; [apply pt_rec_kw_no_ad|apply pt_Forall_ADok]. Qed.

Theorem pt_aspirate_dispense_any s kw s' e :
  (forall k wells vols label, aspirate s k wells vols label kw = (s', e) ->
     emitsP (pt_rec_kw kw) (st_wl s) (st_wl s')) /\
  (forall k wells vols label comps, dispense s k wells vols label comps kw = (s', e) ->
     emitsP (pt_rec_kw kw) (st_wl s) (st_wl s')).
Proof.
  split; intros.
  - eapply pt_aspirate_any; eassumption.
  - eapply pt_dispense_any; eassumption.
Qed.

(** C09_transfer_passthrough *)
Theorem pt_transfer_any s ks swells kd dwells vols label ws pb kw s' e :
  transfer s ks swells kd dwells vols label ws pb kw = (s', e) -> emitsP (pt_rec_kw kw) (st_wl s) (st_wl s').
Proof. apply transfer_P; [apply pt_rec_kw_no_ad|]. intros v0 v _ _. apply pt_ADok. Qed.

(** the tip-mask field *)
Definition pt_rec_mask (m : option N) (r : srec) : Prop :=
  match r with
  | RA _ => exists p, parse_record (render r) = Some (PA p) /\ pa_tip p = m
  | RD _ => exists p, parse_record (render r) = Some (PD p) /\ pa_tip p = m
  | _ => True
  end.

Definition pt_emits_mask (kw : kwargs) (w w' : wstate) : Prop :=
  exists new, w' = emit w new /\
    (forall m, tip_mask (k_tip kw) = Ok m -> Forall (pt_rec_mask m) new) /\
    (forall e, tip_mask (k_tip kw) = Err e -> forallb no_ad new = true).

Lemma pt_mask_of_kw kw w w' : emitsP (pt_rec_kw kw) w w' -> pt_emits_mask kw w w'.
Proof.
  intros (new & Hw & HF). exists new. split; [exact Hw|]. split.
  - intros m Hm. eapply Forall_impl; [|exact HF]. intros r Hr.
    destruct r; cbn [pt_rec_kw pt_rec_mask] in *; try exact I;
      destruct Hr as (p & Hp & K); exists p; (split; [exact Hp|]);
      destruct K as (_ & _ & _ & _ & _ & K); rewrite Hm in K; injection K as K; symmetry; exact K.
  - intros e He. apply forallb_forall. intros r Hin. rewrite Forall_forall in HF. specialize (HF r Hin).
    destruct r; cbn [pt_rec_kw no_ad] in *; try reflexivity;
      destruct HF as (p & _ & K); destruct K as (_ & _ & _ & _ & _ & K); rewrite He in K; discriminate K.
Qed.

(** C10_passthrough_mask *)
Theorem pt_passthrough_mask kw s s' e :
  (forall k wells vols label, aspirate s k wells vols label kw = (s', e) -> pt_emits_mask kw (st_wl s) (st_wl s')) /\
  (forall k wells vols label comps, dispense s k wells vols label comps kw = (s', e) ->
     pt_emits_mask kw (st_wl s) (st_wl s')) /\
  (forall ks swells kd dwells vols label ws pb, transfer s ks swells kd dwells vols label ws pb kw = (s', e) ->
     pt_emits_mask kw (st_wl s) (st_wl s')).
Proof.
  split; [|split]; intros; apply pt_mask_of_kw.
  - eapply pt_aspirate_any; eassumption.
  - eapply pt_dispense_any; eassumption.
  - eapply pt_transfer_any; eassumption.
Qed.
