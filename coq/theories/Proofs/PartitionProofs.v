(** Lemmas about [partition_volume] (C06), [partition_by_column] and [optimize_partition_by] (C18). *)
From Robo Require Import Prelude Str Partition.
From Coq Require Import Lqa Sorted Permutation.

(* ------------------------------------------------------------------------------------------ *)
(** * partition_volume *)

Local Open Scope Q_scope.

Lemma Qsum_app l1 l2 : Qsum (l1 ++ l2) == Qsum l1 + Qsum l2.
Proof.
  induction l1 as [|x xs IH].
  - unfold Qsum at 2. cbn [app fold_right]. ring.
  - cbn [app]. unfold Qsum in *. cbn [fold_right]. rewrite IH. ring.
Qed.

Lemma Qsum_single x : Qsum [x] == x.
Proof. unfold Qsum. cbn [fold_right]. ring. Qed.

Lemma Qsum_repeat s k : Qsum (repeat s k) == inject_Z (Z.of_nat k) * s.
Proof.
  induction k as [|k IH].
  - unfold Qsum. cbn [repeat fold_right Z.of_nat]. ring.
  - cbn [repeat]. unfold Qsum in *. cbn [fold_right]. rewrite IH.
    rewrite Nat2Z.inj_succ. unfold Z.succ. rewrite inject_Z_plus. ring.
Qed.

Lemma ceil_lo q : q <= inject_Z (Qceiling q).
Proof. apply Qle_ceiling. Qed.

Lemma ceil_hi q : inject_Z (Qceiling q) < q + 1.
Proof.
  pose proof (Qceiling_lt q) as H.
  replace (Qceiling q - 1)%Z with (Qceiling q + (-1))%Z in H by lia.
  rewrite inject_Z_plus in H. change (inject_Z (-1)) with (-1 # 1) in H. lra.
Qed.

Lemma Qltb_false a b : Qltb a b = false -> b <= a.
Proof. unfold Qltb. intro H. apply negb_false_iff in H. now apply Qle_bool_iff. Qed.

Lemma Qltb_true a b : Qltb a b = true -> a < b.
Proof.
  unfold Qltb. intro H. apply negb_true_iff in H. apply Qnot_le_lt. intro C.
  apply Qle_bool_iff in C. congruence.
Qed.

Lemma Qmin_if_spec a b :
  let s := if Qle_bool a b then a else b in
  s <= a /\ s <= b /\ (s == a \/ s == b).
Proof.
  cbv zeta. destruct (Qle_bool a b) eqn:E.
  - apply Qle_bool_iff in E. split; [lra|split; [lra|left; reflexivity]].
  - assert (Hlt : b < a). { apply Qnot_le_lt. intro C. apply Qle_bool_iff in C. congruence. }
    split; [lra|split; [lra|right; reflexivity]].
Qed.

Lemma partition_volume_zero v m : v == 0 -> partition_volume v m = [].
Proof.
  intro H. unfold partition_volume. apply Qeq_bool_iff in H. rewrite H. reflexivity.
Qed.

Lemma partition_volume_spec (v m : Q) :
  0 < m -> 0 < v ->
  let l := partition_volume v m in
  Z.of_nat (length l) = Z.max 1 (Qceiling (v / m)) /\
  Forall (fun x => 0 < x /\ x <= m) l /\
  Qsum l == v.
Proof.
  intros Hm Hv l. subst l. unfold partition_volume.
  destruct (Qeq_bool v 0) eqn:E0.
  { apply Qeq_bool_iff in E0. lra. }
  destruct (Qltb v m) eqn:Elt.
  - apply Qltb_true in Elt.
    assert (Hc : Qceiling (v / m) = 1%Z).
    { assert (H0 : 0 < v / m) by (apply Qlt_shift_div_l; lra).
      assert (H1 : v / m < 1) by (apply Qlt_shift_div_r; lra).
      pose proof (ceil_lo (v/m)) as H2. pose proof (ceil_hi (v/m)) as H3.
      assert (H4 : 0 < inject_Z (Qceiling (v / m))) by lra.
      assert (H5 : inject_Z (Qceiling (v / m)) < 2) by lra.
      rewrite <- (Zlt_Qlt 0) in H4. change 2 with (inject_Z 2) in H5. rewrite <- Zlt_Qlt in H5. lia. }
    rewrite Hc. split; [reflexivity|]. split.
    + constructor; [split; lra | constructor].
    + apply Qsum_single.
  - apply Qltb_false in Elt. cbv zeta.
    set (n := Qceiling (v / m)).
    assert (Hq : 1 <= v / m) by (apply Qle_shift_div_l; lra).
    pose proof (ceil_lo (v/m)) as Hlo. pose proof (ceil_hi (v/m)) as Hhi. fold n in Hlo, Hhi.
    assert (Hn1 : (1 <= n)%Z). { rewrite Zle_Qle. change (inject_Z 1) with 1. lra. }
    assert (Hvm : v == (v / m) * m) by (field; lra).
    assert (Hup : v <= inject_Z n * m) by nra.
    assert (Hdn : inject_Z (n - 1) * m < v).
    { replace (n - 1)%Z with (n + (-1))%Z by lia. rewrite inject_Z_plus.
      change (inject_Z (-1)) with (-1#1). nra. }
    set (c := inject_Z (Qceiling (v / inject_Z n))).
    assert (Hnpos : 0 < inject_Z n). { change 0 with (inject_Z 0). rewrite <- Zlt_Qlt. lia. }
    assert (Hc_lo : v / inject_Z n <= c) by apply ceil_lo.
    assert (Hc_lo' : v <= c * inject_Z n).
    { assert (Hvn : v == (v / inject_Z n) * inject_Z n) by (field; lra). nra. }
    destruct (Qmin_if_spec c m) as (Hs1 & Hs2 & Hs3).
    set (s := if Qle_bool c m then c else m) in *.
    assert (Hspos : 0 < s).
    { destruct Hs3 as [e|e]; rewrite e; try lra.
      assert (H0 : 0 < v / inject_Z n) by (apply Qlt_shift_div_l; lra). lra. }
    assert (Hk : (0 <= n - 1)%Z) by lia.
    assert (Hkq : 0 <= inject_Z (n - 1)). { change 0 with (inject_Z 0). rewrite <- Zle_Qle. lia. }
    assert (Hinj : inject_Z (n - 1) == inject_Z n - 1).
    { replace (n - 1)%Z with (n + (-1))%Z by lia. rewrite inject_Z_plus.
      change (inject_Z (-1)) with (-1#1). ring. }
    split; [|split].
    + rewrite app_length, repeat_length. cbn [length]. lia.
    + apply Forall_app. split.
      * apply Forall_forall. intros x Hx. apply repeat_spec in Hx. subst x. split; lra.
      * constructor; [|constructor]. rewrite Qred_correct. split.
        -- nra.
        -- destruct Hs3 as [e|e].
           ++ rewrite e. rewrite Hinj. nra.
           ++ rewrite e. rewrite Hinj. nra.
    + rewrite Qsum_app, Qsum_repeat, Qsum_single, Qred_correct. rewrite Z2Nat.id by lia. ring.
Qed.

Lemma Qsum_le_length l m :
  Forall (fun x => x <= m) l -> Qsum l <= inject_Z (Z.of_nat (length l)) * m.
Proof.
  induction 1 as [|x r Hx Hr IH].
  - unfold Qsum. cbn [fold_right length Z.of_nat]. change (inject_Z 0) with 0. lra.
  - cbn [length]. unfold Qsum in *. cbn [fold_right]. rewrite Nat2Z.inj_succ. unfold Z.succ.
    rewrite inject_Z_plus. change (inject_Z 1) with 1. lra.
Qed.

Lemma partition_volume_minimal (v m : Q) (l : list Q) :
  0 < m -> 0 < v -> Forall (fun x => x <= m) l -> Qsum l == v ->
  (length (partition_volume v m) <= length l)%nat.
Proof.
  intros Hm Hv Hl Hsum.
  destruct (partition_volume_spec v m Hm Hv) as (Hlen & _ & _).
  pose proof (Qsum_le_length l m Hl) as Hb. rewrite Hsum in Hb.
  assert (Hdiv : v / m <= inject_Z (Z.of_nat (length l))) by (apply Qle_shift_div_r; lra).
  apply Qceiling_resp_le in Hdiv. rewrite Qceiling_Z in Hdiv.
  assert (Hne : (1 <= Z.of_nat (length l))%Z).
  { destruct l as [|x r]; [|cbn [length]; lia]. unfold Qsum in Hsum. cbn [fold_right] in Hsum. lra. }
  lia.
Qed.

Local Close Scope Q_scope.

(* ------------------------------------------------------------------------------------------ *)
(** * the string order *)

Lemma nat_of_ascii_inj x y : nat_of_ascii x = nat_of_ascii y -> x = y.
Proof.
  intro H. rewrite <- (ascii_nat_embedding x), <- (ascii_nat_embedding y), H. reflexivity.
Qed.

Lemma str_leb_cons x r y s :
  str_leb (String x r) (String y s) = true <->
  nat_of_ascii x < nat_of_ascii y \/ (nat_of_ascii x = nat_of_ascii y /\ str_leb r s = true).
Proof.
  cbn [str_leb]. destruct (Nat.ltb_spec (nat_of_ascii x) (nat_of_ascii y)) as [H|H].
  - split; [intros _; left; exact H | intros _; reflexivity].
  - destruct (Nat.ltb_spec (nat_of_ascii y) (nat_of_ascii x)) as [H'|H'].
    + split; [discriminate | intros [C|[C _]]; lia].
    + split; [intro E; right; split; [lia|exact E] | intros [C|[_ C]]; [lia|exact C]].
Qed.

Lemma str_leb_refl a : str_leb a a = true.
Proof.
  induction a as [|x r IH]; [reflexivity|]. apply str_leb_cons. right. split; [reflexivity|exact IH].
Qed.

Lemma str_leb_trans : forall a b c,
  str_leb a b = true -> str_leb b c = true -> str_leb a c = true.
Proof.
  induction a as [|x r IH]; intros b c Hab Hbc; [reflexivity|].
  destruct b as [|y s]; [cbn [str_leb] in Hab; discriminate|].
  destruct c as [|z u]; [cbn [str_leb] in Hbc; discriminate|].
  apply str_leb_cons in Hab. apply str_leb_cons in Hbc. apply str_leb_cons.
  destruct Hab as [Hab|[Hab Hab']]; destruct Hbc as [Hbc|[Hbc Hbc']]; try (left; lia).
  right. split; [lia|]. exact (IH _ _ Hab' Hbc').
Qed.

Lemma str_leb_total : forall a b, str_leb a b = true \/ str_leb b a = true.
Proof.
  induction a as [|x r IH]; intros b; [left; reflexivity|].
  destruct b as [|y s]; [right; reflexivity|].
  rewrite !str_leb_cons.
  destruct (Nat.lt_total (nat_of_ascii x) (nat_of_ascii y)) as [H|[H|H]].
  - left. left. exact H.
  - destruct (IH s) as [H'|H'].
    + left. right. split; [exact H|exact H'].
    + right. right. split; [symmetry; exact H|exact H'].
  - right. left. exact H.
Qed.

Lemma str_leb_antisym : forall a b, str_leb a b = true -> str_leb b a = true -> a = b.
Proof.
  induction a as [|x r IH]; intros b Hab Hba.
  - destruct b as [|y s]; [reflexivity|cbn [str_leb] in Hba; discriminate].
  - destruct b as [|y s]; [cbn [str_leb] in Hab; discriminate|].
    apply str_leb_cons in Hab. apply str_leb_cons in Hba.
    destruct Hab as [Hab|[Hab Hab']]; destruct Hba as [Hba|[Hba Hba']]; try lia.
    apply nat_of_ascii_inj in Hab. rewrite Hab, (IH s Hab' Hba'). reflexivity.
Qed.

Lemma str_leb_false a b : str_leb a b = false -> str_leb b a = true /\ a <> b.
Proof.
  intro H. split.
  - destruct (str_leb_total a b) as [C|C]; [congruence|exact C].
  - intro E. subst b. rewrite str_leb_refl in H. discriminate.
Qed.

(** strict order *)
Definition str_lt (a b : string) : Prop := str_leb a b = true /\ a <> b.

(* ------------------------------------------------------------------------------------------ *)
(** * small list helpers *)

Lemma filter_nil_iff {A} (p : A -> bool) l : (forall z, In z l -> p z = false) -> filter p l = [].
Proof.
  induction l as [|y r IH]; intro H; [reflexivity|]. cbn [filter].
  rewrite (H y (or_introl eq_refl)). apply IH. intros z Hz. apply H. right. exact Hz.
Qed.

Lemma filter_snoc {A} (p : A -> bool) l x :
  filter p (l ++ [x]) = filter p l ++ (if p x then [x] else []).
Proof. rewrite filter_app. cbn [filter]. reflexivity. Qed.

Lemma filter_filter_impl {A} (p q : A -> bool) l :
  (forall x, In x l -> p x = true -> q x = true) -> filter p (filter q l) = filter p l.
Proof.
  induction l as [|y r IH]; intro H; [reflexivity|]. cbn [filter].
  assert (IH' : filter p (filter q r) = filter p r).
  { apply IH. intros x Hx. apply H. right. exact Hx. }
  destruct (q y) eqn:Eq.
  - cbn [filter]. rewrite IH'. reflexivity.
  - destruct (p y) eqn:Ep; [|exact IH'].
    rewrite (H y (or_introl eq_refl) Ep) in Eq. discriminate.
Qed.

Lemma Permutation_concat {B} (L L' : list (list B)) :
  Permutation L L' -> Permutation (concat L) (concat L').
Proof.
  induction 1 as [|x l l' Hp IH|x y l|l l' l'' Hp1 IH1 Hp2 IH2]; cbn [concat].
  - apply perm_nil.
  - apply Permutation_app_head. exact IH.
  - rewrite !app_assoc. apply Permutation_app_tail. apply Permutation_app_comm.
  - exact (perm_trans IH1 IH2).
Qed.

Lemma concat_map_perm {A B} (f g : A -> list B) (L : list A) :
  (forall a, Permutation (f a) (g a)) -> Permutation (concat (map f L)) (concat (map g L)).
Proof.
  intro H. induction L as [|a r IH]; cbn [map concat]; [apply perm_nil|].
  apply Permutation_app; [apply H|exact IH].
Qed.

Lemma StronglySorted_map_in {A B} (R : A -> A -> Prop) (S : B -> B -> Prop) (f : A -> B) L :
  StronglySorted R L ->
  (forall a b, In a L -> In b L -> R a b -> S (f a) (f b)) ->
  StronglySorted S (map f L).
Proof.
  induction 1 as [|a r Hss IH Hfa]; intro H; cbn [map]; constructor.
  - apply IH. intros x y Hx Hy. apply H; right; assumption.
  - apply Forall_forall. intros b' Hb'. apply in_map_iff in Hb'. destruct Hb' as (b & Eb & Hb).
    subst b'. apply H; [left; reflexivity|right; exact Hb|].
    rewrite Forall_forall in Hfa. apply Hfa. exact Hb.
Qed.

(* ------------------------------------------------------------------------------------------ *)
(** * stable insertion sort by a string key *)

Section SortBy.
  Context {A : Type} (key : A -> string).

  Definition le_by (a b : A) : Prop := str_leb (key a) (key b) = true.
  Definition key_is (k : string) (a : A) : bool := String.eqb (key a) k.

  Lemma le_by_trans : Relations_1.Transitive le_by.
  Proof. intros x y z Hxy Hyz. unfold le_by in *. exact (str_leb_trans _ _ _ Hxy Hyz). Qed.

  Lemma insert_by_perm x l : Permutation (insert_by key x l) (x :: l).
  Proof.
    induction l as [|y r IH]; cbn [insert_by]; [reflexivity|].
    destruct (str_leb (key y) (key x)); [|reflexivity].
    apply perm_trans with (y :: x :: r); [apply perm_skip; exact IH|apply perm_swap].
  Qed.

  Lemma sort_fold_perm : forall l acc,
    Permutation (fold_left (fun acc x => insert_by key x acc) l acc) (acc ++ l).
  Proof.
    induction l as [|x r IH]; intro acc; cbn [fold_left].
    - rewrite app_nil_r. reflexivity.
    - apply perm_trans with (insert_by key x acc ++ r); [apply IH|].
      apply perm_trans with ((x :: acc) ++ r).
      + apply Permutation_app_tail. apply insert_by_perm.
      + cbn [app]. apply Permutation_middle.
  Qed.

  Lemma sort_by_perm l : Permutation (sort_by key l) l.
  Proof. unfold sort_by. exact (sort_fold_perm l []). Qed.

  Lemma insert_by_hdrel a x l :
    HdRel le_by a l -> le_by a x -> HdRel le_by a (insert_by key x l).
  Proof.
    intros H Hax. destruct l as [|y r]; cbn [insert_by]; [constructor; exact Hax|].
    destruct (str_leb (key y) (key x)); constructor; [|exact Hax].
    inversion H as [|? ? Hay]; subst. exact Hay.
  Qed.

  Lemma insert_by_sorted x l : Sorted le_by l -> Sorted le_by (insert_by key x l).
  Proof.
    induction l as [|y r IH]; intro H; cbn [insert_by].
    - constructor; constructor.
    - destruct (str_leb (key y) (key x)) eqn:E.
      + inversion H as [|? ? Hs Hh]; subst.
        constructor; [apply IH; exact Hs|]. apply insert_by_hdrel; [exact Hh|exact E].
      + constructor; [exact H|]. constructor. unfold le_by.
        apply str_leb_false in E. exact (proj1 E).
  Qed.

  Lemma sort_fold_sorted : forall l acc,
    Sorted le_by acc -> Sorted le_by (fold_left (fun acc x => insert_by key x acc) l acc).
  Proof.
    induction l as [|x r IH]; intros acc H; cbn [fold_left]; [exact H|].
    apply IH. apply insert_by_sorted. exact H.
  Qed.

  Lemma sort_by_sorted l : StronglySorted le_by (sort_by key l).
  Proof.
    apply Sorted_StronglySorted; [exact le_by_trans|].
    unfold sort_by. apply sort_fold_sorted. constructor.
  Qed.

  (** stability: an element is inserted behind all elements with the same key *)
  Lemma insert_by_filter k x l :
    StronglySorted le_by l ->
    filter (key_is k) (insert_by key x l) =
    filter (key_is k) l ++ (if key_is k x then [x] else []).
  Proof.
    induction l as [|y r IH]; intro H; cbn [insert_by].
    - cbn [filter app]. reflexivity.
    - inversion H as [|? ? Hs Hfa]; subst.
      destruct (str_leb (key y) (key x)) eqn:E.
      + cbn [filter]. rewrite (IH Hs). destruct (key_is k y); reflexivity.
      + destruct (key_is k x) eqn:Ex.
        * assert (Hnil : filter (key_is k) (y :: r) = []).
          { apply filter_nil_iff. intros z Hz. unfold key_is in *.
            apply String.eqb_eq in Ex. apply String.eqb_neq. intro Ez.
            assert (Hyz : str_leb (key y) (key z) = true).
            { destruct Hz as [Hz|Hz]; [subst z; apply str_leb_refl|].
              rewrite Forall_forall in Hfa. exact (Hfa z Hz). }
            rewrite Ez, <- Ex, E in Hyz. discriminate. }
          cbn [filter] in Hnil |- *. rewrite Ex. rewrite Hnil. reflexivity.
        * cbn [filter]. rewrite Ex. rewrite app_nil_r. reflexivity.
  Qed.

  Lemma sort_fold_filter k : forall l acc,
    Sorted le_by acc ->
    filter (key_is k) (fold_left (fun acc x => insert_by key x acc) l acc) =
    filter (key_is k) acc ++ filter (key_is k) l.
  Proof.
    induction l as [|x r IH]; intros acc H; cbn [fold_left].
    - cbn [filter]. rewrite app_nil_r. reflexivity.
    - rewrite IH by (apply insert_by_sorted; exact H).
      rewrite insert_by_filter by (apply Sorted_StronglySorted; [exact le_by_trans|exact H]).
      rewrite <- app_assoc. cbn [filter]. destruct (key_is k x); reflexivity.
  Qed.

  Lemma sort_by_stable k l : filter (key_is k) (sort_by key l) = filter (key_is k) l.
  Proof. unfold sort_by. rewrite sort_fold_filter by constructor. reflexivity. Qed.

  (** sorted by key and pairwise distinct keys: strictly sorted *)
  Lemma sorted_nodup_strict l :
    StronglySorted le_by l -> NoDup (map key l) ->
    StronglySorted (fun a b => str_lt (key a) (key b)) l.
  Proof.
    induction 1 as [|a r Hss IH Hfa]; intro Hnd; [constructor|].
    cbn [map] in Hnd. inversion Hnd as [|? ? Hnotin Hnd']; subst.
    constructor; [apply IH; exact Hnd'|].
    apply Forall_forall. intros b Hb. rewrite Forall_forall in Hfa. split; [exact (Hfa b Hb)|].
    intro E. apply Hnotin. rewrite E. apply in_map. exact Hb.
  Qed.
End SortBy.

(* ------------------------------------------------------------------------------------------ *)
(** * grouping by column *)

Definition colkey (m : pmode) (t : triple) : string := str_tail (pkey m t).
Definition keq (m : pmode) (k : string) (t : triple) : bool := String.eqb (colkey m t) k.

Lemma group_insert_perm k t gs :
  Permutation (concat (map snd (group_insert k t gs))) (concat (map snd gs) ++ [t]).
Proof.
  induction gs as [|[k' ts] r IH]; cbn [group_insert].
  - cbn [map snd concat app]. reflexivity.
  - destruct (String.eqb k' k); cbn [map snd concat].
    + rewrite <- !app_assoc. apply Permutation_app_head. apply Permutation_app_comm.
    + rewrite <- app_assoc. apply Permutation_app_head. exact IH.
Qed.

Lemma group_fold_perm m : forall l gs,
  Permutation
    (concat (map snd (fold_left (fun gs t => group_insert (str_tail (pkey m t)) t gs) l gs)))
    (concat (map snd gs) ++ l).
Proof.
  induction l as [|x r IH]; intro gs; cbn [fold_left].
  - rewrite app_nil_r. reflexivity.
  - apply perm_trans with (concat (map snd (group_insert (str_tail (pkey m x)) x gs)) ++ r);
      [apply IH|].
    apply perm_trans with ((concat (map snd gs) ++ [x]) ++ r).
    + apply Permutation_app_tail. apply group_insert_perm.
    + rewrite <- app_assoc. cbn [app]. reflexivity.
Qed.

Lemma group_by_column_perm m l : Permutation (concat (map snd (group_by_column m l))) l.
Proof. unfold group_by_column. exact (group_fold_perm m l []). Qed.

Lemma group_insert_keys_in k t gs :
  In k (map fst gs) -> map fst (group_insert k t gs) = map fst gs.
Proof.
  induction gs as [|[k' ts] r IH]; intro H; [destruct H|]. cbn [group_insert].
  destruct (String.eqb_spec k' k) as [E|E]; cbn [map fst]; [reflexivity|].
  cbn [map fst] in H. destruct H as [H|H]; [contradiction|]. rewrite (IH H). reflexivity.
Qed.

Lemma group_insert_keys_notin k t gs :
  ~ In k (map fst gs) -> map fst (group_insert k t gs) = map fst gs ++ [k].
Proof.
  induction gs as [|[k' ts] r IH]; intro H; [reflexivity|]. cbn [group_insert].
  cbn [map fst] in H.
  destruct (String.eqb_spec k' k) as [E|E]; [exfalso; apply H; left; exact E|].
  cbn [map fst app]. rewrite IH; [reflexivity|]. intro C. apply H. right. exact C.
Qed.

Lemma group_insert_nodup k t gs :
  NoDup (map fst gs) -> NoDup (map fst (group_insert k t gs)).
Proof.
  intro H. destruct (in_dec string_dec k (map fst gs)) as [Hin|Hnin].
  - rewrite group_insert_keys_in by exact Hin. exact H.
  - rewrite group_insert_keys_notin by exact Hnin.
    apply Permutation_NoDup with (k :: map fst gs); [apply Permutation_cons_append|].
    constructor; assumption.
Qed.

Lemma group_insert_keys_incl k t gs k' :
  In k' (map fst gs) \/ k' = k -> In k' (map fst (group_insert k t gs)).
Proof.
  intro H. destruct (in_dec string_dec k (map fst gs)) as [Hin|Hnin].
  - rewrite group_insert_keys_in by exact Hin. destruct H as [H|H]; [exact H|subst k'; exact Hin].
  - rewrite group_insert_keys_notin by exact Hnin. apply in_or_app.
    destruct H as [H|H]; [left; exact H|right; left; symmetry; exact H].
Qed.

Definition group_ok (m : pmode) (l : list triple) (g : string * list triple) : Prop :=
  snd g = filter (keq m (fst g)) l /\ snd g <> [].

Lemma group_insert_forall m l t k : forall gs,
  colkey m t = k ->
  NoDup (map fst gs) ->
  (~ In k (map fst gs) -> filter (keq m k) l = []) ->
  Forall (group_ok m l) gs ->
  Forall (group_ok m (l ++ [t])) (group_insert k t gs).
Proof.
  intros gs Hk. induction gs as [|[k' ts] r IH]; intros Hnd Hnew Hall; cbn [group_insert].
  - constructor; [|constructor]. unfold group_ok. cbn [fst snd]. split; [|discriminate].
    rewrite filter_snoc. rewrite Hnew by (intros []). unfold keq. rewrite Hk, String.eqb_refl.
    reflexivity.
  - cbn [map fst] in Hnd. inversion Hnd as [|? ? Hnotin Hnd']; subst.
    inversion Hall as [|? ? Hg Hr]; subst. destruct Hg as [Hts Hne]. cbn [fst snd] in Hts, Hne.
    destruct (String.eqb_spec k' (colkey m t)) as [E|E].
    + subst k'. constructor.
      * unfold group_ok. cbn [fst snd]. split.
        -- rewrite filter_snoc, <- Hts. unfold keq. rewrite String.eqb_refl. reflexivity.
        -- intro C. apply app_eq_nil in C. destruct C as [_ C]. discriminate.
      * apply Forall_forall. intros g Hg. rewrite Forall_forall in Hr. destruct (Hr g Hg) as [Hg1 Hg2].
        unfold group_ok. split; [|exact Hg2]. rewrite filter_snoc.
        assert (Hf : keq m (fst g) t = false).
        { unfold keq. apply String.eqb_neq. intro C. apply Hnotin. rewrite C. apply in_map. exact Hg. }
        rewrite Hf, app_nil_r. exact Hg1.
    + constructor.
      * unfold group_ok. cbn [fst snd]. split; [|exact Hne]. rewrite filter_snoc.
        assert (Hf : keq m k' t = false).
        { unfold keq. apply String.eqb_neq. intro C. apply E. symmetry. exact C. }
        rewrite Hf, app_nil_r. exact Hts.
      * apply IH; [exact Hnd'| |exact Hr]. intro Hn. apply Hnew. cbn [map fst].
        intros [C|C]; [exact (E C)|exact (Hn C)].
Qed.

Definition ginv (m : pmode) (l : list triple) (gs : list (string * list triple)) : Prop :=
  NoDup (map fst gs) /\
  (forall t, In t l -> In (colkey m t) (map fst gs)) /\
  Forall (group_ok m l) gs.

Lemma ginv_step m l t gs :
  ginv m l gs -> ginv m (l ++ [t]) (group_insert (colkey m t) t gs).
Proof.
  intros (Hnd & Hcov & Hall). split; [|split].
  - apply group_insert_nodup. exact Hnd.
  - intros t' Ht'. apply group_insert_keys_incl. apply in_app_or in Ht'.
    destruct Ht' as [Ht'|Ht']; [left; apply Hcov; exact Ht'|].
    destruct Ht' as [Ht'|[]]. subst t'. right. reflexivity.
  - apply group_insert_forall; [reflexivity|exact Hnd| |exact Hall].
    intro Hn. apply filter_nil_iff. intros z Hz. unfold keq. apply String.eqb_neq. intro C.
    apply Hn. rewrite <- C. apply Hcov. exact Hz.
Qed.

Lemma group_by_column_inv m l : ginv m l (group_by_column m l).
Proof.
  induction l as [|t l IH] using rev_ind.
  - split; [constructor|split; [intros t []|constructor]].
  - unfold group_by_column. rewrite fold_left_app. cbn [fold_left].
    apply (ginv_step m l t). exact IH.
Qed.

(* ------------------------------------------------------------------------------------------ *)
(** * partition_by_column *)

Lemma partition_by_column_perm m l : Permutation (concat (partition_by_column m l)) l.
Proof.
  unfold partition_by_column.
  apply perm_trans with (concat (map snd (sort_by fst (group_by_column m l)))).
  - apply concat_map_perm. intro a. apply sort_by_perm.
  - apply perm_trans with (concat (map snd (group_by_column m l))).
    + apply Permutation_concat. apply Permutation_map. apply sort_by_perm.
    + apply group_by_column_perm.
Qed.

(** every group of the result is the sorted list of all triples of one column *)
Lemma partition_group m l g :
  In g (partition_by_column m l) ->
  exists k, In k (map fst (group_by_column m l)) /\
            filter (keq m k) l <> [] /\
            g = sort_by (pkey m) (filter (keq m k) l).
Proof.
  intro H. unfold partition_by_column in H. apply in_map_iff in H. destruct H as ([k ts] & Eg & Hin).
  cbn [snd] in Eg.
  apply (Permutation_in _ (sort_by_perm fst (group_by_column m l))) in Hin.
  destruct (group_by_column_inv m l) as (_ & _ & Hall). rewrite Forall_forall in Hall.
  destruct (Hall _ Hin) as [Hts Hne]. cbn [fst snd] in Hts, Hne.
  exists k. split; [|split].
  - change k with (fst (k, ts)). apply in_map. exact Hin.
  - rewrite <- Hts. exact Hne.
  - rewrite <- Hts. symmetry. exact Eg.
Qed.

Lemma partition_group_mem m l g k t :
  g = sort_by (pkey m) (filter (keq m k) l) ->
  (In t g <-> In t l /\ colkey m t = k).
Proof.
  intro E. subst g. split.
  - intro H. apply (Permutation_in _ (sort_by_perm (pkey m) _)) in H.
    apply filter_In in H. destruct H as [H1 H2]. split; [exact H1|].
    unfold keq in H2. apply String.eqb_eq in H2. exact H2.
  - intros [H1 H2]. apply (Permutation_in _ (Permutation_sym (sort_by_perm (pkey m) _))).
    apply filter_In. split; [exact H1|]. unfold keq. apply String.eqb_eq. exact H2.
Qed.

Lemma partition_by_column_column m l g :
  In g (partition_by_column m l) ->
  g <> [] /\ forall t t', In t g -> In t' g -> str_tail (pkey m t) = str_tail (pkey m t').
Proof.
  intro H. destruct (partition_group m l g H) as (k & _ & Hne & Eg). split.
  - intro C. apply Hne. apply Permutation_nil.
    apply perm_trans with g; [rewrite C; apply perm_nil|].
    rewrite Eg. apply sort_by_perm.
  - intros t t' Ht Ht'. apply (partition_group_mem m l g k t Eg) in Ht.
    apply (partition_group_mem m l g k t' Eg) in Ht'.
    destruct Ht as [_ Ht]. destruct Ht' as [_ Ht']. unfold colkey in *. congruence.
Qed.

(** a column is never spread over several groups *)
Lemma partition_by_column_complete m l g t t' :
  In g (partition_by_column m l) -> In t g -> In t' l ->
  str_tail (pkey m t') = str_tail (pkey m t) -> In t' g.
Proof.
  intros H Ht Ht' E. destruct (partition_group m l g H) as (k & _ & _ & Eg).
  apply (partition_group_mem m l g k t Eg) in Ht. destruct Ht as [_ Ht].
  apply (partition_group_mem m l g k t' Eg). split; [exact Ht'|].
  unfold colkey in *. congruence.
Qed.

Lemma partition_by_column_group_order m l :
  StronglySorted
    (fun g g' => forall t t', In t g -> In t' g' ->
                   str_lt (str_tail (pkey m t)) (str_tail (pkey m t')))
    (partition_by_column m l).
Proof.
  unfold partition_by_column.
  destruct (group_by_column_inv m l) as (Hnd & _ & Hall). rewrite Forall_forall in Hall.
  pose proof (sort_by_perm fst (group_by_column m l)) as Hperm.
  assert (Hstrict : StronglySorted (fun a b => str_lt (fst a) (fst b))
                                   (sort_by fst (group_by_column m l))).
  { apply sorted_nodup_strict; [apply sort_by_sorted|].
    apply Permutation_NoDup with (map fst (group_by_column m l)); [|exact Hnd].
    apply Permutation_map. apply Permutation_sym. exact Hperm. }
  apply (StronglySorted_map_in _ _ _ _ Hstrict).
  intros a b Ha Hb Hab t t' Ht Ht'.
  apply (Permutation_in _ Hperm) in Ha. apply (Permutation_in _ Hperm) in Hb.
  destruct (Hall a Ha) as [Ea _]. destruct (Hall b Hb) as [Eb _].
  rewrite Ea in Ht. rewrite Eb in Ht'.
  apply (partition_group_mem m l _ (fst a) t eq_refl) in Ht.
  apply (partition_group_mem m l _ (fst b) t' eq_refl) in Ht'.
  destruct Ht as [_ Ht]. destruct Ht' as [_ Ht']. unfold colkey in Ht, Ht'.
  rewrite Ht, Ht'. exact Hab.
Qed.

(** the same with the column of a group read off its first triple *)
Definition group_col (m : pmode) (g : list triple) : string :=
  match g with t :: _ => str_tail (pkey m t) | [] => EmptyString end.

Lemma partition_by_column_group_cols m l :
  StronglySorted str_lt (map (group_col m) (partition_by_column m l)).
Proof.
  apply (StronglySorted_map_in _ _ _ _ (partition_by_column_group_order m l)).
  intros g g' Hg Hg' H.
  destruct (partition_by_column_column m l g Hg) as [Hne _].
  destruct (partition_by_column_column m l g' Hg') as [Hne' _].
  destruct g as [|t r]; [congruence|]. destruct g' as [|t' r']; [congruence|].
  cbn [group_col]. apply H; left; reflexivity.
Qed.

Lemma partition_by_column_row_order m l g :
  In g (partition_by_column m l) ->
  StronglySorted (fun t t' => str_leb (pkey m t) (pkey m t') = true) g.
Proof.
  intro H. destruct (partition_group m l g H) as (k & _ & _ & Eg). rewrite Eg.
  exact (sort_by_sorted (pkey m) _).
Qed.

Lemma partition_by_column_stable m l g t :
  In g (partition_by_column m l) -> In t g ->
  filter (fun x => String.eqb (pkey m x) (pkey m t)) g =
  filter (fun x => String.eqb (pkey m x) (pkey m t)) l.
Proof.
  intros H Ht. destruct (partition_group m l g H) as (k & _ & _ & Eg).
  apply (partition_group_mem m l g k t Eg) in Ht. destruct Ht as [_ Ht].
  rewrite Eg. change (fun x => String.eqb (pkey m x) (pkey m t)) with (key_is (pkey m) (pkey m t)).
  rewrite sort_by_stable. apply filter_filter_impl.
  intros x _ Hx. unfold key_is in Hx. apply String.eqb_eq in Hx. unfold keq. apply String.eqb_eq.
  unfold colkey in *. rewrite Hx. exact Ht.
Qed.

(* ------------------------------------------------------------------------------------------ *)
(** * the string order on generated well ids is the numeric one *)

Lemma pad2_order_check :
  forallb (fun a => forallb (fun b => Bool.eqb (str_leb (pad2 a) (pad2 b)) (a <=? b)) (seq 0 100))
          (seq 0 100) = true.
Proof. vm_compute. reflexivity. Qed.

Lemma pad2_order a b : a < 100 -> b < 100 -> str_leb (pad2 a) (pad2 b) = (a <=? b).
Proof.
  intros Ha Hb. pose proof pad2_order_check as H. rewrite forallb_forall in H.
  assert (Ia : In a (seq 0 100)) by (apply in_seq; lia).
  assert (Ib : In b (seq 0 100)) by (apply in_seq; lia).
  specialize (H a Ia). rewrite forallb_forall in H. specialize (H b Ib).
  apply eqb_prop in H. exact H.
Qed.

Lemma well_id_column_order r c r' c' : c < 99 -> c' < 99 ->
  str_leb (str_tail (well_id r c)) (str_tail (well_id r' c')) = (c <=? c').
Proof.
  intros Hc Hc'. unfold well_id. cbn [str_tail]. rewrite pad2_order by lia.
  destruct (Nat.leb_spec (c + 1) (c' + 1)) as [H|H]; destruct (Nat.leb_spec c c') as [H'|H'];
    try reflexivity; lia.
Qed.

Lemma well_id_column_eq r c r' c' : c < 99 -> c' < 99 ->
  (str_tail (well_id r c) = str_tail (well_id r' c') <-> c = c').
Proof.
  intros Hc Hc'. split.
  - intro E. pose proof (well_id_column_order r c r' c' Hc Hc') as H1.
    pose proof (well_id_column_order r' c' r c Hc' Hc) as H2.
    rewrite E in H1. rewrite <- E in H2. rewrite str_leb_refl in H1, H2.
    symmetry in H1, H2. apply Nat.leb_le in H1. apply Nat.leb_le in H2. lia.
  - intro E. subst c'. unfold well_id. cbn [str_tail]. reflexivity.
Qed.

Lemma well_id_row_order r r' c : r < 26 -> r' < 26 ->
  str_leb (well_id r c) (well_id r' c) = (r <=? r').
Proof.
  intros Hr Hr'. unfold well_id.
  assert (E1 : nat_of_ascii (row_letter r) = 65 + r) by (apply nat_ascii_embedding; lia).
  assert (E2 : nat_of_ascii (row_letter r') = 65 + r') by (apply nat_ascii_embedding; lia).
  destruct (str_leb (String (row_letter r) (pad2 (c + 1))) (String (row_letter r') (pad2 (c + 1))))
    eqn:E; symmetry.
  - apply Nat.leb_le. apply str_leb_cons in E. lia.
  - apply Nat.leb_gt. destruct (Nat.lt_ge_cases r' r) as [H|H]; [exact H|exfalso].
    assert (C : str_leb (String (row_letter r) (pad2 (c + 1)))
                        (String (row_letter r') (pad2 (c + 1))) = true).
    { apply str_leb_cons. destruct (Nat.eq_dec r r') as [Er|Er].
      - right. split; [lia|apply str_leb_refl].
      - left. lia. }
    congruence.
Qed.

(* ------------------------------------------------------------------------------------------ *)
(** * optimize_partition_by *)

Lemma optimize_auto s d :
  optimize_partition_by s d "auto" = Ok (if s && negb d then ByDestination else BySource).
Proof. reflexivity. Qed.

Lemma optimize_source s d : optimize_partition_by s d "source" = Ok BySource.
Proof. reflexivity. Qed.

Lemma optimize_destination s d : optimize_partition_by s d "destination" = Ok ByDestination.
Proof. reflexivity. Qed.

Lemma optimize_other s d mode :
  mode <> "auto"%string -> mode <> "source"%string -> mode <> "destination"%string ->
  optimize_partition_by s d mode = Err EValue.
Proof.
  intros H1 H2 H3. unfold optimize_partition_by.
  apply String.eqb_neq in H1. apply String.eqb_neq in H2. apply String.eqb_neq in H3.
  rewrite H1, H2, H3. reflexivity.
Qed.
