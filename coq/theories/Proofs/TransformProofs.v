(** Lemmas about well shifting, rotation and randomisation (C15). *)
From Robo Require Import Prelude Str Wells Transform.
From Coq Require Import DecimalString DecimalN Decimal Permutation.

(** * Well ids: [id_rc] is the partial inverse of [well_id] on the 26 row letters *)

Lemma xf_all_digits_uint d : all_digits (NilEmpty.string_of_uint d) = true.
Proof.
  induction d as [|d IH|d IH|d IH|d IH|d IH|d IH|d IH|d IH|d IH|d IH];
    cbn [NilEmpty.string_of_uint all_digits]; [reflexivity| rewrite IH; reflexivity ..].
Qed.

Lemma xf_all_digits_decN n : all_digits (decN n) = true.
Proof. unfold decN. apply xf_all_digits_uint. Qed.

Lemma xf_decN_nonempty n : decN n <> EmptyString.
Proof.
  unfold decN. intro H.
  assert (E : N.to_uint n = Nil).
  { pose proof (NilEmpty.usu (N.to_uint n)) as U. rewrite H in U. cbn in U. congruence. }
  pose proof (DecimalN.Unsigned.of_to n) as T. rewrite E in T. cbn in T. subst n. discriminate E.
Qed.

Lemma xf_parse_decN_decN n : parse_decN (decN n) = Some n.
Proof.
  unfold parse_decN. pose proof (xf_decN_nonempty n) as NE.
  destruct (decN n) as [|a r] eqn:E; [congruence|].
  rewrite <- E. unfold decN. rewrite NilEmpty.usu, DecimalN.Unsigned.of_to. reflexivity.
Qed.

Lemma xf_parse_decN_pad2N n : parse_decN (pad2N n) = Some n.
Proof.
  unfold pad2N. destruct (n <? 10)%N; [|apply xf_parse_decN_decN].
  pose proof (xf_parse_decN_decN n) as P. unfold parse_decN in *.
  destruct (decN n) as [|a r] eqn:E; [discriminate|].
  change (NilEmpty.uint_of_string (String "0" (String a r)))
    with (match NilEmpty.uint_of_string (String a r) with Some d => Some (D0 d) | None => None end).
  destruct (NilEmpty.uint_of_string (String a r)) as [d|]; [|discriminate].
  exact P.
Qed.

Lemma xf_all_digits_pad2N n : all_digits (pad2N n) = true.
Proof.
  unfold pad2N. destruct (n <? 10)%N; [|apply xf_all_digits_decN].
  cbn [all_digits]. rewrite xf_all_digits_decN. reflexivity.
Qed.

Lemma xf_row_letter_code r : r < 26 -> nat_of_ascii (row_letter r) = 65 + r.
Proof. intro H. unfold row_letter. apply nat_ascii_embedding. lia. Qed.

Lemma xf_id_rc_well_id r c : r < 26 -> id_rc (well_id r c) = Some (r, c).
Proof.
  intro Hr. unfold id_rc. unfold well_id at 1. rewrite (xf_row_letter_code r Hr).
  assert (E1 : ((65 <=? 65 + r) && (65 + r <=? 90))%nat = true).
  { apply andb_true_intro. split; apply Nat.leb_le; lia. }
  rewrite E1. unfold pad2. rewrite xf_all_digits_pad2N, xf_parse_decN_pad2N.
  assert (E2 : (1 <=? N.of_nat (c + 1))%N = true) by (apply N.leb_le; lia). rewrite E2.
  replace (65 + r - 65) with r by lia.
  replace (N.to_nat (N.of_nat (c + 1)) - 1) with c by lia.
  fold (pad2 (c + 1)). fold (row_letter r). fold (well_id r c).
  rewrite String.eqb_refl. reflexivity.
Qed.

Lemma xf_id_rc_inv s r c : id_rc s = Some (r, c) -> s = well_id r c /\ r < 26.
Proof.
  unfold id_rc. destruct s as [|a rest]; [discriminate|].
  destruct ((65 <=? nat_of_ascii a) && (nat_of_ascii a <=? 90))%nat eqn:E1; [|discriminate].
  destruct (all_digits rest); [|discriminate].
  destruct (parse_decN rest) as [col|]; [|discriminate].
  destruct (1 <=? col)%N; [|discriminate].
  destruct (String.eqb (well_id (nat_of_ascii a - 65) (N.to_nat col - 1)) (String a rest)) eqn:E2; [|discriminate].
  intro H. injection H as Hr Hc. apply String.eqb_eq in E2.
  apply andb_prop in E1. destruct E1 as [L1 L2]. apply Nat.leb_le in L1. apply Nat.leb_le in L2.
  subst r c. split; [symmetry; exact E2|lia].
Qed.

Lemma xf_well_id_injective r c r' c' : r < 26 -> r' < 26 -> well_id r c = well_id r' c' -> r = r' /\ c = c'.
Proof.
  intros Hr Hr' E. pose proof (xf_id_rc_well_id r c Hr) as P. rewrite E, (xf_id_rc_well_id r' c' Hr') in P.
  injection P as P1 P2. split; congruence.
Qed.

(** * The index of a plate with R rows and C columns *)

Lemma xf_index_well_id R C r c : R <= 26 -> r < R -> c < C -> make_well_index R C (well_id r c) = Some (r, c).
Proof.
  intros HR Hr Hc. unfold make_well_index, well_index. rewrite xf_id_rc_well_id by lia.
  unfold n_row_ids. cbn [g_vrows g_rows g_cols].
  assert (E : ((r <? Nat.min 26 R) && (c <? C))%nat = true).
  { apply andb_true_intro. split; apply Nat.ltb_lt; lia. }
  rewrite E. reflexivity.
Qed.

Lemma xf_index_inv R C s r c : make_well_index R C s = Some (r, c) ->
  s = well_id r c /\ r < R /\ r < 26 /\ c < C.
Proof.
  unfold make_well_index, well_index. destruct (id_rc s) as [[r0 c0]|] eqn:E; [|discriminate].
  unfold n_row_ids. cbn [g_vrows g_rows g_cols].
  destruct ((r0 <? Nat.min 26 R) && (c0 <? C))%nat eqn:E1; [|discriminate].
  intro H. injection H as H1 H2. subst r0 c0.
  apply andb_prop in E1. destruct E1 as [L1 L2]. apply Nat.ltb_lt in L1. apply Nat.ltb_lt in L2.
  apply xf_id_rc_inv in E. destruct E as [E _]. repeat split; [exact E|lia|lia|lia].
Qed.

Lemma xf_index_none R C s : (forall r c, r < R -> c < C -> s <> well_id r c) -> make_well_index R C s = None.
Proof.
  intro H. destruct (make_well_index R C s) as [[r c]|] eqn:E; [|reflexivity].
  apply xf_index_inv in E. destruct E as [E [Hr [_ Hc]]]. exfalso. exact (H r c Hr Hc E).
Qed.

(** * Shifting *)

Lemma xf_mk_shifter_inv RA CA RB CB anchor s : mk_shifter RA CA RB CB anchor = Ok s ->
  make_well_index RB CB anchor = Some (sh_dr s, sh_dc s) /\
  sh_RA s = RA /\ sh_CA s = CA /\ sh_RB s = RB /\ sh_CB s = CB /\
  RA + sh_dr s <= RB /\ CA + sh_dc s <= CB.
Proof.
  unfold mk_shifter. destruct (make_well_index RB CB anchor) as [[dr dc]|]; [|discriminate].
  destruct (RB <? RA + dr)%nat eqn:E1; [discriminate|].
  destruct (CB <? CA + dc)%nat eqn:E2; [discriminate|].
  intro H. injection H as H. subst s. cbn [sh_dr sh_dc sh_RA sh_CA sh_RB sh_CB].
  apply Nat.ltb_ge in E1. apply Nat.ltb_ge in E2. repeat split; assumption.
Qed.

Lemma xf_shift_offset RA CA RB CB anchor s :
  RB <= 26 -> mk_shifter RA CA RB CB anchor = Ok s ->
  anchor = well_id (sh_dr s) (sh_dc s) /\
  RA + sh_dr s <= RB /\ CA + sh_dc s <= CB /\
  forall r c, r < RA -> c < CA ->
    shift1 s (well_id r c) = Ok (well_id (r + sh_dr s) (c + sh_dc s)) /\
    make_well_index RB CB (well_id (r + sh_dr s) (c + sh_dc s)) = Some (r + sh_dr s, c + sh_dc s).
Proof.
  intros HB H. apply xf_mk_shifter_inv in H.
  destruct H as [Hi [ERA [ECA [ERB [ECB [Lr Lc]]]]]].
  apply xf_index_inv in Hi. destruct Hi as [Ha _].
  split; [exact Ha|]. split; [exact Lr|]. split; [exact Lc|].
  intros r c Hr Hc. split.
  - unfold shift1. rewrite ERA, ECA. rewrite xf_index_well_id by lia. reflexivity.
  - apply xf_index_well_id; lia.
Qed.

Lemma xf_shift_refused_value RA CA RB CB dr dc :
  RB <= 26 -> dr < RB -> dc < CB -> RB < RA + dr \/ CB < CA + dc ->
  mk_shifter RA CA RB CB (well_id dr dc) = Err EValue.
Proof.
  intros HB Hr Hc H. unfold mk_shifter. rewrite xf_index_well_id by assumption.
  destruct (RB <? RA + dr)%nat eqn:E1; [reflexivity|].
  destruct (CB <? CA + dc)%nat eqn:E2; [reflexivity|].
  apply Nat.ltb_ge in E1. apply Nat.ltb_ge in E2. lia.
Qed.

Lemma xf_shift_refused_anchor RA CA RB CB anchor :
  (forall r c, r < RB -> c < CB -> anchor <> well_id r c) ->
  mk_shifter RA CA RB CB anchor = Err EReject.
Proof. intro H. unfold mk_shifter. rewrite (xf_index_none RB CB anchor H). reflexivity. Qed.

Lemma xf_shift1_inv s w w' : shift1 s w = Ok w' ->
  exists r c, r < sh_RA s /\ r < 26 /\ c < sh_CA s /\ w = well_id r c /\
              w' = well_id (r + sh_dr s) (c + sh_dc s).
Proof.
  unfold shift1. destruct (make_well_index (sh_RA s) (sh_CA s) w) as [[r c]|] eqn:E; [|discriminate].
  intro H. injection H as H. apply xf_index_inv in E. destruct E as [E [H1 [H2 H3]]].
  exists r, c. repeat split; try assumption. symmetry. exact H.
Qed.

Lemma xf_unshift1_inv s w w' : unshift1 s w' = Ok w ->
  exists r c, r < sh_RB s /\ r < 26 /\ c < sh_CB s /\ w' = well_id r c /\
              sh_dr s <= r /\ sh_dc s <= c /\ r - sh_dr s < sh_RA s /\ c - sh_dc s < sh_CA s /\
              w = well_id (r - sh_dr s) (c - sh_dc s).
Proof.
  unfold unshift1. destruct (make_well_index (sh_RB s) (sh_CB s) w') as [[r c]|] eqn:E; [|discriminate].
  destruct ((sh_dr s <=? r) && (sh_dc s <=? c) && (r - sh_dr s <? sh_RA s) && (c - sh_dc s <? sh_CA s))%nat
    eqn:E1; [|discriminate].
  intro H. injection H as H. apply xf_index_inv in E. destruct E as [E [H1 [H2 H3]]].
  apply andb_prop in E1. destruct E1 as [E1 L4]. apply andb_prop in E1. destruct E1 as [E1 L3].
  apply andb_prop in E1. destruct E1 as [L1 L2].
  apply Nat.leb_le in L1. apply Nat.leb_le in L2. apply Nat.ltb_lt in L3. apply Nat.ltb_lt in L4.
  exists r, c. repeat split; try assumption. symmetry. exact H.
Qed.

Lemma xf_unshift_shift RA CA RB CB anchor s w w' :
  RB <= 26 -> mk_shifter RA CA RB CB anchor = Ok s ->
  shift1 s w = Ok w' -> unshift1 s w' = Ok w.
Proof.
  intros HB H Hs. apply xf_mk_shifter_inv in H.
  destruct H as [_ [ERA [ECA [ERB [ECB [Lr Lc]]]]]].
  apply xf_shift1_inv in Hs. destruct Hs as [r [c [H1 [H2 [H3 [Ew Ew']]]]]]. subst w w'.
  unfold unshift1. rewrite ERB, ECB. rewrite xf_index_well_id by lia.
  assert (E : ((sh_dr s <=? r + sh_dr s) && (sh_dc s <=? c + sh_dc s) &&
               (r + sh_dr s - sh_dr s <? sh_RA s) && (c + sh_dc s - sh_dc s <? sh_CA s))%nat = true).
  { repeat (apply andb_true_intro; split); try (apply Nat.leb_le; lia); apply Nat.ltb_lt; lia. }
  rewrite E. replace (r + sh_dr s - sh_dr s) with r by lia. replace (c + sh_dc s - sh_dc s) with c by lia.
  reflexivity.
Qed.

Lemma xf_shift_unshift s w w' : unshift1 s w' = Ok w -> shift1 s w = Ok w'.
Proof.
  intro H. apply xf_unshift1_inv in H.
  destruct H as [r [c [H1 [H2 [H3 [Ew' [L1 [L2 [L3 [L4 Ew]]]]]]]]]]. subst w w'.
  unfold shift1.
  assert (E : make_well_index (sh_RA s) (sh_CA s) (well_id (r - sh_dr s) (c - sh_dc s))
              = Some (r - sh_dr s, c - sh_dc s)).
  { unfold make_well_index, well_index. rewrite xf_id_rc_well_id by lia.
    unfold n_row_ids. cbn [g_vrows g_rows g_cols].
    assert (E : ((r - sh_dr s <? Nat.min 26 (sh_RA s)) && (c - sh_dc s <? sh_CA s))%nat = true).
    { apply andb_true_intro. split; apply Nat.ltb_lt; lia. }
    rewrite E. reflexivity. }
  rewrite E. replace (r - sh_dr s + sh_dr s) with r by lia. replace (c - sh_dc s + sh_dc s) with c by lia.
  reflexivity.
Qed.

Lemma xf_shift_inverse RA CA RB CB anchor s :
  RB <= 26 -> mk_shifter RA CA RB CB anchor = Ok s ->
  (forall w w', shift1 s w = Ok w' -> unshift1 s w' = Ok w) /\
  (forall w w', unshift1 s w' = Ok w -> shift1 s w = Ok w') /\
  (forall w1 w2 w', shift1 s w1 = Ok w' -> shift1 s w2 = Ok w' -> w1 = w2) /\
  (forall w1' w2' w, unshift1 s w1' = Ok w -> unshift1 s w2' = Ok w -> w1' = w2').
Proof.
  intros HB H. split; [|split; [|split]].
  - intros w w'. apply (xf_unshift_shift RA CA RB CB anchor s w w' HB H).
  - intros w w'. apply xf_shift_unshift.
  - intros w1 w2 w' H1 H2.
    apply (xf_unshift_shift RA CA RB CB anchor s _ _ HB H) in H1.
    apply (xf_unshift_shift RA CA RB CB anchor s _ _ HB H) in H2. congruence.
  - intros w1' w2' w H1 H2. apply xf_shift_unshift in H1. apply xf_shift_unshift in H2. congruence.
Qed.

(** * Arrays: shape and elementwise action *)

Definition xf_same_shape {A B} (a : arr A) (b : arr B) : Prop :=
  match a, b with
  | A0 _, A0 _ => True
  | A1 xs, A1 ys => length xs = length ys
  | A2 rs, A2 qs => map (@length A) rs = map (@length B) qs
  | _, _ => False
  end.

Lemma xf_same_shape_amap {A B} (f : A -> B) (a : arr A) : xf_same_shape a (amap f a).
Proof.
  destruct a as [x|xs|rows]; cbn [amap xf_same_shape].
  - exact I.
  - symmetry. apply map_length.
  - rewrite map_map. apply map_ext. intro r. symmetry. apply map_length.
Qed.

Lemma xf_same_shape_amap_l {A B C} (f : B -> C) (a : arr A) (b : arr B) :
  xf_same_shape a (amap f b) -> xf_same_shape a b.
Proof.
  destruct a as [x|xs|rows]; destruct b as [y|ys|qs]; cbn [amap xf_same_shape]; try exact (fun H => H).
  - rewrite map_length. exact (fun H => H).
  - rewrite map_map. intro H. rewrite H. apply map_ext. intro r. apply map_length.
Qed.

Lemma xf_seq_res_ok {A} (l : list (res A)) (m : list A) : seq_res l = Ok m <-> l = map Ok m.
Proof.
  revert m. induction l as [|x l IH]; intro m.
  - cbn [seq_res]. split.
    + intro H. injection H as H. subst m. reflexivity.
    + destruct m as [|y m]; [reflexivity|discriminate].
  - destruct x as [x|e]; cbn [seq_res].
    + destruct (seq_res l) as [xs|e] eqn:E.
      * split.
        -- intro H. injection H as H. subst m. cbn [map]. f_equal. apply IH. reflexivity.
        -- destruct m as [|y m]; [discriminate|]. cbn [map]. intro H. injection H as H1 H2.
           apply IH in H2. injection H2 as H2. subst. reflexivity.
      * split; [discriminate|]. destruct m as [|y m]; [discriminate|]. cbn [map].
        intro H. injection H as H1 H2. apply IH in H2. discriminate.
    + split; [discriminate|]. destruct m as [|y m]; discriminate.
Qed.

Lemma xf_aseq_ok {A} (a : arr (res A)) (b : arr A) : aseq a = Ok b <-> a = amap Ok b.
Proof.
  destruct a as [x|xs|rows]; cbn [aseq].
  - destruct x as [x|e]; split; intro H.
    + injection H as H. subst b. reflexivity.
    + destruct b as [y|ys|qs]; try discriminate. cbn [amap] in H. injection H as H. subst. reflexivity.
    + discriminate.
    + destruct b as [y|ys|qs]; discriminate.
  - destruct (seq_res xs) as [l|e] eqn:E; split; intro H.
    + injection H as H. subst b. cbn [amap]. f_equal. apply xf_seq_res_ok. exact E.
    + destruct b as [y|ys|qs]; try discriminate. cbn [amap] in H. injection H as H.
      apply xf_seq_res_ok in H. congruence.
    + discriminate.
    + destruct b as [y|ys|qs]; try discriminate. cbn [amap] in H. injection H as H.
      apply xf_seq_res_ok in H. congruence.
  - destruct (seq_res (map seq_res rows)) as [l|e] eqn:E; split; intro H.
    + injection H as H. subst b. cbn [amap]. f_equal. apply xf_seq_res_ok in E.
      revert l E. induction rows as [|r rows IH]; intros l E.
      * destruct l as [|y l]; [reflexivity|discriminate].
      * destruct l as [|y l]; [discriminate|]. cbn [map] in *. injection E as E1 E2.
        f_equal; [apply xf_seq_res_ok; exact E1|apply IH; exact E2].
    + destruct b as [y|ys|qs]; try discriminate. cbn [amap] in H. injection H as H.
      assert (E' : seq_res (map seq_res rows) = Ok qs).
      { apply xf_seq_res_ok. subst rows. rewrite map_map. apply map_ext_in. intros q _.
        apply xf_seq_res_ok. reflexivity. }
      congruence.
    + discriminate.
    + destruct b as [y|ys|qs]; try discriminate. cbn [amap] in H. injection H as H.
      assert (E' : seq_res (map seq_res rows) = Ok qs).
      { apply xf_seq_res_ok. subst rows. rewrite map_map. apply map_ext_in. intros q _.
        apply xf_seq_res_ok. reflexivity. }
      congruence.
Qed.

(** elementwise action of a partial map [f] lifted by [aseq (amap f _)] *)
Lemma xf_lift_spec {A B} (f : A -> res B) (a : arr A) (b : arr B) :
  aseq (amap f a) = Ok b <-> amap f a = amap Ok b.
Proof. apply xf_aseq_ok. Qed.

Lemma xf_lift_shape {A B} (f : A -> res B) (a : arr A) (b : arr B) :
  aseq (amap f a) = Ok b -> xf_same_shape a b.
Proof.
  intro H. apply xf_aseq_ok in H. apply (xf_same_shape_amap_l (@Ok B)). rewrite <- H.
  apply xf_same_shape_amap.
Qed.

Lemma xf_seq_res_total {A B} (f : A -> res B) (l : list A) :
  (forall w, In w l -> exists w', f w = Ok w') -> exists m, seq_res (map f l) = Ok m.
Proof.
  induction l as [|x l IH]; intro H.
  - exists []. reflexivity.
  - destruct (H x (or_introl eq_refl)) as [y Hy].
    destruct IH as [m Hm]; [intros w Hw; apply H; right; exact Hw|].
    exists (y :: m). cbn [map seq_res]. rewrite Hy, Hm. reflexivity.
Qed.

Lemma xf_seq_res_err {A B} (f : A -> res B) (l : list A) e :
  seq_res (map f l) = Err e -> exists w, In w l /\ f w = Err e.
Proof.
  induction l as [|x l IH]; cbn [map seq_res]; [discriminate|].
  destruct (f x) as [y|e'] eqn:E.
  - destruct (seq_res (map f l)) as [m|e'']; [discriminate|].
    intro H. injection H as H. subst e''. destruct (IH eq_refl) as [w [Hw Fw]].
    exists w. split; [right; exact Hw|exact Fw].
  - intro H. injection H as H. subst e'. exists x. split; [left; reflexivity|exact E].
Qed.

Lemma xf_lift_total {A B} (f : A -> res B) (a : arr A) :
  (forall w, In w (flattenC a) -> exists w', f w = Ok w') -> exists b, aseq (amap f a) = Ok b.
Proof.
  destruct a as [x|xs|rows]; cbn [flattenC amap aseq]; intro H.
  - destruct (H x (or_introl eq_refl)) as [y Hy]. rewrite Hy. exists (A0 y). reflexivity.
  - destruct (xf_seq_res_total f xs H) as [m Hm]. rewrite Hm. exists (A1 m). reflexivity.
  - assert (T : exists l, seq_res (map seq_res (map (map f) rows)) = Ok l).
    { induction rows as [|r rows IH].
      - exists []. reflexivity.
      - cbn [concat] in H. destruct (xf_seq_res_total f r) as [m Hm].
        { intros w Hw. apply H. apply in_or_app. left. exact Hw. }
        destruct IH as [l Hl]. { intros w Hw. apply H. apply in_or_app. right. exact Hw. }
        exists (m :: l). cbn [map seq_res]. rewrite Hm, Hl. reflexivity. }
    destruct T as [l Hl]. rewrite Hl. exists (A2 l). reflexivity.
Qed.

Lemma xf_lift_err {A B} (f : A -> res B) (a : arr A) e :
  aseq (amap f a) = Err e -> exists w, In w (flattenC a) /\ f w = Err e.
Proof.
  destruct a as [x|xs|rows]; cbn [flattenC amap aseq].
  - destruct (f x) as [y|e'] eqn:E; [discriminate|]. intro H. injection H as H. subst e'.
    exists x. split; [left; reflexivity|exact E].
  - destruct (seq_res (map f xs)) as [m|e'] eqn:E; [discriminate|]. intro H. injection H as H. subst e'.
    apply xf_seq_res_err. exact E.
  - destruct (seq_res (map seq_res (map (map f) rows))) as [m|e'] eqn:E; [discriminate|].
    intro H. injection H as H. subst e'.
    induction rows as [|r rows IH]; cbn [map seq_res] in E; [discriminate|].
    destruct (seq_res (map f r)) as [m|e'] eqn:Er.
    + destruct (seq_res (map seq_res (map (map f) rows))) as [l|e'']; [discriminate|].
      injection E as E. subst e''. destruct (IH eq_refl) as [w [Hw Fw]].
      exists w. split; [cbn [concat]; apply in_or_app; right; exact Hw|exact Fw].
    + injection E as E. subst e'. destruct (xf_seq_res_err f r e Er) as [w [Hw Fw]].
      exists w. split; [cbn [concat]; apply in_or_app; left; exact Hw|exact Fw].
Qed.

(** * Rotation *)

Lemma xf_rot_cw R C r c : R <= 26 -> C <= 26 -> r < R -> c < C ->
  rotate_cw1 R C (well_id r c) = Ok (well_id c (R - 1 - r)) /\
  make_well_index C R (well_id c (R - 1 - r)) = Some (c, R - 1 - r).
Proof.
  intros HR HC Hr Hc. split.
  - unfold rotate_cw1. rewrite xf_index_well_id by assumption.
    replace (R - r - 1) with (R - 1 - r) by lia. reflexivity.
  - apply xf_index_well_id; lia.
Qed.

Lemma xf_rot_ccw R C r c : R <= 26 -> C <= 26 -> r < R -> c < C ->
  rotate_ccw1 R C (well_id r c) = Ok (well_id (C - 1 - c) r) /\
  make_well_index C R (well_id (C - 1 - c) r) = Some (C - 1 - c, r).
Proof.
  intros HR HC Hr Hc. split.
  - unfold rotate_ccw1. rewrite xf_index_well_id by assumption.
    replace (C - c - 1) with (C - 1 - c) by lia. reflexivity.
  - apply xf_index_well_id; lia.
Qed.

Lemma xf_rot_cw_inv R C w w' : rotate_cw1 R C w = Ok w' ->
  exists r c, r < R /\ r < 26 /\ c < C /\ w = well_id r c /\ w' = well_id c (R - 1 - r).
Proof.
  unfold rotate_cw1. destruct (make_well_index R C w) as [[r c]|] eqn:E; [|discriminate].
  intro H. injection H as H. apply xf_index_inv in E. destruct E as [E [H1 [H2 H3]]].
  exists r, c. repeat split; try assumption. subst w'. f_equal. lia.
Qed.

Lemma xf_rot_ccw_inv R C w w' : rotate_ccw1 R C w = Ok w' ->
  exists r c, r < R /\ r < 26 /\ c < C /\ w = well_id r c /\ w' = well_id (C - 1 - c) r.
Proof.
  unfold rotate_ccw1. destruct (make_well_index R C w) as [[r c]|] eqn:E; [|discriminate].
  intro H. injection H as H. apply xf_index_inv in E. destruct E as [E [H1 [H2 H3]]].
  exists r, c. repeat split; try assumption. subst w'. f_equal. lia.
Qed.

Lemma xf_rot_ccw_cw R C w w' : R <= 26 -> C <= 26 ->
  rotate_cw1 R C w = Ok w' -> rotate_ccw1 C R w' = Ok w.
Proof.
  intros HR HC H. apply xf_rot_cw_inv in H. destruct H as [r [c [H1 [H2 [H3 [Ew Ew']]]]]]. subst w w'.
  destruct (xf_rot_ccw C R c (R - 1 - r)) as [E _]; try lia.
  rewrite E. f_equal. f_equal. lia.
Qed.

Lemma xf_rot_cw_ccw R C w w' : R <= 26 -> C <= 26 ->
  rotate_ccw1 R C w = Ok w' -> rotate_cw1 C R w' = Ok w.
Proof.
  intros HR HC H. apply xf_rot_ccw_inv in H. destruct H as [r [c [H1 [H2 [H3 [Ew Ew']]]]]]. subst w w'.
  destruct (xf_rot_cw C R (C - 1 - c) r) as [E _]; try lia.
  rewrite E. f_equal. f_equal. lia.
Qed.

Lemma xf_rot_four R C r c : R <= 26 -> C <= 26 -> r < R -> c < C ->
  res_bind (res_bind (res_bind (rotate_cw1 R C (well_id r c)) (rotate_cw1 C R)) (rotate_cw1 R C)) (rotate_cw1 C R)
  = Ok (well_id r c).
Proof.
  intros HR HC Hr Hc.
  destruct (xf_rot_cw R C r c) as [E1 _]; try assumption. rewrite E1. cbn [res_bind].
  destruct (xf_rot_cw C R c (R - 1 - r)) as [E2 _]; try lia. rewrite E2. cbn [res_bind].
  destruct (xf_rot_cw R C (R - 1 - r) (C - 1 - c)) as [E3 _]; try lia. rewrite E3. cbn [res_bind].
  destruct (xf_rot_cw C R (C - 1 - c) (R - 1 - (R - 1 - r))) as [E4 _]; try lia. rewrite E4.
  f_equal. f_equal; lia.
Qed.

Lemma xf_rot_four_ccw R C r c : R <= 26 -> C <= 26 -> r < R -> c < C ->
  res_bind (res_bind (res_bind (rotate_ccw1 R C (well_id r c)) (rotate_ccw1 C R)) (rotate_ccw1 R C)) (rotate_ccw1 C R)
  = Ok (well_id r c).
Proof.
  intros HR HC Hr Hc.
  destruct (xf_rot_ccw R C r c) as [E1 _]; try assumption. rewrite E1. cbn [res_bind].
  destruct (xf_rot_ccw C R (C - 1 - c) r) as [E2 _]; try lia. rewrite E2. cbn [res_bind].
  destruct (xf_rot_ccw R C (R - 1 - r) (C - 1 - c)) as [E3 _]; try lia. rewrite E3. cbn [res_bind].
  destruct (xf_rot_ccw C R (C - 1 - (C - 1 - c)) (R - 1 - r)) as [E4 _]; try lia. rewrite E4.
  f_equal. f_equal; lia.
Qed.

Lemma xf_rot_reject R C w : (forall r c, r < R -> c < C -> w <> well_id r c) ->
  rotate_cw1 R C w = Err EReject /\ rotate_ccw1 R C w = Err EReject.
Proof.
  intro H. unfold rotate_cw1, rotate_ccw1. rewrite (xf_index_none R C w H). split; reflexivity.
Qed.

Lemma xf_rot_spec R C : R <= 26 -> C <= 26 ->
  (forall r c, r < R -> c < C ->
     rotate_cw1 R C (well_id r c) = Ok (well_id c (R - 1 - r)) /\
     make_well_index C R (well_id c (R - 1 - r)) = Some (c, R - 1 - r) /\
     rotate_ccw1 R C (well_id r c) = Ok (well_id (C - 1 - c) r) /\
     make_well_index C R (well_id (C - 1 - c) r) = Some (C - 1 - c, r)) /\
  (forall w w', rotate_cw1 R C w = Ok w' -> rotate_ccw1 C R w' = Ok w) /\
  (forall w w', rotate_ccw1 R C w = Ok w' -> rotate_cw1 C R w' = Ok w).
Proof.
  intros HR HC. split; [|split].
  - intros r c Hr Hc. destruct (xf_rot_cw R C r c HR HC Hr Hc) as [A1 A2].
    destruct (xf_rot_ccw R C r c HR HC Hr Hc) as [B1 B2]. repeat split; assumption.
  - intros w w'. apply xf_rot_ccw_cw; assumption.
  - intros w w'. apply xf_rot_cw_ccw; assumption.
Qed.

(** * Randomisation: lookup tables *)

Lemma xf_lookup_in t w w' : lookup t w = Some w' -> In (w, w') t.
Proof.
  induction t as [|[k v] t IH]; cbn [lookup]; [discriminate|].
  destruct (String.eqb k w) eqn:E.
  - intro H. injection H as H. apply String.eqb_eq in E. subst. left. reflexivity.
  - intro H. right. apply IH. exact H.
Qed.

Lemma xf_in_lookup t w w' : NoDup (map fst t) -> In (w, w') t -> lookup t w = Some w'.
Proof.
  induction t as [|[k v] t IH]; intros ND H; [destruct H|].
  cbn [map fst] in ND. inversion ND as [|k0 l0 Hnotin ND']. subst k0 l0.
  cbn [lookup]. destruct H as [H|H].
  - injection H as H1 H2. subst. rewrite String.eqb_refl. reflexivity.
  - destruct (String.eqb k w) eqn:E.
    + apply String.eqb_eq in E. subst k. exfalso. apply Hnotin.
      change w with (fst (w, w')). apply in_map. exact H.
    + apply IH; assumption.
Qed.

Lemma xf_invert_in t w w' : In (w, w') t <-> In (w', w) (invert t).
Proof.
  unfold invert. split.
  - intro H. apply (in_map (fun kv : string * string => (snd kv, fst kv))) in H. exact H.
  - intro H. apply in_map_iff in H. destruct H as [[k v] [E H]]. cbn [fst snd] in E.
    injection E as E1 E2. subst. exact H.
Qed.

Lemma xf_invert_keys t : map fst (invert t) = map snd t.
Proof. unfold invert. rewrite map_map. reflexivity. Qed.

Lemma xf_invert_vals t : map snd (invert t) = map fst t.
Proof. unfold invert. rewrite map_map. reflexivity. Qed.

Lemma xf_rand_inverse t w w' : NoDup (map fst t) -> NoDup (map snd t) ->
  (lookup t w = Some w' <-> lookup (invert t) w' = Some w).
Proof.
  intros NK NV. split; intro H.
  - apply xf_in_lookup; [rewrite xf_invert_keys; exact NV|]. apply (proj1 (xf_invert_in t w w')). apply xf_lookup_in. exact H.
  - apply xf_in_lookup; [exact NK|]. apply (proj2 (xf_invert_in t w w')). apply xf_lookup_in. exact H.
Qed.

Lemma xf_rand_injective t w1 w2 w' : NoDup (map snd t) ->
  lookup t w1 = Some w' -> lookup t w2 = Some w' -> w1 = w2.
Proof.
  intros NV H1 H2. apply xf_lookup_in in H1. apply xf_lookup_in in H2.
  apply (proj1 (xf_invert_in t w1 w')) in H1. apply (proj1 (xf_invert_in t w2 w')) in H2.
  assert (NK : NoDup (map fst (invert t))) by (rewrite xf_invert_keys; exact NV).
  apply (xf_in_lookup _ _ _ NK) in H1. apply (xf_in_lookup _ _ _ NK) in H2. congruence.
Qed.

Lemma xf_lookup_key t w : In w (map fst t) -> exists w', lookup t w = Some w'.
Proof.
  induction t as [|[k v] t IH]; cbn [map fst lookup]; intro H; [destruct H|].
  destruct (String.eqb k w) eqn:E; [exists v; reflexivity|].
  destruct H as [H|H]; [subst k; rewrite String.eqb_refl in E; discriminate|]. apply IH. exact H.
Qed.

Lemma xf_map_some_inj {A} (l m : list A) : map Some l = map Some m -> l = m.
Proof.
  revert m. induction l as [|x l IH]; intros [|y m] H; try discriminate; [reflexivity|].
  cbn [map] in H. injection H as H1 H2. f_equal; [exact H1|apply IH; exact H2].
Qed.

Lemma xf_map_partial_inverse {A B} (f : A -> option B) (g : B -> option A) :
  (forall w w', f w = Some w' -> g w' = Some w) ->
  forall l m, map f l = map Some m -> map g m = map Some l.
Proof.
  intros FG. induction l as [|x l IH]; intros [|y m] H; try discriminate; [reflexivity|].
  cbn [map] in *. injection H as H1 H2. f_equal; [apply FG; exact H1|apply IH; exact H2].
Qed.

Lemma xf_amap_partial_inverse {A B} (f : A -> option B) (g : B -> option A) :
  (forall w w', f w = Some w' -> g w' = Some w) ->
  forall a b, amap f a = amap Some b -> amap g b = amap Some a.
Proof.
  intros FG a b. destruct a as [x|xs|rows]; destruct b as [y|ys|qs]; cbn [amap]; try discriminate.
  - intro H. injection H as H. f_equal. apply FG. exact H.
  - intro H. injection H as H. f_equal. apply (xf_map_partial_inverse f g FG). exact H.
  - intro H. injection H as H. f_equal. revert qs H.
    induction rows as [|r rows IH]; intros [|q qs] H; try discriminate; [reflexivity|].
    cbn [map] in *. injection H as H1 H2.
    f_equal; [apply (xf_map_partial_inverse f g FG); exact H1|apply IH; exact H2].
Qed.

Lemma xf_derandomize_randomize t a b : NoDup (map fst t) -> NoDup (map snd t) ->
  randomize t a = amap Some b -> derandomize t b = amap Some a.
Proof.
  intros NK NV. unfold randomize, derandomize. apply xf_amap_partial_inverse.
  intros w w'. apply (xf_rand_inverse t w w' NK NV).
Qed.

Lemma xf_randomize_derandomize t a b : NoDup (map fst t) -> NoDup (map snd t) ->
  derandomize t b = amap Some a -> randomize t a = amap Some b.
Proof.
  intros NK NV. unfold randomize, derandomize. apply xf_amap_partial_inverse.
  intros w w'. apply (xf_rand_inverse t w' w NK NV).
Qed.

Lemma xf_rand_total t a : (forall w, In w (flattenC a) -> In w (map fst t)) ->
  exists b, randomize t a = amap Some b.
Proof.
  intro H. unfold randomize.
  assert (L : forall l, (forall w, In w l -> In w (map fst t)) -> exists m, map (lookup t) l = map Some m).
  { induction l as [|x l IH]; intro Hl; [exists []; reflexivity|].
    destruct (xf_lookup_key t x (Hl x (or_introl eq_refl))) as [y Hy].
    destruct IH as [m Hm]; [intros w Hw; apply Hl; right; exact Hw|].
    exists (y :: m). cbn [map]. rewrite Hy, Hm. reflexivity. }
  destruct a as [x|xs|rows]; cbn [flattenC amap] in *.
  - destruct (xf_lookup_key t x (H x (or_introl eq_refl))) as [y Hy]. exists (A0 y). cbn [amap]. rewrite Hy. reflexivity.
  - destruct (L xs H) as [m Hm]. exists (A1 m). cbn [amap]. rewrite Hm. reflexivity.
  - assert (T : exists qs, map (map (lookup t)) rows = map (map Some) qs).
    { induction rows as [|r rows IH]; [exists []; reflexivity|]. cbn [concat] in H.
      destruct (L r) as [m Hm]; [intros w Hw; apply H; apply in_or_app; left; exact Hw|].
      destruct IH as [qs Hq]; [intros w Hw; apply H; apply in_or_app; right; exact Hw|].
      exists (m :: qs). cbn [map]. rewrite Hm, Hq. reflexivity. }
    destruct T as [qs Hq]. exists (A2 qs). cbn [amap]. rewrite Hq. reflexivity.
Qed.

(** a table whose values are a rearrangement of its keys is a bijection of the key set *)
Lemma xf_rand_permutation t : NoDup (map fst t) -> Permutation (map fst t) (map snd t) ->
  NoDup (map snd t) /\
  (forall w, In w (map fst t) -> exists w', lookup t w = Some w' /\ In w' (map fst t)) /\
  (forall w', In w' (map fst t) -> exists w, In w (map fst t) /\ lookup t w = Some w') /\
  (forall w1 w2 w', lookup t w1 = Some w' -> lookup t w2 = Some w' -> w1 = w2).
Proof.
  intros NK P.
  assert (NV : NoDup (map snd t)) by (apply (Permutation_NoDup P); exact NK).
  split; [exact NV|]. split; [|split].
  - intros w Hw. destruct (xf_lookup_key t w Hw) as [w' Hw']. exists w'. split; [exact Hw'|].
    apply (Permutation_in w' (Permutation_sym P)). apply xf_lookup_in in Hw'.
    change w' with (snd (w, w')). apply in_map. exact Hw'.
  - intros w' Hw'. apply (Permutation_in w' P) in Hw'. apply in_map_iff in Hw'.
    destruct Hw' as [[k v] [E H]]. cbn [snd] in E. subst v. exists k. split.
    + change k with (fst (k, w')). apply in_map. exact H.
    + apply xf_in_lookup; assumption.
  - intros w1 w2 w'. apply xf_rand_injective. exact NV.
Qed.

Lemma xf_rand_rel (P : string -> string -> Prop) t :
  (forall k v, In (k, v) t -> P k v) ->
  (forall w w', lookup t w = Some w' -> P w w') /\
  (forall w w', lookup (invert t) w' = Some w -> P w w').
Proof.
  intro H. split; intros w w' L; apply H.
  - apply xf_lookup_in. exact L.
  - apply (proj2 (xf_invert_in t w w')). apply xf_lookup_in. exact L.
Qed.

(** * Aggregated array-level statements *)

Lemma xf_shape_all s R C (a b : arr string) :
  (shift s a = Ok b -> xf_same_shape a b /\ amap (shift1 s) a = amap Ok b) /\
  (unshift s a = Ok b -> xf_same_shape a b /\ amap (unshift1 s) a = amap Ok b) /\
  (rotate_cw R C a = Ok b -> xf_same_shape a b /\ amap (rotate_cw1 R C) a = amap Ok b) /\
  (rotate_ccw R C a = Ok b -> xf_same_shape a b /\ amap (rotate_ccw1 R C) a = amap Ok b).
Proof.
  unfold shift, unshift, rotate_cw, rotate_ccw.
  split; [|split; [|split]]; intro H;
    (split; [apply (xf_lift_shape _ _ _ H)|apply xf_lift_spec; exact H]).
Qed.

Lemma xf_elementwise_all s R C (a b : arr string) :
  (amap (shift1 s) a = amap Ok b -> shift s a = Ok b) /\
  (amap (unshift1 s) a = amap Ok b -> unshift s a = Ok b) /\
  (amap (rotate_cw1 R C) a = amap Ok b -> rotate_cw R C a = Ok b) /\
  (amap (rotate_ccw1 R C) a = amap Ok b -> rotate_ccw R C a = Ok b).
Proof.
  unfold shift, unshift, rotate_cw, rotate_ccw.
  split; [|split; [|split]]; intro H; apply xf_lift_spec; exact H.
Qed.

Lemma xf_total_all s R C (a : arr string) :
  ((forall w, In w (flattenC a) -> exists w', shift1 s w = Ok w') -> exists b, shift s a = Ok b) /\
  ((forall w, In w (flattenC a) -> exists w', unshift1 s w = Ok w') -> exists b, unshift s a = Ok b) /\
  ((forall w, In w (flattenC a) -> exists w', rotate_cw1 R C w = Ok w') -> exists b, rotate_cw R C a = Ok b) /\
  ((forall w, In w (flattenC a) -> exists w', rotate_ccw1 R C w = Ok w') -> exists b, rotate_ccw R C a = Ok b).
Proof.
  unfold shift, unshift, rotate_cw, rotate_ccw. split; [|split; [|split]]; apply xf_lift_total.
Qed.

Lemma xf_err_all s R C (a : arr string) e :
  (shift s a = Err e -> exists w, In w (flattenC a) /\ shift1 s w = Err e) /\
  (unshift s a = Err e -> exists w, In w (flattenC a) /\ unshift1 s w = Err e) /\
  (rotate_cw R C a = Err e -> exists w, In w (flattenC a) /\ rotate_cw1 R C w = Err e) /\
  (rotate_ccw R C a = Err e -> exists w, In w (flattenC a) /\ rotate_ccw1 R C w = Err e).
Proof.
  unfold shift, unshift, rotate_cw, rotate_ccw. split; [|split; [|split]]; apply xf_lift_err.
Qed.

Lemma xf_rand_shape t (a : arr string) :
  randomize t a = amap (lookup t) a /\ derandomize t a = amap (lookup (invert t)) a /\
  xf_same_shape a (randomize t a) /\ xf_same_shape a (derandomize t a).
Proof.
  unfold randomize, derandomize.
  split; [reflexivity|]. split; [reflexivity|]. split; apply xf_same_shape_amap.
Qed.

(** array-level inverses *)
Lemma xf_amap_res_inverse {A B} (f : A -> res B) (g : B -> res A) :
  (forall w w', f w = Ok w' -> g w' = Ok w) ->
  forall a b, aseq (amap f a) = Ok b -> aseq (amap g b) = Ok a.
Proof.
  intros FG a b H. apply xf_aseq_ok in H. apply xf_aseq_ok.
  assert (L : forall l m, map f l = map Ok m -> map g m = map Ok l).
  { induction l as [|x l IH]; intros [|y m] E; try discriminate; [reflexivity|].
    cbn [map] in *. injection E as E1 E2. f_equal; [apply FG; exact E1|apply IH; exact E2]. }
  destruct a as [x|xs|rows]; destruct b as [y|ys|qs]; cbn [amap] in *; try discriminate.
  - injection H as H. f_equal. apply FG. exact H.
  - injection H as H. f_equal. apply L. exact H.
  - injection H as H. f_equal. revert qs H.
    induction rows as [|r rows IH]; intros [|q qs] H; try discriminate; [reflexivity|].
    cbn [map] in *. injection H as H1 H2. f_equal; [apply L; exact H1|apply IH; exact H2].
Qed.

Lemma xf_array_inverse RA CA RB CB anchor s R C (a b : arr string) :
  RB <= 26 -> mk_shifter RA CA RB CB anchor = Ok s -> R <= 26 -> C <= 26 ->
  (shift s a = Ok b -> unshift s b = Ok a) /\
  (unshift s b = Ok a -> shift s a = Ok b) /\
  (rotate_cw R C a = Ok b -> rotate_ccw C R b = Ok a) /\
  (rotate_ccw R C a = Ok b -> rotate_cw C R b = Ok a).
Proof.
  intros HB Hs HR HC. unfold shift, unshift, rotate_cw, rotate_ccw.
  destruct (xf_shift_inverse RA CA RB CB anchor s HB Hs) as [I1 [I2 _]].
  split; [|split; [|split]]; apply xf_amap_res_inverse.
  - exact I1.
  - intros w w'. apply I2.
  - intros w w'. apply xf_rot_ccw_cw; assumption.
  - intros w w'. apply xf_rot_cw_ccw; assumption.
Qed.

Lemma xf_rand_array_inverse t (a b : arr string) : NoDup (map fst t) -> NoDup (map snd t) ->
  (randomize t a = amap Some b -> derandomize t b = amap Some a) /\
  (derandomize t b = amap Some a -> randomize t a = amap Some b).
Proof.
  intros NK NV. split.
  - apply xf_derandomize_randomize; assumption.
  - apply xf_randomize_derandomize; assumption.
Qed.

(** a concrete row-mode table on a 2 x 2 plate satisfies the hypotheses of the randomisation lemmas *)
Definition xf_demo_table : list (string * string) :=
  [("A01", "A02"); ("A02", "A01"); ("B01", "B01"); ("B02", "B02")]%string.

Lemma xf_demo_table_ok :
  NoDup (map fst xf_demo_table) /\ NoDup (map snd xf_demo_table) /\
  Permutation (map fst xf_demo_table) (map snd xf_demo_table) /\
  (forall k v, In (k, v) xf_demo_table -> str_head k = str_head v).
Proof.
  split; [|split; [|split]].
  - repeat constructor; cbn; intuition discriminate.
  - repeat constructor; cbn; intuition discriminate.
  - cbn [xf_demo_table map fst snd]. apply perm_swap.
  - intros k v H. cbn in H.
    repeat (destruct H as [H|H]; [injection H as H1 H2; subst k v; reflexivity|]). destruct H.
Qed.
