(** Lemmas about the labware history (C11): [log], [condense_log], [add], [remove], worklist
    [aspirate] / [dispense], the execution of transfer plans, [transfer], [distribute], the
    large-volume-handling count and label, and preservation of earlier entries by [step] / [run]. *)
From Robo Require Import Prelude Str Wells Utils Labware Tips Records Partition Params Worklist
  EvoCmd Program PartitionProofs.
From Coq Require Import Lqa Permutation.

Notation entry := (option string * list Q)%type (only parsing).
Definition dflt : entry := (None, []).

(* ------------------------------------------------------------------------------------------ *)
(** * list helpers *)

Lemma upd_length {A} (l : list A) : forall k x, length (upd l k x) = length l.
Proof.
  induction l as [|y r IH]; intros [|k] x; cbn [upd length]; try reflexivity.
  rewrite IH. reflexivity.
Qed.

Lemma nth_error_upd_same {A} (l : list A) : forall k x y,
  nth_error l k = Some y -> nth_error (upd l k x) k = Some x.
Proof.
  induction l as [|z r IH]; intros [|k] x y H; cbn [upd nth_error] in *; try discriminate.
  - reflexivity.
  - exact (IH k x y H).
Qed.

Lemma nth_error_upd_other {A} (l : list A) : forall k j x,
  j <> k -> nth_error (upd l k x) j = nth_error l j.
Proof.
  induction l as [|z r IH]; intros [|k] [|j] x H; cbn [upd nth_error]; try reflexivity.
  - congruence.
  - apply IH. congruence.
Qed.

Lemma upd_same {A} (l : list A) : forall k x, nth_error l k = Some x -> upd l k x = l.
Proof.
  induction l as [|z r IH]; intros [|k] x H; cbn [upd nth_error] in *; try discriminate.
  - congruence.
  - rewrite (IH k x H). reflexivity.
Qed.

Lemma upd_none {A} (l : list A) : forall k x, nth_error l k = None -> upd l k x = l.
Proof.
  induction l as [|z r IH]; intros [|k] x H; cbn [upd nth_error] in *; try discriminate;
    try reflexivity.
  rewrite (IH k x H). reflexivity.
Qed.

Lemma nth_error_eq_ext {A} : forall (l l' : list A),
  (forall j, nth_error l j = nth_error l' j) -> l = l'.
Proof.
  induction l as [|x r IH]; intros [|y r'] H.
  - reflexivity.
  - specialize (H 0). discriminate.
  - specialize (H 0). discriminate.
  - pose proof (H 0) as H0. cbn [nth_error] in H0. inversion H0; subst y.
    rewrite (IH r'); [reflexivity|]. intro j. exact (H (S j)).
Qed.

Lemma last_snoc {A} (l : list A) x d : last (l ++ [x]) d = x.
Proof. apply last_last. Qed.

Lemma last_app_ne {A} (l1 l2 : list A) d : l2 <> [] -> last (l1 ++ l2) d = last l2 d.
Proof.
  intro H. induction l1 as [|x r IH]; [reflexivity|].
  cbn [app]. destruct (r ++ l2) as [|y t] eqn:E.
  - apply app_eq_nil in E. destruct E as [_ E]. contradiction.
  - cbn [last]. rewrite <- IH. reflexivity.
Qed.

Lemma nth_last {A} (l : list A) d : nth (length l - 1) l d = last l d.
Proof.
  induction l as [|x r IH]; [reflexivity|].
  destruct r as [|y t]; [reflexivity|].
  cbn [length] in *. replace (S (S (length t)) - 1) with (S (length t)) by lia.
  replace (S (length t) - 1) with (length t) in IH by lia.
  cbn [nth last]. cbn [nth] in IH. exact IH.
Qed.

Lemma firstn_app_exact {A} (l d : list A) n : length d = n ->
  firstn (length (l ++ d) - n) (l ++ d) = l.
Proof.
  intro H. rewrite app_length, H. replace (length l + n - n) with (length l + 0) by lia.
  rewrite firstn_app_2. cbn [firstn]. apply app_nil_r.
Qed.

Lemma firstn_prefix {A} (l d : list A) : firstn (length l) (l ++ d) = l.
Proof.
  replace (length l) with (length l + 0) by lia. rewrite firstn_app_2. cbn [firstn]. apply app_nil_r.
Qed.

(* ------------------------------------------------------------------------------------------ *)
(** * log, add, remove *)

Lemma log_hist L label : lw_hist (log L label) = lw_hist L ++ [(label, lw_vols L)].
Proof. reflexivity. Qed.

Lemma log_vols L label : lw_vols (log L label) = lw_vols L.
Proof. reflexivity. Qed.

Lemma add_loop_hist : forall items L L' e, add_loop L items = (L', e) -> lw_hist L' = lw_hist L.
Proof.
  induction items as [|[[w x] oc] rest IH]; intros L L' e H; cbn [add_loop] in H.
  - inversion H. reflexivity.
  - destruct (lw_index L w) as [i|] eqn:Ei; [|inversion H; reflexivity].
    destruct x as [v| | |]; try (inversion H; reflexivity).
    cbv zeta in H.
    destruct (Qgtb (Qred (vol_at L i + v)) (lw_max L)) eqn:Eg; [inversion H; reflexivity|].
    apply IH in H. rewrite H. destruct oc as [c|]; reflexivity.
Qed.

Lemma remove_loop_hist : forall items L L' e,
  remove_loop L items = (L', e) -> lw_hist L' = lw_hist L.
Proof.
  induction items as [|[w x] rest IH]; intros L L' e H; cbn [remove_loop] in H.
  - inversion H. reflexivity.
  - destruct (lw_index L w) as [i|] eqn:Ei; [|inversion H; reflexivity].
    destruct x as [v| | |]; try (inversion H; reflexivity).
    cbv zeta in H.
    destruct (Qltb (Qred (vol_at L i - v)) (lw_min L)) eqn:Eg; [inversion H; reflexivity|].
    apply IH in H. rewrite H. reflexivity.
Qed.

(** one statement for both outcomes *)
Lemma add_hist L wells vols label comps L' e :
  add L wells vols label comps = (L', e) ->
  match e with
  | None => lw_hist L' = lw_hist L ++ [(label, lw_vols L')]
  | Some _ => lw_hist L' = lw_hist L
  end.
Proof.
  unfold add. intro H.
  destruct (prep_wells_vols wells vols) as [wv|e0]; [|inversion H; reflexivity].
  cbv zeta in H.
  destruct (negb (length (match comps with Some cs => cs | None => repeat None (length wv) end)
                    =? length wv)); [inversion H; reflexivity|].
  destruct (add_loop L _) as [L1 [e1|]] eqn:El; inversion H; subst.
  - exact (add_loop_hist _ _ _ _ El).
  - rewrite log_hist, log_vols. rewrite (add_loop_hist _ _ _ _ El). reflexivity.
Qed.

Lemma remove_hist L wells vols label L' e :
  remove L wells vols label = (L', e) ->
  match e with
  | None => lw_hist L' = lw_hist L ++ [(label, lw_vols L')]
  | Some _ => lw_hist L' = lw_hist L
  end.
Proof.
  unfold remove. intro H.
  destruct (prep_wells_vols wells vols) as [wv|e0]; [|inversion H; reflexivity].
  destruct (remove_loop L wv) as [L1 [e1|]] eqn:El; inversion H; subst.
  - exact (remove_loop_hist _ _ _ _ El).
  - rewrite log_hist, log_vols. rewrite (remove_loop_hist _ _ _ _ El). reflexivity.
Qed.

Lemma add_hist_ok L wells vols label comps L' :
  add L wells vols label comps = (L', None) -> lw_hist L' = lw_hist L ++ [(label, lw_vols L')].
Proof. intro H. exact (add_hist _ _ _ _ _ _ _ H). Qed.

Lemma add_hist_err L wells vols label comps L' e :
  add L wells vols label comps = (L', Some e) -> lw_hist L' = lw_hist L.
Proof. intro H. exact (add_hist _ _ _ _ _ _ _ H). Qed.

Lemma remove_hist_ok L wells vols label L' :
  remove L wells vols label = (L', None) -> lw_hist L' = lw_hist L ++ [(label, lw_vols L')].
Proof. intro H. exact (remove_hist _ _ _ _ _ _ H). Qed.

Lemma remove_hist_err L wells vols label L' e :
  remove L wells vols label = (L', Some e) -> lw_hist L' = lw_hist L.
Proof. intro H. exact (remove_hist _ _ _ _ _ _ H). Qed.

(* ------------------------------------------------------------------------------------------ *)
(** * condense_log *)

(** the keyword resolution of [condense_log]: [f] = label of the first condensed entry,
    [l] = label of the last entry *)
Definition resolve_label (label f l : option string) : option string :=
  let label1 := match label with
                | Some s => if String.eqb s "first" then f else label
                | None => None
                end in
  match label1 with
  | Some s => if String.eqb s "last" then l else label1
  | None => None
  end.

Lemma condense_log_zero L label : condense_log L 0 label = L.
Proof. reflexivity. Qed.

Lemma condense_log_vols L n label : lw_vols (condense_log L n label) = lw_vols L.
Proof. unfold condense_log. destruct (n <? 1); reflexivity. Qed.

Lemma condense_log_comp L n label : lw_comp (condense_log L n label) = lw_comp L.
Proof. unfold condense_log. destruct (n <? 1); reflexivity. Qed.

Lemma condense_log_static L n label :
  lw_name (condense_log L n label) = lw_name L /\ lw_geom (condense_log L n label) = lw_geom L /\
  lw_min (condense_log L n label) = lw_min L /\ lw_max (condense_log L n label) = lw_max L.
Proof. unfold condense_log. destruct (n <? 1); repeat split; reflexivity. Qed.

Lemma condense_log_hist L n label :
  1 <= n ->
  lw_hist (condense_log L n label) =
  firstn (length (lw_hist L) - n) (lw_hist L) ++
  [(resolve_label label (fst (nth (length (lw_hist L) - n) (lw_hist L) dflt))
                        (fst (last (lw_hist L) dflt)),
    snd (last (lw_hist L) dflt))].
Proof.
  intro Hn. unfold condense_log. destruct (Nat.ltb_spec n 1) as [C|_]; [lia|].
  cbv zeta. rewrite nth_last. reflexivity.
Qed.

Lemma resolve_plain label f l :
  label <> Some "first"%string -> label <> Some "last"%string -> resolve_label label f l = label.
Proof.
  intros H1 H2. unfold resolve_label. destruct label as [s|]; [|reflexivity].
  destruct (String.eqb_spec s "first") as [E|_]; [subst s; congruence|].
  destruct (String.eqb_spec s "last") as [E|_]; [subst s; congruence|]. reflexivity.
Qed.

Lemma resolve_last f l : resolve_label (Some "last"%string) f l = l.
Proof. reflexivity. Qed.

Definition is_last (o : option string) : bool :=
  match o with Some s => String.eqb s "last" | None => false end.

Lemma resolve_first f l :
  resolve_label (Some "first"%string) f l = if is_last f then l else f.
Proof.
  unfold resolve_label. change (String.eqb "first" "first") with true. cbv iota.
  destruct f as [s|]; reflexivity.
Qed.

(** condensing exactly the block [d] that was appended to [h] *)
Lemma condense_log_block L n label (h d : list entry) :
  lw_hist L = h ++ d -> length d = n -> 1 <= n ->
  lw_hist (condense_log L n label) =
  h ++ [(resolve_label label (fst (hd dflt d)) (fst (last d dflt)), snd (last d dflt))].
Proof.
  intros Hh Hd Hn. rewrite condense_log_hist by exact Hn. rewrite Hh.
  rewrite firstn_app_exact by exact Hd.
  assert (Hne : d <> []) by (intro C; subst d; cbn [length] in Hd; lia).
  rewrite last_app_ne by exact Hne.
  rewrite app_length, Hd. replace (length h + n - n) with (length h) by lia.
  rewrite app_nth2 by lia. rewrite Nat.sub_diag.
  destruct d as [|x r]; [congruence|]. reflexivity.
Qed.

Lemma Forall_hd_last {A} (P : A -> Prop) (d : list A) dft :
  d <> [] -> Forall P d -> P (hd dft d) /\ P (last d dft).
Proof.
  intros Hne Hall. split.
  - destruct d as [|x r]; [congruence|]. inversion Hall; assumption.
  - rewrite Forall_forall in Hall. apply Hall.
    destruct (exists_last Hne) as (l' & a & E). subst d. rewrite last_last.
    apply in_or_app. right. left. reflexivity.
Qed.

(** all condensed entries carry the label [lb] *)
Lemma condense_log_block_label L n label lb (h d : list entry) :
  lw_hist L = h ++ d -> length d = n -> 1 <= n -> Forall (fun en => fst en = lb) d ->
  lw_hist (condense_log L n label) = h ++ [(resolve_label label lb lb, snd (last d dflt))].
Proof.
  intros Hh Hd Hn Hall. rewrite (condense_log_block L n label h d Hh Hd Hn).
  assert (Hne : d <> []) by (intro C; subst d; cbn [length] in Hd; lia).
  destruct (Forall_hd_last _ d dflt Hne Hall) as [H1 H2]. rewrite H1, H2. reflexivity.
Qed.

Lemma resolve_none_block label :
  resolve_label label None None =
  match label with
  | Some s => if String.eqb s "first" then None else if String.eqb s "last" then None else label
  | None => None
  end.
Proof.
  unfold resolve_label. destruct label as [s|]; [|reflexivity].
  destruct (String.eqb s "first"); [reflexivity|]. reflexivity.
Qed.

Lemma resolve_same label : resolve_label label label label = label.
Proof.
  unfold resolve_label. destruct label as [s|]; [|reflexivity].
  destruct (String.eqb s "first") eqn:E1.
  - destruct (String.eqb s "last"); reflexivity.
  - destruct (String.eqb s "last"); reflexivity.
Qed.

(* ------------------------------------------------------------------------------------------ *)
(** * lvh_label *)

Lemma lvh_label_zero label : lvh_label label 0 = label.
Proof. reflexivity. Qed.

Lemma lvh_label_some l k : 0 < k -> l <> EmptyString ->
  lvh_label (Some l) k = Some (l ++ " (" ++ dec k ++ " LVH steps)")%string.
Proof.
  intros Hk Hl. unfold lvh_label. destruct (Nat.eqb_spec k 0) as [C|_]; [lia|].
  destruct (String.eqb_spec l "") as [C|_]; [contradiction|]. reflexivity.
Qed.

Lemma lvh_label_empty k : 0 < k ->
  lvh_label (Some EmptyString) k = Some (dec k ++ " LVH steps")%string.
Proof. intros Hk. unfold lvh_label. destruct (Nat.eqb_spec k 0) as [C|_]; [lia|]. reflexivity. Qed.

Lemma lvh_label_none k : 0 < k -> lvh_label None k = Some (dec k ++ " LVH steps")%string.
Proof. intros Hk. unfold lvh_label. destruct (Nat.eqb_spec k 0) as [C|_]; [lia|]. reflexivity. Qed.

(* ------------------------------------------------------------------------------------------ *)
(** * aspirate / dispense: the labware part *)

Lemma st_lw_set_wl s w : st_lw (set_wl s w) = st_lw s.
Proof. reflexivity. Qed.
Lemma st_lw_set_lw s k L : st_lw (set_lw s k L) = upd (st_lw s) k L.
Proof. reflexivity. Qed.

(** the labware list after [aspirate]: labware [k] replaced by the result of [remove] *)
Lemma aspirate_lw s k wells vols label kw s' e :
  aspirate s k wells vols label kw = (s', e) ->
  match nth_error (st_lw s) k with
  | None => s' = s /\ e = Some EReject
  | Some L =>
      let r := remove L (A1 (fst (wells_vols wells vols))) (A1 (snd (wells_vols wells vols))) label in
      st_lw s' = upd (st_lw s) k (fst r) /\
      (e = None -> snd r = None) /\ (forall e0, snd r = Some e0 -> e = Some e0)
  end.
Proof.
  unfold aspirate. intro H. destruct (nth_error (st_lw s) k) as [L|] eqn:EL.
  - unfold wells_vols in *. cbv beta iota zeta in H. cbn [fst snd].
    destruct (remove L _ _ label) as [L' [e0|]] eqn:Er; cbn [fst snd].
    + inversion H; subst. split; [reflexivity|]. split; [discriminate|].
      intros e1 E1. exact E1.
    + destruct (comment (st_wl (set_lw s k L')) label) as [w [e1|]] eqn:Ec.
      * inversion H; subst. split; [reflexivity|]. split; [intros _; reflexivity|]. discriminate.
      * destruct (emit_wells true w L' _ kw) as [w' e2] eqn:Ee. inversion H; subst.
        split; [reflexivity|]. split; [intros _; reflexivity|]. discriminate.
  - inversion H. split; reflexivity.
Qed.

Lemma dispense_lw s k wells vols label comps kw s' e :
  dispense s k wells vols label comps kw = (s', e) ->
  match nth_error (st_lw s) k with
  | None => s' = s /\ e = Some EReject
  | Some L =>
      let r := add L (A1 (fst (wells_vols wells vols))) (A1 (snd (wells_vols wells vols))) label comps in
      st_lw s' = upd (st_lw s) k (fst r) /\
      (e = None -> snd r = None) /\ (forall e0, snd r = Some e0 -> e = Some e0)
  end.
Proof.
  unfold dispense. intro H. destruct (nth_error (st_lw s) k) as [L|] eqn:EL.
  - unfold wells_vols in *. cbv beta iota zeta in H. cbn [fst snd].
    destruct (add L _ _ label comps) as [L' [e0|]] eqn:Er; cbn [fst snd].
    + inversion H; subst. split; [reflexivity|]. split; [discriminate|].
      intros e1 E1. exact E1.
    + destruct (comment (st_wl (set_lw s k L')) label) as [w [e1|]] eqn:Ec.
      * inversion H; subst. split; [reflexivity|]. split; [intros _; reflexivity|]. discriminate.
      * destruct (emit_wells false w L' _ kw) as [w' e2] eqn:Ee. inversion H; subst.
        split; [reflexivity|]. split; [intros _; reflexivity|]. discriminate.
  - inversion H. split; reflexivity.
Qed.

(** what one tracked call does to one labware: [tracked L L' label ok]:
    [ok = true]: exactly one new entry, labelled [label], equal to the current volumes;
    [ok = false]: history unchanged *)
Definition tracked (L L' : labware) (label : option string) (ok : bool) : Prop :=
  if ok then lw_hist L' = lw_hist L ++ [(label, lw_vols L')] else lw_hist L' = lw_hist L.

Definition is_none {A} (o : option A) : bool := match o with None => true | Some _ => false end.

(** the form used by the property file *)
Lemma aspirate_hist s k wells vols label kw s' e :
  aspirate s k wells vols label kw = (s', e) ->
  length (st_lw s') = length (st_lw s) /\
  (forall j, j <> k -> nth_error (st_lw s') j = nth_error (st_lw s) j) /\
  (nth_error (st_lw s) k = None -> s' = s /\ e = Some EReject) /\
  forall L, nth_error (st_lw s) k = Some L ->
    let r := remove L (A1 (fst (wells_vols wells vols))) (A1 (snd (wells_vols wells vols))) label in
    nth_error (st_lw s') k = Some (fst r) /\
    tracked L (fst r) label (is_none (snd r)) /\
    (e = None -> snd r = None) /\ (forall e0, snd r = Some e0 -> e = Some e0).
Proof.
  intro H. apply aspirate_lw in H. destruct (nth_error (st_lw s) k) as [L|] eqn:EL.
  - cbv zeta in H. destruct H as (Hlw & Hok & Herr). split; [|split; [|split]].
    + rewrite Hlw. apply upd_length.
    + intros j Hj. rewrite Hlw. apply nth_error_upd_other. exact Hj.
    + discriminate.
    + intros L0 E0. inversion E0; subst L0. cbv zeta. split; [|split; [|split]].
      * rewrite Hlw. exact (nth_error_upd_same _ _ _ _ EL).
      * destruct (remove L _ _ label) as [L' e0] eqn:Er. cbn [fst snd].
        pose proof (remove_hist _ _ _ _ _ _ Er) as Hh. unfold tracked.
        destruct e0 as [e0|]; exact Hh.
      * exact Hok.
      * exact Herr.
  - destruct H as [Hs He]. subst s'. split; [reflexivity|]. split; [reflexivity|].
    split; [intros _; split; [reflexivity|exact He]|]. discriminate.
Qed.

Lemma dispense_hist s k wells vols label comps kw s' e :
  dispense s k wells vols label comps kw = (s', e) ->
  length (st_lw s') = length (st_lw s) /\
  (forall j, j <> k -> nth_error (st_lw s') j = nth_error (st_lw s) j) /\
  (nth_error (st_lw s) k = None -> s' = s /\ e = Some EReject) /\
  forall L, nth_error (st_lw s) k = Some L ->
    let r := add L (A1 (fst (wells_vols wells vols))) (A1 (snd (wells_vols wells vols))) label comps in
    nth_error (st_lw s') k = Some (fst r) /\
    tracked L (fst r) label (is_none (snd r)) /\
    (e = None -> snd r = None) /\ (forall e0, snd r = Some e0 -> e = Some e0).
Proof.
  intro H. apply dispense_lw in H. destruct (nth_error (st_lw s) k) as [L|] eqn:EL.
  - cbv zeta in H. destruct H as (Hlw & Hok & Herr). split; [|split; [|split]].
    + rewrite Hlw. apply upd_length.
    + intros j Hj. rewrite Hlw. apply nth_error_upd_other. exact Hj.
    + discriminate.
    + intros L0 E0. inversion E0; subst L0. cbv zeta. split; [|split; [|split]].
      * rewrite Hlw. exact (nth_error_upd_same _ _ _ _ EL).
      * destruct (add L _ _ label comps) as [L' e0] eqn:Er. cbn [fst snd].
        pose proof (add_hist _ _ _ _ _ _ _ Er) as Hh. unfold tracked.
        destruct e0 as [e0|]; exact Hh.
      * exact Hok.
      * exact Herr.
  - destruct H as [Hs He]. subst s'. split; [reflexivity|]. split; [reflexivity|].
    split; [intros _; split; [reflexivity|exact He]|]. discriminate.
Qed.

(* ------------------------------------------------------------------------------------------ *)
(** * execution of a transfer plan *)

(** growth of one labware by a block [d] of unlabelled entries; if the block is empty the labware
    is untouched, otherwise the newest snapshot equals the current volumes *)
Definition ext1 (L L' : labware) (d : list entry) : Prop :=
  lw_hist L' = lw_hist L ++ d /\ Forall (fun en => fst en = None) d /\
  ((d = [] /\ L' = L) \/ (d <> [] /\ snd (last d dflt) = lw_vols L')).

Lemma ext1_refl L : ext1 L L [].
Proof.
  split; [symmetry; apply app_nil_r|]. split; [constructor|]. left. split; reflexivity.
Qed.

Lemma ext1_trans L L1 L2 d1 d2 : ext1 L L1 d1 -> ext1 L1 L2 d2 -> ext1 L L2 (d1 ++ d2).
Proof.
  intros (H1 & F1 & C1) (H2 & F2 & C2). split; [|split].
  - rewrite H2, H1, app_assoc. reflexivity.
  - apply Forall_app. split; assumption.
  - destruct C2 as [[E2 EL]|[N2 V2]].
    + subst d2 L2. rewrite app_nil_r. exact C1.
    + right. split.
      * intro C. apply app_eq_nil in C. destruct C as [_ C]. contradiction.
      * rewrite last_app_ne by exact N2. exact V2.
Qed.

Lemma ext1_one L L' : lw_hist L' = lw_hist L ++ [(None, lw_vols L')] -> ext1 L L' [(None, lw_vols L')].
Proof.
  intro H. split; [exact H|]. split; [constructor; [reflexivity|constructor]|].
  right. split; [discriminate|reflexivity].
Qed.

(** state level: every labware [j] grows by a block of [cnt j] entries *)
Definition sext (s s' : state) (cnt : nat -> nat) : Prop :=
  length (st_lw s') = length (st_lw s) /\
  forall j L, nth_error (st_lw s) j = Some L ->
    exists L' d, nth_error (st_lw s') j = Some L' /\ ext1 L L' d /\ length d = cnt j.

Lemma sext_refl s : sext s s (fun _ => 0).
Proof.
  split; [reflexivity|]. intros j L H. exists L, []. split; [exact H|]. split; [apply ext1_refl|reflexivity].
Qed.

Lemma sext_trans s s1 s2 c1 c2 :
  sext s s1 c1 -> sext s1 s2 c2 -> sext s s2 (fun j => c1 j + c2 j).
Proof.
  intros [Hl1 H1] [Hl2 H2]. split; [congruence|]. intros j L HL.
  destruct (H1 j L HL) as (L1 & d1 & E1 & X1 & N1).
  destruct (H2 j L1 E1) as (L2 & d2 & E2 & X2 & N2).
  exists L2, (d1 ++ d2). split; [exact E2|]. split; [exact (ext1_trans _ _ _ _ _ X1 X2)|].
  rewrite app_length. lia.
Qed.

Lemma sext_cnt_ext s s' c c' : (forall j, c j = c' j) -> sext s s' c -> sext s s' c'.
Proof.
  intros Hc [Hl H]. split; [exact Hl|]. intros j L HL.
  destruct (H j L HL) as (L' & d & E & X & N). exists L', d. rewrite <- Hc. auto.
Qed.

Lemma sext_set_wl_l s w s' c : sext s s' c -> sext (set_wl s w) s' c.
Proof. intro H. exact H. Qed.
Lemma sext_set_wl_r s w s' c : sext s s' c -> sext s (set_wl s' w) c.
Proof. intro H. exact H. Qed.

(** where nothing is counted nothing changed *)
Lemma sext_zero s s' c j : sext s s' c -> c j = 0 -> nth_error (st_lw s') j = nth_error (st_lw s) j.
Proof.
  intros [Hl H] Hc. destruct (nth_error (st_lw s) j) as [L|] eqn:E.
  - destruct (H j L E) as (L' & d & E' & (Hh & Hf & [[Hd HL]|[Hd _]]) & N).
    + subst L'. exact E'.
    + rewrite Hc in N. destruct d; [congruence|discriminate].
  - apply nth_error_None in E. apply nth_error_None. lia.
Qed.

Definition hit (k j : nat) : nat := if (j =? k)%nat then 1 else 0.
Definition hits (ks kd j : nat) : nat := hit ks j + hit kd j.

(** weaker relation for an arbitrary outcome: the histories of [ks], [kd] only grow, by unlabelled
    entries; everything else is untouched *)
Definition pext (L L' : labware) : Prop :=
  exists d, lw_hist L' = lw_hist L ++ d /\ Forall (fun en : entry => fst en = None) d.

Definition spext (s s' : state) (ks kd : nat) : Prop :=
  length (st_lw s') = length (st_lw s) /\
  (forall j, j <> ks -> j <> kd -> nth_error (st_lw s') j = nth_error (st_lw s) j) /\
  forall j L, nth_error (st_lw s) j = Some L ->
    exists L', nth_error (st_lw s') j = Some L' /\ pext L L'.

Lemma pext_refl L : pext L L.
Proof. exists []. split; [symmetry; apply app_nil_r|constructor]. Qed.

Lemma pext_trans L L1 L2 : pext L L1 -> pext L1 L2 -> pext L L2.
Proof.
  intros (d1 & H1 & F1) (d2 & H2 & F2). exists (d1 ++ d2). split.
  - rewrite H2, H1, app_assoc. reflexivity.
  - apply Forall_app. split; assumption.
Qed.

Lemma spext_refl s ks kd : spext s s ks kd.
Proof.
  split; [reflexivity|]. split; [reflexivity|]. intros j L H. exists L. split; [exact H|apply pext_refl].
Qed.

Lemma spext_trans s s1 s2 ks kd : spext s s1 ks kd -> spext s1 s2 ks kd -> spext s s2 ks kd.
Proof.
  intros (Hl1 & Ho1 & H1) (Hl2 & Ho2 & H2). split; [congruence|]. split.
  - intros j Hs Hd. rewrite Ho2, Ho1 by assumption. reflexivity.
  - intros j L HL. destruct (H1 j L HL) as (L1 & E1 & P1). destruct (H2 j L1 E1) as (L2 & E2 & P2).
    exists L2. split; [exact E2|exact (pext_trans _ _ _ P1 P2)].
Qed.

Lemma tracked_pext L L' ok : tracked L L' None ok -> pext L L'.
Proof.
  unfold tracked. destruct ok; intro H.
  - exists [(None, lw_vols L')]. split; [exact H|]. constructor; [reflexivity|constructor].
  - exists []. split; [rewrite app_nil_r; exact H|constructor].
Qed.

(** a change of labware [k] only *)
Lemma spext_single s s' k ks kd :
  (k = ks \/ k = kd) ->
  length (st_lw s') = length (st_lw s) ->
  (forall j, j <> k -> nth_error (st_lw s') j = nth_error (st_lw s) j) ->
  (forall L, nth_error (st_lw s) k = Some L ->
     exists L', nth_error (st_lw s') k = Some L' /\ pext L L') ->
  spext s s' ks kd.
Proof.
  intros Hk Hl Ho Hs. split; [exact Hl|]. split.
  - intros j H1 H2. apply Ho. destruct Hk; congruence.
  - intros j L HL. destruct (Nat.eq_dec j k) as [E|E].
    + subst j. exact (Hs L HL).
    + exists L. split; [rewrite Ho by exact E; exact HL|apply pext_refl].
Qed.

Lemma aspirate_spext s k wells vols kw s' e ks kd :
  (k = ks \/ k = kd) -> aspirate s k wells vols None kw = (s', e) -> spext s s' ks kd.
Proof.
  intros Hk H. destruct (aspirate_hist _ _ _ _ _ _ _ _ H) as (Hl & Ho & _ & Hs).
  apply (spext_single s s' k ks kd Hk Hl Ho). intros L HL.
  destruct (Hs L HL) as (E & T & _). cbv zeta in E, T.
  eexists. split; [exact E|]. exact (tracked_pext _ _ _ T).
Qed.

Lemma dispense_spext s k wells vols comps kw s' e ks kd :
  (k = ks \/ k = kd) -> dispense s k wells vols None comps kw = (s', e) -> spext s s' ks kd.
Proof.
  intros Hk H. destruct (dispense_hist _ _ _ _ _ _ _ _ _ H) as (Hl & Ho & _ & Hs).
  apply (spext_single s s' k ks kd Hk Hl Ho). intros L HL.
  destruct (Hs L HL) as (E & T & _). cbv zeta in E, T.
  eexists. split; [exact E|]. exact (tracked_pext _ _ _ T).
Qed.

(** a successful change of labware [k] only, by one entry *)
Lemma sext_single s s' k :
  length (st_lw s') = length (st_lw s) ->
  (forall j, j <> k -> nth_error (st_lw s') j = nth_error (st_lw s) j) ->
  (forall L, nth_error (st_lw s) k = Some L ->
     exists L', nth_error (st_lw s') k = Some L' /\
                lw_hist L' = lw_hist L ++ [(None, lw_vols L')]) ->
  sext s s' (hit k).
Proof.
  intros Hl Ho Hs. split; [exact Hl|]. intros j L HL. unfold hit.
  destruct (Nat.eqb_spec j k) as [E|E].
  - subst j. destruct (Hs L HL) as (L' & E' & Hh). exists L', [(None, lw_vols L')].
    split; [exact E'|]. split; [exact (ext1_one _ _ Hh)|reflexivity].
  - exists L, []. split; [rewrite Ho by exact E; exact HL|]. split; [apply ext1_refl|reflexivity].
Qed.

Lemma aspirate_sext s k wells vols kw s' :
  aspirate s k wells vols None kw = (s', None) ->
  sext s s' (hit k) /\ exists L, nth_error (st_lw s) k = Some L.
Proof.
  intro H. destruct (aspirate_hist _ _ _ _ _ _ _ _ H) as (Hl & Ho & Hn & Hs).
  destruct (nth_error (st_lw s) k) as [L|] eqn:EL.
  - split; [|exists L; reflexivity]. apply (sext_single s s' k Hl Ho).
    intros L0 E0. rewrite EL in E0. inversion E0; subst L0.
    destruct (Hs L eq_refl) as (E & T & Hok & _). cbv zeta in E, T, Hok.
    eexists. split; [exact E|]. rewrite (Hok eq_refl) in T. exact T.
  - destruct (Hn eq_refl) as [_ C]. discriminate.
Qed.

Lemma dispense_sext s k wells vols comps kw s' :
  dispense s k wells vols None comps kw = (s', None) ->
  sext s s' (hit k) /\ exists L, nth_error (st_lw s) k = Some L.
Proof.
  intro H. destruct (dispense_hist _ _ _ _ _ _ _ _ _ H) as (Hl & Ho & Hn & Hs).
  destruct (nth_error (st_lw s) k) as [L|] eqn:EL.
  - split; [|exists L; reflexivity]. apply (sext_single s s' k Hl Ho).
    intros L0 E0. rewrite EL in E0. inversion E0; subst L0.
    destruct (Hs L eq_refl) as (E & T & Hok & _). cbv zeta in E, T, Hok.
    eexists. split; [exact E|]. rewrite (Hok eq_refl) in T. exact T.
  - destruct (Hn eq_refl) as [_ C]. discriminate.
Qed.

Lemma exec_step_spext s ks kd sw dw v ws kw s' e :
  exec_step s ks kd sw dw v ws kw = (s', e) -> spext s s' ks kd.
Proof.
  unfold exec_step. intro H.
  destruct (aspirate s ks (A0 sw) (A0 (XQ v)) None kw) as [s1 e1] eqn:Ea.
  pose proof (aspirate_spext _ _ _ _ _ _ _ ks kd (or_introl eq_refl) Ea) as P1.
  destruct e1 as [e1|]; [inversion H; subst; exact P1|].
  destruct (nth_error (st_lw s1) ks) as [Ls|]; [|inversion H; subst; exact P1].
  destruct (get_well_composition Ls sw) as [c|e2]; [|inversion H; subst; exact P1].
  destruct (dispense s1 kd (A0 dw) (A0 (XQ v)) None (Some [Some c]) kw) as [s2 e2] eqn:Ed.
  pose proof (dispense_spext _ _ _ _ _ _ _ _ ks kd (or_intror eq_refl) Ed) as P2.
  pose proof (spext_trans _ _ _ _ _ P1 P2) as P.
  destruct e2 as [e2|]; [inversion H; subst; exact P|].
  destruct (tip_action (st_wl s2) ws) as [w e3]. inversion H; subst. exact P.
Qed.

Lemma exec_step_sext s ks kd sw dw v ws kw s' :
  exec_step s ks kd sw dw v ws kw = (s', None) ->
  sext s s' (hits ks kd) /\ (exists Ls, nth_error (st_lw s) ks = Some Ls) /\
  (exists Ld, nth_error (st_lw s) kd = Some Ld).
Proof.
  unfold exec_step. intro H.
  destruct (aspirate s ks (A0 sw) (A0 (XQ v)) None kw) as [s1 e1] eqn:Ea.
  destruct e1 as [e1|]; [discriminate|].
  destruct (aspirate_sext _ _ _ _ _ _ Ea) as [X1 Hs].
  destruct (nth_error (st_lw s1) ks) as [Ls|]; [|discriminate].
  destruct (get_well_composition Ls sw) as [c|e2]; [|discriminate].
  destruct (dispense s1 kd (A0 dw) (A0 (XQ v)) None (Some [Some c]) kw) as [s2 e2] eqn:Ed.
  destruct e2 as [e2|]; [inversion H|].
  destruct (dispense_sext _ _ _ _ _ _ _ Ed) as [X2 Hd].
  destruct (tip_action (st_wl s2) ws) as [w e3]. inversion H; subst.
  split; [|split].
  - apply sext_set_wl_r. exact (sext_trans _ _ _ _ _ X1 X2).
  - exact Hs.
  - destruct Hd as [Ld Hd]. destruct X1 as [Hl _].
    destruct (nth_error (st_lw s) kd) as [Ld0|] eqn:E0; [exists Ld0; reflexivity|].
    apply nth_error_None in E0. assert (C : nth_error (st_lw s1) kd = None) by (apply nth_error_None; lia).
    congruence.
Qed.

Lemma n_steps_nil : n_steps [] = 0.
Proof. reflexivity. Qed.
Lemma n_steps_step sw dw v rest : n_steps (Step sw dw v :: rest) = S (n_steps rest).
Proof. reflexivity. Qed.
Lemma n_steps_commit rest : n_steps (Commit :: rest) = n_steps rest.
Proof. reflexivity. Qed.
Lemma n_steps_app a b : n_steps (a ++ b) = n_steps a + n_steps b.
Proof. unfold n_steps. rewrite filter_app, app_length. reflexivity. Qed.

Lemma exec_spext : forall acts s ks kd ws kw s' e,
  exec s ks kd acts ws kw = (s', e) -> spext s s' ks kd.
Proof.
  induction acts as [|a rest IH]; intros s ks kd ws kw s' e H; cbn [exec] in H.
  - inversion H; subst. apply spext_refl.
  - destruct a as [sw dw v|].
    + destruct (exec_step s ks kd sw dw v ws kw) as [s1 e1] eqn:Es.
      pose proof (exec_step_spext _ _ _ _ _ _ _ _ _ _ Es) as P1.
      destruct e1 as [e1|]; [inversion H; subst; exact P1|].
      exact (spext_trans _ _ _ _ _ P1 (IH _ _ _ _ _ _ _ H)).
    + exact (IH _ _ _ _ _ _ _ H).
Qed.

Lemma exec_sext : forall acts s ks kd ws kw s',
  exec s ks kd acts ws kw = (s', None) ->
  sext s s' (fun j => hits ks kd j * n_steps acts).
Proof.
  induction acts as [|a rest IH]; intros s ks kd ws kw s' H; cbn [exec] in H.
  - inversion H; subst. apply (sext_cnt_ext _ _ (fun _ => 0)); [intro j; rewrite n_steps_nil; lia|].
    apply sext_refl.
  - destruct a as [sw dw v|].
    + destruct (exec_step s ks kd sw dw v ws kw) as [s1 e1] eqn:Es.
      destruct e1 as [e1|]; [discriminate|].
      destruct (exec_step_sext _ _ _ _ _ _ _ _ _ Es) as [X1 _].
      pose proof (sext_trans _ _ _ _ _ X1 (IH _ _ _ _ _ _ H)) as X.
      refine (sext_cnt_ext _ _ _ _ _ X). intro j. cbv beta. rewrite n_steps_step. lia.
    + apply (sext_cnt_ext _ _ (fun j => hits ks kd j * n_steps rest));
        [intro j; rewrite n_steps_commit; reflexivity|].
      exact (IH _ _ _ _ _ _ H).
Qed.

(** the statement used by the property file *)
Lemma exec_hist s ks kd acts ws kw s' e :
  exec s ks kd acts ws kw = (s', e) ->
  (forall j, j <> ks -> j <> kd -> nth_error (st_lw s') j = nth_error (st_lw s) j) /\
  (forall j L, nth_error (st_lw s) j = Some L ->
     exists L' d, nth_error (st_lw s') j = Some L' /\ lw_hist L' = lw_hist L ++ d /\
                  Forall (fun en : entry => fst en = None) d) /\
  (e = None ->
   forall j L, nth_error (st_lw s) j = Some L ->
     exists L' d, nth_error (st_lw s') j = Some L' /\ lw_hist L' = lw_hist L ++ d /\
                  Forall (fun en : entry => fst en = None) d /\
                  length d = (if (j =? ks)%nat then n_steps acts else 0) +
                             (if (j =? kd)%nat then n_steps acts else 0) /\
                  (d <> [] -> snd (last d dflt) = lw_vols L')).
Proof.
  intro H. destruct (exec_spext _ _ _ _ _ _ _ _ H) as (_ & Ho & Hp). split; [exact Ho|]. split.
  - intros j L HL. destruct (Hp j L HL) as (L' & E' & d & Hh & Hf). exists L', d. auto.
  - intro He. subst e. destruct (exec_sext _ _ _ _ _ _ _ H) as [_ Hx]. intros j L HL.
    destruct (Hx j L HL) as (L' & d & E' & (Hh & Hf & Hc) & Hn). exists L', d.
    split; [exact E'|]. split; [exact Hh|]. split; [exact Hf|]. split.
    + rewrite Hn. unfold hits, hit. destruct (j =? ks)%nat; destruct (j =? kd)%nat; lia.
    + intro Hne. destruct Hc as [[C _]|[_ C]]; [contradiction|exact C].
Qed.

(* ------------------------------------------------------------------------------------------ *)
(** * counting the steps of a plan *)

Fixpoint nsum (l : list nat) : nat := match l with [] => 0 | x :: r => x + nsum r end.

Lemma nsum_app a b : nsum (a ++ b) = nsum a + nsum b.
Proof. induction a as [|x r IH]; cbn [app nsum]; [reflexivity|]. rewrite IH. lia. Qed.

Lemma nsum_map_add {A} (f g : A -> nat) l :
  nsum (map (fun x => f x + g x) l) = nsum (map f l) + nsum (map g l).
Proof. induction l as [|x r IH]; cbn [map nsum]; [reflexivity|]. rewrite IH. lia. Qed.

Lemma nsum_map_zero {A} (l : list A) : nsum (map (fun _ => 0) l) = 0.
Proof. induction l as [|x r IH]; cbn [map nsum]; [reflexivity|exact IH]. Qed.

Lemma nsum_perm l l' : Permutation l l' -> nsum l = nsum l'.
Proof.
  induction 1 as [|x l l' Hp IH|x y l|l l' l'' Hp1 IH1 Hp2 IH2]; cbn [nsum]; lia.
Qed.

Lemma nsum_concat {A} (f : A -> nat) (L : list (list A)) :
  nsum (map (fun g => nsum (map f g)) L) = nsum (map f (concat L)).
Proof.
  induction L as [|g r IH]; cbn [map concat nsum]; [reflexivity|].
  rewrite map_app, nsum_app, IH. reflexivity.
Qed.

Lemma n_steps_flat_map {A} (F : A -> list action) l :
  n_steps (flat_map F l) = nsum (map (fun x => n_steps (F x)) l).
Proof.
  induction l as [|x r IH]; cbn [flat_map map nsum]; [reflexivity|].
  rewrite n_steps_app, IH. reflexivity.
Qed.

(** the [p]-th volume of a row is a positive one *)
Definition ind (l : list Q) (p : nat) : nat :=
  match nth_error l p with Some v => if Qltb 0 v then 1 else 0 | None => 0 end.

Lemma n_steps_pass p rows :
  n_steps (pass_steps p rows) = nsum (map (fun t => ind (snd t) p) rows).
Proof.
  unfold pass_steps. rewrite n_steps_flat_map. apply f_equal. apply map_ext. intro t.
  unfold ind. destruct (nth_error (snd t) p) as [v|]; [|reflexivity].
  destruct (Qltb 0 v); reflexivity.
Qed.

Lemma ind_sum : forall l np, length l <= np ->
  nsum (map (ind l) (seq 0 np)) = length (filter (Qltb 0) l).
Proof.
  induction l as [|x xs IH]; intros np H.
  - rewrite (map_ext (ind []) (fun _ => 0)); [apply nsum_map_zero|].
    intros [|p]; reflexivity.
  - destruct np as [|np]; [cbn [length] in H; lia|].
    cbn [seq map nsum]. rewrite <- seq_shift, map_map.
    rewrite (map_ext (fun p => ind (x :: xs) (S p)) (ind xs)) by (intro p; reflexivity).
    rewrite IH by (cbn [length] in H; lia).
    unfold ind at 1. cbn [nth_error filter]. destruct (Qltb 0 x); cbn [length]; lia.
Qed.

Lemma swap_sum (rows : list (string * string * list Q)) np :
  (forall t, In t rows -> length (snd t) <= np) ->
  nsum (map (fun p => nsum (map (fun t => ind (snd t) p) rows)) (seq 0 np)) =
  nsum (map (fun t => length (filter (Qltb 0) (snd t))) rows).
Proof.
  induction rows as [|t r IH]; intro H.
  - cbn [map nsum]. apply nsum_map_zero.
  - cbn [map nsum].
    rewrite (nsum_map_add (ind (snd t)) (fun p => nsum (map (fun t0 => ind (snd t0) p) r))).
    rewrite IH by (intros t0 H0; apply H; right; exact H0).
    rewrite (ind_sum (snd t) np) by (apply H; left; reflexivity). reflexivity.
Qed.

Lemma max_len_bound (rows : list (string * string * list Q)) t :
  In t rows -> length (snd t) <= fold_right (fun t acc => Nat.max (length (snd t)) acc) 0 rows.
Proof.
  induction rows as [|x r IH]; intro H; [destruct H|]. cbn [fold_right].
  destruct H as [H|H]; [subst x; lia|]. specialize (IH H). lia.
Qed.

(** positive entries of the volume list of a triple *)
Definition pos_count (autosplit : bool) (m : Q) (t : triple) : nat :=
  length (filter (Qltb 0) (vol_list autosplit m (snd t))).

Lemma n_steps_group a m g : n_steps (group_plan a m g) = nsum (map (pos_count a m) g).
Proof.
  unfold group_plan. cbv zeta.
  set (rows := map (fun t : triple => (fst (fst t), snd (fst t), vol_list a m (snd t))) g).
  set (np := fold_right (fun t acc => Nat.max (length (snd t)) acc) 0 rows).
  rewrite n_steps_app.
  assert (Hz : forall b : bool, n_steps (if b then [Commit] else []) = 0) by (intros []; reflexivity).
  rewrite Hz.
  rewrite n_steps_flat_map.
  rewrite (map_ext _ (fun p => nsum (map (fun t => ind (snd t) p) rows))).
  - rewrite swap_sum by (intros t Ht; apply max_len_bound; exact Ht).
    unfold rows. rewrite map_map. rewrite Nat.add_0_r. reflexivity.
  - intro p. rewrite n_steps_app, n_steps_pass, Hz. apply Nat.add_0_r.
Qed.

(** the number of steps of a plan does not depend on the grouping *)
Lemma n_steps_plan a m mode triples :
  n_steps (plan a m mode triples) = nsum (map (pos_count a m) triples).
Proof.
  unfold plan. rewrite n_steps_flat_map.
  rewrite (map_ext _ (fun g => nsum (map (pos_count a m) g))) by (intro g; apply n_steps_group).
  rewrite nsum_concat. apply nsum_perm. apply Permutation_map. apply partition_by_column_perm.
Qed.

Lemma n_steps_plan_mode a m mode mode' triples :
  n_steps (plan a m mode triples) = n_steps (plan a m mode' triples).
Proof. rewrite !n_steps_plan. reflexivity. Qed.

Lemma Qltb_pos x : (0 < x)%Q -> Qltb 0 x = true.
Proof.
  intro H. destruct (Qltb 0 x) eqn:E; [reflexivity|]. apply Qltb_false in E. lra.
Qed.

Lemma filter_all {A} (p : A -> bool) l : Forall (fun x => p x = true) l -> filter p l = l.
Proof.
  induction 1 as [|x r Hx Hr IH]; [reflexivity|]. cbn [filter]. rewrite Hx, IH. reflexivity.
Qed.

Lemma vol_list_count a m v : (0 < m)%Q ->
  (length (vol_list a m v) - 1) + (if Qltb 0 v then 1 else 0)
  = length (filter (Qltb 0) (vol_list a m v)).
Proof.
  intro Hm. unfold vol_list. destruct a.
  - destruct (Qeq_bool v 0) eqn:E0.
    + apply Qeq_bool_iff in E0. rewrite (partition_volume_zero v m E0).
      assert (E : Qltb 0 v = false).
      { destruct (Qltb 0 v) eqn:E; [|reflexivity]. apply Qltb_true in E. lra. }
      rewrite E. reflexivity.
    + destruct (Qltb 0 v) eqn:Ep.
      * apply Qltb_true in Ep. destruct (partition_volume_spec v m Hm Ep) as (Hlen & Hall & _).
        rewrite filter_all.
        -- assert (1 <= length (partition_volume v m)) by lia. lia.
        -- apply Forall_forall. intros x Hx. rewrite Forall_forall in Hall.
           apply Qltb_pos. exact (proj1 (Hall x Hx)).
      * apply Qltb_false in Ep.
        assert (Hneg : (v < 0)%Q).
        { apply Qnot_le_lt. intro C. assert (E : (v == 0)%Q) by lra.
          apply Qeq_bool_iff in E. congruence. }
        unfold partition_volume. rewrite E0.
        assert (Elt : Qltb v m = true).
        { destruct (Qltb v m) eqn:E; [reflexivity|]. apply Qltb_false in E. lra. }
        rewrite Elt. cbn [filter length].
        assert (E : Qltb 0 v = false).
        { destruct (Qltb 0 v) eqn:E; [|reflexivity]. apply Qltb_true in E. lra. }
        rewrite E. reflexivity.
  - cbn [length filter]. destruct (Qltb 0 v); reflexivity.
Qed.

Lemma lvh_count_sum a m triples : (0 < m)%Q ->
  lvh_extra a m triples + length (filter (fun t : triple => Qltb 0 (snd t)) triples)
  = nsum (map (pos_count a m) triples).
Proof.
  intro Hm. induction triples as [|t r IH]; [reflexivity|].
  unfold lvh_extra in *. cbn [fold_right map nsum filter]. unfold pos_count at 1.
  rewrite <- (vol_list_count a m (snd t) Hm), <- IH.
  destruct (Qltb 0 (snd t)); cbn [length]; lia.
Qed.

Lemma lvh_count a m mode triples : (0 < m)%Q ->
  lvh_extra a m triples + length (filter (fun t : triple => Qltb 0 (snd t)) triples)
  = n_steps (plan a m mode triples).
Proof. intro Hm. rewrite n_steps_plan. apply lvh_count_sum. exact Hm. Qed.

(* ------------------------------------------------------------------------------------------ *)
(** * transfer *)

Lemma condense_at_same s k n lab L :
  nth_error (st_lw s) k = Some L ->
  nth_error (st_lw (condense_at s k n lab)) k = Some (condense_log L n lab).
Proof.
  intro H. unfold condense_at. rewrite H. cbn [st_lw set_lw]. exact (nth_error_upd_same _ _ _ _ H).
Qed.

Lemma condense_at_other s k n lab j :
  j <> k -> nth_error (st_lw (condense_at s k n lab)) j = nth_error (st_lw s) j.
Proof.
  intro H. unfold condense_at. destruct (nth_error (st_lw s) k) as [L|]; [|reflexivity].
  cbn [st_lw set_lw]. apply nth_error_upd_other. exact H.
Qed.

Lemma condense_at_length s k n lab : length (st_lw (condense_at s k n lab)) = length (st_lw s).
Proof.
  unfold condense_at. destruct (nth_error (st_lw s) k) as [L|]; [|reflexivity].
  cbn [st_lw set_lw]. apply upd_length.
Qed.

Lemma condense_at_zero s k lab : st_lw (condense_at s k 0 lab) = st_lw s.
Proof.
  unfold condense_at. destruct (nth_error (st_lw s) k) as [L|] eqn:E; [|reflexivity].
  rewrite condense_log_zero. cbn [st_lw set_lw]. exact (upd_same _ _ _ E).
Qed.

Lemma comment_params w c w' e :
  comment w c = (w', e) -> w_max w' = w_max w /\ w_autosplit w' = w_autosplit w.
Proof.
  unfold comment. intro H. destruct c as [s|]; [|inversion H; split; reflexivity].
  destruct (String.eqb s ""); [inversion H; split; reflexivity|].
  destruct (contains_char semi s); inversion H; split; reflexivity.
Qed.

(** the (source, destination, volume) triples of a transfer call *)
Definition transfer_triples (swells dwells : arr string) (vols : arr Q) : list triple :=
  let sw := flattenF swells in
  let dw := flattenF dwells in
  let vs := flattenF vols in
  let nmax := Nat.max (length sw) (Nat.max (length dw) (length vs)) in
  zip (zip (broadcast sw nmax) (broadcast dw nmax)) (broadcast vs nmax).

Lemma transfer_ok_inv s ks swells kd dwells vols label ws pb kw s' :
  transfer s ks swells kd dwells vols label ws pb kw = (s', None) ->
  exists Ls Ld mode w s1,
    nth_error (st_lw s) ks = Some Ls /\ nth_error (st_lw s) kd = Some Ld /\
    comment (st_wl s) label = (w, None) /\
    let triples := transfer_triples swells dwells vols in
    let acts := plan (w_autosplit w) (w_max w) mode triples in
    let lab := lvh_label label (lvh_extra (w_autosplit w) (w_max w) triples) in
    exec (set_wl s w) ks kd acts ws kw = (s1, None) /\
    s' = if (ks =? kd)%nat then condense_at s1 ks (2 * n_steps acts) lab
         else condense_at (condense_at s1 ks (n_steps acts) lab) kd (n_steps acts) lab.
Proof.
  unfold transfer. intro H.
  destruct (w_dev (st_wl s)); [| |discriminate].
  all: destruct (nth_error (st_lw s) ks) as [Ls|] eqn:ELs; [|discriminate].
  all: destruct (nth_error (st_lw s) kd) as [Ld|] eqn:ELd; [|discriminate].
  all: cbv zeta in H; fold (transfer_triples swells dwells vols) in H.
  all: match type of H with (if ?c then _ else _) = _ => destruct c end; [discriminate|].
  all: match type of H with (if ?c then _ else _) = _ => destruct c end; [discriminate|].
  all: match type of H with (if ?c then _ else _) = _ => destruct c end; [discriminate|].
  all: destruct (optimize_partition_by (is_trough (lw_geom Ls)) (is_trough (lw_geom Ld)) pb)
    as [mode|e0]; [|discriminate].
  all: destruct (comment (st_wl s) label) as [w [e1|]] eqn:Ec; [discriminate|].
  all: destruct (exec (set_wl s w) ks kd _ ws kw) as [s1 [e2|]] eqn:Ee; [discriminate|].
  all: exists Ls, Ld, mode, w, s1; split; [reflexivity|]; split; [reflexivity|];
    split; [reflexivity|]; cbv zeta; split; [exact Ee|].
  all: destruct (ks =? kd)%nat; inversion H; reflexivity.
Qed.

(** condensing the block that a plan execution appended *)
Lemma condense_ext1 L L1 d n lab :
  ext1 L L1 d -> length d = n -> 1 <= n ->
  lw_hist (condense_log L1 n lab) =
  lw_hist L ++ [(resolve_label lab None None, lw_vols (condense_log L1 n lab))].
Proof.
  intros (Hh & Hf & Hc) Hd Hn.
  rewrite (condense_log_block_label L1 n lab None _ d Hh Hd Hn Hf). rewrite condense_log_vols.
  destruct Hc as [[C _]|[_ C]]; [subst d; cbn [length] in Hd; lia|]. rewrite C. reflexivity.
Qed.

Lemma hits_same k : hits k k k = 2.
Proof. unfold hits, hit. rewrite Nat.eqb_refl. reflexivity. Qed.
Lemma hits_src ks kd : ks <> kd -> hits ks kd ks = 1.
Proof.
  intro H. unfold hits, hit. rewrite Nat.eqb_refl.
  destruct (Nat.eqb_spec ks kd) as [C|_]; [contradiction|reflexivity].
Qed.
Lemma hits_dst ks kd : ks <> kd -> hits ks kd kd = 1.
Proof.
  intro H. unfold hits, hit. rewrite Nat.eqb_refl.
  destruct (Nat.eqb_spec kd ks) as [C|_]; [congruence|reflexivity].
Qed.
Lemma hits_other ks kd j : j <> ks -> j <> kd -> hits ks kd j = 0.
Proof.
  intros H1 H2. unfold hits, hit.
  destruct (Nat.eqb_spec j ks) as [C|_]; [contradiction|].
  destruct (Nat.eqb_spec j kd) as [C|_]; [contradiction|reflexivity].
Qed.

Lemma transfer_hist s ks swells kd dwells vols label ws pb kw s' :
  transfer s ks swells kd dwells vols label ws pb kw = (s', None) ->
  forall mode,
  let triples := transfer_triples swells dwells vols in
  let a := w_autosplit (st_wl s) in
  let m := w_max (st_wl s) in
  let n := n_steps (plan a m mode triples) in
  let lab := lvh_label label (lvh_extra a m triples) in
  (n = 0 -> st_lw s' = st_lw s) /\
  (1 <= n ->
   (forall j, j <> ks -> j <> kd -> nth_error (st_lw s') j = nth_error (st_lw s) j) /\
   exists Ls Ld Ls' Ld',
     nth_error (st_lw s) ks = Some Ls /\ nth_error (st_lw s) kd = Some Ld /\
     nth_error (st_lw s') ks = Some Ls' /\ nth_error (st_lw s') kd = Some Ld' /\
     lw_hist Ls' = lw_hist Ls ++ [(resolve_label lab None None, lw_vols Ls')] /\
     lw_hist Ld' = lw_hist Ld ++ [(resolve_label lab None None, lw_vols Ld')]).
Proof.
  intros H mode.
  destruct (transfer_ok_inv _ _ _ _ _ _ _ _ _ _ _ H) as (Ls & Ld & mode0 & w & s1 & ELs & ELd & Ec & Hx).
  cbv zeta in Hx. destruct Hx as [Ee Es'].
  destruct (comment_params _ _ _ _ Ec) as [Em Ea].
  pose proof (exec_sext _ _ _ _ _ _ _ Ee) as X.
  rewrite Em, Ea in X, Es'.
  rewrite (n_steps_plan_mode _ _ mode0 mode) in X, Es'.
  cbv zeta.
  set (n := n_steps (plan (w_autosplit (st_wl s)) (w_max (st_wl s)) mode
                          (transfer_triples swells dwells vols))) in *.
  set (lab := lvh_label label (lvh_extra (w_autosplit (st_wl s)) (w_max (st_wl s))
                                         (transfer_triples swells dwells vols))) in *.
  assert (X' : sext s s1 (fun j => hits ks kd j * n)) by exact X. clear X.
  split.
  - intro Hn0. assert (E1 : st_lw s1 = st_lw s).
    { apply nth_error_eq_ext. intro j. apply (sext_zero _ _ _ j X'). rewrite Hn0. lia. }
    rewrite Hn0 in Es'. change (2 * 0) with 0 in Es'.
    destruct (ks =? kd)%nat; subst s'; rewrite !condense_at_zero; exact E1.
  - intro Hn1. destruct X' as [Hl Hx].
    destruct (Hx ks Ls ELs) as (Ls1 & ds & Es1 & Xs & Ns).
    destruct (Hx kd Ld ELd) as (Ld1 & dd & Ed1 & Xd & Nd).
    assert (Hoth : forall j, j <> ks -> j <> kd -> nth_error (st_lw s1) j = nth_error (st_lw s) j).
    { intros j H1 H2. apply (sext_zero s s1 (fun j => hits ks kd j * n) j (conj Hl Hx)).
      rewrite hits_other by assumption. reflexivity. }
    destruct (Nat.eqb_spec ks kd) as [E|E].
    + subst kd. rewrite ELs in ELd. inversion ELd; subst Ld.
      rewrite Es1 in Ed1. inversion Ed1; subst Ld1. rewrite hits_same in Ns.
      subst s'. split.
      * intros j H1 _. rewrite condense_at_other by exact H1. apply Hoth; exact H1.
      * exists Ls, Ls, (condense_log Ls1 (2 * n) lab), (condense_log Ls1 (2 * n) lab).
        pose proof (condense_at_same s1 ks (2 * n) lab Ls1 Es1) as Ec1.
        assert (Hh : lw_hist (condense_log Ls1 (2 * n) lab) =
                     lw_hist Ls ++ [(resolve_label lab None None,
                                     lw_vols (condense_log Ls1 (2 * n) lab))]).
        { apply (condense_ext1 Ls Ls1 ds (2 * n) lab Xs); lia. }
        repeat split; assumption.
    + rewrite (hits_src ks kd E) in Ns. rewrite (hits_dst ks kd E) in Nd.
      subst s'. split.
      * intros j H1 H2. rewrite condense_at_other by exact H2.
        rewrite condense_at_other by exact H1. apply Hoth; assumption.
      * exists Ls, Ld, (condense_log Ls1 n lab), (condense_log Ld1 n lab).
        assert (Ec1 : nth_error (st_lw (condense_at (condense_at s1 ks n lab) kd n lab)) ks
                      = Some (condense_log Ls1 n lab)).
        { rewrite condense_at_other by exact E. exact (condense_at_same s1 ks n lab Ls1 Es1). }
        assert (Ec2 : nth_error (st_lw (condense_at (condense_at s1 ks n lab) kd n lab)) kd
                      = Some (condense_log Ld1 n lab)).
        { apply condense_at_same. rewrite condense_at_other by congruence. exact Ed1. }
        assert (Hh1 : lw_hist (condense_log Ls1 n lab) =
                      lw_hist Ls ++ [(resolve_label lab None None, lw_vols (condense_log Ls1 n lab))]).
        { apply (condense_ext1 Ls Ls1 ds n lab Xs); lia. }
        assert (Hh2 : lw_hist (condense_log Ld1 n lab) =
                      lw_hist Ld ++ [(resolve_label lab None None, lw_vols (condense_log Ld1 n lab))]).
        { apply (condense_ext1 Ld Ld1 dd n lab Xd); lia. }
        repeat split; assumption.
Qed.

(** the label that ends up in the history *)
Lemma resolve_none_plain lab :
  lab <> Some "first"%string -> lab <> Some "last"%string -> resolve_label lab None None = lab.
Proof. apply resolve_plain. Qed.

Lemma resolve_none_keyword lab :
  lab = Some "first"%string \/ lab = Some "last"%string -> resolve_label lab None None = None.
Proof. intros [E|E]; subst lab; reflexivity. Qed.

(* ------------------------------------------------------------------------------------------ *)
(** * distribute *)

Lemma nth_error_upd_some {A} (l : list A) : forall k x j y,
  nth_error l j = Some y -> nth_error (upd l k x) j = Some (if (j =? k)%nat then x else y).
Proof.
  intros k x j y H. destruct (Nat.eqb_spec j k) as [E|E].
  - subst j. exact (nth_error_upd_same _ _ _ _ H).
  - rewrite nth_error_upd_other by exact E. exact H.
Qed.

Ltac early H := solve [left; inversion H; subst; split; [discriminate|reflexivity]].

(** the labware part of [distribute]: a [remove] on the source, then an [add] on the destination,
    then (same labware) a condensation of the two entries *)
Lemma distribute_inv s ks kd dwells a s' e :
  distribute s ks kd dwells a = (s', e) ->
  (e <> None /\ st_lw s' = st_lw s) \/
  exists Ls wells vols Ls1 er,
    nth_error (st_lw s) ks = Some Ls /\ remove Ls wells vols (d_label a) = (Ls1, er) /\
    match er with
    | Some _ => e <> None /\ st_lw s' = upd (st_lw s) ks Ls1
    | None =>
        (e <> None /\ st_lw s' = upd (st_lw s) ks Ls1) \/
        exists Ld1 dw xv comps Ld' ea,
          nth_error (upd (st_lw s) ks Ls1) kd = Some Ld1 /\
          add Ld1 dw xv (d_label a) comps = (Ld', ea) /\
          match ea with
          | Some _ => e <> None /\ st_lw s' = upd (upd (st_lw s) ks Ls1) kd Ld'
          | None => st_lw s' = st_lw (if (ks =? kd)%nat
                                      then condense_at (set_lw (set_lw s ks Ls1) kd Ld') ks 2 (d_label a)
                                      else set_lw (set_lw s ks Ls1) kd Ld')
          end
    end.
Proof.
  unfold distribute. intro H.
  destruct (nth_error (st_lw s) ks) as [Ls|] eqn:ELs; [|early H].
  destruct (nth_error (st_lw s) kd) as [Ld|] eqn:ELd; [|early H].
  destruct (g_vrows (lw_geom Ls)) as [vr|]; [|early H].
  destruct (rvol_x (d_volume a)) as [xv|]; [|early H].
  destruct xv as [q| | |] eqn:Exv; try rewrite <- Exv in H; clear Exv; try (early H).
  all: cbv zeta in H.
  1: match type of H with (if ?c then _ else _) = _ => destruct c end; [early H|].
  all: match type of H with (if ?c then _ else _) = _ => destruct c end; [early H|].
  all: destruct (positions_of (w_dev (st_wl s)) (lw_geom Ld) (flattenF dwells)) as [ps|e0]; [|early H].
  all: destruct (sort_Z (map Z.of_nat ps)) as [|p0 sorted']; [early H|].
  all: match type of H with (if ?c then _ else _) = _ => destruct c end; [early H|].
  all: destruct (remove Ls _ _ (d_label a)) as [Ls1 [er|]] eqn:Er;
    [right; exists Ls; eexists; eexists; exists Ls1, (Some er);
     split; [reflexivity|]; split; [exact Er|]; inversion H; subst; split; [discriminate|reflexivity]|].
  all: right; exists Ls; eexists; eexists; exists Ls1, None; split; [reflexivity|]; split; [exact Er|].
  all: destruct (get_well_composition Ls1 (well_id 0 (Z.to_nat (d_source_column a)))) as [c|e1];
    [|early H].
  all: destruct (nth_error (st_lw (set_lw s ks Ls1)) kd) as [Ld1|] eqn:ELd1; [|early H].
  all: right.
  all: destruct (add Ld1 _ _ (d_label a) _) as [Ld' [ea|]] eqn:Ea;
    [exists Ld1; eexists; eexists; eexists; exists Ld', (Some ea);
     split; [exact ELd1|]; split; [exact Ea|]; inversion H; subst; split; [discriminate|reflexivity]|].
  all: exists Ld1; eexists; eexists; eexists; exists Ld', None;
    split; [exact ELd1|]; split; [exact Ea|].
  all: match type of H with
       | match comment ?w ?l with _ => _ end = _ => destruct (comment w l) as [w1 [e2|]]
       end; [inversion H; subst; reflexivity|].
  all: match type of H with
       | (let '(_, _) := ?r in _) = _ => destruct r as [w2 e3]
       end; inversion H; subst; reflexivity.
Qed.

(** both tracking calls of a [distribute] were done: one new entry per participating labware *)
Definition dist_full (s s' : state) (ks kd : nat) (lab : option string) : Prop :=
  length (st_lw s') = length (st_lw s) /\
  (forall j, j <> ks -> j <> kd -> nth_error (st_lw s') j = nth_error (st_lw s) j) /\
  exists Ls Ld Ls' Ld',
    nth_error (st_lw s) ks = Some Ls /\ nth_error (st_lw s) kd = Some Ld /\
    nth_error (st_lw s') ks = Some Ls' /\ nth_error (st_lw s') kd = Some Ld' /\
    lw_hist Ls' = lw_hist Ls ++ [(lab, lw_vols Ls')] /\
    lw_hist Ld' = lw_hist Ld ++ [(lab, lw_vols Ld')].

(** a rejected [distribute]: at most one new entry anywhere, nothing dropped *)
Definition dist_partial (s s' : state) (ks kd : nat) (lab : option string) : Prop :=
  length (st_lw s') = length (st_lw s) /\
  (forall j, j <> ks -> j <> kd -> nth_error (st_lw s') j = nth_error (st_lw s) j) /\
  forall j L, nth_error (st_lw s) j = Some L ->
    exists L' d, nth_error (st_lw s') j = Some L' /\ lw_hist L' = lw_hist L ++ d /\
                 length d <= 1 /\ Forall (fun en : entry => fst en = lab) d.

Lemma dist_partial_same s s' ks kd lab : st_lw s' = st_lw s -> dist_partial s s' ks kd lab.
Proof.
  intro E. unfold dist_partial. rewrite E. split; [reflexivity|]. split; [reflexivity|].
  intros j L HL. exists L, []. split; [exact HL|]. split; [symmetry; apply app_nil_r|].
  split; [cbn [length]; lia|constructor].
Qed.

Lemma dist_partial_src s s' ks kd lab Ls Ls1 d :
  nth_error (st_lw s) ks = Some Ls -> st_lw s' = upd (st_lw s) ks Ls1 ->
  lw_hist Ls1 = lw_hist Ls ++ d -> length d <= 1 -> Forall (fun en : entry => fst en = lab) d ->
  dist_partial s s' ks kd lab.
Proof.
  intros ELs E Hh Hd Hf. unfold dist_partial. rewrite E. split; [apply upd_length|]. split.
  - intros j H1 _. apply nth_error_upd_other. exact H1.
  - intros j L HL. rewrite (nth_error_upd_some _ ks Ls1 j L HL).
    destruct (Nat.eqb_spec j ks) as [Ej|Ej].
    + subst j. rewrite ELs in HL. inversion HL; subst L. exists Ls1, d. auto.
    + exists L, []. split; [reflexivity|]. split; [symmetry; apply app_nil_r|].
      split; [cbn [length]; lia|constructor].
Qed.

Lemma distribute_hist s ks kd dwells a s' e :
  distribute s ks kd dwells a = (s', e) ->
  dist_full s s' ks kd (d_label a) \/ (e <> None /\ dist_partial s s' ks kd (d_label a)).
Proof.
  intro H. apply distribute_inv in H.
  destruct H as [[He E]|(Ls & wells & vols & Ls1 & er & ELs & Er & H)].
  { right. split; [exact He|]. apply dist_partial_same. exact E. }
  destruct er as [er|].
  { destruct H as [He E]. right. split; [exact He|].
    apply (dist_partial_src s s' ks kd _ Ls Ls1 [] ELs E); [|cbn [length]; lia|constructor].
    rewrite app_nil_r. exact (remove_hist_err _ _ _ _ _ _ Er). }
  pose proof (remove_hist_ok _ _ _ _ _ Er) as Hs1.
  destruct H as [[He E]|(Ld1 & dw & xv & comps & Ld' & ea & ELd1 & Ea & H)].
  { right. split; [exact He|].
    apply (dist_partial_src s s' ks kd _ Ls Ls1 [(d_label a, lw_vols Ls1)] ELs E Hs1);
      [cbn [length]; lia|constructor; [reflexivity|constructor]]. }
  destruct (nth_error (st_lw s) kd) as [Ld|] eqn:ELd.
  2:{ exfalso. apply nth_error_None in ELd.
      assert (C : nth_error (upd (st_lw s) ks Ls1) kd = None)
        by (apply nth_error_None; rewrite upd_length; exact ELd).
      rewrite C in ELd1. discriminate. }
  rewrite (nth_error_upd_some _ ks Ls1 kd Ld ELd) in ELd1.
  destruct ea as [ea|].
  - (* the add was rejected *)
    destruct H as [He E]. right. split; [exact He|].
    pose proof (add_hist_err _ _ _ _ _ _ _ Ea) as Hd'.
    unfold dist_partial. rewrite E. split; [rewrite !upd_length; reflexivity|]. split.
    + intros j H1 H2. rewrite !nth_error_upd_other by assumption. reflexivity.
    + intros j L HL.
      rewrite (nth_error_upd_some _ kd Ld' j _ (nth_error_upd_some _ ks Ls1 j L HL)).
      destruct (Nat.eqb_spec j kd) as [Ejd|Ejd].
      * subst j. rewrite ELd in HL. inversion HL; subst L.
        destruct (Nat.eqb_spec kd ks) as [Eds|Eds].
        -- subst kd. rewrite ELs in ELd. inversion ELd; subst Ld. inversion ELd1; subst Ld1.
           exists Ld', [(d_label a, lw_vols Ls1)]. split; [reflexivity|].
           split; [rewrite Hd'; exact Hs1|]. split; [cbn [length]; lia|].
           constructor; [reflexivity|constructor].
        -- inversion ELd1; subst Ld1. exists Ld', []. split; [reflexivity|].
           split; [rewrite app_nil_r; exact Hd'|]. split; [cbn [length]; lia|constructor].
      * destruct (Nat.eqb_spec j ks) as [Ejs|Ejs].
        -- subst j. rewrite ELs in HL. inversion HL; subst L.
           exists Ls1, [(d_label a, lw_vols Ls1)]. split; [reflexivity|]. split; [exact Hs1|].
           split; [cbn [length]; lia|constructor; [reflexivity|constructor]].
        -- exists L, []. split; [reflexivity|]. split; [symmetry; apply app_nil_r|].
           split; [cbn [length]; lia|constructor].
  - (* both calls were accepted *)
    left. pose proof (add_hist_ok _ _ _ _ _ _ Ea) as Hd'.
    destruct (Nat.eqb_spec ks kd) as [E|E].
    + subst kd. rewrite Nat.eqb_refl in ELd1. inversion ELd1; subst Ld1.
      rewrite ELs in ELd. inversion ELd; subst Ld.
      assert (E2 : nth_error (st_lw (set_lw (set_lw s ks Ls1) ks Ld')) ks = Some Ld').
      { cbn [st_lw set_lw]. apply (nth_error_upd_same _ ks Ld' Ls1).
        exact (nth_error_upd_same _ _ _ _ ELs). }
      pose proof (condense_at_same _ ks 2 (d_label a) Ld' E2) as E3. rewrite <- H in E3.
      assert (Hh : lw_hist (condense_log Ld' 2 (d_label a)) =
                   lw_hist Ls ++ [(d_label a, lw_vols (condense_log Ld' 2 (d_label a)))]).
      { rewrite (condense_log_block_label Ld' 2 (d_label a) (d_label a) (lw_hist Ls)
                   [(d_label a, lw_vols Ls1); (d_label a, lw_vols Ld')]).
        - rewrite resolve_same, condense_log_vols. reflexivity.
        - rewrite Hd', Hs1, <- app_assoc. reflexivity.
        - reflexivity.
        - lia.
        - constructor; [reflexivity|]. constructor; [reflexivity|constructor]. }
      split; [|split].
      * rewrite H, condense_at_length. cbn [st_lw set_lw]. rewrite !upd_length. reflexivity.
      * intros j H1 _. rewrite H, condense_at_other by exact H1. cbn [st_lw set_lw].
        rewrite !nth_error_upd_other by exact H1. reflexivity.
      * exists Ls, Ls, (condense_log Ld' 2 (d_label a)), (condense_log Ld' 2 (d_label a)).
        repeat split; assumption.
    + destruct (Nat.eqb_spec kd ks) as [C|_]; [congruence|]. inversion ELd1; subst Ld1.
      cbn [st_lw set_lw] in H. split; [|split].
      * rewrite H, !upd_length. reflexivity.
      * intros j H1 H2. rewrite H, !nth_error_upd_other by assumption. reflexivity.
      * exists Ls, Ld, Ls1, Ld'. split; [exact ELs|]. split; [exact ELd|]. split; [|split; [|split]].
        -- rewrite H, nth_error_upd_other by exact E. exact (nth_error_upd_same _ _ _ _ ELs).
        -- rewrite H. apply (nth_error_upd_same _ kd Ld' Ld).
           rewrite nth_error_upd_other by congruence. exact ELd.
        -- exact Hs1.
        -- exact Hd'.
Qed.

Lemma distribute_hist_ok s ks kd dwells a s' :
  distribute s ks kd dwells a = (s', None) -> dist_full s s' ks kd (d_label a).
Proof.
  intro H. destruct (distribute_hist _ _ _ _ _ _ _ H) as [F|[C _]]; [exact F|congruence].
Qed.

(* ------------------------------------------------------------------------------------------ *)
(** * entries that existed before a call are never altered or dropped *)

Definition keeps (l l' : list labware) : Prop :=
  forall j L, nth_error l j = Some L ->
    exists L' d, nth_error l' j = Some L' /\ lw_hist L' = lw_hist L ++ d.

Lemma keeps_refl l : keeps l l.
Proof. intros j L H. exists L, []. split; [exact H|symmetry; apply app_nil_r]. Qed.

Lemma keeps_eq l l' : l' = l -> keeps l l'.
Proof. intro E. subst l'. apply keeps_refl. Qed.

Lemma keeps_trans l l1 l2 : keeps l l1 -> keeps l1 l2 -> keeps l l2.
Proof.
  intros H1 H2 j L HL. destruct (H1 j L HL) as (L1 & d1 & E1 & Hh1).
  destruct (H2 j L1 E1) as (L2 & d2 & E2 & Hh2). exists L2, (d1 ++ d2).
  split; [exact E2|]. rewrite Hh2, Hh1, app_assoc. reflexivity.
Qed.

Lemma keeps_upd l k L L1 :
  nth_error l k = Some L -> (exists d, lw_hist L1 = lw_hist L ++ d) -> keeps l (upd l k L1).
Proof.
  intros HL [d Hd] j L0 H0. rewrite (nth_error_upd_some _ k L1 j L0 H0).
  destruct (Nat.eqb_spec j k) as [E|E].
  - subst j. rewrite HL in H0. inversion H0; subst L0. exists L1, d. auto.
  - exists L0, []. split; [reflexivity|symmetry; apply app_nil_r].
Qed.

Lemma keeps_upd_any l k (f : labware -> labware) :
  (forall L, exists d, lw_hist (f L) = lw_hist L ++ d) ->
  forall L1, (forall L, nth_error l k = Some L -> L1 = f L) -> keeps l (upd l k L1).
Proof.
  intros Hf L1 H1. destruct (nth_error l k) as [L|] eqn:E.
  - apply (keeps_upd l k L L1 E). rewrite (H1 L eq_refl). apply Hf.
  - rewrite upd_none by exact E. apply keeps_refl.
Qed.

Lemma tracked_grows L L' label ok : tracked L L' label ok -> exists d, lw_hist L' = lw_hist L ++ d.
Proof.
  unfold tracked. destruct ok; intro H.
  - eexists. exact H.
  - exists []. rewrite app_nil_r. exact H.
Qed.

Lemma add_grows L wells vols label comps :
  exists d, lw_hist (fst (add L wells vols label comps)) = lw_hist L ++ d.
Proof.
  destruct (add L wells vols label comps) as [L' e] eqn:E. cbn [fst].
  pose proof (add_hist _ _ _ _ _ _ _ E) as H. destruct e as [e|].
  - exists []. rewrite app_nil_r. exact H.
  - eexists. exact H.
Qed.

Lemma remove_grows L wells vols label :
  exists d, lw_hist (fst (remove L wells vols label)) = lw_hist L ++ d.
Proof.
  destruct (remove L wells vols label) as [L' e] eqn:E. cbn [fst].
  pose proof (remove_hist _ _ _ _ _ _ E) as H. destruct e as [e|].
  - exists []. rewrite app_nil_r. exact H.
  - eexists. exact H.
Qed.

Lemma add_grows_eq L wells vols label comps L' e :
  add L wells vols label comps = (L', e) -> exists d, lw_hist L' = lw_hist L ++ d.
Proof.
  intro E. pose proof (add_grows L wells vols label comps) as G. rewrite E in G. exact G.
Qed.

Lemma remove_grows_eq L wells vols label L' e :
  remove L wells vols label = (L', e) -> exists d, lw_hist L' = lw_hist L ++ d.
Proof.
  intro E. pose proof (remove_grows L wells vols label) as G. rewrite E in G. exact G.
Qed.

Lemma on_lw_keeps s k f s' e :
  (forall L, exists d, lw_hist (fst (f L)) = lw_hist L ++ d) ->
  on_lw s k f = (s', e) -> keeps (st_lw s) (st_lw s').
Proof.
  intros Hf H. unfold on_lw in H. destruct (nth_error (st_lw s) k) as [L|] eqn:E.
  - destruct (f L) as [L' e'] eqn:Ef. inversion H; subst. cbn [st_lw set_lw].
    apply (keeps_upd _ k L L' E). specialize (Hf L). rewrite Ef in Hf. exact Hf.
  - inversion H; subst. apply keeps_refl.
Qed.

Lemma on_wl_keeps s f s' e : on_wl s f = (s', e) -> keeps (st_lw s) (st_lw s').
Proof.
  unfold on_wl. intro H. destruct (f (st_wl s)) as [w e']. inversion H; subst. apply keeps_refl.
Qed.

Lemma aspirate_keeps s k wells vols label kw s' e :
  aspirate s k wells vols label kw = (s', e) -> keeps (st_lw s) (st_lw s').
Proof.
  intro H. apply aspirate_lw in H. destruct (nth_error (st_lw s) k) as [L|] eqn:E.
  - cbv zeta in H. destruct H as [Hlw _]. rewrite Hlw. apply (keeps_upd _ k L _ E).
    apply remove_grows.
  - destruct H as [Hs _]. subst s'. apply keeps_refl.
Qed.

Lemma dispense_keeps s k wells vols label comps kw s' e :
  dispense s k wells vols label comps kw = (s', e) -> keeps (st_lw s) (st_lw s').
Proof.
  intro H. apply dispense_lw in H. destruct (nth_error (st_lw s) k) as [L|] eqn:E.
  - cbv zeta in H. destruct H as [Hlw _]. rewrite Hlw. apply (keeps_upd _ k L _ E).
    apply add_grows.
  - destruct H as [Hs _]. subst s'. apply keeps_refl.
Qed.

Lemma evo_aspirate_keeps s k a label s' e :
  evo_aspirate s k a label = (s', e) -> keeps (st_lw s) (st_lw s').
Proof.
  unfold evo_aspirate. intro H. destruct (nth_error (st_lw s) k) as [L|] eqn:E.
  - unfold wells_vols in H. cbv beta iota zeta in H.
    destruct (remove L _ _ label) as [L' er] eqn:Er.
    assert (K : keeps (st_lw s) (st_lw (set_lw s k L'))).
    { cbn [st_lw set_lw]. apply (keeps_upd _ k L L' E).
      exact (remove_grows_eq _ _ _ _ _ _ Er). }
    destruct er as [er|]; [inversion H; subst; exact K|].
    destruct (comment (st_wl (set_lw s k L')) label) as [w [e1|]]; [inversion H; subst; exact K|].
    destruct (evo_command _ _ _ a (w_max w)) as [cmd|e2]; inversion H; subst; exact K.
  - inversion H; subst. apply keeps_refl.
Qed.

Lemma evo_dispense_keeps s k a label comps s' e :
  evo_dispense s k a label comps = (s', e) -> keeps (st_lw s) (st_lw s').
Proof.
  unfold evo_dispense. intro H. destruct (nth_error (st_lw s) k) as [L|] eqn:E.
  - unfold wells_vols in H. cbv beta iota zeta in H.
    destruct (add L _ _ label comps) as [L' er] eqn:Er.
    assert (K : keeps (st_lw s) (st_lw (set_lw s k L'))).
    { cbn [st_lw set_lw]. apply (keeps_upd _ k L L' E).
      exact (add_grows_eq _ _ _ _ _ _ _ Er). }
    destruct er as [er|]; [inversion H; subst; exact K|].
    destruct (comment (st_wl (set_lw s k L')) label) as [w [e1|]]; [inversion H; subst; exact K|].
    destruct (evo_command _ _ _ a (w_max w)) as [cmd|e2]; inversion H; subst; exact K.
  - inversion H; subst. apply keeps_refl.
Qed.

Lemma evo_wash_keeps s a s' e : evo_wash s a = (s', e) -> keeps (st_lw s) (st_lw s').
Proof.
  unfold evo_wash. intro H. destruct (evo_wash_cmd a) as [cmd|e0]; inversion H; subst; apply keeps_refl.
Qed.

Lemma spext_keeps s s' ks kd : spext s s' ks kd -> keeps (st_lw s) (st_lw s').
Proof.
  intros (_ & _ & H) j L HL. destruct (H j L HL) as (L' & E' & d & Hd & _). exists L', d. auto.
Qed.

Lemma keeps_two (l l' : list labware) ks kd Ls Ld Ls' Ld' :
  (forall j, j <> ks -> j <> kd -> nth_error l' j = nth_error l j) ->
  nth_error l ks = Some Ls -> nth_error l kd = Some Ld ->
  nth_error l' ks = Some Ls' -> nth_error l' kd = Some Ld' ->
  (exists d, lw_hist Ls' = lw_hist Ls ++ d) -> (exists d, lw_hist Ld' = lw_hist Ld ++ d) ->
  keeps l l'.
Proof.
  intros Ho ELs ELd ELs' ELd' [ds Hs] [dd Hd] j L HL.
  destruct (Nat.eq_dec j ks) as [E1|E1].
  - subst j. rewrite ELs in HL. inversion HL; subst L. exists Ls', ds. auto.
  - destruct (Nat.eq_dec j kd) as [E2|E2].
    + subst j. rewrite ELd in HL. inversion HL; subst L. exists Ld', dd. auto.
    + exists L, []. split; [rewrite Ho by assumption; exact HL|symmetry; apply app_nil_r].
Qed.

Lemma transfer_err_inv s ks swells kd dwells vols label ws pb kw s' e :
  transfer s ks swells kd dwells vols label ws pb kw = (s', Some e) ->
  st_lw s' = st_lw s \/
  exists w acts, exec (set_wl s w) ks kd acts ws kw = (s', Some e).
Proof.
  unfold transfer. intro H.
  destruct (w_dev (st_wl s)); [| |left; inversion H; reflexivity].
  all: destruct (nth_error (st_lw s) ks) as [Ls|] eqn:ELs; [|left; inversion H; reflexivity].
  all: destruct (nth_error (st_lw s) kd) as [Ld|] eqn:ELd; [|left; inversion H; reflexivity].
  all: cbv zeta in H.
  all: match type of H with (if ?c then _ else _) = _ => destruct c end;
    [left; inversion H; reflexivity|].
  all: match type of H with (if ?c then _ else _) = _ => destruct c end;
    [left; inversion H; reflexivity|].
  all: match type of H with (if ?c then _ else _) = _ => destruct c end;
    [left; inversion H; reflexivity|].
  all: destruct (optimize_partition_by (is_trough (lw_geom Ls)) (is_trough (lw_geom Ld)) pb)
    as [mode|e0]; [|left; inversion H; reflexivity].
  all: destruct (comment (st_wl s) label) as [w [e1|]] eqn:Ec; [left; inversion H; reflexivity|].
  all: destruct (exec (set_wl s w) ks kd _ ws kw) as [s1 [e2|]] eqn:Ee;
    [right; inversion H; subst; eexists; eexists; exact Ee|].
  all: destruct (ks =? kd)%nat; discriminate.
Qed.

Lemma transfer_keeps s ks swells kd dwells vols label ws pb kw s' e :
  transfer s ks swells kd dwells vols label ws pb kw = (s', e) -> keeps (st_lw s) (st_lw s').
Proof.
  intro H. destruct e as [e|].
  - destruct (transfer_err_inv _ _ _ _ _ _ _ _ _ _ _ _ H) as [E|(w & acts & Ee)].
    + apply keeps_eq. exact E.
    + apply exec_spext in Ee. exact (spext_keeps _ _ _ _ Ee).
  - destruct (transfer_hist _ _ _ _ _ _ _ _ _ _ _ H BySource) as [H0 H1]. cbv zeta in H0, H1.
    destruct (Nat.eq_dec (n_steps (plan (w_autosplit (st_wl s)) (w_max (st_wl s)) BySource
                                        (transfer_triples swells dwells vols))) 0) as [E|E].
    + apply keeps_eq. exact (H0 E).
    + destruct H1 as (Ho & Ls & Ld & Ls' & Ld' & ELs & ELd & ELs' & ELd' & Hs & Hd); [lia|].
      apply (keeps_two _ _ ks kd Ls Ld Ls' Ld' Ho ELs ELd ELs' ELd'); eexists; eassumption.
Qed.

Lemma distribute_keeps s ks kd dwells a s' e :
  distribute s ks kd dwells a = (s', e) -> keeps (st_lw s) (st_lw s').
Proof.
  intro H. destruct (distribute_hist _ _ _ _ _ _ _ H) as [F|[_ P]].
  - destruct F as (_ & Ho & Ls & Ld & Ls' & Ld' & ELs & ELd & ELs' & ELd' & Hs & Hd).
    apply (keeps_two _ _ ks kd Ls Ld Ls' Ld' Ho ELs ELd ELs' ELd'); eexists; eassumption.
  - destruct P as (_ & _ & P). intros j L HL. destruct (P j L HL) as (L' & d & E' & Hd & _).
    exists L', d. auto.
Qed.

(** every call except a condensation of one or more entries *)
Definition safe_op (o : op) : Prop :=
  match o with OCondense _ n _ => n = 0 | _ => True end.

Lemma step_keeps s o s' e : safe_op o -> step s o = (s', e) -> keeps (st_lw s) (st_lw s').
Proof.
  intros Hsafe H. destruct o; cbn [step] in H.
  - apply (on_lw_keeps _ _ _ _ _ (fun L => add_grows L wells vols label comps) H).
  - apply (on_lw_keeps _ _ _ _ _ (fun L => remove_grows L wells vols label) H).
  - cbn [safe_op] in Hsafe. subst n. refine (on_lw_keeps _ _ _ _ _ _ H).
    intro L. exists []. cbn [fst]. rewrite condense_log_zero, app_nil_r. reflexivity.
  - exact (aspirate_keeps _ _ _ _ _ _ _ _ H).
  - exact (dispense_keeps _ _ _ _ _ _ _ _ _ H).
  - exact (transfer_keeps _ _ _ _ _ _ _ _ _ _ _ _ H).
  - exact (distribute_keeps _ _ _ _ _ _ _ H).
  - exact (on_wl_keeps _ _ _ _ H).
  - exact (on_wl_keeps _ _ _ _ H).
  - exact (on_wl_keeps _ _ _ _ H).
  - exact (on_wl_keeps _ _ _ _ H).
  - exact (on_wl_keeps _ _ _ _ H).
  - exact (on_wl_keeps _ _ _ _ H).
  - exact (on_wl_keeps _ _ _ _ H).
  - exact (on_wl_keeps _ _ _ _ H).
  - exact (on_wl_keeps _ _ _ _ H).
  - destruct (w_dev (st_wl s)); try (inversion H; subst; apply keeps_refl).
    exact (evo_aspirate_keeps _ _ _ _ _ _ H).
  - destruct (w_dev (st_wl s)); try (inversion H; subst; apply keeps_refl).
    exact (evo_dispense_keeps _ _ _ _ _ _ _ H).
  - destruct (w_dev (st_wl s)); try (inversion H; subst; apply keeps_refl).
    exact (evo_wash_keeps _ _ _ _ H).
Qed.

Lemma run_keeps : forall ops s s' es,
  Forall safe_op ops -> run s ops = (s', es) -> keeps (st_lw s) (st_lw s').
Proof.
  induction ops as [|o r IH]; intros s s' es Hs H; cbn [run] in H.
  - inversion H; subst. apply keeps_refl.
  - inversion Hs as [|? ? Ho Hr]; subst.
    destruct (step s o) as [s1 e] eqn:E1. destruct (run s1 r) as [s2 es2] eqn:E2.
    inversion H; subst.
    exact (keeps_trans _ _ _ (step_keeps _ _ _ _ Ho E1) (IH _ _ _ Hr E2)).
Qed.

(** the same in the "first entries are the old entries" form *)
Definition old_entries_kept (l l' : list labware) : Prop :=
  forall j L, nth_error l j = Some L ->
    exists L', nth_error l' j = Some L' /\
               length (lw_hist L) <= length (lw_hist L') /\
               firstn (length (lw_hist L)) (lw_hist L') = lw_hist L.

Lemma keeps_old l l' : keeps l l' -> old_entries_kept l l'.
Proof.
  intros H j L HL. destruct (H j L HL) as (L' & d & E' & Hd). exists L'. split; [exact E'|].
  rewrite Hd. split; [rewrite app_length; lia|apply firstn_prefix].
Qed.

Lemma step_old s o s' e : safe_op o -> step s o = (s', e) -> old_entries_kept (st_lw s) (st_lw s').
Proof. intros Hs H. apply keeps_old. exact (step_keeps _ _ _ _ Hs H). Qed.

Lemma run_old ops s s' es :
  Forall safe_op ops -> run s ops = (s', es) -> old_entries_kept (st_lw s) (st_lw s').
Proof. intros Hs H. apply keeps_old. exact (run_keeps _ _ _ _ Hs H). Qed.

(* ------------------------------------------------------------------------------------------ *)
(** * the statements in the form used by Props/C11.v *)

Lemma condense_plain L n label :
  1 <= n -> n <= length (lw_hist L) ->
  label <> Some "first"%string -> label <> Some "last"%string ->
  lw_hist (condense_log L n label) =
  firstn (length (lw_hist L) - n) (lw_hist L) ++ [(label, snd (last (lw_hist L) (None, [])))].
Proof.
  intros Hn _ H1 H2. rewrite condense_log_hist by exact Hn.
  rewrite resolve_plain by assumption. reflexivity.
Qed.

Lemma condense_last L n :
  1 <= n -> n <= length (lw_hist L) ->
  lw_hist (condense_log L n (Some "last"%string)) =
  firstn (length (lw_hist L) - n) (lw_hist L) ++ [last (lw_hist L) (None, [])].
Proof.
  intros Hn _. rewrite condense_log_hist by exact Hn. rewrite resolve_last.
  unfold dflt. destruct (last (lw_hist L) (None, [])) as [lb st]. reflexivity.
Qed.

Lemma condense_first L n :
  1 <= n -> n <= length (lw_hist L) ->
  lw_hist (condense_log L n (Some "first"%string)) =
  firstn (length (lw_hist L) - n) (lw_hist L) ++
  [(match fst (nth (length (lw_hist L) - n) (lw_hist L) (None, [])) with
    | Some f => if String.eqb f "last" then fst (last (lw_hist L) (None, [])) else Some f
    | None => None
    end,
    snd (last (lw_hist L) (None, [])))].
Proof.
  intros Hn _. rewrite condense_log_hist by exact Hn. rewrite resolve_first. unfold dflt.
  destruct (fst (nth (length (lw_hist L) - n) (lw_hist L) (None, []))) as [f|]; reflexivity.
Qed.

Lemma condense_fields L n label :
  lw_vols (condense_log L n label) = lw_vols L /\ lw_comp (condense_log L n label) = lw_comp L /\
  lw_name (condense_log L n label) = lw_name L /\ lw_geom (condense_log L n label) = lw_geom L /\
  lw_min (condense_log L n label) = lw_min L /\ lw_max (condense_log L n label) = lw_max L.
Proof.
  split; [apply condense_log_vols|]. split; [apply condense_log_comp|]. apply condense_log_static.
Qed.

Lemma aspirate_spec s k wells vols label kw s' e :
  aspirate s k wells vols label kw = (s', e) ->
  length (st_lw s') = length (st_lw s) /\
  (forall j, j <> k -> nth_error (st_lw s') j = nth_error (st_lw s) j) /\
  (nth_error (st_lw s) k = None -> s' = s /\ e = Some EReject) /\
  forall L, nth_error (st_lw s) k = Some L ->
    exists L' er,
      remove L (A1 (fst (wells_vols wells vols))) (A1 (snd (wells_vols wells vols))) label = (L', er) /\
      nth_error (st_lw s') k = Some L' /\
      (er = None -> lw_hist L' = lw_hist L ++ [(label, lw_vols L')]) /\
      (forall e0, er = Some e0 -> lw_hist L' = lw_hist L /\ e = Some e0) /\
      (e = None -> lw_hist L' = lw_hist L ++ [(label, lw_vols L')]).
Proof.
  intro H. destruct (aspirate_hist _ _ _ _ _ _ _ _ H) as (Hl & Ho & Hn & Hs).
  split; [exact Hl|]. split; [exact Ho|]. split; [exact Hn|]. intros L HL.
  destruct (Hs L HL) as (E & T & Hok & Herr). cbv zeta in E, T, Hok, Herr.
  destruct (remove L _ _ label) as [L' er] eqn:Er. cbn [fst snd] in *.
  exists L', er. split; [reflexivity|]. split; [exact E|]. unfold tracked in T. split; [|split].
  - intro C. subst er. exact T.
  - intros e0 C. subst er. split; [exact T|]. apply Herr. reflexivity.
  - intro C. rewrite (Hok C) in T. exact T.
Qed.

Lemma dispense_spec s k wells vols label comps kw s' e :
  dispense s k wells vols label comps kw = (s', e) ->
  length (st_lw s') = length (st_lw s) /\
  (forall j, j <> k -> nth_error (st_lw s') j = nth_error (st_lw s) j) /\
  (nth_error (st_lw s) k = None -> s' = s /\ e = Some EReject) /\
  forall L, nth_error (st_lw s) k = Some L ->
    exists L' er,
      add L (A1 (fst (wells_vols wells vols))) (A1 (snd (wells_vols wells vols))) label comps = (L', er) /\
      nth_error (st_lw s') k = Some L' /\
      (er = None -> lw_hist L' = lw_hist L ++ [(label, lw_vols L')]) /\
      (forall e0, er = Some e0 -> lw_hist L' = lw_hist L /\ e = Some e0) /\
      (e = None -> lw_hist L' = lw_hist L ++ [(label, lw_vols L')]).
Proof.
  intro H. destruct (dispense_hist _ _ _ _ _ _ _ _ _ H) as (Hl & Ho & Hn & Hs).
  split; [exact Hl|]. split; [exact Ho|]. split; [exact Hn|]. intros L HL.
  destruct (Hs L HL) as (E & T & Hok & Herr). cbv zeta in E, T, Hok, Herr.
  destruct (add L _ _ label comps) as [L' er] eqn:Er. cbn [fst snd] in *.
  exists L', er. split; [reflexivity|]. split; [exact E|]. unfold tracked in T. split; [|split].
  - intro C. subst er. exact T.
  - intros e0 C. subst er. split; [exact T|]. apply Herr. reflexivity.
  - intro C. rewrite (Hok C) in T. exact T.
Qed.

Lemma transfer_length s ks swells kd dwells vols label ws pb kw s' :
  transfer s ks swells kd dwells vols label ws pb kw = (s', None) ->
  length (st_lw s') = length (st_lw s).
Proof.
  intro H.
  destruct (transfer_ok_inv _ _ _ _ _ _ _ _ _ _ _ H) as (Ls & Ld & mode0 & w & s1 & _ & _ & _ & Hx).
  cbv zeta in Hx. destruct Hx as [Ee Es']. destruct (exec_sext _ _ _ _ _ _ _ Ee) as [Hl _].
  change (st_lw (set_wl s w)) with (st_lw s) in Hl.
  destruct (ks =? kd)%nat; subst s'; rewrite !condense_at_length; exact Hl.
Qed.

Lemma transfer_spec s ks swells kd dwells vols label ws pb kw s' :
  transfer s ks swells kd dwells vols label ws pb kw = (s', None) ->
  forall mode,
  let triples := transfer_triples swells dwells vols in
  let a := w_autosplit (st_wl s) in
  let m := w_max (st_wl s) in
  let n := n_steps (plan a m mode triples) in
  let lab := lvh_label label (lvh_extra a m triples) in
  (n = 0 -> st_lw s' = st_lw s) /\
  (1 <= n -> lab <> Some "first"%string -> lab <> Some "last"%string ->
   dist_full s s' ks kd lab) /\
  (1 <= n -> lab = Some "first"%string \/ lab = Some "last"%string ->
   dist_full s s' ks kd None).
Proof.
  intros H mode. destruct (transfer_hist _ _ _ _ _ _ _ _ _ _ _ H mode) as [H0 H1].
  pose proof (transfer_length _ _ _ _ _ _ _ _ _ _ _ H) as Hl.
  cbv zeta in *. split; [exact H0|]. split.
  - intros Hn N1 N2. destruct (H1 Hn) as [Ho Hex]. rewrite resolve_none_plain in Hex by assumption.
    split; [exact Hl|]. split; [exact Ho|exact Hex].
  - intros Hn K. destruct (H1 Hn) as [Ho Hex]. rewrite resolve_none_keyword in Hex by exact K.
    split; [exact Hl|]. split; [exact Ho|exact Hex].
Qed.

Lemma lvh_label_spec :
  (forall label, lvh_label label 0 = label) /\
  (forall l k, 0 < k -> l <> EmptyString ->
     lvh_label (Some l) k = Some (l ++ " (" ++ dec k ++ " LVH steps)")%string) /\
  (forall k, 0 < k -> lvh_label (Some EmptyString) k = Some (dec k ++ " LVH steps")%string) /\
  (forall k, 0 < k -> lvh_label None k = Some (dec k ++ " LVH steps")%string).
Proof.
  split; [exact lvh_label_zero|]. split; [exact lvh_label_some|].
  split; [exact lvh_label_empty|exact lvh_label_none].
Qed.
