(** Lemmas about the labware history (C11): [log], [condense_log], [add], [remove], worklist
    [aspirate] / [dispense], the execution of transfer plans, [transfer], [distribute], the
    large-volume-handling count and label, and preservation of earlier entries by [step] / [run]. *)
From Robo Require Import Prelude Str Wells Utils Labware Tips Records Partition Params Worklist
  EvoCmd Program PartitionProofs.
From Coq Require Import Lqa Permutation.

Definition entry := (option string * list Q)%type.
Definition dflt : entry := (None, []).

(* ------------------------------------------------------------------------------------------ *)
(** * list helpers *)

Lemma upd_length {A} (l : list A) : forall k x, length (upd l k x) = length l.
Proof.
  induction l as [|y r IH]; intros [|k] x; cbn [upd length]; try reflexivity.
  rewrite IH. reflexivity.
Qed.

Lemma nth_error_upd_same {A} (l : list A) : forall k x y,
  nth_error l k = Some y -> nth_error (upd l k x) k = Some x.
Proof.
  induction l as [|z r IH]; intros [|k] x y H; cbn [upd nth_error] in *; try discriminate.
  - reflexivity.
  - exact (IH k x y H).
Qed.

Lemma nth_error_upd_other {A} (l : list A) : forall k j x,
  j <> k -> nth_error (upd l k x) j = nth_error l j.
Proof.
  induction l as [|z r IH]; intros [|k] [|j] x H; cbn [upd nth_error]; try reflexivity.
  - congruence.
  - apply IH. congruence.
Qed.

Lemma upd_same {A} (l : list A) : forall k x, nth_error l k = Some x -> upd l k x = l.
Proof.
  induction l as [|z r IH]; intros [|k] x H; cbn [upd nth_error] in *; try discriminate.
  - congruence.
  - rewrite (IH k x H). reflexivity.
Qed.

Lemma upd_none {A} (l : list A) : forall k x, nth_error l k = None -> upd l k x = l.
Proof.
  induction l as [|z r IH]; intros [|k] x H; cbn [upd nth_error] in *; try discriminate;
    try reflexivity.
  rewrite (IH k x H). reflexivity.
Qed.

Lemma nth_error_eq_ext {A} : forall (l l' : list A),
  (forall j, nth_error l j = nth_error l' j) -> l = l'.
Proof.
  induction l as [|x r IH]; intros [|y r'] H.
  - reflexivity.
  - specialize (H 0). discriminate.
  - specialize (H 0). discriminate.
  - pose proof (H 0) as H0. cbn [nth_error] in H0. inversion H0; subst y.
    rewrite (IH r'); [reflexivity|]. intro j. exact (H (S j)).
Qed.

Lemma last_snoc {A} (l : list A) x d : last (l ++ [x]) d = x.
Proof. apply last_last. Qed.

Lemma last_app_ne {A} (l1 l2 : list A) d : l2 <> [] -> last (l1 ++ l2) d = last l2 d.
Proof.
  intro H. induction l1 as [|x r IH]; [reflexivity|].
  cbn [app]. destruct (r ++ l2) as [|y t] eqn:E.
  - apply app_eq_nil in E. destruct E as [_ E]. contradiction.
  - cbn [last]. rewrite <- IH. reflexivity.
Qed.

Lemma nth_last {A} (l : list A) d : nth (length l - 1) l d = last l d.
Proof.
  induction l as [|x r IH]; [reflexivity|].
  destruct r as [|y t]; [reflexivity|].
  cbn [length] in *. replace (S (S (length t)) - 1) with (S (length t)) by lia.
  replace (S (length t) - 1) with (length t) in IH by lia.
  cbn [nth last]. cbn [nth] in IH. exact IH.
Qed.

Lemma firstn_app_exact {A} (l d : list A) n : length d = n ->
  firstn (length (l ++ d) - n) (l ++ d) = l.
Proof.
  intro H. rewrite app_length, H. replace (length l + n - n) with (length l + 0) by lia.
  rewrite firstn_app_2. cbn [firstn]. apply app_nil_r.
Qed.

Lemma firstn_prefix {A} (l d : list A) : firstn (length l) (l ++ d) = l.
Proof.
  replace (length l) with (length l + 0) by lia. rewrite firstn_app_2. cbn [firstn]. apply app_nil_r.
Qed.

(* ------------------------------------------------------------------------------------------ *)
(** * log, add, remove *)

Lemma log_hist L label : lw_hist (log L label) = lw_hist L ++ [(label, lw_vols L)].
Proof. reflexivity. Qed.

Lemma log_vols L label : lw_vols (log L label) = lw_vols L.
Proof. reflexivity. Qed.

Lemma add_loop_hist : forall items L L' e, add_loop L items = (L', e) -> lw_hist L' = lw_hist L.
Proof.
  induction items as [|[[w x] oc] rest IH]; intros L L' e H; cbn [add_loop] in H.
  - inversion H. reflexivity.
  - destruct (lw_index L w) as [i|] eqn:Ei; [|inversion H; reflexivity].
    destruct x as [v| | |]; try (inversion H; reflexivity).
    cbv zeta in H.
    destruct (Qgtb (Qred (vol_at L i + v)) (lw_max L)) eqn:Eg; [inversion H; reflexivity|].
    apply IH in H. rewrite H. destruct oc as [c|]; reflexivity.
Qed.

Lemma remove_loop_hist : forall items L L' e,
  remove_loop L items = (L', e) -> lw_hist L' = lw_hist L.
Proof.
  induction items as [|[w x] rest IH]; intros L L' e H; cbn [remove_loop] in H.
  - inversion H. reflexivity.
  - destruct (lw_index L w) as [i|] eqn:Ei; [|inversion H; reflexivity].
    destruct x as [v| | |]; try (inversion H; reflexivity).
    cbv zeta in H.
    destruct (Qltb (Qred (vol_at L i - v)) (lw_min L)) eqn:Eg; [inversion H; reflexivity|].
    apply IH in H. rewrite H. reflexivity.
Qed.

(** one statement for both outcomes *)
Lemma add_hist L wells vols label comps L' e :
  add L wells vols label comps = (L', e) ->
  match e with
  | None => lw_hist L' = lw_hist L ++ [(label, lw_vols L')]
  | Some _ => lw_hist L' = lw_hist L
  end.
Proof.
  unfold add. intro H.
  destruct (prep_wells_vols wells vols) as [wv|e0]; [|inversion H; reflexivity].
  cbv zeta in H.
  destruct (negb (length (match comps with Some cs => cs | None => repeat None (length wv) end)
                    =? length wv)); [inversion H; reflexivity|].
  destruct (add_loop L _) as [L1 [e1|]] eqn:El; inversion H; subst.
  - exact (add_loop_hist _ _ _ _ El).
  - rewrite log_hist, log_vols. rewrite (add_loop_hist _ _ _ _ El). reflexivity.
Qed.

Lemma remove_hist L wells vols label L' e :
  remove L wells vols label = (L', e) ->
  match e with
  | None => lw_hist L' = lw_hist L ++ [(label, lw_vols L')]
  | Some _ => lw_hist L' = lw_hist L
  end.
Proof.
  unfold remove. intro H.
  destruct (prep_wells_vols wells vols) as [wv|e0]; [|inversion H; reflexivity].
  destruct (remove_loop L wv) as [L1 [e1|]] eqn:El; inversion H; subst.
  - exact (remove_loop_hist _ _ _ _ El).
  - rewrite log_hist, log_vols. rewrite (remove_loop_hist _ _ _ _ El). reflexivity.
Qed.

Lemma add_hist_ok L wells vols label comps L' :
  add L wells vols label comps = (L', None) -> lw_hist L' = lw_hist L ++ [(label, lw_vols L')].
Proof. intro H. exact (add_hist _ _ _ _ _ _ _ H). Qed.

Lemma add_hist_err L wells vols label comps L' e :
  add L wells vols label comps = (L', Some e) -> lw_hist L' = lw_hist L.
Proof. intro H. exact (add_hist _ _ _ _ _ _ _ H). Qed.

Lemma remove_hist_ok L wells vols label L' :
  remove L wells vols label = (L', None) -> lw_hist L' = lw_hist L ++ [(label, lw_vols L')].
Proof. intro H. exact (remove_hist _ _ _ _ _ _ H). Qed.

Lemma remove_hist_err L wells vols label L' e :
  remove L wells vols label = (L', Some e) -> lw_hist L' = lw_hist L.
Proof. intro H. exact (remove_hist _ _ _ _ _ _ H). Qed.

(* ------------------------------------------------------------------------------------------ *)
(** * condense_log *)

(** the keyword resolution of [condense_log]: [f] = label of the first condensed entry,
    [l] = label of the last entry *)
Definition resolve_label (label f l : option string) : option string :=
  let label1 := match label with
                | Some s => if String.eqb s "first" then f else label
                | None => None
                end in
  match label1 with
  | Some s => if String.eqb s "last" then l else label1
  | None => None
  end.

Lemma condense_log_zero L label : condense_log L 0 label = L.
Proof. reflexivity. Qed.

Lemma condense_log_vols L n label : lw_vols (condense_log L n label) = lw_vols L.
Proof. unfold condense_log. destruct (n <? 1); reflexivity. Qed.

Lemma condense_log_comp L n label : lw_comp (condense_log L n label) = lw_comp L.
Proof. unfold condense_log. destruct (n <? 1); reflexivity. Qed.

Lemma condense_log_static L n label :
  lw_name (condense_log L n label) = lw_name L /\ lw_geom (condense_log L n label) = lw_geom L /\
  lw_min (condense_log L n label) = lw_min L /\ lw_max (condense_log L n label) = lw_max L.
Proof. unfold condense_log. destruct (n <? 1); repeat split; reflexivity. Qed.

Lemma condense_log_hist L n label :
  1 <= n ->
  lw_hist (condense_log L n label) =
  firstn (length (lw_hist L) - n) (lw_hist L) ++
  [(resolve_label label (fst (nth (length (lw_hist L) - n) (lw_hist L) dflt))
                        (fst (last (lw_hist L) dflt)),
    snd (last (lw_hist L) dflt))].
Proof.
  intro Hn. unfold condense_log. destruct (Nat.ltb_spec n 1) as [C|_]; [lia|].
  cbv zeta. rewrite nth_last. reflexivity.
Qed.

Lemma resolve_plain label f l :
  label <> Some "first"%string -> label <> Some "last"%string -> resolve_label label f l = label.
Proof.
  intros H1 H2. unfold resolve_label. destruct label as [s|]; [|reflexivity].
  destruct (String.eqb_spec s "first") as [E|_]; [subst s; congruence|].
  destruct (String.eqb_spec s "last") as [E|_]; [subst s; congruence|]. reflexivity.
Qed.

Lemma resolve_last f l : resolve_label (Some "last"%string) f l = l.
Proof. reflexivity. Qed.

Definition is_last (o : option string) : bool :=
  match o with Some s => String.eqb s "last" | None => false end.

Lemma resolve_first f l :
  resolve_label (Some "first"%string) f l = if is_last f then l else f.
Proof.
  unfold resolve_label. change (String.eqb "first" "first") with true. cbv iota.
  destruct f as [s|]; reflexivity.
Qed.

(** condensing exactly the block [d] that was appended to [h] *)
Lemma condense_log_block L n label (h d : list entry) :
  lw_hist L = h ++ d -> length d = n -> 1 <= n ->
  lw_hist (condense_log L n label) =
  h ++ [(resolve_label label (fst (hd dflt d)) (fst (last d dflt)), snd (last d dflt))].
Proof.
  intros Hh Hd Hn. rewrite condense_log_hist by exact Hn. rewrite Hh.
  rewrite firstn_app_exact by exact Hd.
  assert (Hne : d <> []) by (intro C; subst d; cbn [length] in Hd; lia).
  rewrite last_app_ne by exact Hne.
  rewrite app_length, Hd. replace (length h + n - n) with (length h) by lia.
  rewrite app_nth2 by lia. rewrite Nat.sub_diag.
  destruct d as [|x r]; [congruence|]. reflexivity.
Qed.

Lemma Forall_hd_last {A} (P : A -> Prop) (d : list A) dft :
  d <> [] -> Forall P d -> P (hd dft d) /\ P (last d dft).
Proof.
  intros Hne Hall. split.
  - destruct d as [|x r]; [congruence|]. inversion Hall; assumption.
  - rewrite Forall_forall in Hall. apply Hall.
    destruct (exists_last Hne) as (l' & a & E). subst d. rewrite last_last.
    apply in_or_app. right. left. reflexivity.
Qed.

(** all condensed entries carry the label [lb] *)
Lemma condense_log_block_label L n label lb (h d : list entry) :
  lw_hist L = h ++ d -> length d = n -> 1 <= n -> Forall (fun en => fst en = lb) d ->
  lw_hist (condense_log L n label) = h ++ [(resolve_label label lb lb, snd (last d dflt))].
Proof.
  intros Hh Hd Hn Hall. rewrite (condense_log_block L n label h d Hh Hd Hn).
  assert (Hne : d <> []) by (intro C; subst d; cbn [length] in Hd; lia).
  destruct (Forall_hd_last _ d dflt Hne Hall) as [H1 H2]. rewrite H1, H2. reflexivity.
Qed.

Lemma resolve_none_block label :
  resolve_label label None None =
  match label with
  | Some s => if String.eqb s "first" then None else if String.eqb s "last" then None else label
  | None => None
  end.
Proof.
  unfold resolve_label. destruct label as [s|]; [|reflexivity].
  destruct (String.eqb s "first"); [reflexivity|]. reflexivity.
Qed.

Lemma resolve_same label : resolve_label label label label = label.
Proof.
  unfold resolve_label. destruct label as [s|]; [|reflexivity].
  destruct (String.eqb s "first") eqn:E1.
  - destruct (String.eqb s "last"); reflexivity.
  - destruct (String.eqb s "last"); reflexivity.
Qed.

(* ------------------------------------------------------------------------------------------ *)
(** * lvh_label *)

Lemma lvh_label_zero label : lvh_label label 0 = label.
Proof. reflexivity. Qed.

Lemma lvh_label_some l k : 0 < k -> l <> EmptyString ->
  lvh_label (Some l) k = Some (l ++ " (" ++ dec k ++ " LVH steps)")%string.
Proof.
  intros Hk Hl. unfold lvh_label. destruct (Nat.eqb_spec k 0) as [C|_]; [lia|].
  destruct (String.eqb_spec l "") as [C|_]; [contradiction|]. reflexivity.
Qed.

Lemma lvh_label_empty k : 0 < k ->
  lvh_label (Some EmptyString) k = Some (dec k ++ " LVH steps")%string.
Proof. intros Hk. unfold lvh_label. destruct (Nat.eqb_spec k 0) as [C|_]; [lia|]. reflexivity. Qed.

Lemma lvh_label_none k : 0 < k -> lvh_label None k = Some (dec k ++ " LVH steps")%string.
Proof. intros Hk. unfold lvh_label. destruct (Nat.eqb_spec k 0) as [C|_]; [lia|]. reflexivity. Qed.

(* ------------------------------------------------------------------------------------------ *)
(** * aspirate / dispense: the labware part *)

Lemma st_lw_set_wl s w : st_lw (set_wl s w) = st_lw s.
Proof. reflexivity. Qed.
Lemma st_lw_set_lw s k L : st_lw (set_lw s k L) = upd (st_lw s) k L.
Proof. reflexivity. Qed.

(** the labware list after [aspirate]: labware [k] replaced by the result of [remove] *)
Lemma aspirate_lw s k wells vols label kw s' e :
  aspirate s k wells vols label kw = (s', e) ->
  match nth_error (st_lw s) k with
  | None => s' = s /\ e = Some EReject
  | Some L =>
      let r := remove L (A1 (fst (wells_vols wells vols))) (A1 (snd (wells_vols wells vols))) label in
      st_lw s' = upd (st_lw s) k (fst r) /\
      (e = None -> snd r = None) /\ (forall e0, snd r = Some e0 -> e = Some e0)
  end.
Proof.
  unfold aspirate. intro H. destruct (nth_error (st_lw s) k) as [L|] eqn:EL.
  - unfold wells_vols in *. cbv beta iota zeta in H. cbn [fst snd].
    destruct (remove L _ _ label) as [L' [e0|]] eqn:Er; cbn [fst snd].
    + inversion H; subst. split; [reflexivity|]. split; [discriminate|].
      intros e1 E1. exact E1.
    + destruct (comment (st_wl (set_lw s k L')) label) as [w [e1|]] eqn:Ec.
      * inversion H; subst. split; [reflexivity|]. split; [intros _; reflexivity|]. discriminate.
      * destruct (emit_wells true w L' _ kw) as [w' e2] eqn:Ee. inversion H; subst.
        split; [reflexivity|]. split; [intros _; reflexivity|]. discriminate.
  - inversion H. split; reflexivity.
Qed.

Lemma dispense_lw s k wells vols label comps kw s' e :
  dispense s k wells vols label comps kw = (s', e) ->
  match nth_error (st_lw s) k with
  | None => s' = s /\ e = Some EReject
  | Some L =>
      let r := add L (A1 (fst (wells_vols wells vols))) (A1 (snd (wells_vols wells vols))) label comps in
      st_lw s' = upd (st_lw s) k (fst r) /\
      (e = None -> snd r = None) /\ (forall e0, snd r = Some e0 -> e = Some e0)
  end.
Proof.
  unfold dispense. intro H. destruct (nth_error (st_lw s) k) as [L|] eqn:EL.
  - unfold wells_vols in *. cbv beta iota zeta in H. cbn [fst snd].
    destruct (add L _ _ label comps) as [L' [e0|]] eqn:Er; cbn [fst snd].
    + inversion H; subst. split; [reflexivity|]. split; [discriminate|].
      intros e1 E1. exact E1.
    + destruct (comment (st_wl (set_lw s k L')) label) as [w [e1|]] eqn:Ec.
      * inversion H; subst. split; [reflexivity|]. split; [intros _; reflexivity|]. discriminate.
      * destruct (emit_wells false w L' _ kw) as [w' e2] eqn:Ee. inversion H; subst.
        split; [reflexivity|]. split; [intros _; reflexivity|]. discriminate.
  - inversion H. split; reflexivity.
Qed.

(** what one tracked call does to one labware: [tracked L L' label ok]:
    [ok = true]: exactly one new entry, labelled [label], equal to the current volumes;
    [ok = false]: history unchanged *)
Definition tracked (L L' : labware) (label : option string) (ok : bool) : Prop :=
  if ok then lw_hist L' = lw_hist L ++ [(label, lw_vols L')] else lw_hist L' = lw_hist L.

Definition is_none {A} (o : option A) : bool := match o with None => true | Some _ => false end.

(** the form used by the property file *)
Lemma aspirate_hist s k wells vols label kw s' e :
  aspirate s k wells vols label kw = (s', e) ->
  length (st_lw s') = length (st_lw s) /\
  (forall j, j <> k -> nth_error (st_lw s') j = nth_error (st_lw s) j) /\
  (nth_error (st_lw s) k = None -> s' = s /\ e = Some EReject) /\
  forall L, nth_error (st_lw s) k = Some L ->
    let r := remove L (A1 (fst (wells_vols wells vols))) (A1 (snd (wells_vols wells vols))) label in
    nth_error (st_lw s') k = Some (fst r) /\
    tracked L (fst r) label (is_none (snd r)) /\
    (e = None -> snd r = None) /\ (forall e0, snd r = Some e0 -> e = Some e0).
Proof.
  intro H. apply aspirate_lw in H. destruct (nth_error (st_lw s) k) as [L|] eqn:EL.
  - cbv zeta in H. destruct H as (Hlw & Hok & Herr). split; [|split; [|split]].
    + rewrite Hlw. apply upd_length.
    + intros j Hj. rewrite Hlw. apply nth_error_upd_other. exact Hj.
    + discriminate.
    + intros L0 E0. inversion E0; subst L0. cbv zeta. split; [|split; [|split]].
      * rewrite Hlw. exact (nth_error_upd_same _ _ _ _ EL).
      * destruct (remove L _ _ label) as [L' e0] eqn:Er. cbn [fst snd].
        pose proof (remove_hist _ _ _ _ _ _ Er) as Hh. unfold tracked.
        destruct e0 as [e0|]; exact Hh.
      * exact Hok.
      * exact Herr.
  - destruct H as [Hs He]. subst s'. split; [reflexivity|]. split; [reflexivity|].
    split; [intros _; split; [reflexivity|exact He]|]. discriminate.
Qed.

Lemma dispense_hist s k wells vols label comps kw s' e :
  dispense s k wells vols label comps kw = (s', e) ->
  length (st_lw s') = length (st_lw s) /\
  (forall j, j <> k -> nth_error (st_lw s') j = nth_error (st_lw s) j) /\
  (nth_error (st_lw s) k = None -> s' = s /\ e = Some EReject) /\
  forall L, nth_error (st_lw s) k = Some L ->
    let r := add L (A1 (fst (wells_vols wells vols))) (A1 (snd (wells_vols wells vols))) label comps in
    nth_error (st_lw s') k = Some (fst r) /\
    tracked L (fst r) label (is_none (snd r)) /\
    (e = None -> snd r = None) /\ (forall e0, snd r = Some e0 -> e = Some e0).
Proof.
  intro H. apply dispense_lw in H. destruct (nth_error (st_lw s) k) as [L|] eqn:EL.
  - cbv zeta in H. destruct H as (Hlw & Hok & Herr). split; [|split; [|split]].
    + rewrite Hlw. apply upd_length.
    + intros j Hj. rewrite Hlw. apply nth_error_upd_other. exact Hj.
    + discriminate.
    + intros L0 E0. inversion E0; subst L0. cbv zeta. split; [|split; [|split]].
      * rewrite Hlw. exact (nth_error_upd_same _ _ _ _ EL).
      * destruct (add L _ _ label comps) as [L' e0] eqn:Er. cbn [fst snd].
        pose proof (add_hist _ _ _ _ _ _ _ Er) as Hh. unfold tracked.
        destruct e0 as [e0|]; exact Hh.
      * exact Hok.
      * exact Herr.
  - destruct H as [Hs He]. subst s'. split; [reflexivity|]. split; [reflexivity|].
    split; [intros _; split; [reflexivity|exact He]|]. discriminate.
Qed.

(* ------------------------------------------------------------------------------------------ *)
(** * execution of a transfer plan *)

(** growth of one labware by a block [d] of unlabelled entries; if the block is empty the labware
    is untouched, otherwise the newest snapshot equals the current volumes *)
Definition ext1 (L L' : labware) (d : list entry) : Prop :=
  lw_hist L' = lw_hist L ++ d /\ Forall (fun en => fst en = None) d /\
  ((d = [] /\ L' = L) \/ (d <> [] /\ snd (last d dflt) = lw_vols L')).

Lemma ext1_refl L : ext1 L L [].
Proof.
  split; [symmetry; apply app_nil_r|]. split; [constructor|]. left. split; reflexivity.
Qed.

Lemma ext1_trans L L1 L2 d1 d2 : ext1 L L1 d1 -> ext1 L1 L2 d2 -> ext1 L L2 (d1 ++ d2).
Proof.
  intros (H1 & F1 & C1) (H2 & F2 & C2). split; [|split].
  - rewrite H2, H1, app_assoc. reflexivity.
  - apply Forall_app. split; assumption.
  - destruct C2 as [[E2 EL]|[N2 V2]].
    + subst d2 L2. rewrite app_nil_r. exact C1.
    + right. split.
      * intro C. apply app_eq_nil in C. destruct C as [_ C]. contradiction.
      * rewrite last_app_ne by exact N2. exact V2.
Qed.

Lemma ext1_one L L' : lw_hist L' = lw_hist L ++ [(None, lw_vols L')] -> ext1 L L' [(None, lw_vols L')].
Proof.
  intro H. split; [exact H|]. split; [constructor; [reflexivity|constructor]|].
  right. split; [discriminate|reflexivity].
Qed.

(** state level: every labware [j] grows by a block of [cnt j] entries *)
Definition sext (s s' : state) (cnt : nat -> nat) : Prop :=
  length (st_lw s') = length (st_lw s) /\
  forall j L, nth_error (st_lw s) j = Some L ->
    exists L' d, nth_error (st_lw s') j = Some L' /\ ext1 L L' d /\ length d = cnt j.

Lemma sext_refl s : sext s s (fun _ => 0).
Proof.
  split; [reflexivity|]. intros j L H. exists L, []. split; [exact H|]. split; [apply ext1_refl|reflexivity].
Qed.

Lemma sext_trans s s1 s2 c1 c2 :
  sext s s1 c1 -> sext s1 s2 c2 -> sext s s2 (fun j => c1 j + c2 j).
Proof.
  intros [Hl1 H1] [Hl2 H2]. split; [congruence|]. intros j L HL.
  destruct (H1 j L HL) as (L1 & d1 & E1 & X1 & N1).
  destruct (H2 j L1 E1) as (L2 & d2 & E2 & X2 & N2).
  exists L2, (d1 ++ d2). split; [exact E2|]. split; [exact (ext1_trans _ _ _ _ _ X1 X2)|].
  rewrite app_length. lia.
Qed.

Lemma sext_cnt_ext s s' c c' : (forall j, c j = c' j) -> sext s s' c -> sext s s' c'.
Proof.
  intros Hc [Hl H]. split; [exact Hl|]. intros j L HL.
  destruct (H j L HL) as (L' & d & E & X & N). exists L', d. rewrite <- Hc. auto.
Qed.

Lemma sext_set_wl_l s w s' c : sext s s' c -> sext (set_wl s w) s' c.
Proof. intro H. exact H. Qed.
Lemma sext_set_wl_r s w s' c : sext s s' c -> sext s (set_wl s' w) c.
Proof. intro H. exact H. Qed.

(** where nothing is counted nothing changed *)
Lemma sext_zero s s' c j : sext s s' c -> c j = 0 -> nth_error (st_lw s') j = nth_error (st_lw s) j.
Proof.
  intros [Hl H] Hc. destruct (nth_error (st_lw s) j) as [L|] eqn:E.
  - destruct (H j L E) as (L' & d & E' & (Hh & Hf & [[Hd HL]|[Hd _]]) & N).
    + subst L'. exact E'.
    + rewrite Hc in N. destruct d; [congruence|discriminate].
  - apply nth_error_None in E. apply nth_error_None. lia.
Qed.

Definition hit (k j : nat) : nat := if (j =? k)%nat then 1 else 0.
Definition hits (ks kd j : nat) : nat := hit ks j + hit kd j.

(** weaker relation for an arbitrary outcome: the histories of [ks], [kd] only grow, by unlabelled
    entries; everything else is untouched *)
Definition pext (L L' : labware) : Prop :=
  exists d, lw_hist L' = lw_hist L ++ d /\ Forall (fun en : entry => fst en = None) d.

Definition spext (s s' : state) (ks kd : nat) : Prop :=
  length (st_lw s') = length (st_lw s) /\
  (forall j, j <> ks -> j <> kd -> nth_error (st_lw s') j = nth_error (st_lw s) j) /\
  forall j L, nth_error (st_lw s) j = Some L ->
    exists L', nth_error (st_lw s') j = Some L' /\ pext L L'.

Lemma pext_refl L : pext L L.
Proof. exists []. split; [symmetry; apply app_nil_r|constructor]. Qed.

Lemma pext_trans L L1 L2 : pext L L1 -> pext L1 L2 -> pext L L2.
Proof.
  intros (d1 & H1 & F1) (d2 & H2 & F2). exists (d1 ++ d2). split.
  - rewrite H2, H1, app_assoc. reflexivity.
  - apply Forall_app. split; assumption.
Qed.

Lemma spext_refl s ks kd : spext s s ks kd.
Proof.
  split; [reflexivity|]. split; [reflexivity|]. intros j L H. exists L. split; [exact H|apply pext_refl].
Qed.

Lemma spext_trans s s1 s2 ks kd : spext s s1 ks kd -> spext s1 s2 ks kd -> spext s s2 ks kd.
Proof.
  intros (Hl1 & Ho1 & H1) (Hl2 & Ho2 & H2). split; [congruence|]. split.
  - intros j Hs Hd. rewrite Ho2, Ho1 by assumption. reflexivity.
  - intros j L HL. destruct (H1 j L HL) as (L1 & E1 & P1). destruct (H2 j L1 E1) as (L2 & E2 & P2).
    exists L2. split; [exact E2|exact (pext_trans _ _ _ P1 P2)].
Qed.

Lemma tracked_pext L L' ok : tracked L L' None ok -> pext L L'.
Proof.
  unfold tracked. destruct ok; intro H.
  - exists [(None, lw_vols L')]. split; [exact H|]. constructor; [reflexivity|constructor].
  - exists []. split; [rewrite app_nil_r; exact H|constructor].
Qed.

(** a change of labware [k] only *)
Lemma spext_single s s' k ks kd :
  (k = ks \/ k = kd) ->
  length (st_lw s') = length (st_lw s) ->
  (forall j, j <> k -> nth_error (st_lw s') j = nth_error (st_lw s) j) ->
  (forall L, nth_error (st_lw s) k = Some L ->
     exists L', nth_error (st_lw s') k = Some L' /\ pext L L') ->
  spext s s' ks kd.
Proof.
  intros Hk Hl Ho Hs. split; [exact Hl|]. split.
  - intros j H1 H2. apply Ho. destruct Hk; congruence.
  - intros j L HL. destruct (Nat.eq_dec j k) as [E|E].
    + subst j. exact (Hs L HL).
    + exists L. split; [rewrite Ho by exact E; exact HL|apply pext_refl].
Qed.

Lemma aspirate_spext s k wells vols kw s' e ks kd :
  (k = ks \/ k = kd) -> aspirate s k wells vols None kw = (s', e) -> spext s s' ks kd.
Proof.
  intros Hk H. destruct (aspirate_hist _ _ _ _ _ _ _ _ H) as (Hl & Ho & _ & Hs).
  apply (spext_single s s' k ks kd Hk Hl Ho). intros L HL.
  destruct (Hs L HL) as (E & T & _). cbv zeta in E, T.
  eexists. split; [exact E|]. exact (tracked_pext _ _ _ T).
Qed.

Lemma dispense_spext s k wells vols comps kw s' e ks kd :
  (k = ks \/ k = kd) -> dispense s k wells vols None comps kw = (s', e) -> spext s s' ks kd.
Proof.
  intros Hk H. destruct (dispense_hist _ _ _ _ _ _ _ _ _ H) as (Hl & Ho & _ & Hs).
  apply (spext_single s s' k ks kd Hk Hl Ho). intros L HL.
  destruct (Hs L HL) as (E & T & _). cbv zeta in E, T.
  eexists. split; [exact E|]. exact (tracked_pext _ _ _ T).
Qed.

(** a successful change of labware [k] only, by one entry *)
Lemma sext_single s s' k :
  length (st_lw s') = length (st_lw s) ->
  (forall j, j <> k -> nth_error (st_lw s') j = nth_error (st_lw s) j) ->
  (forall L, nth_error (st_lw s) k = Some L ->
     exists L', nth_error (st_lw s') k = Some L' /\
                lw_hist L' = lw_hist L ++ [(None, lw_vols L')]) ->
  sext s s' (hit k).
Proof.
  intros Hl Ho Hs. split; [exact Hl|]. intros j L HL. unfold hit.
  destruct (Nat.eqb_spec j k) as [E|E].
  - subst j. destruct (Hs L HL) as (L' & E' & Hh). exists L', [(None, lw_vols L')].
    split; [exact E'|]. split; [exact (ext1_one _ _ Hh)|reflexivity].
  - exists L, []. split; [rewrite Ho by exact E; exact HL|]. split; [apply ext1_refl|reflexivity].
Qed.

Lemma aspirate_sext s k wells vols kw s' :
  aspirate s k wells vols None kw = (s', None) ->
  sext s s' (hit k) /\ exists L, nth_error (st_lw s) k = Some L.
Proof.
  intro H. destruct (aspirate_hist _ _ _ _ _ _ _ _ H) as (Hl & Ho & Hn & Hs).
  destruct (nth_error (st_lw s) k) as [L|] eqn:EL.
  - split; [|exists L; reflexivity]. apply (sext_single s s' k Hl Ho).
    intros L0 E0. rewrite EL in E0. inversion E0; subst L0.
    destruct (Hs L eq_refl) as (E & T & Hok & _). cbv zeta in E, T, Hok.
    eexists. split; [exact E|]. rewrite (Hok eq_refl) in T. exact T.
  - destruct (Hn eq_refl) as [_ C]. discriminate.
Qed.

Lemma dispense_sext s k wells vols comps kw s' :
  dispense s k wells vols None comps kw = (s', None) ->
  sext s s' (hit k) /\ exists L, nth_error (st_lw s) k = Some L.
Proof.
  intro H. destruct (dispense_hist _ _ _ _ _ _ _ _ _ H) as (Hl & Ho & Hn & Hs).
  destruct (nth_error (st_lw s) k) as [L|] eqn:EL.
  - split; [|exists L; reflexivity]. apply (sext_single s s' k Hl Ho).
    intros L0 E0. rewrite EL in E0. inversion E0; subst L0.
    destruct (Hs L eq_refl) as (E & T & Hok & _). cbv zeta in E, T, Hok.
    eexists. split; [exact E|]. rewrite (Hok eq_refl) in T. exact T.
  - destruct (Hn eq_refl) as [_ C]. discriminate.
Qed.

Lemma exec_step_spext s ks kd sw dw v ws kw s' e :
  exec_step s ks kd sw dw v ws kw = (s', e) -> spext s s' ks kd.
Proof.
  unfold exec_step. intro H.
  destruct (aspirate s ks (A0 sw) (A0 (XQ v)) None kw) as [s1 e1] eqn:Ea.
  pose proof (aspirate_spext _ _ _ _ _ _ _ ks kd (or_introl eq_refl) Ea) as P1.
  destruct e1 as [e1|]; [inversion H; subst; exact P1|].
  destruct (nth_error (st_lw s1) ks) as [Ls|]; [|inversion H; subst; exact P1].
  destruct (get_well_composition Ls sw) as [c|e2]; [|inversion H; subst; exact P1].
  destruct (dispense s1 kd (A0 dw) (A0 (XQ v)) None (Some [Some c]) kw) as [s2 e2] eqn:Ed.
  pose proof (dispense_spext _ _ _ _ _ _ _ _ ks kd (or_intror eq_refl) Ed) as P2.
  pose proof (spext_trans _ _ _ _ _ P1 P2) as P.
  destruct e2 as [e2|]; [inversion H; subst; exact P|].
  destruct (tip_action (st_wl s2) ws) as [w e3]. inversion H; subst. exact P.
Qed.

Lemma exec_step_sext s ks kd sw dw v ws kw s' :
  exec_step s ks kd sw dw v ws kw = (s', None) ->
  sext s s' (hits ks kd) /\ (exists Ls, nth_error (st_lw s) ks = Some Ls) /\
  (exists Ld, nth_error (st_lw s) kd = Some Ld).
Proof.
  unfold exec_step. intro H.
  destruct (aspirate s ks (A0 sw) (A0 (XQ v)) None kw) as [s1 e1] eqn:Ea.
  destruct e1 as [e1|]; [discriminate|].
  destruct (aspirate_sext _ _ _ _ _ _ Ea) as [X1 Hs].
  destruct (nth_error (st_lw s1) ks) as [Ls|]; [|discriminate].
  destruct (get_well_composition Ls sw) as [c|e2]; [|discriminate].
  destruct (dispense s1 kd (A0 dw) (A0 (XQ v)) None (Some [Some c]) kw) as [s2 e2] eqn:Ed.
  destruct e2 as [e2|]; [inversion H|].
  destruct (dispense_sext _ _ _ _ _ _ _ Ed) as [X2 Hd].
  destruct (tip_action (st_wl s2) ws) as [w e3]. inversion H; subst.
  split; [|split].
  - apply sext_set_wl_r. exact (sext_trans _ _ _ _ _ X1 X2).
  - exact Hs.
  - destruct Hd as [Ld Hd]. destruct X1 as [Hl _].
    destruct (nth_error (st_lw s) kd) as [Ld0|] eqn:E0; [exists Ld0; reflexivity|].
    apply nth_error_None in E0. assert (C : nth_error (st_lw s1) kd = None) by (apply nth_error_None; lia).
    congruence.
Qed.

Lemma n_steps_nil : n_steps [] = 0.
Proof. reflexivity. Qed.
Lemma n_steps_step sw dw v rest : n_steps (Step sw dw v :: rest) = S (n_steps rest).
Proof. reflexivity. Qed.
Lemma n_steps_commit rest : n_steps (Commit :: rest) = n_steps rest.
Proof. reflexivity. Qed.
Lemma n_steps_app a b : n_steps (a ++ b) = n_steps a + n_steps b.
Proof. unfold n_steps. rewrite filter_app, app_length. reflexivity. Qed.

Lemma exec_spext : forall acts s ks kd ws kw s' e,
  exec s ks kd acts ws kw = (s', e) -> spext s s' ks kd.
Proof.
  induction acts as [|a rest IH]; intros s ks kd ws kw s' e H; cbn [exec] in H.
  - inversion H; subst. apply spext_refl.
  - destruct a as [sw dw v|].
    + destruct (exec_step s ks kd sw dw v ws kw) as [s1 e1] eqn:Es.
      pose proof (exec_step_spext _ _ _ _ _ _ _ _ _ _ Es) as P1.
      destruct e1 as [e1|]; [inversion H; subst; exact P1|].
      exact (spext_trans _ _ _ _ _ P1 (IH _ _ _ _ _ _ _ H)).
    + exact (IH _ _ _ _ _ _ _ H).
Qed.

Lemma exec_sext : forall acts s ks kd ws kw s',
  exec s ks kd acts ws kw = (s', None) ->
  sext s s' (fun j => hits ks kd j * n_steps acts).
Proof.
  induction acts as [|a rest IH]; intros s ks kd ws kw s' H; cbn [exec] in H.
  - inversion H; subst. apply (sext_cnt_ext _ _ (fun _ => 0)); [intro j; rewrite n_steps_nil; lia|].
    apply sext_refl.
  - destruct a as [sw dw v|].
    + destruct (exec_step s ks kd sw dw v ws kw) as [s1 e1] eqn:Es.
      destruct e1 as [e1|]; [discriminate|].
      destruct (exec_step_sext _ _ _ _ _ _ _ _ _ Es) as [X1 _].
      pose proof (sext_trans _ _ _ _ _ X1 (IH _ _ _ _ _ _ H)) as X.
      refine (sext_cnt_ext _ _ _ _ _ X). intro j. cbv beta. rewrite n_steps_step. lia.
    + apply (sext_cnt_ext _ _ (fun j => hits ks kd j * n_steps rest));
        [intro j; rewrite n_steps_commit; reflexivity|].
      exact (IH _ _ _ _ _ _ H).
Qed.
