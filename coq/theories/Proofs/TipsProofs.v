(** Lemmas about tip masks (C10): [sum(set(tips))] is the bitwise OR of the tip bits. *)
From Robo Require Import Prelude Tips.
From Coq Require Import Permutation.

(* ------------------------------------------------------------------ bits of the OR *)

Lemma bit_pow2 n : bit n = (2 ^ N.of_nat n)%N.
Proof. unfold bit. apply N.shiftl_1_l. Qed.

Lemma testbit_bit x i : N.testbit (bit x) (N.of_nat i) = Nat.eqb i x.
Proof.
  rewrite bit_pow2, N.pow2_bits_eqb.
  destruct (Nat.eqb_spec i x) as [->|Hne].
  - apply N.eqb_refl.
  - apply N.eqb_neq. lia.
Qed.

Lemma testbit_mask_or l i : N.testbit (mask_or l) (N.of_nat i) = existsb (Nat.eqb i) l.
Proof.
  induction l as [|x r IH]; cbn [mask_or fold_right existsb].
  - apply N.bits_0.
  - fold (mask_or r). rewrite N.lor_spec, IH, testbit_bit. reflexivity.
Qed.

Lemma existsb_eqb_In i l : existsb (Nat.eqb i) l = true <-> In i l.
Proof.
  rewrite existsb_exists. split.
  - intros [x [Hin E]]. apply Nat.eqb_eq in E. subst x. exact Hin.
  - intro Hin. exists i. split; [exact Hin|apply Nat.eqb_refl].
Qed.

Lemma mask_or_ext l l' : (forall i, In i l <-> In i l') -> mask_or l = mask_or l'.
Proof.
  intro H. apply N.bits_inj. intro k. rewrite <- (N2Nat.id k), !testbit_mask_or.
  apply eq_true_iff_eq. rewrite !existsb_eqb_In. apply H.
Qed.

Lemma mask_or_perm l l' : Permutation l l' -> mask_or l = mask_or l'.
Proof.
  intro P. apply mask_or_ext. intro i. split; intro Hin.
  - eapply Permutation_in; eauto.
  - eapply Permutation_in; [apply Permutation_sym|]; eauto.
Qed.

Lemma mask_or_dup x l : In x l -> mask_or (x :: l) = mask_or l.
Proof.
  intro Hx. apply mask_or_ext. intro i. cbn [In]. split.
  - intros [->|Hin]; assumption.
  - intro Hin. right. exact Hin.
Qed.

(* ------------------------------------------------------------------ de-duplicated sum = OR *)

Lemma existsb_dedup i l : existsb (Nat.eqb i) (dedup l) = existsb (Nat.eqb i) l.
Proof.
  induction l as [|x r IH]; [reflexivity|]. cbn [dedup].
  destruct (existsb (Nat.eqb x) r) eqn:E; cbn [existsb]; rewrite IH; [|reflexivity].
  destruct (Nat.eqb_spec i x) as [->|Hne]; [rewrite E|]; reflexivity.
Qed.

Lemma mask_or_dedup l : mask_or (dedup l) = mask_or l.
Proof.
  apply N.bits_inj. intro k. rewrite <- (N2Nat.id k), !testbit_mask_or. apply existsb_dedup.
Qed.

Lemma nodup_dedup l : NoDup (dedup l).
Proof.
  induction l as [|x r IH]; cbn [dedup]; [constructor|].
  destruct (existsb (Nat.eqb x) r) eqn:E; [exact IH|]. constructor; [|exact IH].
  intro Hin. apply existsb_eqb_In in Hin. rewrite existsb_dedup in Hin. congruence.
Qed.

Lemma sum_is_or l : NoDup l -> fold_right (fun n m => (bit n + m)%N) 0%N l = mask_or l.
Proof.
  induction l as [|x r IH]; intro ND; [reflexivity|].
  inversion ND as [|x' r' Hnotin ND']; subst x' r'.
  cbn [fold_right mask_or]. fold (mask_or r). rewrite (IH ND').
  assert (D : N.land (bit x) (mask_or r) = 0%N).
  { apply N.bits_inj. intro k. rewrite N.land_spec, N.bits_0, <- (N2Nat.id k).
    rewrite testbit_mask_or, testbit_bit.
    destruct (Nat.eqb_spec (N.to_nat k) x) as [E|Hne]; [|reflexivity].
    cbn [andb]. destruct (existsb (Nat.eqb (N.to_nat k)) r) eqn:Ex; [|reflexivity].
    apply existsb_eqb_In in Ex. rewrite E in Ex. contradiction. }
  rewrite <- N.lxor_lor by exact D. apply N.add_nocarry_lxor. exact D.
Qed.

Lemma mask_sum_is_or l : mask_sum l = mask_or l.
Proof. unfold mask_sum. rewrite sum_is_or by apply nodup_dedup. apply mask_or_dedup. Qed.

(* ------------------------------------------------------------------ elements *)

Lemma int_to_tip_nat n : 1 <= n <= 8 -> int_to_tip (Z.of_nat n) = Some (n - 1).
Proof.
  intro H. unfold int_to_tip.
  replace (1 <=? Z.of_nat n)%Z with true by (symmetry; apply Z.leb_le; lia).
  replace (Z.of_nat n <=? 8)%Z with true by (symmetry; apply Z.leb_le; lia).
  cbn [andb]. rewrite Nat2Z.id. reflexivity.
Qed.

Lemma int_to_tip_out z : (z < 1 \/ z > 8)%Z -> int_to_tip z = None.
Proof.
  intro H. unfold int_to_tip. destruct (1 <=? z)%Z eqn:E1; [|reflexivity].
  destruct (z <=? 8)%Z eqn:E2; [|reflexivity].
  apply Z.leb_le in E1. apply Z.leb_le in E2. lia.
Qed.

Lemma tip_bit_nat n : 1 <= n <= 8 -> elem_bit (TTip n) = Some (n - 1).
Proof.
  intro H. cbn [elem_bit].
  replace (1 <=? n) with true by (symmetry; apply Nat.leb_le; lia).
  replace (n <=? 8) with true by (symmetry; apply Nat.leb_le; lia).
  reflexivity.
Qed.

Lemma tip_bit_out n : n < 1 \/ n > 8 -> elem_bit (TTip n) = None.
Proof.
  intro H. cbn [elem_bit]. destruct (1 <=? n) eqn:E1; [|reflexivity].
  destruct (n <=? 8) eqn:E2; [|reflexivity].
  apply Nat.leb_le in E1. apply Nat.leb_le in E2. lia.
Qed.

(** numbers and Tip members are interchangeable (for every n, in range or not) *)
Lemma elem_bit_mix n : elem_bit (TInt (Z.of_nat n)) = elem_bit (TTip n).
Proof.
  destruct (le_lt_dec 1 n) as [H1|H1]; [destruct (le_lt_dec n 8) as [H8|H8]|].
  - cbn [elem_bit]. rewrite int_to_tip_nat by lia. symmetry. apply (tip_bit_nat n). lia.
  - rewrite tip_bit_out by lia. cbn [elem_bit]. apply int_to_tip_out. lia.
  - rewrite tip_bit_out by lia. cbn [elem_bit]. apply int_to_tip_out. lia.
Qed.

Lemma elem_bit_lt8 e b : elem_bit e = Some b -> b < 8.
Proof.
  destruct e as [z|n| |]; cbn [elem_bit]; try discriminate.
  - unfold int_to_tip. destruct (1 <=? z)%Z eqn:E1; [|discriminate].
    destruct (z <=? 8)%Z eqn:E2; [|discriminate]. cbn [andb]. intro H. injection H as <-.
    apply Z.leb_le in E1. apply Z.leb_le in E2. lia.
  - destruct (1 <=? n) eqn:E1; [|discriminate].
    destruct (n <=? 8) eqn:E2; [|discriminate]. cbn [andb]. intro H. injection H as <-.
    apply Nat.leb_le in E2. lia.
Qed.

(* ------------------------------------------------------------------ single tips *)

Lemma tip_mask_single n : 1 <= n <= 8 ->
  tip_mask (TipOne (TInt (Z.of_nat n))) = Ok (Some (2 ^ N.of_nat (n - 1))%N) /\
  tip_mask (TipOne (TTip n)) = Ok (Some (2 ^ N.of_nat (n - 1))%N).
Proof.
  intro H. split; cbn [tip_mask].
  - rewrite int_to_tip_nat by exact H. rewrite bit_pow2. reflexivity.
  - rewrite tip_bit_nat by exact H. rewrite bit_pow2. reflexivity.
Qed.

Lemma tip_mask_any : tip_mask (TipOne TAny) = Ok None.
Proof. reflexivity. Qed.

(* ------------------------------------------------------------------ collections *)

Lemma tip_mask_many_or l bs : elems_bits l = Some bs ->
  tip_mask (TipMany l) = Ok (Some (mask_or bs)).
Proof. intro H. cbn [tip_mask]. rewrite H, mask_sum_is_or. reflexivity. Qed.

Lemma elems_bits_map l :
  elems_bits l = if forallb (fun e => match elem_bit e with Some _ => true | None => false end) l
                 then Some (map (fun e => match elem_bit e with Some b => b | None => 0 end) l)
                 else None.
Proof.
  induction l as [|e r IH]; [reflexivity|]. cbn [elems_bits forallb map]. rewrite IH.
  destruct (elem_bit e) as [b|]; [|reflexivity]. cbn [andb].
  destruct (forallb _ r); reflexivity.
Qed.

Lemma elems_bits_none l : elems_bits l = None <-> exists e, In e l /\ elem_bit e = None.
Proof.
  induction l as [|e r IH]; cbn [elems_bits In].
  - split; [discriminate|]. intros [e [[] _]].
  - destruct (elem_bit e) as [b|] eqn:Ee.
    + destruct (elems_bits r) as [bs|] eqn:Er.
      * split; [discriminate|]. intros [e' [[<-|Hin] He']]; [congruence|].
        destruct IH as [_ IH2]. assert (X : Some bs = None) by (apply IH2; eauto). discriminate X.
      * split; [|reflexivity]. intros _. destruct IH as [IH1 _].
        destruct (IH1 eq_refl) as [e' [Hin He']]. exists e'. split; [right; exact Hin|exact He'].
    + split; [|reflexivity]. intros _. exists e. split; [left; reflexivity|exact Ee].
Qed.

Lemma elems_bits_some l bs : elems_bits l = Some bs ->
  bs = map (fun e => match elem_bit e with Some b => b | None => 0 end) l.
Proof.
  rewrite elems_bits_map. destruct (forallb _ l); [|discriminate]. intro H. injection H as <-. reflexivity.
Qed.

Lemma elems_bits_In l bs : elems_bits l = Some bs ->
  forall b, In b bs <-> exists e, In e l /\ elem_bit e = Some b.
Proof.
  revert bs. induction l as [|e r IH]; intros bs H b; cbn [elems_bits] in H.
  - injection H as <-. cbn [In]. split; [intros []|intros [e [[] _]]].
  - destruct (elem_bit e) as [b0|] eqn:Ee; [|discriminate].
    destruct (elems_bits r) as [bs0|] eqn:Er; [|discriminate]. injection H as <-.
    cbn [In]. rewrite (IH bs0 eq_refl b). split.
    + intros [<-|[e' [Hin He']]]; [exists e; split; [left; reflexivity|exact Ee]|].
      exists e'. split; [right; exact Hin|exact He'].
    + intros [e' [[<-|Hin] He']]; [left; congruence|]. right. exists e'. split; assumption.
Qed.

(** the emitted value (mask or rejection) depends only on the set of elements *)
Lemma tip_mask_many_ext l l' : (forall e, In e l <-> In e l') ->
  tip_mask (TipMany l) = tip_mask (TipMany l').
Proof.
  intro H. cbn [tip_mask].
  destruct (elems_bits l) as [bs|] eqn:E; destruct (elems_bits l') as [bs'|] eqn:E'.
  - rewrite !mask_sum_is_or. do 2 f_equal. apply mask_or_ext. intro i.
    rewrite (elems_bits_In l bs E i), (elems_bits_In l' bs' E' i).
    split; intros [e [Hin He]]; exists e; (split; [apply H; exact Hin|exact He]).
  - exfalso. apply elems_bits_none in E'. destruct E' as [e [Hin He]].
    apply H in Hin. assert (X : elems_bits l = None) by (apply elems_bits_none; eauto). congruence.
  - exfalso. apply elems_bits_none in E. destruct E as [e [Hin He]].
    apply H in Hin. assert (X : elems_bits l' = None) by (apply elems_bits_none; eauto). congruence.
  - reflexivity.
Qed.

Lemma tip_mask_many_perm l l' : Permutation l l' -> tip_mask (TipMany l) = tip_mask (TipMany l').
Proof.
  intro P. apply tip_mask_many_ext. intro e. split; intro Hin.
  - eapply Permutation_in; eauto.
  - eapply Permutation_in; [apply Permutation_sym|]; eauto.
Qed.

Lemma tip_mask_many_dup e l : In e l -> tip_mask (TipMany (e :: l)) = tip_mask (TipMany l).
Proof.
  intro He. apply tip_mask_many_ext. intro e'. cbn [In]. split.
  - intros [<-|Hin]; assumption.
  - intro Hin. right. exact Hin.
Qed.

(** replacing a number by the corresponding Tip member (or back) changes nothing *)
Lemma tip_mask_many_mix l1 l2 n :
  tip_mask (TipMany (l1 ++ TInt (Z.of_nat n) :: l2)) = tip_mask (TipMany (l1 ++ TTip n :: l2)).
Proof.
  cbn [tip_mask]. assert (E : elems_bits (l1 ++ TInt (Z.of_nat n) :: l2) = elems_bits (l1 ++ TTip n :: l2)).
  { induction l1 as [|e r IH]; cbn [app elems_bits].
    - rewrite <- elem_bit_mix. reflexivity.
    - rewrite IH. reflexivity. }
  rewrite E. reflexivity.
Qed.

(* ------------------------------------------------------------------ bits and bound *)

Lemma mask_or_lt l k : (forall b, In b l -> b < k) -> (mask_or l < 2 ^ N.of_nat k)%N.
Proof.
  intro H. destruct (N.eq_dec (mask_or l) 0) as [E0|Hne].
  - rewrite E0. apply N.neq_0_lt_0. apply N.pow_nonzero. discriminate.
  - apply N.log2_lt_pow2; [lia|].
    destruct (N.lt_ge_cases (N.log2 (mask_or l)) (N.of_nat k)) as [Hlt|Hge]; [exact Hlt|exfalso].
    pose proof (N.bit_log2 (mask_or l) Hne) as Hb.
    rewrite <- (N2Nat.id (N.log2 (mask_or l))) in Hb. rewrite testbit_mask_or in Hb.
    apply existsb_eqb_In in Hb. apply H in Hb. lia.
Qed.

Lemma mask_valid_lt256 l bs : elems_bits l = Some bs -> (mask_or bs < 256)%N.
Proof.
  intro H. change 256%N with (2 ^ N.of_nat 8)%N. apply mask_or_lt. intros b Hb.
  apply (elems_bits_In l bs H) in Hb. destruct Hb as [e [_ He]]. exact (elem_bit_lt8 e b He).
Qed.

(* ------------------------------------------------------------------ rejection *)

Lemma tip_mask_reject_int z : (z < 1 \/ z > 8)%Z -> tip_mask (TipOne (TInt z)) = Err EReject.
Proof. intro H. cbn [tip_mask]. rewrite int_to_tip_out by exact H. reflexivity. Qed.

Lemma tip_mask_reject_other : tip_mask (TipOne TOther) = Err EReject.
Proof. reflexivity. Qed.

Lemma tip_mask_reject_many l :
  In TAny l \/ In TOther l \/ (exists z, In (TInt z) l /\ (z < 1 \/ z > 8)%Z) ->
  tip_mask (TipMany l) = Err EReject.
Proof.
  intro H. cbn [tip_mask].
  assert (E : elems_bits l = None).
  { apply elems_bits_none. destruct H as [H|[H|[z [H Hz]]]].
    - exists TAny. split; [exact H|reflexivity].
    - exists TOther. split; [exact H|reflexivity].
    - exists (TInt z). split; [exact H|]. cbn [elem_bit]. apply int_to_tip_out. exact Hz. }
  rewrite E. reflexivity.
Qed.

Lemma tip_mask_reject :
  (forall z, (z < 1 \/ z > 8)%Z -> exists e, tip_mask (TipOne (TInt z)) = Err e) /\
  (exists e, tip_mask (TipOne TOther) = Err e) /\
  (forall l, In TAny l \/ In TOther l \/ (exists z, In (TInt z) l /\ (z < 1 \/ z > 8)%Z) ->
             exists e, tip_mask (TipMany l) = Err e).
Proof.
  split; [|split].
  - intros z H. exists EReject. apply tip_mask_reject_int. exact H.
  - exists EReject. reflexivity.
  - intros l H. exists EReject. apply tip_mask_reject_many. exact H.
Qed.

(** a collection is rejected exactly when it has an element that is not a tip 1..8 *)
Lemma tip_mask_many_err_iff l :
  (exists e, tip_mask (TipMany l) = Err e) <-> (exists x, In x l /\ elem_bit x = None).
Proof.
  rewrite <- elems_bits_none. cbn [tip_mask]. destruct (elems_bits l) as [bs|].
  - split; [intros [e He]; discriminate|discriminate].
  - split; [reflexivity|]. intros _. exists EReject. reflexivity.
Qed.

(* ------------------------------------------------------------------ packaged statements for Props/C10 *)

Lemma tip_mask_perm_dup :
  (forall l l' : list nat, Permutation l l' -> mask_or l = mask_or l') /\
  (forall (x : nat) (l : list nat), In x l -> mask_or (x :: l) = mask_or l) /\
  (forall l l' : list tipelem, Permutation l l' -> tip_mask (TipMany l) = tip_mask (TipMany l')) /\
  (forall (e : tipelem) (l : list tipelem), In e l -> tip_mask (TipMany (e :: l)) = tip_mask (TipMany l)) /\
  (forall l l' : list tipelem, (forall e, In e l <-> In e l') -> tip_mask (TipMany l) = tip_mask (TipMany l')) /\
  (forall n : nat, elem_bit (TInt (Z.of_nat n)) = elem_bit (TTip n)) /\
  (forall (l1 l2 : list tipelem) (n : nat),
     tip_mask (TipMany (l1 ++ TInt (Z.of_nat n) :: l2)) = tip_mask (TipMany (l1 ++ TTip n :: l2))).
Proof.
  exact (conj mask_or_perm (conj mask_or_dup (conj tip_mask_many_perm (conj tip_mask_many_dup
        (conj tip_mask_many_ext (conj elem_bit_mix tip_mask_many_mix)))))).
Qed.

Lemma tip_mask_bits :
  (forall (bs : list nat) (i : nat), N.testbit (mask_or bs) (N.of_nat i) = existsb (Nat.eqb i) bs) /\
  (forall (l : list tipelem) (bs : list nat), elems_bits l = Some bs ->
     (forall b, In b bs <-> exists e, In e l /\ elem_bit e = Some b) /\ (mask_or bs < 256)%N).
Proof.
  exact (conj testbit_mask_or (fun l bs H => conj (elems_bits_In l bs H) (mask_valid_lt256 l bs H))).
Qed.
