(** C05, review item M1: the tracked composition equals ideal volumetric mixing computed in exact
    arithmetic for whole calls ([transfer] with its plan named, [distribute], [add] / [dispense]
    with given compositions, [remove] / [aspirate]) and for whole programs ([run]).
    Builds on Proofs/MixingProofs.v and Proofs/MixingRunProofs.v; the reference ([iwell],
    [is_transfer], [is_exec]) is that of Spec/Mixing.v, extended below by the ideal view of
    liquids entering from outside ([is_add]; [iw_dilute] / [is_addo] for liquids of unknown
    composition, audit item REVIEW2 N2), liquids leaving ([is_rem]) and whole calls ([is_op]). *)
From Robo Require Import Prelude Str Wells Utils Labware Tips Records Partition Params Worklist
  EvoCmd Program Invariants Mixing WellsProofs MixingProofs MixingRunProofs.
From Coq Require Import Lqa.
#[local] Open Scope Q_scope.

(* ================================================================== specification-level definitions
   (used in the statements of Props/C05.v; no model function occurs in them except [lw_index],
   the resolution of a well id by the never-changing geometry of a labware) *)

(** liquids entering from outside, in call order: [(well id, volume, composition)]; every
    occurrence of a well is one ideal addition [iw_add] *)
Fixpoint is_add (sg : istate) (k : nat) (L : labware) (items : list (string * Q * composition))
    : istate :=
  match items with
  | [] => sg
  | (w, v, c) :: r =>
      match lw_index L w with
      | Some i => is_add (is_upd sg k i (iw_add (sg k i) v (fun x => cget x c))) k L r
      | None => sg
      end
  end.

(** liquid leaving, in call order: [(well id, volume)]; every occurrence is one [iw_remove] *)
Fixpoint is_rem (sg : istate) (k : nat) (L : labware) (items : list (string * Q)) : istate :=
  match items with
  | [] => sg
  | (w, v) :: r =>
      match lw_index L w with
      | Some i => is_rem (is_upd sg k i (iw_remove (sg k i) v)) k L r
      | None => sg
      end
  end.

(** A liquid of UNKNOWN composition enters ([add] / [dispense] / [evo_dispense] called without a
    composition): the volume grows by [v] and every fraction is kept, i.e. the added liquid is
    booked as "more of what is already there" - every amount grows by the factor [(V + v) / V].
    (This is a modelling decision, not physics: the English property only speaks about liquids
    of known composition.  The library does the same: [Labware.add] leaves the fractions of the
    well alone when no composition is given.)
    The empty well, [V == 0]: in an ideal well that is empty every amount is 0, and 0 times any
    factor is 0 - the well then holds [v] of a liquid of which nothing is known (all amounts 0),
    whatever [(0 + v) / 0] is taken to be; [iw_dilute_empty] below proves this without looking at
    the quotient, so nothing depends on Coq's [x / 0 = 0].  (Same remark as for [iw_remove].)
    The MODEL differs there: a well that was emptied keeps its last fractions in the component
    table, and a later addition without composition makes them valid again ("30 ul of unknown
    liquid into the emptied stock well = 30 ul of stock", as the library).  The refinement
    theorems for composition-less additions therefore carry the hypothesis [well_clean] (below). *)
Definition iw_dilute (w : iwell) (v : Q) : iwell :=
  {| iw_vol := iw_vol w + v;
     iw_amt := fun k => iw_amt w k * ((iw_vol w + v) / iw_vol w) |}.

(** liquids entering from outside, with or without a composition, in call order:
    [(well id, volume, Some composition)] is one ideal addition [iw_add] (as in [is_add]),
    [(well id, volume, None)] is one [iw_dilute] *)
Fixpoint is_addo (sg : istate) (k : nat) (L : labware) (items : list (string * Q * option composition))
    : istate :=
  match items with
  | [] => sg
  | (w, v, oc) :: r =>
      match lw_index L w with
      | Some i =>
          is_addo (is_upd sg k i (match oc with
                                  | Some c => iw_add (sg k i) v (fun x => cget x c)
                                  | None => iw_dilute (sg k i) v
                                  end)) k L r
      | None => sg
      end
  end.

(** the [compositions] argument of [add]: a list with one entry per addressed well ([None] entries
    allowed), or [None] for "no composition for any of the [n] wells" *)
Definition comps_list (comps : option (list (option composition))) (n : nat) : list (option composition) :=
  match comps with Some cs => cs | None => repeat None n end.

(** the (source, destination, volume) triples of a [transfer] call (numpy broadcasting of the
    three arguments to the longest one) *)
Definition transfer_triples (swells dwells : arr string) (vols : arr Q) : list triple :=
  let sw := flattenF swells in
  let dw := flattenF dwells in
  let vs := flattenF vols in
  let nmax := Nat.max (length sw) (Nat.max (length dw) (length vs)) in
  zip (zip (broadcast sw nmax) (broadcast dw nmax)) (broadcast vs nmax).

(** the pipetting steps an ideal [distribute] consists of: one step source column -> destination
    well per addressed well, in the order the wells are given (column-major for 2-D arguments) *)
Definition dist_steps (col : Z) (dwells : arr string) (v : Q) : list action :=
  map (fun w => Step (well_id 0 (Z.to_nat col)) w v) (flattenF dwells).

(** natural numbers as rationals *)
Definition Qn (n : nat) : Q := inject_Z (Z.of_nat n).

(* ================================================================== helpers *)

Lemma Qn_S n : Qn (S n) == Qn n + 1.
Proof. unfold Qn. rewrite Nat2Z.inj_succ. unfold Z.succ. rewrite inject_Z_plus. reflexivity. Qed.

Lemma Qn_nonneg n : 0 <= Qn n.
Proof.
  unfold Qn. change 0 with (inject_Z 0). rewrite <- Zle_Qle. apply Nat2Z.is_nonneg.
Qed.

Lemma upd_upd {A} (l : list A) : forall k x y, upd (upd l k x) k y = upd l k y.
Proof.
  induction l as [|z r IH]; intros k x y; [destruct k; reflexivity|].
  destruct k as [|k]; cbn [upd]; [reflexivity|]. rewrite IH. reflexivity.
Qed.

Lemma nth_error_upd_same {A} (l : list A) : forall k x y, nth_error l k = Some y ->
  nth_error (upd l k x) k = Some x.
Proof. intros k x y E. rewrite (nth_error_upd l k x k y E), Nat.eqb_refl. reflexivity. Qed.

Lemma broadcast_idem {A} (l : list A) n : broadcast (broadcast l n) n = broadcast l n.
Proof.
  destruct l as [|x [|y r]]; try reflexivity. cbn [broadcast].
  destruct n as [|[|n]]; reflexivity.
Qed.

Lemma zip_map_l {A B C} (f : A -> C) (l1 : list A) : forall (l2 : list B),
  zip (map f l1) l2 = map (fun p => (f (fst p), snd p)) (zip l1 l2).
Proof.
  induction l1 as [|a r IH]; intros l2; [reflexivity|].
  destruct l2 as [|b r2]; [reflexivity|]. cbn [map zip fst snd]. rewrite IH. reflexivity.
Qed.

Lemma zip_map_r {A B C} (f : B -> C) (l1 : list A) : forall (l2 : list B),
  zip l1 (map f l2) = map (fun p => (fst p, f (snd p))) (zip l1 l2).
Proof.
  induction l1 as [|a r IH]; intros l2; [reflexivity|].
  destruct l2 as [|b r2]; [reflexivity|]. cbn [map zip fst snd]. rewrite IH. reflexivity.
Qed.

Lemma zip_length_eq {A B} (l1 : list A) : forall (l2 : list B), length l2 = length l1 -> length (zip l1 l2) = length l1.
Proof.
  induction l1 as [|x r IH]; intros [|y r2] H; try discriminate; [reflexivity|].
  cbn [zip length]. rewrite (IH r2); [reflexivity|]. cbn [length] in H. lia.
Qed.

(** a list of API numbers all of whose elements pass [vol_ok] and are finite *)
Fixpoint xq_list (l : list xnum) : option (list Q) :=
  match l with
  | [] => Some []
  | XQ v :: r => match xq_list r with Some vs => Some (v :: vs) | None => None end
  | _ :: _ => None
  end.

Lemma xq_list_map l vs : xq_list l = Some vs -> l = map XQ vs.
Proof.
  revert vs. induction l as [|x r IH]; intros vs H.
  - cbn [xq_list] in H. inversion H. reflexivity.
  - destruct x as [v| | |]; cbn [xq_list] in H; try discriminate.
    destruct (xq_list r) as [vs'|]; [|discriminate]. inversion H; subst.
    cbn [map]. rewrite (IH vs' eq_refl). reflexivity.
Qed.

(* ================================================================== the abstraction, list level *)

Lemma nth_error_upd_gen {A} (l : list A) : forall k x k',
  nth_error (upd l k x) k' =
  if (k' =? k)%nat then match nth_error l k with Some _ => Some x | None => None end
  else nth_error l k'.
Proof.
  induction l as [|z r IH]; intros k x k'.
  - cbn [upd]. destruct (k' =? k)%nat; destruct k; destruct k'; reflexivity.
  - destruct k as [|k]; destruct k' as [|k']; cbn [upd nth_error Nat.eqb]; try reflexivity.
    apply IH.
Qed.

(** the abstraction sees neither the history nor the name of a labware *)
Lemma abs_list_upd_ext l k X Y : (forall i, abs_well X i = abs_well Y i) ->
  forall k' i, abs_list (upd l k X) k' i = abs_list (upd l k Y) k' i.
Proof.
  intros H k' i. unfold abs_list. rewrite !nth_error_upd_gen.
  destruct (k' =? k)%nat; [|reflexivity]. destruct (nth_error l k); [apply H|reflexivity].
Qed.

Lemma abs_list_upd_log l k X lab : forall k' i,
  abs_list (upd l k (log X lab)) k' i = abs_list (upd l k X) k' i.
Proof. apply abs_list_upd_ext. intro i. reflexivity. Qed.

Lemma abs_state_set_wl s w : abs_state (set_wl s w) = abs_state s.
Proof. reflexivity. Qed.

(* ================================================================== congruence of the ideal functions *)

Definition ist_eq (W W' : istate) : Prop := forall k i, iw_eq (W k i) (W' k i).

Lemma ist_eq_refl W : ist_eq W W.
Proof. intros k i. apply iw_eq_refl. Qed.
Lemma ist_eq_sym W W' : ist_eq W W' -> ist_eq W' W.
Proof. intros H k i. apply iw_eq_sym. apply H. Qed.
Lemma ist_eq_trans W1 W2 W3 : ist_eq W1 W2 -> ist_eq W2 W3 -> ist_eq W1 W3.
Proof. intros H1 H2 k i. eapply iw_eq_trans; [apply H1|apply H2]. Qed.

Lemma is_add_congr k L items : forall W W', ist_eq W W' -> ist_eq (is_add W k L items) (is_add W' k L items).
Proof.
  induction items as [|[[w v] c] r IH]; intros W W' HW; [exact HW|].
  cbn [is_add]. destruct (lw_index L w) as [i|]; [|exact HW].
  apply IH. intros k' i'. apply is_upd_congr; [exact HW|].
  apply iw_add_congr; [apply HW|intro x; reflexivity].
Qed.

Lemma is_rem_congr k L items : forall W W', ist_eq W W' -> ist_eq (is_rem W k L items) (is_rem W' k L items).
Proof.
  induction items as [|[w v] r IH]; intros W W' HW; [exact HW|].
  cbn [is_rem]. destruct (lw_index L w) as [i|]; [|exact HW].
  apply IH. intros k' i'. apply is_upd_congr; [exact HW|]. apply iw_remove_congr. apply HW.
Qed.

Lemma is_add_geom k L L' items : lw_geom L' = lw_geom L -> forall W, is_add W k L' items = is_add W k L items.
Proof.
  intro E. induction items as [|[[w v] c] r IH]; intro W; [reflexivity|].
  cbn [is_add]. rewrite (lw_index_geom' L' L w E). destruct (lw_index L w); [apply IH|reflexivity].
Qed.

Lemma iw_dilute_congr w w' v : iw_eq w w' -> iw_eq (iw_dilute w v) (iw_dilute w' v).
Proof.
  intros [H1 H2]. split; cbn [iw_dilute iw_vol iw_amt]; [rewrite H1; reflexivity|].
  intro k. rewrite H1, H2. reflexivity.
Qed.

(** what [iw_dilute] means: in a well that is not empty every fraction is kept ... *)
Lemma iw_dilute_fractions w v k : ~ iw_vol w == 0 -> ~ iw_vol w + v == 0 ->
  iw_frac (iw_dilute w v) k == iw_frac w k.
Proof. intros H1 H2. unfold iw_frac. cbn [iw_dilute iw_vol iw_amt]. field. split; assumption. Qed.

(** ... and in a well without any tracked amount (in particular an empty ideal well) nothing is
    known about the liquid afterwards; the quotient [(V + v) / V] is not looked at *)
Lemma iw_dilute_empty w v : (forall k, iw_amt w k == 0) -> forall k, iw_amt (iw_dilute w v) k == 0.
Proof. intros H k. cbn [iw_dilute iw_amt]. rewrite (H k). ring. Qed.

Lemma is_addo_congr k L items : forall W W', ist_eq W W' -> ist_eq (is_addo W k L items) (is_addo W' k L items).
Proof.
  induction items as [|[[w v] oc] r IH]; intros W W' HW; [exact HW|].
  cbn [is_addo]. destruct (lw_index L w) as [i|]; [|exact HW].
  apply IH. intros k' i'. apply is_upd_congr; [exact HW|].
  destruct oc as [c|]; [apply iw_add_congr; [apply HW|intro x; reflexivity]|apply iw_dilute_congr; apply HW].
Qed.

Lemma is_addo_geom k L L' items : lw_geom L' = lw_geom L -> forall W, is_addo W k L' items = is_addo W k L items.
Proof.
  intro E. induction items as [|[[w v] oc] r IH]; intro W; [reflexivity|].
  cbn [is_addo]. rewrite (lw_index_geom' L' L w E). destruct (lw_index L w); [apply IH|reflexivity].
Qed.

(** when every composition is given [is_addo] is [is_add] *)
Lemma is_addo_some k L (ws : list string) : forall (vs : list Q) (cs : list composition) W,
  is_addo W k L (zip (zip ws vs) (map Some cs)) = is_add W k L (zip (zip ws vs) cs).
Proof.
  induction ws as [|w wr IH]; intros vs cs W; [reflexivity|].
  destruct vs as [|v vr]; [reflexivity|]. destruct cs as [|c cr]; [reflexivity|].
  cbn [zip map is_addo is_add]. destruct (lw_index L w) as [i|]; [apply IH|reflexivity].
Qed.

Lemma is_rem_geom k L L' items : lw_geom L' = lw_geom L -> forall W, is_rem W k L' items = is_rem W k L items.
Proof.
  intro E. induction items as [|[w v] r IH]; intro W; [reflexivity|].
  cbn [is_rem]. rewrite (lw_index_geom' L' L w E). destruct (lw_index L w); [apply IH|reflexivity].
Qed.

(* ================================================================== (a) transfer, with its plan named *)

Lemma comment_static w c : w_max (fst (comment w c)) = w_max w /\
  w_autosplit (fst (comment w c)) = w_autosplit w.
Proof.
  unfold comment. destruct c as [s|]; [|split; reflexivity].
  destruct (String.eqb s ""); [split; reflexivity|].
  destruct (contains_char semi s); split; reflexivity.
Qed.

(** C05_refines_transfer_plan: an accepted [transfer] acts as the ideal execution of the plan
    computed from its arguments *)
Lemma transfer_refines_plan s ks swells kd dwells vols label ws pb kw s' Ls Ld : st_inv s ->
  nth_error (st_lw s) ks = Some Ls -> nth_error (st_lw s) kd = Some Ld ->
  transfer s ks swells kd dwells vols label ws pb kw = (s', None) ->
  exists mode, optimize_partition_by (is_trough (lw_geom Ls)) (is_trough (lw_geom Ld)) pb = Ok mode /\
    forall k i, iw_eq (abs_state s' k i)
      (is_exec (abs_state s) ks kd Ls Ld
         (plan (w_autosplit (st_wl s)) (w_max (st_wl s)) mode (transfer_triples swells dwells vols)) k i).
Proof.
  intros HI ELs ELd. unfold transfer. rewrite ELs, ELd.
  destruct (w_dev (st_wl s)); try discriminate;
  (cbv beta iota zeta; fold (transfer_triples swells dwells vols);
   match goal with |- context [if negb ?b then _ else _] => destruct (negb b); [discriminate|] end;
   match goal with |- context [if existsb ?f ?l then _ else _] => destruct (existsb f l); [discriminate|] end;
   match goal with |- context [if ?a || ?b then _ else _] => destruct (a || b); [discriminate|] end;
   destruct (optimize_partition_by (is_trough (lw_geom Ls)) (is_trough (lw_geom Ld)) pb) as [mode|e];
     [|discriminate];
   pose proof (comment_static (st_wl s) label) as [Em Ea];
   destruct (comment (st_wl s) label) as [w [e|]]; [discriminate|]; cbn [fst] in Em, Ea;
   rewrite Em, Ea;
   match goal with |- context [exec ?s0 ?a ?b ?acts ?c ?d] =>
     pose proof (fun s1 => exec_refines acts s0 a b c d s1 Ls Ld HI (plan_positive _ _ _ _) ELs ELd) as HE;
     destruct (exec s0 a b acts c d) as [s1 [e|]]; [discriminate|];
     specialize (HE s1 eq_refl);
     match goal with |- context [if ?b then _ else _] => destruct b end;
     intro H; inversion H; subst; exists mode; (split; [reflexivity|]);
     intros k i; rewrite ?abs_state_condense_at; apply HE end).
Qed.

(* ================================================================== (c) add / dispense with given compositions *)

Definition mk_item (p : string * xnum * option composition) : string * xnum * option composition :=
  (fst (fst p), snd (fst p), snd p).

Lemma mk_item_id l : map (fun p : string * xnum * option composition => (fst (fst p), snd (fst p), snd p)) l = l.
Proof.
  induction l as [|[[w x] oc] r IH]; [reflexivity|]. cbn [map fst snd]. rewrite IH. reflexivity.
Qed.

(** an accepted [add_loop] whose items all carry a composition: every volume is a number, and the
    tracked wells are those of the ideal additions, one per item, in order *)
Lemma add_loop_refines ws : forall vsx cs l k L L1,
  length vsx = length ws -> length cs = length ws ->
  nth_error l k = Some L -> mix_inv L -> forallb vol_ok vsx = true -> Forall comp_ok cs ->
  add_loop L (zip (zip ws vsx) (map Some cs)) = (L1, None) ->
  exists vs, vsx = map XQ vs /\ Forall (fun v => 0 <= v) vs /\ mix_inv L1 /\ lw_geom L1 = lw_geom L /\
    ist_eq (abs_list (upd l k L1)) (is_add (abs_list l) k L (zip (zip ws vs) cs)).
Proof.
  induction ws as [|w wr IH]; intros vsx cs l k L L1 Hlv Hlc EL HI Hok HC H.
  - destruct vsx as [|x xr]; [|discriminate]. cbn [zip add_loop] in H. inversion H; subst L1.
    exists []. split; [reflexivity|]. split; [constructor|]. split; [exact HI|]. split; [reflexivity|].
    rewrite (upd_same_nth_error l k L EL). cbn [zip is_add]. apply ist_eq_refl.
  - destruct vsx as [|x xr]; [discriminate|]. destruct cs as [|c cr]; [discriminate|].
    cbn [length] in Hlv, Hlc. injection Hlv as Hlv. injection Hlc as Hlc.
    cbn [forallb] in Hok. apply andb_prop in Hok. destruct Hok as [Hx Hok].
    inversion HC as [|c' cr' Hc HCr]; subst.
    cbn [zip map] in H. rewrite add_loop_cons' in H.
    destruct (lw_index L w) as [i|] eqn:Ei; [|discriminate].
    destruct x as [v| | |]; try discriminate.
    destruct (Qgtb (Qred (vol_at L i + v)) (lw_max L)); [discriminate|].
    pose proof (vol_ok_XQ' v Hx) as Hv.
    assert (Hi : (i < n_wells (lw_geom L))%nat) by (apply (lw_index_lt L w i); [apply HI|exact Ei]).
    assert (HI2 : mix_inv (add_step L i v (Some c))) by (apply add_step_inv; assumption).
    destruct (IH xr cr (upd l k (add_step L i v (Some c))) k (add_step L i v (Some c)) L1 Hlv Hlc
                (nth_error_upd_same l k _ L EL) HI2 Hok HCr H) as (vs & Evs & Hvs & HI1 & Eg & HR).
    exists (v :: vs). split; [cbn [map]; rewrite Evs; reflexivity|].
    split; [constructor; assumption|]. split; [exact HI1|].
    split; [rewrite Eg; apply add_step_geom|].
    rewrite upd_upd in HR. cbn [zip is_add]. rewrite Ei.
    eapply ist_eq_trans; [exact HR|]. rewrite (is_add_geom k L _ _ (add_step_geom L i v (Some c))).
    apply is_add_congr. intros k' i'. rewrite <- (abs_list_upd_log l k _ None).
    apply abs_upd_add; try assumption. apply Hc.
Qed.

Lemma prep_wells_vols_inv wells vols wv : prep_wells_vols wells vols = Ok wv ->
  let ws := flattenF wells in
  let vsx := broadcast (flattenF vols) (length ws) in
  wv = zip ws vsx /\ length vsx = length ws /\ forallb vol_ok vsx = true.
Proof.
  unfold prep_wells_vols. cbv zeta.
  destruct (length (broadcast (flattenF vols) (length (flattenF wells))) =? length (flattenF wells))%nat eqn:El;
    cbn [negb]; [|discriminate].
  destruct (forallb vol_ok (broadcast (flattenF vols) (length (flattenF wells)))) eqn:Ef; cbn [negb]; [|discriminate].
  intro H. inversion H. split; [reflexivity|]. split; [apply Nat.eqb_eq; exact El|reflexivity].
Qed.

(** C05_refines_add: the whole call, per occurrence, in call order *)
Lemma add_refines l k L wells vols label cs L' : nth_error l k = Some L -> mix_inv L ->
  Forall comp_ok cs -> add L wells vols label (Some (map Some cs)) = (L', None) ->
  exists vs, broadcast (flattenF vols) (length (flattenF wells)) = map XQ vs /\
    Forall (fun v => 0 <= v) vs /\ length vs = length (flattenF wells) /\
    length cs = length (flattenF wells) /\ mix_inv L' /\ lw_geom L' = lw_geom L /\
    ist_eq (abs_list (upd l k L')) (is_add (abs_list l) k L (zip (zip (flattenF wells) vs) cs)).
Proof.
  intros EL HI HC H.
  destruct (add_some_ok _ _ _ _ _ _ H) as (wv & L1 & EP & Elen & EAL & EL').
  destruct (prep_wells_vols_inv _ _ _ EP) as (Ewv & Hlv & Hok). cbv zeta in *.
  rewrite mk_item_id in EAL. subst wv.
  assert (Hlc : length cs = length (flattenF wells)).
  { rewrite map_length in Elen. rewrite Elen.
    clear - Hlv. revert Hlv. generalize (broadcast (flattenF vols) (length (flattenF wells))).
    generalize (flattenF wells). intro a. induction a as [|x r IH]; intros [|y r2] Hl; try discriminate; [reflexivity|].
    cbn [zip length]. rewrite (IH r2); [reflexivity|]. cbn [length] in Hl. lia. }
  destruct (add_loop_refines _ _ cs l k L L1 Hlv Hlc EL HI Hok HC EAL) as (vs & Evs & Hvs & HI1 & Eg & HR).
  exists vs. split; [exact Evs|]. split; [exact Hvs|].
  split; [rewrite <- Hlv, Evs, map_length; reflexivity|]. split; [exact Hlc|].
  subst L'. split; [apply log_inv; exact HI1|]. split; [exact Eg|].
  intros k' i'. rewrite abs_list_upd_log. apply HR.
Qed.

(** an accepted [dispense] is an accepted [add] on the addressed labware *)
Lemma dispense_ok s k wells vols label comps kw s' : dispense s k wells vols label comps kw = (s', None) ->
  exists L L', nth_error (st_lw s) k = Some L /\
    add L (A1 (flattenF wells)) (A1 (broadcast (flattenF vols) (length (flattenF wells)))) label comps
      = (L', None) /\
    st_lw s' = upd (st_lw s) k L'.
Proof.
  unfold dispense, wells_vols. destruct (nth_error (st_lw s) k) as [L|] eqn:EL; [|discriminate].
  cbv beta zeta iota.
  destruct (add L (A1 (flattenF wells)) (A1 (broadcast (flattenF vols) (length (flattenF wells)))) label comps)
    as [L' [e|]] eqn:EA; [discriminate|].
  destruct (comment (st_wl (set_lw s k L')) label) as [w [e|]]; [discriminate|].
  destruct (emit_wells false w L' (zip (flattenF wells) (broadcast (flattenF vols) (length (flattenF wells)))) kw)
    as [w' e']. intro H. inversion H; subst. exists L, L'. split; [reflexivity|]. split; [exact EA|reflexivity].
Qed.

(** C05_refines_dispense *)
Lemma dispense_refines s k wells vols label cs kw s' L : st_inv s -> Forall comp_ok cs ->
  nth_error (st_lw s) k = Some L ->
  dispense s k wells vols label (Some (map Some cs)) kw = (s', None) ->
  exists vs, broadcast (flattenF vols) (length (flattenF wells)) = map XQ vs /\
    Forall (fun v => 0 <= v) vs /\ length vs = length (flattenF wells) /\
    length cs = length (flattenF wells) /\
    forall k' i, iw_eq (abs_state s' k' i)
                       (is_add (abs_state s) k L (zip (zip (flattenF wells) vs) cs) k' i).
Proof.
  intros HI HC EL H. destruct (dispense_ok _ _ _ _ _ _ _ _ H) as (L0 & L' & EL0 & EA & Es').
  rewrite EL in EL0. inversion EL0; subst L0.
  destruct (add_refines (st_lw s) k L _ _ _ cs L' EL (st_inv_nth s k L HI EL) HC EA)
    as (vs & Evs & Hvs & Hl1 & Hl2 & _ & _ & HR).
  cbn [flattenF] in Evs, Hl1, Hl2, HR. rewrite broadcast_idem in Evs.
  exists vs. split; [exact Evs|]. split; [exact Hvs|]. split; [exact Hl1|]. split; [exact Hl2|].
  intros k' i. rewrite !abs_state_list, Es'. apply HR.
Qed.

(** [add] called directly on one labware of a program state ([OAdd]) *)
Lemma step_add_refines s k wells vols label cs s' L : st_inv s -> Forall comp_ok cs ->
  nth_error (st_lw s) k = Some L ->
  step s (OAdd k wells vols label (Some (map Some cs))) = (s', None) ->
  exists vs, broadcast (flattenF vols) (length (flattenF wells)) = map XQ vs /\
    Forall (fun v => 0 <= v) vs /\ length vs = length (flattenF wells) /\
    length cs = length (flattenF wells) /\
    forall k' i, iw_eq (abs_state s' k' i)
                       (is_add (abs_state s) k L (zip (zip (flattenF wells) vs) cs) k' i).
Proof.
  intros HI HC EL. cbn [step]. unfold on_lw. rewrite EL.
  destruct (add L wells vols label (Some (map Some cs))) as [L' [e|]] eqn:EA; [discriminate|].
  intro H. inversion H; subst s'.
  destruct (add_refines (st_lw s) k L _ _ _ cs L' EL (st_inv_nth s k L HI EL) HC EA)
    as (vs & Evs & Hvs & Hl1 & Hl2 & _ & _ & HR).
  exists vs. split; [exact Evs|]. split; [exact Hvs|]. split; [exact Hl1|]. split; [exact Hl2|].
  intros k' i. rewrite !abs_state_list. cbn [set_lw st_lw]. apply HR.
Qed.

(* ================================================================== (c') add / dispense WITHOUT a composition
   (REVIEW2 N2): the call [add(wells, volumes)] with [compositions=None], or with [None] entries in
   the list.  The model increases the volume and leaves the component table alone ([add_step L i v
   None], C05_add_step_unchanged), the reference is [iw_dilute].  Both agree unless the well is an
   EMPTIED well that still carries fractions (see the comment at [iw_dilute]). *)

(** the tracked well [i] of [L] is not an emptied well with left-over fractions: it holds liquid,
    or no fraction is recorded for it (a well that was never filled) *)
Definition well_clean (L : labware) (i : nat) : Prop :=
  ~ vol_at L i == 0 \/ forall x, frac L x i == 0.

(** every well an [add] addresses WITHOUT a composition is clean (no condition on the wells that
    come with a composition) *)
Definition plain_clean (L : labware) (wells : arr string) (comps : option (list (option composition))) : Prop :=
  Forall (fun wc => snd wc = None -> forall i, lw_index L (fst wc) = Some i -> well_clean L i)
         (zip (flattenF wells) (comps_list comps (length (flattenF wells)))).

(** no element of [add_loop] makes a clean well unclean (volumes only grow; a zero total volume
    leaves the component table as it is) *)
Lemma add_step_clean L i v oc j : mix_inv L -> (i < n_wells (lw_geom L))%nat -> 0 <= v ->
  ocomp_ok oc -> well_clean L j -> well_clean (add_step L i v oc) j.
Proof.
  intros HI Hi Hv Hoc HC. pose proof HI as [(Hg & Hlen & _) (HL & ND & _)].
  pose proof (vol_base_vol_at L i (proj1 HI)) as H0.
  unfold well_clean. rewrite vol_at_add_step by lia.
  destruct (Nat.eqb_spec i j) as [E|N].
  - subst j. rewrite Qred_correct.
    destruct (Qeq_dec (vol_at L i + v) 0) as [Ez|Nz]; [|left; exact Nz].
    right. destruct HC as [HC|HC]; [exfalso; apply HC; lra|].
    intro x. unfold frac. destruct oc as [c|].
    + rewrite (add_step_guard L i v c ND Ez). apply HC.
    + rewrite add_step_comp_none. apply HC.
  - destruct HC as [HC|HC]; [left; exact HC|right].
    intro x. rewrite add_step_frac_other; try assumption; [apply HC| |congruence].
    destruct oc as [c|]; [apply Hoc|exact I].
Qed.

(** one accepted element of [add_loop] without composition is one [iw_dilute].  In an empty clean
    well both sides have all amounts 0: the tracked well because no fraction is recorded, the
    ideal one because 0 times the factor is 0 (the factor is not looked at). *)
Lemma abs_upd_dilute l k L i v : nth_error l k = Some L -> mix_inv L ->
  (i < n_wells (lw_geom L))%nat -> 0 <= v -> well_clean L i ->
  ist_eq (abs_list (upd l k (add_step L i v None))) (is_upd (abs_list l) k i (iw_dilute (abs_list l k i) v)).
Proof.
  intros EL HI Hi Hv HC k' i'. pose proof HI as [(_ & Hlen & _) _].
  unfold abs_list, is_upd. rewrite (nth_error_upd l k _ k' L EL).
  destruct (Nat.eqb_spec k' k) as [Ek|Nk]; cbn [andb]; [|apply iw_eq_refl].
  subst k'. rewrite EL.
  change (abs_well (add_step L i v None) i')
    with {| iw_vol := vol_at (add_step L i v None) i';
            iw_amt := fun c => vol_at (add_step L i v None) i' * frac L c i' |}.
  rewrite vol_at_add_step by lia. rewrite (Nat.eqb_sym i' i).
  destruct (Nat.eqb_spec i i') as [Ei|Ni]; [|apply iw_eq_refl].
  subst i'. split; cbn [iw_dilute abs_well iw_vol iw_amt]; [apply Qred_correct|].
  intro c. rewrite Qred_correct.
  destruct (Qeq_dec (vol_at L i) 0) as [E0|N0].
  - assert (HA : vol_at L i * frac L c i == 0) by (rewrite E0; ring).
    rewrite HA. destruct HC as [HC|HC]; [contradiction|]. rewrite (HC c). ring.
  - field. exact N0.
Qed.

(** [add_loop] with or without compositions, whatever its outcome: the items before the first
    refused one have been mixed in / booked as the ideal items say, the others have had no effect *)
Lemma add_loop_any_u ws : forall vsx (cs : list (option composition)) l k L,
  length vsx = length ws -> length cs = length ws ->
  nth_error l k = Some L -> mix_inv L -> forallb vol_ok vsx = true -> Forall ocomp_ok cs ->
  Forall (fun wc => snd wc = None -> forall i, lw_index L (fst wc) = Some i -> well_clean L i) (zip ws cs) ->
  exists vs rest, vsx = (map XQ vs ++ rest)%list /\ Forall (fun v => 0 <= v) vs /\
    (snd (add_loop L (zip (zip ws vsx) cs)) = None -> rest = []) /\
    mix_inv (fst (add_loop L (zip (zip ws vsx) cs))) /\
    ist_eq (abs_list (upd l k (fst (add_loop L (zip (zip ws vsx) cs)))))
           (is_addo (abs_list l) k L (zip (zip ws vs) cs)).
Proof.
  induction ws as [|w wr IH]; intros vsx cs l k L Hlv Hlc EL HI Hok HC HCl.
  - destruct vsx as [|x xr]; [|discriminate]. cbn [zip add_loop fst snd].
    exists [], []. split; [reflexivity|]. split; [constructor|]. split; [reflexivity|]. split; [exact HI|].
    rewrite (upd_same_nth_error l k L EL). apply ist_eq_refl.
  - destruct vsx as [|x xr]; [discriminate|]. destruct cs as [|oc cr]; [discriminate|].
    cbn [length] in Hlv, Hlc. injection Hlv as Hlv. injection Hlc as Hlc.
    cbn [forallb] in Hok. apply andb_prop in Hok. destruct Hok as [Hx Hok].
    inversion HC as [|oc' cr' Hoc HCr]; subst.
    cbn [zip] in HCl. inversion HCl as [|wc' r' Hcl HClr]; subst. cbn [fst snd] in Hcl.
    assert (Hstop : forall e : err, exists vs rest, x :: xr = (map XQ vs ++ rest)%list /\ Forall (fun v => 0 <= v) vs /\
              (snd (L, Some e) = None -> rest = []) /\ mix_inv (fst (L, Some e)) /\
              ist_eq (abs_list (upd l k (fst (L, Some e)))) (is_addo (abs_list l) k L (zip (zip (w :: wr) vs) (oc :: cr)))).
    { intro e. exists [], (x :: xr). split; [reflexivity|]. split; [constructor|].
      split; [discriminate|]. split; [exact HI|]. cbn [fst zip is_addo].
      rewrite (upd_same_nth_error l k L EL). apply ist_eq_refl. }
    cbn [zip]. rewrite add_loop_cons'.
    destruct (lw_index L w) as [i|] eqn:Ei; [|apply Hstop].
    destruct x as [v| | |]; try apply Hstop.
    destruct (Qgtb (Qred (vol_at L i + v)) (lw_max L)); [apply Hstop|]. clear Hstop.
    pose proof (vol_ok_XQ' v Hx) as Hv.
    assert (Hi : (i < n_wells (lw_geom L))%nat) by (apply (lw_index_lt L w i); [apply HI|exact Ei]).
    assert (HI2 : mix_inv (add_step L i v oc)) by (apply add_step_inv; assumption).
    assert (HCl2 : Forall (fun wc => snd wc = None ->
                     forall i0, lw_index (add_step L i v oc) (fst wc) = Some i0 -> well_clean (add_step L i v oc) i0)
                   (zip wr cr)).
    { eapply Forall_impl; [|exact HClr]. intros wc Hwc Hn i0 Ei0.
      rewrite (lw_index_geom' _ L _ (add_step_geom L i v oc)) in Ei0.
      apply add_step_clean; try assumption. exact (Hwc Hn i0 Ei0). }
    destruct (IH xr cr (upd l k (add_step L i v oc)) k (add_step L i v oc) Hlv Hlc
                (nth_error_upd_same l k _ L EL) HI2 Hok HCr HCl2) as (vs & rest & Evs & Hvs & Hnone & HI1 & HR).
    exists (v :: vs), rest. split; [cbn [map app]; rewrite Evs; reflexivity|].
    split; [constructor; assumption|]. split; [exact Hnone|]. split; [exact HI1|].
    rewrite upd_upd in HR. cbn [zip is_addo]. rewrite Ei.
    eapply ist_eq_trans; [exact HR|]. rewrite (is_addo_geom k L _ _ (add_step_geom L i v oc)).
    apply is_addo_congr. destruct oc as [c|].
    + intros k' i'. rewrite <- (abs_list_upd_log l k _ None).
      apply abs_upd_add; try assumption. apply Hoc.
    + apply abs_upd_dilute; try assumption. exact (Hcl eq_refl i eq_refl).
Qed.

Lemma comps_list_ok comps n : comps_ok comps -> Forall ocomp_ok (comps_list comps n).
Proof.
  destruct comps as [cs|]; cbn [comps_ok comps_list]; [auto|]. intros _.
  induction n as [|n IH]; cbn [repeat]; constructor; [exact I|exact IH].
Qed.

(** [add] with or without compositions, whatever its outcome *)
Lemma add_any_u l k L wells vols label comps : nth_error l k = Some L -> mix_inv L -> comps_ok comps ->
  plain_clean L wells comps ->
  exists vs rest, broadcast (flattenF vols) (length (flattenF wells)) = (map XQ vs ++ rest)%list /\
    Forall (fun v => 0 <= v) vs /\
    (snd (add L wells vols label comps) = None -> rest = []) /\
    ist_eq (abs_list (upd l k (fst (add L wells vols label comps))))
           (is_addo (abs_list l) k L
              (zip (zip (flattenF wells) vs) (comps_list comps (length (flattenF wells))))).
Proof.
  intros EL HI HC HCl.
  assert (Hstop : forall e : err, exists vs rest,
            broadcast (flattenF vols) (length (flattenF wells)) = (map XQ vs ++ rest)%list /\
            Forall (fun v => 0 <= v) vs /\ (snd (L, Some e) = None -> rest = []) /\
            ist_eq (abs_list (upd l k (fst (L, Some e))))
                   (is_addo (abs_list l) k L
                      (zip (zip (flattenF wells) vs) (comps_list comps (length (flattenF wells)))))).
  { intro e. exists [], (broadcast (flattenF vols) (length (flattenF wells))).
    split; [reflexivity|]. split; [constructor|]. split; [discriminate|].
    cbn [fst]. rewrite zip_nil_r. cbn [zip is_addo]. rewrite (upd_same_nth_error l k L EL). apply ist_eq_refl. }
  unfold add. destruct (prep_wells_vols wells vols) as [wv|e] eqn:EP; [|apply Hstop].
  destruct (prep_wells_vols_inv _ _ _ EP) as (Ewv & Hlv & Hok). cbv zeta in *. subst wv.
  rewrite (zip_length_eq _ _ Hlv). fold (comps_list comps (length (flattenF wells))).
  destruct (length (comps_list comps (length (flattenF wells))) =? length (flattenF wells))%nat
    eqn:El; cbn [negb]; [|apply Hstop]. clear Hstop.
  apply Nat.eqb_eq in El.
  rewrite mk_item_id.
  destruct (add_loop_any_u _ _ (comps_list comps (length (flattenF wells))) l k L Hlv El EL HI Hok
              (comps_list_ok comps _ HC) HCl) as (vs & rest & Evs & Hvs & Hnone & HI1 & HR).
  exists vs, rest. split; [exact Evs|]. split; [exact Hvs|].
  destruct (add_loop L (zip (zip (flattenF wells) (broadcast (flattenF vols) (length (flattenF wells))))
                            (comps_list comps (length (flattenF wells)))))
    as [L1 [e|]]; cbn [fst snd] in *.
  - split; [discriminate|exact HR].
  - split; [exact Hnone|]. intros k' i'. rewrite abs_list_upd_log. apply HR.
Qed.

(* ================================================================== remove / aspirate *)

(** one accepted element of [remove_loop] is one ideal removal.  (In an empty well the ideal
    removal of volume 0 multiplies amounts that are 0; the factor is never looked at.) *)
Lemma abs_upd_rem_ideal l k L i v : nth_error l k = Some L -> mix_inv L ->
  (i < n_wells (lw_geom L))%nat -> 0 <= v -> lw_min L <= Qred (vol_at L i - v) ->
  ist_eq (abs_list (upd l k (rem_step L i v))) (is_upd (abs_list l) k i (iw_remove (abs_list l k i) v)).
Proof.
  intros EL HI Hi Hv Hmin k' i'. pose proof HI as [(_ & Hlen & Hmin0 & _) HCI].
  rewrite <- (abs_list_upd_log l k _ None).
  eapply iw_eq_trans; [apply abs_upd_rem; [exact EL|lia]|].
  apply is_upd_congr; [intros; apply iw_eq_refl|].
  unfold abs_list. rewrite EL. split; cbn [iw_remove abs_well iw_vol iw_amt]; [reflexivity|].
  intro c. rewrite Qred_correct in Hmin.
  destruct (Qeq_dec (vol_at L i) 0) as [E0|N0].
  - assert (HA : vol_at L i * frac L c i == 0) by (rewrite E0; ring).
    assert (HB : vol_at L i - v == 0) by lra. rewrite HA, HB. ring.
  - field. exact N0.
Qed.

Lemma remove_loop_refines ws : forall vsx l k L L1,
  length vsx = length ws -> nth_error l k = Some L -> mix_inv L -> forallb vol_ok vsx = true ->
  remove_loop L (zip ws vsx) = (L1, None) ->
  exists vs, vsx = map XQ vs /\ Forall (fun v => 0 <= v) vs /\ mix_inv L1 /\ lw_geom L1 = lw_geom L /\
    ist_eq (abs_list (upd l k L1)) (is_rem (abs_list l) k L (zip ws vs)).
Proof.
  induction ws as [|w wr IH]; intros vsx l k L L1 Hlv EL HI Hok H.
  - destruct vsx as [|x xr]; [|discriminate]. cbn [zip remove_loop] in H. inversion H; subst L1.
    exists []. split; [reflexivity|]. split; [constructor|]. split; [exact HI|]. split; [reflexivity|].
    rewrite (upd_same_nth_error l k L EL). cbn [zip is_rem]. apply ist_eq_refl.
  - destruct vsx as [|x xr]; [discriminate|].
    cbn [length] in Hlv. injection Hlv as Hlv.
    cbn [forallb] in Hok. apply andb_prop in Hok. destruct Hok as [Hx Hok].
    cbn [zip] in H. rewrite remove_loop_cons' in H.
    destruct (lw_index L w) as [i|] eqn:Ei; [|discriminate].
    destruct x as [v| | |]; try discriminate.
    destruct (Qltb (Qred (vol_at L i - v)) (lw_min L)) eqn:Em; [discriminate|].
    apply Qltb_false' in Em.
    pose proof (vol_ok_XQ' v Hx) as Hv.
    assert (Hi : (i < n_wells (lw_geom L))%nat) by (apply (lw_index_lt L w i); [apply HI|exact Ei]).
    assert (HI2 : mix_inv (rem_step L i v)) by (apply rem_step_inv; assumption).
    destruct (IH xr (upd l k (rem_step L i v)) k (rem_step L i v) L1 Hlv
                (nth_error_upd_same l k _ L EL) HI2 Hok H) as (vs & Evs & Hvs & HI1 & Eg & HR).
    exists (v :: vs). split; [cbn [map]; rewrite Evs; reflexivity|].
    split; [constructor; assumption|]. split; [exact HI1|]. split; [rewrite Eg; reflexivity|].
    rewrite upd_upd in HR. cbn [zip is_rem]. rewrite Ei.
    eapply ist_eq_trans; [exact HR|]. rewrite (is_rem_geom k L (rem_step L i v) _ eq_refl).
    apply is_rem_congr. apply abs_upd_rem_ideal; assumption.
Qed.

Lemma remove_refines l k L wells vols label L' : nth_error l k = Some L -> mix_inv L ->
  remove L wells vols label = (L', None) ->
  exists vs, broadcast (flattenF vols) (length (flattenF wells)) = map XQ vs /\
    Forall (fun v => 0 <= v) vs /\ length vs = length (flattenF wells) /\
    mix_inv L' /\ lw_geom L' = lw_geom L /\
    ist_eq (abs_list (upd l k L')) (is_rem (abs_list l) k L (zip (flattenF wells) vs)).
Proof.
  intros EL HI. unfold remove. destruct (prep_wells_vols wells vols) as [wv|e] eqn:EP; [|discriminate].
  destruct (prep_wells_vols_inv _ _ _ EP) as (Ewv & Hlv & Hok). cbv zeta in *. subst wv.
  destruct (remove_loop L (zip (flattenF wells) (broadcast (flattenF vols) (length (flattenF wells)))))
    as [L1 [e|]] eqn:ER; [discriminate|].
  intro H. inversion H; subst L'.
  destruct (remove_loop_refines _ _ l k L L1 Hlv EL HI Hok ER) as (vs & Evs & Hvs & HI1 & Eg & HR).
  exists vs. split; [exact Evs|]. split; [exact Hvs|].
  split; [rewrite <- Hlv, Evs, map_length; reflexivity|].
  split; [apply log_inv; exact HI1|]. split; [exact Eg|].
  intros k' i'. rewrite abs_list_upd_log. apply HR.
Qed.

Lemma aspirate_ok s k wells vols label kw s' : aspirate s k wells vols label kw = (s', None) ->
  exists L L', nth_error (st_lw s) k = Some L /\
    remove L (A1 (flattenF wells)) (A1 (broadcast (flattenF vols) (length (flattenF wells)))) label
      = (L', None) /\
    st_lw s' = upd (st_lw s) k L'.
Proof.
  unfold aspirate, wells_vols. destruct (nth_error (st_lw s) k) as [L|] eqn:EL; [|discriminate].
  cbv beta zeta iota.
  destruct (remove L (A1 (flattenF wells)) (A1 (broadcast (flattenF vols) (length (flattenF wells)))) label)
    as [L' [e|]] eqn:EA; [discriminate|].
  destruct (comment (st_wl (set_lw s k L')) label) as [w [e|]]; [discriminate|].
  destruct (emit_wells true w L' (zip (flattenF wells) (broadcast (flattenF vols) (length (flattenF wells)))) kw)
    as [w' e']. intro H. inversion H; subst. exists L, L'. split; [reflexivity|]. split; [exact EA|reflexivity].
Qed.

(** C05_refines_aspirate: liquid leaves each addressed well, per occurrence, in call order; every
    amount of the well shrinks by the same factor *)
Lemma aspirate_refines s k wells vols label kw s' L : st_inv s ->
  nth_error (st_lw s) k = Some L ->
  aspirate s k wells vols label kw = (s', None) ->
  exists vs, broadcast (flattenF vols) (length (flattenF wells)) = map XQ vs /\
    Forall (fun v => 0 <= v) vs /\ length vs = length (flattenF wells) /\
    forall k' i, iw_eq (abs_state s' k' i) (is_rem (abs_state s) k L (zip (flattenF wells) vs) k' i).
Proof.
  intros HI EL H. destruct (aspirate_ok _ _ _ _ _ _ _ H) as (L0 & L' & EL0 & EA & Es').
  rewrite EL in EL0. inversion EL0; subst L0.
  destruct (remove_refines (st_lw s) k L _ _ _ L' EL (st_inv_nth s k L HI EL) EA)
    as (vs & Evs & Hvs & Hl1 & _ & _ & HR).
  cbn [flattenF] in Evs, Hl1, HR. rewrite broadcast_idem in Evs.
  exists vs. split; [exact Evs|]. split; [exact Hvs|]. split; [exact Hl1|].
  intros k' i. rewrite !abs_state_list, Es'. apply HR.
Qed.

Lemma step_remove_refines s k wells vols label s' L : st_inv s ->
  nth_error (st_lw s) k = Some L ->
  step s (ORemove k wells vols label) = (s', None) ->
  exists vs, broadcast (flattenF vols) (length (flattenF wells)) = map XQ vs /\
    Forall (fun v => 0 <= v) vs /\ length vs = length (flattenF wells) /\
    forall k' i, iw_eq (abs_state s' k' i) (is_rem (abs_state s) k L (zip (flattenF wells) vs) k' i).
Proof.
  intros HI EL. cbn [step]. unfold on_lw. rewrite EL.
  destruct (remove L wells vols label) as [L' [e|]] eqn:EA; [discriminate|].
  intro H. inversion H; subst s'.
  destruct (remove_refines (st_lw s) k L _ _ _ L' EL (st_inv_nth s k L HI EL) EA)
    as (vs & Evs & Hvs & Hl1 & _ & _ & HR).
  exists vs. split; [exact Evs|]. split; [exact Hvs|]. split; [exact Hl1|].
  intros k' i. rewrite !abs_state_list. cbn [set_lw st_lw]. apply HR.
Qed.

(* ================================================================== (b) distribute: the ideal side *)

Lemma is_upd_eq (W : istate) k i w : is_upd W k i w k i = w.
Proof. unfold is_upd. rewrite !Nat.eqb_refl. reflexivity. Qed.

Lemma is_upd_neq (W : istate) k i w k' i' : (k' <> k \/ i' <> i) -> is_upd W k i w k' i' = W k' i'.
Proof.
  intro H. unfold is_upd. destruct (Nat.eqb_spec k' k) as [E1|N1]; destruct (Nat.eqb_spec i' i) as [E2|N2];
    cbn [andb]; try reflexivity. destruct H; contradiction.
Qed.

(** Taking [n * v] out of the source well at once and then adding [v] of the source's liquid to
    each destination in turn (what [distribute] tracks) gives the same wells as [n] successive
    ideal pipetting steps source -> destination, also when destinations repeat or coincide with
    the source well.  The source holds [X >= n * v] of a liquid with fractions [cget . c]. *)
Lemma dist_ideal ks kd Ls Ld sw i_s v c : lw_index Ls sw = Some i_s -> 0 < v ->
  forall dws (W : istate) X,
   Forall (fun w => lw_index Ld w <> None) dws ->
   iw_eq (W ks i_s) {| iw_vol := X; iw_amt := fun x => X * cget x c |} ->
   Qn (length dws) * v <= X ->
   ist_eq (is_exec W ks kd Ls Ld (map (fun w => Step sw w v) dws))
          (is_add (is_upd W ks i_s {| iw_vol := X - Qn (length dws) * v;
                                       iw_amt := fun x => (X - Qn (length dws) * v) * cget x c |})
                  kd Ld (map (fun w => (w, v, c)) dws)).
Proof.
  intros Eis Hv. induction dws as [|d r IH]; intros W X HV HW HX.
  - cbn [map is_exec is_add length]. apply ist_eq_sym. intros k i. apply is_upd_same.
    destruct HW as [HWv HWa]. change (Qn 0) with 0.
    split; cbn [iw_vol iw_amt]; [rewrite HWv; cbn [iw_vol]; ring|]. intro x. rewrite HWa. cbn [iw_amt]. ring.
  - inversion HV as [|d' r' Hd Hr]; subst. destruct (lw_index Ld d) as [j|] eqn:Ej; [|congruence].
    cbn [map length is_exec is_add]. rewrite Eis, Ej.
    pose proof (Qn_nonneg (length r)) as Hn.
    assert (Hnv : 0 <= Qn (length r) * v) by (apply Qmult_le_0_compat; lra).
    assert (ES : Qn (S (length r)) * v == Qn (length r) * v + v) by (rewrite Qn_S; ring).
    rewrite ES in HX.
    assert (HXpos : 0 < X) by lra.
    destruct HW as [HWv HWa].
    assert (Hg : forall x, iw_frac (W ks i_s) x == cget x c).
    { intro x. unfold iw_frac. rewrite HWv, HWa. cbn [iw_vol iw_amt]. field. lra. }
    assert (Hcase : (kd = ks /\ j = i_s) \/ (kd <> ks \/ j <> i_s)) by lia.
    destruct Hcase as [[Ek Ej']|Hdiff].
    + (* the destination is the source well itself *)
      subst kd j.
      assert (H1 : iw_eq (is_transfer W ks i_s ks i_s v ks i_s) {| iw_vol := X; iw_amt := fun x => X * cget x c |}).
      { unfold is_transfer. cbv zeta. rewrite !is_upd_eq.
        split; cbn [iw_add iw_remove iw_vol iw_amt]; [rewrite HWv; cbn [iw_vol]; ring|].
        intro x. rewrite Hg, HWv, HWa. cbn [iw_vol iw_amt]. field. lra. }
      eapply ist_eq_trans; [apply (IH _ X Hr H1); lra|]. apply is_add_congr. intros k i.
      destruct (Nat.eq_dec k ks) as [Ek|Nk]; [destruct (Nat.eq_dec i i_s) as [Ei|Ni]|].
      * subst k i. rewrite !is_upd_eq.
        split; cbn [iw_add iw_vol iw_amt]; [rewrite ES; ring|]. intro x. rewrite ES. ring.
      * unfold is_transfer. cbv zeta. rewrite !is_upd_neq by lia. apply iw_eq_refl.
      * unfold is_transfer. cbv zeta. rewrite !is_upd_neq by lia. apply iw_eq_refl.
    + assert (H1 : iw_eq (is_transfer W ks i_s kd j v ks i_s)
                         {| iw_vol := X - v; iw_amt := fun x => (X - v) * cget x c |}).
      { unfold is_transfer. cbv zeta. rewrite is_upd_neq by lia. rewrite is_upd_eq.
        split; cbn [iw_remove iw_vol iw_amt]; [rewrite HWv; cbn [iw_vol]; ring|].
        intro x. rewrite HWv, HWa. cbn [iw_vol iw_amt]. field. lra. }
      eapply ist_eq_trans; [apply (IH _ (X - v) Hr H1); lra|]. apply is_add_congr. intros k i.
      assert (Hki : (k = ks /\ i = i_s) \/ (k = kd /\ i = j) \/ ((k <> ks \/ i <> i_s) /\ (k <> kd \/ i <> j)))
        by lia.
      destruct Hki as [[Ek Ei]|[[Ek Ei]|[Hns Hnd]]].
      * subst k i. rewrite is_upd_eq. rewrite (is_upd_neq _ kd j) by lia. rewrite is_upd_eq.
        split; cbn [iw_vol iw_amt]; [rewrite ES; ring|]. intro x. rewrite ES. ring.
      * subst k i. rewrite (is_upd_neq _ ks i_s) by lia. rewrite is_upd_eq.
        unfold is_transfer. cbv zeta. rewrite is_upd_eq. rewrite !(is_upd_neq _ ks i_s) by lia.
        apply iw_add_congr; [apply iw_eq_refl|exact Hg].
      * unfold is_transfer. cbv zeta. rewrite !is_upd_neq by lia. apply iw_eq_refl.
Qed.

(* ================================================================== (b) distribute: the model side *)

Lemma positions_of_length d g ws : forall ps, positions_of d g ws = Ok ps -> length ps = length ws.
Proof.
  induction ws as [|w r IH]; intros ps H; cbn [positions_of] in H.
  - inversion H. reflexivity.
  - destruct (device_position d g w) as [p|e]; [|discriminate].
    destruct (positions_of d g r) as [ps'|e]; [|discriminate].
    inversion H; subst. cbn [length]. rewrite (IH ps' eq_refl). reflexivity.
Qed.

Lemma existsb_index_none L ws :
  existsb (fun x => match lw_index L x with None => true | Some _ => false end) ws = false ->
  Forall (fun w => lw_index L w <> None) ws.
Proof.
  intro H. apply Forall_forall. intros w Hw E.
  assert (HT : existsb (fun x => match lw_index L x with None => true | Some _ => false end) ws = true).
  { apply existsb_exists. exists w. split; [exact Hw|]. rewrite E. reflexivity. }
  rewrite H in HT. discriminate.
Qed.

(** what an accepted [distribute] did to the labware list *)
Lemma distribute_ok s ks kd dwells a s' Ls Ld :
  nth_error (st_lw s) ks = Some Ls -> nth_error (st_lw s) kd = Some Ld ->
  distribute s ks kd dwells a = (s', None) ->
  exists v i_s Ld1 L',
    rvol_x (d_volume a) = Some (XQ v) /\ 0 <= v /\
    lw_index Ls (well_id 0 (Z.to_nat (d_source_column a))) = Some i_s /\
    Forall (fun w => lw_index Ld w <> None) (flattenF dwells) /\
    flattenF dwells <> [] /\
    lw_min Ls <= Qred (vol_at Ls i_s - Qred (v * Qn (length (flattenF dwells)))) /\
    nth_error (upd (st_lw s) ks (log (rem_step Ls i_s (Qred (v * Qn (length (flattenF dwells))))) (d_label a))) kd
      = Some Ld1 /\
    add Ld1 (A1 (flattenF dwells)) (A0 (XQ v)) (d_label a)
        (Some (repeat (Some (wca (lw_comp Ls) i_s)) (length (flattenF dwells)))) = (L', None) /\
    forall k i, abs_state s' k i =
      abs_list (upd (upd (st_lw s) ks (log (rem_step Ls i_s (Qred (v * Qn (length (flattenF dwells))))) (d_label a)))
                    kd L') k i.
Proof.
  intros ELs ELd. unfold distribute. rewrite ELs, ELd.
  destruct (g_vrows (lw_geom Ls)) as [vr|]; [|discriminate].
  destruct (rvol_x (d_volume a)) as [xv|]; [|discriminate].
  match goal with |- match xv with XQ _ => ?B | _ => _ end = _ -> _ =>
    assert (HB : xv <> XNaN -> B = (s', None) ->
      exists v i_s Ld1 L',
        Some xv = Some (XQ v) /\ 0 <= v /\
        lw_index Ls (well_id 0 (Z.to_nat (d_source_column a))) = Some i_s /\
        Forall (fun w => lw_index Ld w <> None) (flattenF dwells) /\
        flattenF dwells <> [] /\
        lw_min Ls <= Qred (vol_at Ls i_s - Qred (v * Qn (length (flattenF dwells)))) /\
        nth_error (upd (st_lw s) ks (log (rem_step Ls i_s (Qred (v * Qn (length (flattenF dwells))))) (d_label a))) kd
          = Some Ld1 /\
        add Ld1 (A1 (flattenF dwells)) (A0 (XQ v)) (d_label a)
            (Some (repeat (Some (wca (lw_comp Ls) i_s)) (length (flattenF dwells)))) = (L', None) /\
        forall k i, abs_state s' k i =
          abs_list (upd (upd (st_lw s) ks (log (rem_step Ls i_s (Qred (v * Qn (length (flattenF dwells))))) (d_label a)))
                        kd L') k i);
      [|destruct xv; [apply HB; discriminate|discriminate|apply HB; discriminate|apply HB; discriminate]] end.
  intros _.
  match goal with |- context [if ?b then (s, Some EInvalidOp) else _] => destruct b; [discriminate|] end.
  cbv zeta.
  match goal with |- context [if existsb ?f ?l then (s, Some EReject) else _] =>
    destruct (existsb f l) eqn:EX; [discriminate|] end.
  destruct (positions_of (w_dev (st_wl s)) (lw_geom Ld) (flattenF dwells)) as [ps|e] eqn:EP; [|discriminate].
  pose proof (positions_of_length _ _ _ _ EP) as Hlen.
  destruct (sort_Z (map Z.of_nat ps)) as [|p0 sorted'] eqn:ES; [discriminate|].
  match goal with |- context [if negb ?b then _ else _] => destruct (negb b); [discriminate|] end.
  rewrite Hlen.
  match goal with |- context [remove Ls ?w ?x ?lab] =>
    destruct (remove Ls w x lab) as [Ls' [e|]] eqn:ER end; [discriminate|].
  destruct (remove_A0_ok _ _ _ _ _ ER) as (V & i_s & EV & HV & Eis & Hmin & ELs').
  unfold get_well_composition. rewrite ELs' at 1.
  rewrite (lw_index_geom' (log (rem_step Ls i_s V) (d_label a)) Ls _ eq_refl), Eis.
  rewrite well_composition_at_wca.
  assert (EC : lw_comp Ls' = lw_comp Ls) by (rewrite ELs'; reflexivity). rewrite EC.
  destruct (nth_error (st_lw (set_lw s ks Ls')) kd) as [Ld1|] eqn:ELd1; [|discriminate].
  match goal with |- context [add Ld1 ?w ?x ?lab ?cs] =>
    destruct (add Ld1 w x lab cs) as [Ld' [e|]] eqn:EA end; [discriminate|].
  destruct xv as [q| | |]; unfold xmul_nat in EV; try (destruct (length (flattenF dwells) =? 0)%nat; discriminate).
  assert (EV' : V = Qred (q * Qn (length (flattenF dwells)))) by (unfold Qn; congruence).
  intro H. exists q, i_s, Ld1, Ld'.
  split; [reflexivity|].
  split.
  { (* the volume is not negative: the removal of [n * q] was accepted, and there is a destination *)
    assert (Hne : flattenF dwells <> []).
    { intro E0. rewrite E0 in EP. cbn [positions_of] in EP. inversion EP; subst ps. cbn in ES. discriminate. }
    assert (Hn : 0 < Qn (length (flattenF dwells))).
    { destruct (flattenF dwells) as [|d r]; [congruence|]. cbn [length]. rewrite Qn_S. pose proof (Qn_nonneg (length r)). lra. }
    rewrite EV', Qred_correct in HV.
    destruct (Qlt_le_dec q 0) as [Hneg|Hpos]; [|exact Hpos].
    exfalso. assert (q * Qn (length (flattenF dwells)) < 0); [|lra].
    setoid_replace (q * Qn (length (flattenF dwells))) with (- ((- q) * Qn (length (flattenF dwells)))) by ring.
    assert (0 < (- q) * Qn (length (flattenF dwells))) by (apply Qmult_lt_0_compat; lra). lra. }
  split; [reflexivity|]. split; [apply existsb_index_none; exact EX|].
  split.
  { intro E0. rewrite E0 in EP. cbn [positions_of] in EP. inversion EP; subst ps. cbn in ES. discriminate. }
  split; [rewrite <- EV'; exact Hmin|].
  cbn [set_lw st_lw] in ELd1. rewrite ELs', EV' in ELd1.
  split; [exact ELd1|]. split; [exact EA|].
  intros k i. rewrite <- EV', <- ELs'.
  destruct (ks =? kd)%nat;
  match type of H with context [comment (st_wl ?s2) ?lab] =>
    destruct (comment (st_wl s2) lab) as [w1 [e|]]; [discriminate|] end;
  match type of H with context [reagent_distribution ?w ?args] =>
    destruct (reagent_distribution w args) as [w2 e2] end;
  inversion H; subst; rewrite abs_state_set_wl, ?abs_state_condense_at; reflexivity.
Qed.

Lemma map_repeat' {A B} (f : A -> B) x n : map f (repeat x n) = repeat (f x) n.
Proof. induction n as [|n IH]; [reflexivity|]. cbn [repeat map]. rewrite IH. reflexivity. Qed.

Lemma repeat_map_XQ n v vs : repeat (XQ v) n = map XQ vs -> vs = repeat v n.
Proof.
  revert vs. induction n as [|n IH]; intros [|x r] H; cbn [repeat map] in H; try discriminate; [reflexivity|].
  inversion H; subst. cbn [repeat]. rewrite (IH r); [reflexivity|assumption].
Qed.

Lemma zip_repeat_items {A B C} (ws : list A) (v : B) (c : C) :
  zip (zip ws (repeat v (length ws))) (repeat c (length ws)) = map (fun w => (w, v, c)) ws.
Proof. induction ws as [|w r IH]; [reflexivity|]. cbn [length repeat zip map]. rewrite IH. reflexivity. Qed.

(** the source well as the ideal view sees it: volume [X] and fractions [cget . wca] *)
Lemma abs_well_source L i : mix_inv L ->
  iw_eq (abs_well L i) {| iw_vol := vol_at L i; iw_amt := fun x => vol_at L i * cget x (wca (lw_comp L) i) |}.
Proof.
  intro HI. split; cbn [abs_well iw_vol iw_amt]; [reflexivity|]. intro x.
  rewrite wca_get_pfrac by apply HI.
  rewrite pfrac_nonneg by apply (comp_inv_frac L x i (proj2 HI)). reflexivity.
Qed.

(** the model's own order: one removal of [n * v] from the source column, then [v] of the source's
    liquid into each destination well, per occurrence, in the order given (any [v >= 0]) *)
Lemma distribute_refines_bulk s ks kd dwells a s' Ls Ld : st_inv s ->
  nth_error (st_lw s) ks = Some Ls -> nth_error (st_lw s) kd = Some Ld ->
  distribute s ks kd dwells a = (s', None) ->
  exists v i_s,
    rvol_x (d_volume a) = Some (XQ v) /\ 0 <= v /\
    lw_index Ls (well_id 0 (Z.to_nat (d_source_column a))) = Some i_s /\
    Forall (fun w => lw_index Ld w <> None) (flattenF dwells) /\ flattenF dwells <> [] /\
    Qn (length (flattenF dwells)) * v <= vol_at Ls i_s /\
    let X := vol_at Ls i_s - Qn (length (flattenF dwells)) * v in
    forall k i, iw_eq (abs_state s' k i)
      (is_add (is_upd (abs_state s) ks i_s
                 {| iw_vol := X; iw_amt := fun x => X * cget x (wca (lw_comp Ls) i_s) |})
              kd Ld (map (fun w => (w, v, wca (lw_comp Ls) i_s)) (flattenF dwells)) k i).
Proof.
  intros HI ELs ELd H.
  destruct (distribute_ok s ks kd dwells a s' Ls Ld ELs ELd H)
    as (v & i_s & Ld1 & L' & Ev & Hv & Eis & HF & Hne & Hmin & ELd1 & EA & Habs).
  pose proof (st_inv_nth s ks Ls HI ELs) as HLs. pose proof (st_inv_nth s kd Ld HI ELd) as HLd.
  assert (His : (i_s < n_wells (lw_geom Ls))%nat) by (eapply (lw_index_lt Ls); [apply HLs|exact Eis]).
  set (n := length (flattenF dwells)) in *. set (V := Qred (v * Qn n)) in *.
  set (c := wca (lw_comp Ls) i_s) in *.
  assert (HV : 0 <= V) by (unfold V; rewrite Qred_correct; apply Qmult_le_0_compat; [exact Hv|apply Qn_nonneg]).
  assert (HLs' : mix_inv (log (rem_step Ls i_s V) (d_label a))) by (apply log_inv; apply rem_step_inv; assumption).
  assert (HI1 : Forall mix_inv (upd (st_lw s) ks (log (rem_step Ls i_s V) (d_label a))))
    by (apply Forall_upd'; [exact HI|exact HLs']).
  assert (HLd1 : mix_inv Ld1) by (rewrite Forall_forall in HI1; apply HI1; eapply nth_error_In; exact ELd1).
  assert (Eg1 : lw_geom Ld1 = lw_geom Ld).
  { rewrite nth_error_upd_gen in ELd1. destruct (Nat.eqb_spec kd ks) as [E|N].
    - subst kd. rewrite ELs in ELd1. inversion ELd1; subst Ld1. rewrite ELs in ELd. inversion ELd; subst Ld.
      reflexivity.
    - rewrite ELd in ELd1. inversion ELd1. reflexivity. }
  pose proof (wca_comp_ok Ls i_s HLs) as [HC _]. fold c in HC.
  assert (HCS : Forall comp_ok (repeat c n)) by (apply Forall_forall; intros x Hx; apply repeat_spec in Hx; subst x; exact HC).
  rewrite <- (map_repeat' Some c n) in EA.
  destruct (add_refines _ kd Ld1 _ _ _ (repeat c n) L' ELd1 HLd1 HCS EA) as (vs & Evs & _ & _ & _ & _ & _ & HR).
  cbn [flattenF broadcast] in Evs, HR. fold n in Evs, HR. apply repeat_map_XQ in Evs. subst vs.
  unfold n in HR. rewrite zip_repeat_items in HR.
  pose proof HLs as [(_ & Hlen & Hmin0 & _) _].
  assert (HX : Qn n * v <= vol_at Ls i_s).
  { unfold V in Hmin. rewrite !Qred_correct in Hmin. lra. }
  exists v, i_s. split; [exact Ev|]. split; [exact Hv|]. split; [exact Eis|]. split; [exact HF|].
  split; [exact Hne|]. split; [exact HX|]. cbv zeta.
  intros k i. rewrite Habs. eapply iw_eq_trans; [apply HR|].
  rewrite (is_add_geom kd Ld Ld1 _ Eg1). apply is_add_congr. rewrite abs_state_list.
  intros k' i'. rewrite abs_list_upd_log.
  rewrite <- (abs_list_upd_log _ ks _ None).
  eapply iw_eq_trans; [apply abs_upd_rem; [exact ELs|lia]|].
  apply is_upd_congr; [intros; apply iw_eq_refl|].
  split; cbn [iw_vol iw_amt].
  - unfold V. rewrite Qred_correct. ring.
  - intro x. unfold V. rewrite Qred_correct. fold c. unfold c. rewrite wca_get_pfrac by apply HLs.
    rewrite pfrac_nonneg by apply (comp_inv_frac Ls x i_s (proj2 HLs)). ring.
Qed.

(** C05_refines_distribute: an accepted distribution of a positive volume is the ideal execution
    of one pipetting step source column -> destination well per addressed well *)
Lemma distribute_refines s ks kd dwells a s' Ls Ld v : st_inv s ->
  nth_error (st_lw s) ks = Some Ls -> nth_error (st_lw s) kd = Some Ld ->
  rvol_x (d_volume a) = Some (XQ v) -> 0 < v ->
  distribute s ks kd dwells a = (s', None) ->
  forall k i, iw_eq (abs_state s' k i)
    (is_exec (abs_state s) ks kd Ls Ld (dist_steps (d_source_column a) dwells v) k i).
Proof.
  intros HI ELs ELd Ev Hv H.
  destruct (distribute_refines_bulk s ks kd dwells a s' Ls Ld HI ELs ELd H)
    as (v' & i_s & Ev' & _ & Eis & HF & _ & HX & HR).
  rewrite Ev in Ev'. inversion Ev'; subst v'. cbv zeta in HR.
  intros k i. eapply iw_eq_trans; [apply HR|]. apply iw_eq_sym. unfold dist_steps.
  apply (dist_ideal ks kd Ls Ld _ i_s v (wca (lw_comp Ls) i_s) Eis Hv (flattenF dwells) (abs_state s)
           (vol_at Ls i_s) HF); [|exact HX].
  unfold abs_state. rewrite ELs. apply abs_well_source. exact (st_inv_nth s ks Ls HI ELs).
Qed.

(** the volume of an accepted distribution is a non-negative number ... *)
Lemma distribute_volume s ks kd dwells a s' : distribute s ks kd dwells a = (s', None) ->
  exists v, rvol_x (d_volume a) = Some (XQ v) /\ 0 <= v.
Proof.
  intro H. pose proof H as H0. unfold distribute in H0.
  destruct (nth_error (st_lw s) ks) as [Ls|] eqn:ELs; [|discriminate].
  destruct (nth_error (st_lw s) kd) as [Ld|] eqn:ELd; [|discriminate]. clear H0.
  destruct (distribute_ok s ks kd dwells a s' Ls Ld ELs ELd H) as (v & _ & _ & _ & Ev & Hv & _).
  exists v. split; assumption.
Qed.

(** ... and a distribution of volume zero changes no volume and no amount *)
Lemma is_add_zero k L items : Forall (fun t => snd (fst t) == 0) items ->
  forall W, ist_eq (is_add W k L items) W.
Proof.
  induction 1 as [|[[w v] c] r Hv Hr IH]; intro W; [apply ist_eq_refl|].
  cbn [fst snd] in Hv. cbn [is_add]. destruct (lw_index L w) as [i|]; [|apply ist_eq_refl].
  eapply ist_eq_trans; [apply IH|]. intros k' i'. apply is_upd_same.
  split; cbn [iw_add iw_vol iw_amt]; [rewrite Hv; ring|]. intro x. rewrite Hv. ring.
Qed.

Lemma distribute_refines_zero s ks kd dwells a s' v : st_inv s ->
  rvol_x (d_volume a) = Some (XQ v) -> v == 0 ->
  distribute s ks kd dwells a = (s', None) ->
  forall k i, iw_eq (abs_state s' k i) (abs_state s k i).
Proof.
  intros HI Ev Hv H. pose proof H as H0. unfold distribute in H0.
  destruct (nth_error (st_lw s) ks) as [Ls|] eqn:ELs; [|discriminate].
  destruct (nth_error (st_lw s) kd) as [Ld|] eqn:ELd; [|discriminate]. clear H0.
  destruct (distribute_refines_bulk s ks kd dwells a s' Ls Ld HI ELs ELd H)
    as (v' & i_s & Ev' & _ & Eis & HF & _ & HX & HR).
  rewrite Ev in Ev'. inversion Ev'; subst v'. cbv zeta in HR.
  intros k i. eapply iw_eq_trans; [apply HR|].
  eapply iw_eq_trans.
  - apply is_add_zero. apply Forall_forall. intros t Ht. apply in_map_iff in Ht.
    destruct Ht as (w & Et & _). subst t. exact Hv.
  - apply is_upd_same. unfold abs_state. rewrite ELs.
    eapply iw_eq_trans; [|apply iw_eq_sym; apply abs_well_source; exact (st_inv_nth s ks Ls HI ELs)].
    split; cbn [iw_vol iw_amt]; [rewrite Hv; ring|]. intro x. rewrite Hv. ring.
Qed.

(* ================================================================== what no call ever changes
   (accepted or rejected): the geometry of every labware, [max_volume] and [auto_split_tips] *)

Definition wst (w w' : wstate) : Prop := w_max w' = w_max w /\ w_autosplit w' = w_autosplit w.

Lemma wst_refl w : wst w w. Proof. split; reflexivity. Qed.
Lemma wst_trans w1 w2 w3 : wst w1 w2 -> wst w2 w3 -> wst w1 w3.
Proof. intros [A B] [C D]. split; congruence. Qed.
Lemma wst_emit w rs : wst w (emit w rs). Proof. split; reflexivity. Qed.

Lemma wst_comment w c : wst w (fst (comment w c)).
Proof. destruct (comment_static w c) as [A B]. split; assumption. Qed.
Lemma wst_wash w sch : wst w (fst (wash w sch)).
Proof.
  unfold wash. destruct (w_diti w); [apply wst_emit|].
  destruct sch as [z| | | |]; try apply wst_refl. destruct ((1 <=? z) && (z <=? 4))%Z; [apply wst_emit|apply wst_refl].
Qed.
Lemma wst_decon w : wst w (fst (decontaminate w)).
Proof. unfold decontaminate. destruct (w_diti w); [apply wst_refl|apply wst_emit]. Qed.
Lemma wst_flush w : wst w (fst (flush w)). Proof. apply wst_emit. Qed.
Lemma wst_commit w : wst w (fst (commit w)). Proof. apply wst_emit. Qed.
Lemma wst_set_diti w i : wst w (fst (set_diti w i)).
Proof.
  unfold set_diti. destruct (i <? 0)%Z; [apply wst_refl|].
  destruct (last_opt (w_recs w)) as [r|]; [|apply wst_emit].
  destruct (is_break_like r); [apply wst_emit|apply wst_refl].
Qed.
Lemma wst_aspirate_well w a : wst w (fst (aspirate_well w a)).
Proof. unfold aspirate_well. destruct (prepare_ad a (Some (w_max w))); [apply wst_emit|apply wst_refl]. Qed.
Lemma wst_dispense_well w a : wst w (fst (dispense_well w a)).
Proof. unfold dispense_well. destruct (prepare_ad a (Some (w_max w))); [apply wst_emit|apply wst_refl]. Qed.
Lemma wst_reagent w a : wst w (fst (reagent_distribution w a)).
Proof.
  unfold reagent_distribution.
  repeat match goal with
         | |- wst _ (fst (if ?b then _ else _)) => destruct b
         | |- wst _ (fst (match ?x with _ => _ end)) => destruct x
         | |- wst _ (fst (let d := ?x in _)) => cbv zeta
         end; try apply wst_refl; apply wst_emit.
Qed.

Lemma wst_emit_wells asp L kw items : forall w, wst w (fst (emit_wells asp w L items kw)).
Proof.
  induction items as [|[well x] rest IH]; intro w; [apply wst_refl|]. cbn [emit_wells].
  destruct (xpos x); [|apply IH].
  destruct (device_position (w_dev w) (lw_geom L) well) as [pos|e]; [|apply wst_refl].
  destruct asp.
  - pose proof (wst_aspirate_well w (ad_of_kw (lw_name L) pos (xq x) kw)) as H1.
    destruct (aspirate_well w (ad_of_kw (lw_name L) pos (xq x) kw)) as [w' [e|]]; cbn [fst] in *; [exact H1|].
    eapply wst_trans; [exact H1|apply IH].
  - pose proof (wst_dispense_well w (ad_of_kw (lw_name L) pos (xq x) kw)) as H1.
    destruct (dispense_well w (ad_of_kw (lw_name L) pos (xq x) kw)) as [w' [e|]]; cbn [fst] in *; [exact H1|].
    eapply wst_trans; [exact H1|apply IH].
Qed.

Lemma wst_tip_action w ws : wst w (fst (tip_action w ws)).
Proof.
  unfold tip_action. destruct ws as [z| | | |]; try apply wst_wash; try apply wst_flush; try apply wst_refl.
  destruct (w_dev w); try apply wst_refl; apply wst_flush.
Qed.

Definition frame (s s' : state) : Prop :=
  map lw_geom (st_lw s') = map lw_geom (st_lw s) /\ wst (st_wl s) (st_wl s').

Lemma frame_refl s : frame s s. Proof. split; [reflexivity|apply wst_refl]. Qed.
Lemma frame_trans s1 s2 s3 : frame s1 s2 -> frame s2 s3 -> frame s1 s3.
Proof. intros [A B] [C D]. split; [congruence|eapply wst_trans; eassumption]. Qed.

Lemma map_upd_same {A B} (f : A -> B) l k x y : nth_error l k = Some x -> f y = f x ->
  map f (upd l k y) = map f l.
Proof.
  intros E H. rewrite map_upd, H. apply upd_same_nth_error. rewrite nth_error_map, E. reflexivity.
Qed.

Lemma frame_mk s k L L' w' : nth_error (st_lw s) k = Some L -> lw_geom L' = lw_geom L ->
  wst (st_wl s) w' -> frame s (set_wl (set_lw s k L') w').
Proof. intros E HG HW. split; [cbn [set_wl set_lw st_lw]; apply (map_upd_same lw_geom _ _ L); assumption|exact HW]. Qed.

Lemma frame_set_lw s k L L' : nth_error (st_lw s) k = Some L -> lw_geom L' = lw_geom L -> frame s (set_lw s k L').
Proof. intros E HG. split; [cbn [set_lw st_lw]; apply (map_upd_same lw_geom _ _ L); assumption|apply wst_refl]. Qed.

Lemma frame_set_wl s w' : wst (st_wl s) w' -> frame s (set_wl s w').
Proof. intro H. split; [reflexivity|exact H]. Qed.

Lemma add_loop_geom items : forall L, lw_geom (fst (add_loop L items)) = lw_geom L.
Proof.
  induction items as [|[[w x] oc] r IH]; intro L; [reflexivity|]. rewrite add_loop_cons'.
  destruct (lw_index L w) as [i|]; [|reflexivity]. destruct x as [v| | |]; try reflexivity.
  destruct (Qgtb (Qred (vol_at L i + v)) (lw_max L)); [reflexivity|]. rewrite IH. apply add_step_geom.
Qed.

Lemma add_geom L wells vols label comps : lw_geom (fst (add L wells vols label comps)) = lw_geom L.
Proof.
  unfold add. destruct (prep_wells_vols wells vols) as [wv|e]; [|reflexivity].
  match goal with |- context [if ?b then _ else _] => destruct b; [reflexivity|] end.
  match goal with |- context [add_loop L ?it] => pose proof (add_loop_geom it L) as H; destruct (add_loop L it) as [L' [e|]] end;
    cbn [fst] in *; exact H.
Qed.

Lemma remove_loop_geom items : forall L, lw_geom (fst (remove_loop L items)) = lw_geom L.
Proof.
  induction items as [|[w x] r IH]; intro L; [reflexivity|]. rewrite remove_loop_cons'.
  destruct (lw_index L w) as [i|]; [|reflexivity]. destruct x as [v| | |]; try reflexivity.
  destruct (Qltb (Qred (vol_at L i - v)) (lw_min L)); [reflexivity|]. rewrite IH. reflexivity.
Qed.

Lemma remove_geom L wells vols label : lw_geom (fst (remove L wells vols label)) = lw_geom L.
Proof.
  unfold remove. destruct (prep_wells_vols wells vols) as [wv|e]; [|reflexivity].
  pose proof (remove_loop_geom wv L) as H. destruct (remove_loop L wv) as [L' [e|]]; cbn [fst] in *; exact H.
Qed.

Lemma frame_aspirate s k wells vols label kw : frame s (fst (aspirate s k wells vols label kw)).
Proof.
  unfold aspirate, wells_vols. destruct (nth_error (st_lw s) k) as [L|] eqn:EL; [|apply frame_refl].
  cbv beta zeta iota.
  match goal with |- context [remove L ?a ?b ?c] => pose proof (remove_geom L a b c) as HG;
    destruct (remove L a b c) as [L' [e|]] end; cbn [fst] in *; [apply (frame_set_lw s k L); assumption|].
  pose proof (wst_comment (st_wl (set_lw s k L')) label) as HC.
  destruct (comment (st_wl (set_lw s k L')) label) as [w [e|]]; cbn [fst] in HC;
    [apply (frame_mk s k L); assumption|].
  match goal with |- context [emit_wells true w L' ?it kw] => pose proof (wst_emit_wells true L' kw it w) as HE;
    destruct (emit_wells true w L' it kw) as [w' e'] end; cbn [fst] in *.
  apply (frame_mk s k L); [exact EL|exact HG|]. eapply wst_trans; [exact HC|exact HE].
Qed.

Lemma frame_dispense s k wells vols label comps kw : frame s (fst (dispense s k wells vols label comps kw)).
Proof.
  unfold dispense, wells_vols. destruct (nth_error (st_lw s) k) as [L|] eqn:EL; [|apply frame_refl].
  cbv beta zeta iota.
  match goal with |- context [add L ?a ?b ?c ?d] => pose proof (add_geom L a b c d) as HG;
    destruct (add L a b c d) as [L' [e|]] end; cbn [fst] in *; [apply (frame_set_lw s k L); assumption|].
  pose proof (wst_comment (st_wl (set_lw s k L')) label) as HC.
  destruct (comment (st_wl (set_lw s k L')) label) as [w [e|]]; cbn [fst] in HC;
    [apply (frame_mk s k L); assumption|].
  match goal with |- context [emit_wells false w L' ?it kw] => pose proof (wst_emit_wells false L' kw it w) as HE;
    destruct (emit_wells false w L' it kw) as [w' e'] end; cbn [fst] in *.
  apply (frame_mk s k L); [exact EL|exact HG|]. eapply wst_trans; [exact HC|exact HE].
Qed.

Lemma frame_exec_step s ks kd sw dw v ws kw : frame s (fst (exec_step s ks kd sw dw v ws kw)).
Proof.
  unfold exec_step.
  pose proof (frame_aspirate s ks (A0 sw) (A0 (XQ v)) None kw) as H1.
  destruct (aspirate s ks (A0 sw) (A0 (XQ v)) None kw) as [s1 [e|]]; cbn [fst] in *; [exact H1|].
  destruct (nth_error (st_lw s1) ks) as [Ls|]; [|exact H1].
  destruct (get_well_composition Ls sw) as [c|e]; [|exact H1].
  pose proof (frame_dispense s1 kd (A0 dw) (A0 (XQ v)) None (Some [Some c]) kw) as H2.
  destruct (dispense s1 kd (A0 dw) (A0 (XQ v)) None (Some [Some c]) kw) as [s2 [e|]]; cbn [fst] in *;
    [eapply frame_trans; eassumption|].
  pose proof (wst_tip_action (st_wl s2) ws) as H3.
  destruct (tip_action (st_wl s2) ws) as [w e]. cbn [fst] in *.
  eapply frame_trans; [exact H1|]. eapply frame_trans; [exact H2|]. apply frame_set_wl. exact H3.
Qed.

Lemma frame_exec acts : forall s ks kd ws kw, frame s (fst (exec s ks kd acts ws kw)).
Proof.
  induction acts as [|a r IH]; intros s ks kd ws kw; [apply frame_refl|].
  destruct a as [sw dw v|]; cbn [exec].
  - pose proof (frame_exec_step s ks kd sw dw v ws kw) as H1.
    destruct (exec_step s ks kd sw dw v ws kw) as [s1 [e|]]; cbn [fst] in *; [exact H1|].
    eapply frame_trans; [exact H1|apply IH].
  - eapply frame_trans; [|apply IH]. apply frame_set_wl. apply wst_commit.
Qed.

Lemma condense_log_geom L n label : lw_geom (condense_log L n label) = lw_geom L.
Proof. unfold condense_log. destruct (n <? 1)%nat; reflexivity. Qed.

Lemma frame_condense_at s k n label : frame s (condense_at s k n label).
Proof.
  unfold condense_at. destruct (nth_error (st_lw s) k) as [L|] eqn:E; [|apply frame_refl].
  apply (frame_set_lw s k L); [exact E|apply condense_log_geom].
Qed.

Lemma frame_transfer s ks swells kd dwells vols label ws pb kw :
  frame s (fst (transfer s ks swells kd dwells vols label ws pb kw)).
Proof.
  unfold transfer.
  destruct (w_dev (st_wl s)); try apply frame_refl;
  (destruct (nth_error (st_lw s) ks) as [Ls|]; [|apply frame_refl];
   destruct (nth_error (st_lw s) kd) as [Ld|]; [|apply frame_refl];
   cbv zeta;
   match goal with |- context [if negb ?b then _ else _] => destruct (negb b); [apply frame_refl|] end;
   match goal with |- context [if existsb ?f ?l then _ else _] => destruct (existsb f l); [apply frame_refl|] end;
   match goal with |- context [if ?a || ?b then _ else _] => destruct (a || b); [apply frame_refl|] end;
   destruct (optimize_partition_by (is_trough (lw_geom Ls)) (is_trough (lw_geom Ld)) pb) as [mode|e];
     [|apply frame_refl];
   pose proof (wst_comment (st_wl s) label) as HC;
   destruct (comment (st_wl s) label) as [w [e|]]; cbn [fst] in HC; [apply frame_set_wl; exact HC|];
   match goal with |- context [exec ?s0 ?a ?b ?acts ?c ?d] =>
     pose proof (frame_exec acts s0 a b c d) as HE; destruct (exec s0 a b acts c d) as [s' [e|]] end;
   cbn [fst] in *;
   (eapply frame_trans; [apply frame_set_wl; exact HC|]); [exact HE|];
   (eapply frame_trans; [exact HE|]);
   match goal with |- context [if ?b then _ else _] => destruct b end; cbn [fst];
   [apply frame_condense_at|eapply frame_trans; apply frame_condense_at]).
Qed.

Lemma frame_distribute s ks kd dwells a : frame s (fst (distribute s ks kd dwells a)).
Proof.
  unfold distribute.
  destruct (nth_error (st_lw s) ks) as [Ls|] eqn:ELs; [|apply frame_refl].
  destruct (nth_error (st_lw s) kd) as [Ld|] eqn:ELd; [|apply frame_refl].
  destruct (g_vrows (lw_geom Ls)) as [vr|]; [|apply frame_refl].
  destruct (rvol_x (d_volume a)) as [xv|]; [|apply frame_refl].
  match goal with |- frame s (fst (match xv with XQ _ => ?B | _ => _ end)) =>
    assert (HB : frame s (fst B)); [|destruct xv; [exact HB|apply frame_refl|exact HB|exact HB]] end.
  match goal with |- context [if ?b then (s, Some EInvalidOp) else _] => destruct b; [apply frame_refl|] end.
  cbv zeta.
  match goal with |- context [if existsb ?f ?l then (s, Some EReject) else _] =>
    destruct (existsb f l); [apply frame_refl|] end.
  destruct (positions_of (w_dev (st_wl s)) (lw_geom Ld) (flattenF dwells)) as [ps|e]; [|apply frame_refl].
  destruct (sort_Z (map Z.of_nat ps)) as [|p0 sorted']; [apply frame_refl|].
  match goal with |- context [if negb ?b then _ else _] => destruct (negb b); [apply frame_refl|] end.
  match goal with |- context [remove Ls ?w ?x ?lab] =>
    pose proof (remove_geom Ls w x lab) as HR;
    destruct (remove Ls w x lab) as [Ls' [e|]]; cbn [fst] in HR end.
  { cbn [fst]. apply (frame_set_lw s ks Ls); assumption. }
  assert (F1 : frame s (set_lw s ks Ls')) by (apply (frame_set_lw s ks Ls); assumption).
  match goal with |- context [get_well_composition Ls' ?w] =>
    destruct (get_well_composition Ls' w) as [c|e]; [|exact F1] end.
  destruct (nth_error (st_lw (set_lw s ks Ls')) kd) as [Ld1|] eqn:ELd1; [|exact F1].
  match goal with |- context [add Ld1 ?w ?x ?lab ?cs] =>
    pose proof (add_geom Ld1 w x lab cs) as HA;
    destruct (add Ld1 w x lab cs) as [Ld' [e|]]; cbn [fst] in HA end.
  { cbn [fst]. eapply frame_trans; [exact F1|]. apply (frame_set_lw _ kd Ld1); assumption. }
  assert (F2 : frame s (set_lw (set_lw s ks Ls') kd Ld'))
    by (eapply frame_trans; [exact F1|]; apply (frame_set_lw _ kd Ld1); assumption).
  destruct (ks =? kd)%nat;
  match goal with |- context [comment (st_wl ?s2) ?lab] =>
    assert (F3 : frame s s2) by (try (eapply frame_trans; [exact F2|apply frame_condense_at]); exact F2);
    pose proof (wst_comment (st_wl s2) lab) as HC;
    destruct (comment (st_wl s2) lab) as [w1 [e|]]; cbn [fst] in HC;
      [cbn [fst]; eapply frame_trans; [exact F3|apply frame_set_wl; exact HC]|] end;
  match goal with |- context [reagent_distribution ?w ?args] =>
    pose proof (wst_reagent w args) as HRD;
    destruct (reagent_distribution w args) as [w2 e2] end; cbn [fst] in *;
  (eapply frame_trans; [exact F3|]); apply frame_set_wl; eapply wst_trans; eassumption.
Qed.

Lemma frame_on_wl s f : (forall w, wst w (fst (f w))) -> frame s (fst (on_wl s f)).
Proof.
  intro H. unfold on_wl. specialize (H (st_wl s)). destruct (f (st_wl s)) as [w e]. cbn [fst] in *.
  apply frame_set_wl. exact H.
Qed.

Lemma frame_on_lw s k f : (forall L, lw_geom (fst (f L)) = lw_geom L) -> frame s (fst (on_lw s k f)).
Proof.
  intro H. unfold on_lw. destruct (nth_error (st_lw s) k) as [L|] eqn:E; [|apply frame_refl].
  specialize (H L). destruct (f L) as [L' e]. cbn [fst] in *. apply (frame_set_lw s k L); assumption.
Qed.

Lemma frame_evo_aspirate s k a label : frame s (fst (evo_aspirate s k a label)).
Proof.
  unfold evo_aspirate, wells_vols. destruct (nth_error (st_lw s) k) as [L|] eqn:EL; [|apply frame_refl].
  cbv beta zeta iota.
  match goal with |- context [remove L ?x ?y ?z] => pose proof (remove_geom L x y z) as HG;
    destruct (remove L x y z) as [L' [e|]] end; cbn [fst] in *; [apply (frame_set_lw s k L); assumption|].
  pose proof (wst_comment (st_wl (set_lw s k L')) label) as HC.
  destruct (comment (st_wl (set_lw s k L')) label) as [w [e|]]; cbn [fst] in HC;
    [apply (frame_mk s k L); assumption|].
  destruct (evo_command "Aspirate" (n_row_ids (lw_geom L)) (g_cols (lw_geom L)) a (w_max w)) as [cmd|e];
    cbn [fst]; apply (frame_mk s k L); assumption.
Qed.

Lemma frame_evo_dispense s k a label comps : frame s (fst (evo_dispense s k a label comps)).
Proof.
  unfold evo_dispense, wells_vols. destruct (nth_error (st_lw s) k) as [L|] eqn:EL; [|apply frame_refl].
  cbv beta zeta iota.
  match goal with |- context [add L ?x ?y ?z ?u] => pose proof (add_geom L x y z u) as HG;
    destruct (add L x y z u) as [L' [e|]] end; cbn [fst] in *; [apply (frame_set_lw s k L); assumption|].
  pose proof (wst_comment (st_wl (set_lw s k L')) label) as HC.
  destruct (comment (st_wl (set_lw s k L')) label) as [w [e|]]; cbn [fst] in HC;
    [apply (frame_mk s k L); assumption|].
  destruct (evo_command "Dispense" (n_row_ids (lw_geom L)) (g_cols (lw_geom L)) a (w_max w)) as [cmd|e];
    cbn [fst]; apply (frame_mk s k L); assumption.
Qed.

(** every call, accepted or rejected, leaves every geometry, [max_volume] and [auto_split_tips] alone *)
Lemma frame_step s o : frame s (fst (step s o)).
Proof.
  destruct o as [k ws vs l cs|k ws vs l|k n l|k ws vs l kw|k ws vs l cs kw|ks sw kd dw vs l sch pb kw
                |ks kd dw a|c|sch| | | |i|a|a|a|k a l|k a l cs|a]; cbn [step].
  - apply frame_on_lw. intro L. apply add_geom.
  - apply frame_on_lw. intro L. apply remove_geom.
  - apply frame_on_lw. intro L. apply condense_log_geom.
  - apply frame_aspirate.
  - apply frame_dispense.
  - apply frame_transfer.
  - apply frame_distribute.
  - apply frame_on_wl. intro w. apply wst_comment.
  - apply frame_on_wl. intro w. apply wst_wash.
  - apply frame_on_wl. intro w. apply wst_decon.
  - apply frame_on_wl. intro w. apply wst_flush.
  - apply frame_on_wl. intro w. apply wst_commit.
  - apply frame_on_wl. intro w. apply wst_set_diti.
  - apply frame_on_wl. intro w. apply wst_aspirate_well.
  - apply frame_on_wl. intro w. apply wst_dispense_well.
  - apply frame_on_wl. intro w. apply wst_reagent.
  - destruct (w_dev (st_wl s)); try apply frame_refl. apply frame_evo_aspirate.
  - destruct (w_dev (st_wl s)); try apply frame_refl. apply frame_evo_dispense.
  - destruct (w_dev (st_wl s)); try apply frame_refl. unfold evo_wash.
    destruct (evo_wash_cmd a) as [cmd|e]; [|apply frame_refl]. cbn [fst]. apply frame_set_wl. apply wst_emit.
Qed.

(* ================================================================== (d) whole calls and whole programs:
   the ideal semantics (specification level; [None] = the call has no ideal meaning: unknown
   labware, a volume that is not a finite number, an unknown partitioning mode, a negative
   distribution volume) *)

(** liquid enters the wells of labware [k]: of the given composition where one is given, of unknown
    composition ([iw_dilute]: "more of what is there") where none is given *)
Definition is_addcall (lws : list labware) (k : nat) (wells : arr string) (vols : arr xnum)
    (comps : option (list (option composition))) : option (istate -> istate) :=
  match xq_list (broadcast (flattenF vols) (length (flattenF wells))), nth_error lws k with
  | Some vs, Some L =>
      Some (fun W => is_addo W k L
                       (zip (zip (flattenF wells) vs) (comps_list comps (length (flattenF wells)))))
  | _, _ => None
  end.

(** liquid leaves the wells of labware [k] *)
Definition is_remcall (lws : list labware) (k : nat) (wells : arr string) (vols : arr xnum)
    : option (istate -> istate) :=
  match xq_list (broadcast (flattenF vols) (length (flattenF wells))), nth_error lws k with
  | Some vs, Some L => Some (fun W => is_rem W k L (zip (flattenF wells) vs))
  | _, _ => None
  end.

(** one accepted call; [auto], [m]: [auto_split_tips] and [max_volume] of the worklist, [lws]: the
    labware set (only its geometries are looked at) *)
Definition is_op (auto : bool) (m : Q) (lws : list labware) (o : op) : option (istate -> istate) :=
  match o with
  | OAdd k ws vs _ cs => is_addcall lws k ws vs cs
  | ODispense k ws vs _ cs _ => is_addcall lws k ws vs cs
  | OEvoDisp k a _ cs => is_addcall lws k (c_wells a) (evo_vols (c_volume a)) cs
  | ORemove k ws vs _ => is_remcall lws k ws vs
  | OAspirate k ws vs _ _ => is_remcall lws k ws vs
  | OEvoAsp k a _ => is_remcall lws k (c_wells a) (evo_vols (c_volume a))
  | OTransfer ks sw kd dw vs _ _ pb _ =>
      match nth_error lws ks, nth_error lws kd with
      | Some Ls, Some Ld =>
          match optimize_partition_by (is_trough (lw_geom Ls)) (is_trough (lw_geom Ld)) pb with
          | Ok mode => Some (fun W => is_exec W ks kd Ls Ld (plan auto m mode (transfer_triples sw dw vs)))
          | Err _ => None
          end
      | _, _ => None
      end
  | ODistribute ks kd dw a =>
      match nth_error lws ks, nth_error lws kd, rvol_x (d_volume a) with
      | Some Ls, Some Ld, Some (XQ v) =>
          if Qltb 0 v then Some (fun W => is_exec W ks kd Ls Ld (dist_steps (d_source_column a) dw v))
          else if Qeq_bool v 0 then Some (fun W => W)
          else None
      | _, _, _ => None
      end
  | _ => Some (fun W => W)      (* [condense_log] and the record-only calls move no liquid *)
  end.

(** a program: the calls one after the other *)
Fixpoint is_run (auto : bool) (m : Q) (lws : list labware) (ops : list op) : option (istate -> istate) :=
  match ops with
  | [] => Some (fun W => W)
  | o :: r => match is_op auto m lws o, is_run auto m lws r with
              | Some f, Some g => Some (fun W => g (f W))
              | _, _ => None
              end
  end.

(** the calls the run-level theorems speak about: every composition a call supplies is given
    (not [None]) and is a dict of fractions *)
Definition comps_given (comps : option (list (option composition))) : Prop :=
  match comps with
  | Some cs => Forall (fun oc => match oc with Some c => comp_ok c | None => False end) cs
  | None => False
  end.
Definition op_mix (o : op) : Prop :=
  match op_comps o with Some cs => comps_given cs | None => True end.

(** calls that move no liquid whatever their outcome *)
Definition op_effectless (o : op) : Prop :=
  match o with OCondense _ _ _ => True | _ => op_record_only o end.

(** the outcome of a call the run-level theorem accepts: the call was accepted, or it moves no liquid anyway *)
Definition call_ok (o : op) (e : option err) : Prop := e = None \/ op_effectless o.

(** the wider class (REVIEW2 N2): compositions may be missing - [op_comps_ok] of
    Proofs/MixingRunProofs.v, every composition that IS given is a dict of fractions - provided
    the wells addressed without a composition are clean in the state the call starts from *)
Definition op_clean (s : state) (o : op) : Prop :=
  match o with
  | OAdd k ws _ _ cs => forall L, nth_error (st_lw s) k = Some L -> plain_clean L ws cs
  | ODispense k ws _ _ cs _ => forall L, nth_error (st_lw s) k = Some L -> plain_clean L ws cs
  | OEvoDisp k a _ cs => forall L, nth_error (st_lw s) k = Some L -> plain_clean L (c_wells a) cs
  | _ => True
  end.

(** ... along a program: every call is [op_clean] in the state the model has reached *)
Fixpoint run_clean (s : state) (ops : list op) : Prop :=
  match ops with
  | [] => True
  | o :: r => op_clean s o /\ run_clean (fst (step s o)) r
  end.

(* ------------------------------------------------------------------ lemmas about the definitions *)

Lemma xq_list_of_map vs : xq_list (map XQ vs) = Some vs.
Proof. induction vs as [|v r IH]; [reflexivity|]. cbn [map xq_list]. rewrite IH. reflexivity. Qed.

Lemma comps_given_inv comps : comps_given comps ->
  exists cs, comps = Some (map Some cs) /\ Forall comp_ok cs.
Proof.
  destruct comps as [cs0|]; [|intros []]. cbn [comps_given]. intro H.
  induction cs0 as [|oc r IH].
  - exists []. split; [reflexivity|constructor].
  - inversion H as [|oc' r' Hoc Hr]; subst. destruct oc as [c|]; [|destruct Hoc].
    destruct (IH Hr) as (cs & E & HC). inversion E as [E']. exists (c :: cs).
    split; [cbn [map]; rewrite <- E'; reflexivity|constructor; assumption].
Qed.

Lemma nth_geom (l l0 : list labware) k L : map lw_geom l = map lw_geom l0 -> nth_error l k = Some L ->
  exists L0, nth_error l0 k = Some L0 /\ lw_geom L0 = lw_geom L.
Proof.
  intros HG E. assert (H : nth_error (map lw_geom l0) k = Some (lw_geom L))
    by (rewrite <- HG, nth_error_map, E; reflexivity).
  rewrite nth_error_map in H. destruct (nth_error l0 k) as [L0|]; [|discriminate].
  exists L0. split; [reflexivity|]. inversion H. reflexivity.
Qed.

Lemma is_op_congr auto m lws o f : is_op auto m lws o = Some f ->
  forall W W', ist_eq W W' -> ist_eq (f W) (f W').
Proof.
  assert (HA : forall k ws vs cs f, is_addcall lws k ws vs cs = Some f ->
                 forall W W', ist_eq W W' -> ist_eq (f W) (f W')).
  { intros k ws vs cs g H. unfold is_addcall in H.
    destruct (xq_list (broadcast (flattenF vs) (length (flattenF ws)))) as [vq|]; [|discriminate].
    destruct (nth_error lws k) as [L|]; [|discriminate]. inversion H; subst g.
    intros W W' HW. apply is_addo_congr. exact HW. }
  assert (HR : forall k ws vs f, is_remcall lws k ws vs = Some f ->
                 forall W W', ist_eq W W' -> ist_eq (f W) (f W')).
  { intros k ws vs g H. unfold is_remcall in H.
    destruct (xq_list (broadcast (flattenF vs) (length (flattenF ws)))) as [vq|]; [|discriminate].
    destruct (nth_error lws k) as [L|]; [|discriminate]. inversion H; subst g.
    intros W W' HW. apply is_rem_congr. exact HW. }
  destruct o as [k ws vs l cs|k ws vs l|k n l|k ws vs l kw|k ws vs l cs kw|ks sw kd dw vs l sch pb kw
                |ks kd dw a|c|sch| | | |i|a|a|a|k a l|k a l cs|a]; cbn [is_op]; intro H;
    try (inversion H; subst f; intros W W' HW; exact HW);
    try (eapply HA; exact H); try (eapply HR; exact H).
  - destruct (nth_error lws ks) as [Ls|]; [|discriminate]. destruct (nth_error lws kd) as [Ld|]; [|discriminate].
    destruct (optimize_partition_by (is_trough (lw_geom Ls)) (is_trough (lw_geom Ld)) pb) as [mode|e]; [|discriminate].
    inversion H; subst f. intros W W' HW k' i'. apply is_exec_congr. exact HW.
  - destruct (nth_error lws ks) as [Ls|]; [|discriminate]. destruct (nth_error lws kd) as [Ld|]; [|discriminate].
    destruct (rvol_x (d_volume a)) as [[v| | |]|]; try discriminate.
    destruct (Qltb 0 v); [inversion H; subst f; intros W W' HW k' i'; apply is_exec_congr; exact HW|].
    destruct (Qeq_bool v 0); [|discriminate]. inversion H; subst f. intros W W' HW. exact HW.
Qed.

Lemma is_run_congr auto m lws ops : forall F, is_run auto m lws ops = Some F ->
  forall W W', ist_eq W W' -> ist_eq (F W) (F W').
Proof.
  induction ops as [|o r IH]; intros F H; cbn [is_run] in H.
  - inversion H; subst F. intros W W' HW. exact HW.
  - destruct (is_op auto m lws o) as [f|] eqn:Ef; [|discriminate].
    destruct (is_run auto m lws r) as [g|]; [|discriminate]. inversion H; subst F.
    intros W W' HW. apply (IH g eq_refl). apply (is_op_congr _ _ _ _ _ Ef). exact HW.
Qed.

(* ------------------------------------------------------------------ accepted evo_aspirate / evo_dispense *)

Lemma evo_aspirate_ok s k a label s' : evo_aspirate s k a label = (s', None) ->
  exists L L', nth_error (st_lw s) k = Some L /\
    remove L (A1 (flattenF (c_wells a)))
           (A1 (broadcast (flattenF (evo_vols (c_volume a))) (length (flattenF (c_wells a))))) label
      = (L', None) /\
    st_lw s' = upd (st_lw s) k L'.
Proof.
  unfold evo_aspirate, wells_vols. destruct (nth_error (st_lw s) k) as [L|] eqn:EL; [|discriminate].
  cbv beta zeta iota.
  match goal with |- context [remove L ?x ?y ?z] => destruct (remove L x y z) as [L' [e|]] eqn:EA end; [discriminate|].
  destruct (comment (st_wl (set_lw s k L')) label) as [w [e|]]; [discriminate|].
  destruct (evo_command "Aspirate" (n_row_ids (lw_geom L)) (g_cols (lw_geom L)) a (w_max w)) as [cmd|e];
    [|discriminate].
  intro H. inversion H; subst. exists L, L'. split; [reflexivity|]. split; [exact EA|reflexivity].
Qed.

Lemma evo_dispense_ok s k a label comps s' : evo_dispense s k a label comps = (s', None) ->
  exists L L', nth_error (st_lw s) k = Some L /\
    add L (A1 (flattenF (c_wells a)))
        (A1 (broadcast (flattenF (evo_vols (c_volume a))) (length (flattenF (c_wells a))))) label comps
      = (L', None) /\
    st_lw s' = upd (st_lw s) k L'.
Proof.
  unfold evo_dispense, wells_vols. destruct (nth_error (st_lw s) k) as [L|] eqn:EL; [|discriminate].
  cbv beta zeta iota.
  match goal with |- context [add L ?x ?y ?z ?u] => destruct (add L x y z u) as [L' [e|]] eqn:EA end; [discriminate|].
  destruct (comment (st_wl (set_lw s k L')) label) as [w [e|]]; [discriminate|].
  destruct (evo_command "Dispense" (n_row_ids (lw_geom L)) (g_cols (lw_geom L)) a (w_max w)) as [cmd|e];
    [|discriminate].
  intro H. inversion H; subst. exists L, L'. split; [reflexivity|]. split; [exact EA|reflexivity].
Qed.

(* ------------------------------------------------------------------ one call of a program *)

(** the two shapes all liquid-adding / liquid-removing calls reduce to *)
Lemma addcall_refines_u s0 s k wells vols label comps s' L L' : st_inv s ->
  map lw_geom (st_lw s) = map lw_geom (st_lw s0) -> comps_ok comps -> plain_clean L wells comps ->
  nth_error (st_lw s) k = Some L ->
  add L (A1 (flattenF wells)) (A1 (broadcast (flattenF vols) (length (flattenF wells)))) label comps
    = (L', None) ->
  st_lw s' = upd (st_lw s) k L' ->
  exists f, is_addcall (st_lw s0) k wells vols comps = Some f /\
    ist_eq (abs_state s') (f (abs_state s)).
Proof.
  intros HI HG HC HCl EL EA Es'.
  destruct (add_any_u (st_lw s) k L (A1 (flattenF wells))
              (A1 (broadcast (flattenF vols) (length (flattenF wells)))) label comps EL
              (st_inv_nth s k L HI EL) HC HCl) as (vs & rest & Evs & Hvs & Hnone & HR).
  rewrite EA in Hnone, HR. cbn [fst snd flattenF] in Evs, Hnone, HR. rewrite broadcast_idem in Evs.
  rewrite (Hnone eq_refl), app_nil_r in Evs.
  destruct (nth_geom _ _ k L HG EL) as (L0 & EL0 & Eg0).
  unfold is_addcall. rewrite Evs, xq_list_of_map, EL0.
  eexists. split; [reflexivity|]. cbv beta. intros k' i. rewrite !abs_state_list, Es'.
  rewrite (is_addo_geom k L L0 _ Eg0). apply HR.
Qed.

Lemma remcall_refines s0 s k wells vols label s' L L' : st_inv s ->
  map lw_geom (st_lw s) = map lw_geom (st_lw s0) ->
  nth_error (st_lw s) k = Some L ->
  remove L (A1 (flattenF wells)) (A1 (broadcast (flattenF vols) (length (flattenF wells)))) label = (L', None) ->
  st_lw s' = upd (st_lw s) k L' ->
  exists f, is_remcall (st_lw s0) k wells vols = Some f /\ ist_eq (abs_state s') (f (abs_state s)).
Proof.
  intros HI HG EL EA Es'.
  destruct (remove_refines (st_lw s) k L _ _ _ L' EL (st_inv_nth s k L HI EL) EA)
    as (vs & Evs & Hvs & Hl1 & _ & _ & HR).
  cbn [flattenF] in Evs, HR. rewrite broadcast_idem in Evs.
  destruct (nth_geom _ _ k L HG EL) as (L0 & EL0 & Eg0).
  unfold is_remcall. rewrite Evs, xq_list_of_map, EL0.
  eexists. split; [reflexivity|]. cbv beta. intros k' i. rewrite !abs_state_list, Es'.
  rewrite (is_rem_geom k L L0 _ Eg0). apply HR.
Qed.

Lemma A1_flatten_add L wells vols label comps :
  add L (A1 (flattenF wells)) (A1 (broadcast (flattenF vols) (length (flattenF wells)))) label comps
  = add L wells vols label comps.
Proof.
  unfold add, prep_wells_vols. cbn [flattenF]. rewrite broadcast_idem. reflexivity.
Qed.

Lemma A1_flatten_remove L wells vols label :
  remove L (A1 (flattenF wells)) (A1 (broadcast (flattenF vols) (length (flattenF wells)))) label
  = remove L wells vols label.
Proof.
  unfold remove, prep_wells_vols. cbn [flattenF]. rewrite broadcast_idem. reflexivity.
Qed.

Lemma effectless_abs s o : op_effectless o -> forall k i, abs_state (fst (step s o)) k i = abs_state s k i.
Proof.
  intros H k i. destruct o; cbn [op_effectless op_record_only] in H; try destruct H;
    try (unfold abs_state; rewrite step_record_only by exact I; reflexivity).
  unfold abs_state at 1. rewrite step_condense. apply abs_state_condense_at.
Qed.

Lemma effectless_is_op auto m lws o : op_effectless o -> is_op auto m lws o = Some (fun W => W).
Proof. destruct o; intro H; cbn [op_effectless op_record_only] in H; try destruct H; reflexivity. Qed.

(** C05_step_refines_unknown: one call of a program, seen from a state [s] reached from [s0];
    compositions may be missing *)
Lemma step_refines_unknown s0 s o : st_inv s -> frame s0 s -> op_comps_ok o -> op_clean s o ->
  call_ok o (snd (step s o)) ->
  exists f, is_op (w_autosplit (st_wl s0)) (w_max (st_wl s0)) (st_lw s0) o = Some f /\
    ist_eq (abs_state (fst (step s o))) (f (abs_state s)).
Proof.
  intros HI [HG [Hm Ha]] HM HCl HOK.
  assert (Heff : op_effectless o ->
            exists f, is_op (w_autosplit (st_wl s0)) (w_max (st_wl s0)) (st_lw s0) o = Some f /\
                      ist_eq (abs_state (fst (step s o))) (f (abs_state s))).
  { intro HE. exists (fun W => W). split; [apply effectless_is_op; exact HE|].
    intros k i. rewrite (effectless_abs s o HE). apply iw_eq_refl. }
  destruct HOK as [HN|HE]; [|exact (Heff HE)].
  destruct o as [k ws vs l cs|k ws vs l|k n l|k ws vs l kw|k ws vs l cs kw|ks sw kd dw vs l sch pb kw
                |ks kd dw a|c|sch| | | |i|a|a|a|k a l|k a l cs|a];
    try (apply Heff; exact I); clear Heff;
    (destruct (step s _) as [s' e] eqn:ES; cbn [fst snd] in *; subst e).
  - (* add *)
    unfold op_comps_ok in HM. cbn [op_comps] in HM. cbn [op_clean] in HCl.
    cbn [step] in ES. unfold on_lw in ES. destruct (nth_error (st_lw s) k) as [L|] eqn:EL; [|discriminate].
    destruct (add L ws vs l cs) as [L' [e|]] eqn:EA; [discriminate|]. inversion ES; subst s'.
    cbn [is_op]. rewrite <- A1_flatten_add in EA.
    apply (addcall_refines_u s0 s k ws vs l cs _ L L' HI HG HM (HCl L eq_refl) EL EA). reflexivity.
  - (* remove *)
    cbn [step] in ES. unfold on_lw in ES. destruct (nth_error (st_lw s) k) as [L|] eqn:EL; [|discriminate].
    destruct (remove L ws vs l) as [L' [e|]] eqn:EA; [discriminate|]. inversion ES; subst s'.
    cbn [is_op]. rewrite <- A1_flatten_remove in EA.
    apply (remcall_refines s0 s k ws vs l _ L L' HI HG EL EA). reflexivity.
  - (* aspirate *)
    cbn [step] in ES. destruct (aspirate_ok _ _ _ _ _ _ _ ES) as (L & L' & EL & EA & Es').
    cbn [is_op]. exact (remcall_refines s0 s k ws vs l s' L L' HI HG EL EA Es').
  - (* dispense *)
    unfold op_comps_ok in HM. cbn [op_comps] in HM. cbn [op_clean] in HCl.
    cbn [step] in ES. destruct (dispense_ok _ _ _ _ _ _ _ _ ES) as (L & L' & EL & EA & Es').
    cbn [is_op]. exact (addcall_refines_u s0 s k ws vs l cs s' L L' HI HG HM (HCl L EL) EL EA Es').
  - (* transfer *)
    cbn [step] in ES. pose proof ES as ES0. unfold transfer in ES0.
    destruct (w_dev (st_wl s)); try discriminate;
    (destruct (nth_error (st_lw s) ks) as [Ls|] eqn:ELs; [|discriminate];
     destruct (nth_error (st_lw s) kd) as [Ld|] eqn:ELd; [|discriminate]; clear ES0;
     destruct (transfer_refines_plan s ks sw kd dw vs l sch pb kw s' Ls Ld HI ELs ELd ES) as (mode & Emode & HR);
     destruct (nth_geom _ _ ks Ls HG ELs) as (Ls0 & ELs0 & Egs);
     destruct (nth_geom _ _ kd Ld HG ELd) as (Ld0 & ELd0 & Egd);
     cbn [is_op]; rewrite ELs0, ELd0, Egs, Egd, Emode;
     eexists; split; [reflexivity|]; cbv beta; intros k' i';
     rewrite (is_exec_geom ks kd Ls Ld Ls0 Ld0 _ Egs Egd), <- Hm, <- Ha; apply HR).
  - (* distribute *)
    cbn [step] in ES. pose proof ES as ES0. unfold distribute in ES0.
    destruct (nth_error (st_lw s) ks) as [Ls|] eqn:ELs; [|discriminate].
    destruct (nth_error (st_lw s) kd) as [Ld|] eqn:ELd; [|discriminate]. clear ES0.
    destruct (distribute_volume _ _ _ _ _ _ ES) as (v & Ev & Hv).
    destruct (nth_geom _ _ ks Ls HG ELs) as (Ls0 & ELs0 & Egs).
    destruct (nth_geom _ _ kd Ld HG ELd) as (Ld0 & ELd0 & Egd).
    cbn [is_op]. rewrite ELs0, ELd0, Ev.
    destruct (Qltb 0 v) eqn:Ep.
    + eexists. split; [reflexivity|]. cbv beta. intros k' i'.
      rewrite (is_exec_geom ks kd Ls Ld Ls0 Ld0 _ Egs Egd).
      apply (distribute_refines s ks kd dw a s' Ls Ld v HI ELs ELd Ev (Qltb_true' _ _ Ep) ES).
    + apply Qltb_false' in Ep. assert (E0 : v == 0) by lra.
      rewrite (proj2 (Qeq_bool_iff v 0) E0).
      eexists. split; [reflexivity|]. cbv beta.
      exact (distribute_refines_zero s ks kd dw a s' v HI Ev E0 ES).
  - (* evo_aspirate *)
    cbn [step] in ES. destruct (w_dev (st_wl s)); try discriminate.
    destruct (evo_aspirate_ok _ _ _ _ _ ES) as (L & L' & EL & EA & Es').
    cbn [is_op]. exact (remcall_refines s0 s k (c_wells a) (evo_vols (c_volume a)) l s' L L' HI HG EL EA Es').
  - (* evo_dispense *)
    unfold op_comps_ok in HM. cbn [op_comps] in HM. cbn [op_clean] in HCl.
    cbn [step] in ES. destruct (w_dev (st_wl s)); try discriminate.
    destruct (evo_dispense_ok _ _ _ _ _ _ ES) as (L & L' & EL & EA & Es').
    cbn [is_op].
    exact (addcall_refines_u s0 s k (c_wells a) (evo_vols (c_volume a)) l cs s' L L' HI HG HM (HCl L EL) EL EA Es').
Qed.

(** when every composition is given no well is addressed without one *)
Lemma zip_some_Forall {A B} (P : A * option B -> Prop) (l1 : list A) : forall (l2 : list B),
  (forall a b, P (a, Some b)) -> Forall P (zip l1 (map Some l2)).
Proof.
  induction l1 as [|a r IH]; intros l2 H; [constructor|].
  destruct l2 as [|b r2]; [constructor|]. cbn [map zip]. constructor; [apply H|apply IH; exact H].
Qed.

Lemma op_mix_clean s o : op_mix o -> op_clean s o.
Proof.
  assert (HP : forall L ws cs, comps_given cs -> plain_clean L ws cs).
  { intros L ws cs H. destruct (comps_given_inv cs H) as (cq & E & _). subst cs.
    unfold plain_clean. cbn [comps_list]. apply zip_some_Forall. intros a b Hn. discriminate. }
  unfold op_mix. destruct o; cbn [op_comps op_clean]; intro H; try exact I; intros L _; apply HP; exact H.
Qed.

(* ------------------------------------------------------------------ whole programs *)

Lemma comps_given_ok comps : comps_given comps -> comps_ok comps.
Proof.
  destruct comps as [cs|]; [|intros []]. cbn [comps_given comps_ok]. intro H.
  eapply Forall_impl; [|exact H]. intros [c|] Hc; [exact Hc|exact I].
Qed.

Lemma op_mix_comps_ok o : op_mix o -> op_comps_ok o.
Proof.
  unfold op_mix, op_comps_ok. destruct (op_comps o) as [cs|]; [apply comps_given_ok|intros _; exact I].
Qed.

(** C05_step_refines: the same for the narrower class [op_mix] (every composition given), where
    nothing has to be said about clean wells *)
Lemma step_refines s0 s o : st_inv s -> frame s0 s -> op_mix o -> call_ok o (snd (step s o)) ->
  exists f, is_op (w_autosplit (st_wl s0)) (w_max (st_wl s0)) (st_lw s0) o = Some f /\
    ist_eq (abs_state (fst (step s o))) (f (abs_state s)).
Proof.
  intros HI HF HM HOK.
  exact (step_refines_unknown s0 s o HI HF (op_mix_comps_ok o HM) (op_mix_clean s o HM) HOK).
Qed.

Lemma ops_mix_comps_ok ops : Forall op_mix ops -> Forall op_comps_ok ops.
Proof. intro H. eapply Forall_impl; [|exact H]. exact op_mix_comps_ok. Qed.

Lemma ops_mix_clean ops : Forall op_mix ops -> forall s, run_clean s ops.
Proof.
  induction ops as [|o r IH]; intros H s; [exact I|]. inversion H as [|o' r' Ho Hr]; subst.
  split; [apply op_mix_clean; exact Ho|apply IH; exact Hr].
Qed.

Lemma run_refines_from_unknown s0 ops : forall s, st_inv s -> frame s0 s -> Forall op_comps_ok ops ->
  run_clean s ops -> Forall2 call_ok ops (snd (run s ops)) ->
  exists F, is_run (w_autosplit (st_wl s0)) (w_max (st_wl s0)) (st_lw s0) ops = Some F /\
    ist_eq (abs_state (fst (run s ops))) (F (abs_state s)).
Proof.
  induction ops as [|o r IH]; intros s HI HF HM HCl HOK.
  - exists (fun W => W). split; [reflexivity|]. apply ist_eq_refl.
  - inversion HM as [|o' r' Ho Hr]; subst. rewrite run_snd_cons in HOK.
    inversion HOK as [|o'' e r'' es Hoe Hres]; subst. destruct HCl as [HClo HClr].
    destruct (step_refines_unknown s0 s o HI HF Ho HClo Hoe) as (f & Ef & Hf).
    assert (HI1 : st_inv (fst (step s o))) by (apply step_inv; [exact HI|exact Ho]).
    assert (HF1 : frame s0 (fst (step s o))) by (eapply frame_trans; [exact HF|apply frame_step]).
    destruct (IH (fst (step s o)) HI1 HF1 Hr HClr Hres) as (G & EG & HG).
    exists (fun W => G (f W)). split; [cbn [is_run]; rewrite Ef, EG; reflexivity|].
    rewrite run_fst_cons. eapply ist_eq_trans; [exact HG|].
    apply (is_run_congr _ _ _ _ G EG). exact Hf.
Qed.

Lemma run_refines_from s0 ops : forall s, st_inv s -> frame s0 s -> Forall op_mix ops ->
  Forall2 call_ok ops (snd (run s ops)) ->
  exists F, is_run (w_autosplit (st_wl s0)) (w_max (st_wl s0)) (st_lw s0) ops = Some F /\
    ist_eq (abs_state (fst (run s ops))) (F (abs_state s)).
Proof.
  intros s HI HF HM HOK.
  exact (run_refines_from_unknown s0 ops s HI HF (ops_mix_comps_ok ops HM) (ops_mix_clean ops HM s) HOK).
Qed.

(** C05_run_refines: the final abstract state of a program is the fold of the ideal semantics
    of its calls over the initial abstract state *)
Lemma run_refines ops s : st_inv s -> Forall op_mix ops -> Forall2 call_ok ops (snd (run s ops)) ->
  exists F, is_run (w_autosplit (st_wl s)) (w_max (st_wl s)) (st_lw s) ops = Some F /\
    forall k i, iw_eq (abs_state (fst (run s ops)) k i) (F (abs_state s) k i).
Proof. intros HI HM HOK. exact (run_refines_from s ops s HI (frame_refl s) HM HOK). Qed.

Lemma all_none_call_ok ops : forall (es : list (option err)), length es = length ops ->
  Forall (fun e => e = None) es -> Forall2 call_ok ops es.
Proof.
  induction ops as [|o r IH]; intros es Hl HN.
  - destruct es as [|e es]; [constructor|discriminate].
  - destruct es as [|e es]; [discriminate|]. inversion HN as [|e' es' He Hes]; subst.
    constructor; [left; reflexivity|]. apply IH; [|exact Hes]. cbn [length] in Hl. injection Hl as Hl. exact Hl.
Qed.

Lemma run_refines_accepted ops s : st_inv s -> Forall op_mix ops ->
  Forall (fun e => e = None) (snd (run s ops)) ->
  exists F, is_run (w_autosplit (st_wl s)) (w_max (st_wl s)) (st_lw s) ops = Some F /\
    forall k i, iw_eq (abs_state (fst (run s ops)) k i) (F (abs_state s) k i).
Proof.
  intros HI HM HN. apply run_refines; try assumption.
  apply all_none_call_ok; [apply run_snd_length|exact HN].
Qed.

Lemma run_snd_firstn ops : forall s n, snd (run s (firstn n ops)) = firstn n (snd (run s ops)).
Proof.
  induction ops as [|o r IH]; intros s n; [destruct n; reflexivity|].
  destruct n as [|n]; [reflexivity|]. cbn [firstn]. rewrite !run_snd_cons. cbn [firstn]. rewrite IH. reflexivity.
Qed.

Lemma Forall2_firstn {A B} (R : A -> B -> Prop) (l1 : list A) : forall (l2 : list B) n,
  Forall2 R l1 l2 -> Forall2 R (firstn n l1) (firstn n l2).
Proof.
  induction l1 as [|x r IH]; intros l2 n H; inversion H; subst; [destruct n; constructor|].
  destruct n as [|n]; [constructor|]. cbn [firstn]. constructor; [assumption|]. apply IH. assumption.
Qed.

(** the state after any prefix whose calls were accepted (whatever happened later) *)
Lemma run_refines_prefix ops s n : st_inv s -> Forall op_mix ops ->
  Forall2 call_ok (firstn n ops) (firstn n (snd (run s ops))) ->
  exists F, is_run (w_autosplit (st_wl s)) (w_max (st_wl s)) (st_lw s) (firstn n ops) = Some F /\
    forall k i, iw_eq (abs_state (fst (run s (firstn n ops))) k i) (F (abs_state s) k i).
Proof.
  intros HI HM HOK. apply run_refines; [exact HI|apply Forall_firstn'; exact HM|].
  rewrite run_snd_firstn. exact HOK.
Qed.

(** from labware as the constructors make it *)
Lemma run_refines_constructed lws w ops : Forall constructed lws -> Forall op_mix ops ->
  Forall2 call_ok ops (snd (run {| st_lw := lws; st_wl := w |} ops)) ->
  exists F, is_run (w_autosplit w) (w_max w) lws ops = Some F /\
    forall k i, iw_eq (abs_state (fst (run {| st_lw := lws; st_wl := w |} ops)) k i)
                      (F (abs_list lws) k i).
Proof.
  intros HC HM HOK. destruct (constructed_inv lws w HC) as [HI _].
  exact (run_refines ops {| st_lw := lws; st_wl := w |} HI HM HOK).
Qed.

(** after a rejected call the program goes on from whatever that call left behind: the run-level
    statement restarts there (every call, accepted or rejected, keeps the invariant and the frame) *)
Lemma run_refines_restart ops1 ops2 s : st_inv s -> Forall op_mix ops1 -> Forall op_mix ops2 ->
  let s1 := fst (run s ops1) in
  Forall2 call_ok ops2 (snd (run s1 ops2)) ->
  exists F, is_run (w_autosplit (st_wl s)) (w_max (st_wl s)) (st_lw s) ops2 = Some F /\
    forall k i, iw_eq (abs_state (fst (run s (ops1 ++ ops2))) k i) (F (abs_state s1) k i).
Proof.
  intros HI HM1 HM2 s1 HOK. rewrite run_fst_app. fold s1.
  assert (H1 : st_inv s1 /\ frame s s1).
  { unfold s1. clear HOK s1. revert s HI. induction ops1 as [|o r IH]; intros s HI.
    - split; [exact HI|apply frame_refl].
    - inversion HM1 as [|o' r' Ho Hr]; subst. rewrite run_fst_cons.
      assert (HI1 : st_inv (fst (step s o))) by (apply step_inv; [exact HI|apply op_mix_comps_ok; exact Ho]).
      destruct (IH Hr (fst (step s o)) HI1) as [A B]. split; [exact A|].
      eapply frame_trans; [apply frame_step|exact B]. }
  destruct H1 as [HI1 HF1]. exact (run_refines_from s ops2 s1 HI1 HF1 HM2 HOK).
Qed.

(* ------------------------------------------------------------------ whole programs, compositions may be
   missing (REVIEW2 N2): the same statements for the class [op_comps_ok] under [run_clean] *)

(** C05_run_refines_unknown *)
Lemma run_refines_unknown ops s : st_inv s -> Forall op_comps_ok ops -> run_clean s ops ->
  Forall2 call_ok ops (snd (run s ops)) ->
  exists F, is_run (w_autosplit (st_wl s)) (w_max (st_wl s)) (st_lw s) ops = Some F /\
    forall k i, iw_eq (abs_state (fst (run s ops)) k i) (F (abs_state s) k i).
Proof. intros HI HM HCl HOK. exact (run_refines_from_unknown s ops s HI (frame_refl s) HM HCl HOK). Qed.

Lemma run_refines_accepted_unknown ops s : st_inv s -> Forall op_comps_ok ops -> run_clean s ops ->
  Forall (fun e => e = None) (snd (run s ops)) ->
  exists F, is_run (w_autosplit (st_wl s)) (w_max (st_wl s)) (st_lw s) ops = Some F /\
    forall k i, iw_eq (abs_state (fst (run s ops)) k i) (F (abs_state s) k i).
Proof.
  intros HI HM HCl HN. apply run_refines_unknown; try assumption.
  apply all_none_call_ok; [apply run_snd_length|exact HN].
Qed.

Lemma run_clean_firstn ops : forall s n, run_clean s ops -> run_clean s (firstn n ops).
Proof.
  induction ops as [|o r IH]; intros s n H; [destruct n; exact I|].
  destruct n as [|n]; [exact I|]. destruct H as [Ho Hr]. cbn [firstn]. split; [exact Ho|apply IH; exact Hr].
Qed.

Lemma run_clean_app ops1 : forall s ops2,
  run_clean s (ops1 ++ ops2) <-> run_clean s ops1 /\ run_clean (fst (run s ops1)) ops2.
Proof.
  induction ops1 as [|o r IH]; intros s ops2.
  - cbn [app run fst run_clean]. tauto.
  - rewrite run_fst_cons. cbn [app run_clean]. rewrite IH. tauto.
Qed.

Lemma run_refines_prefix_unknown ops s n : st_inv s -> Forall op_comps_ok ops -> run_clean s (firstn n ops) ->
  Forall2 call_ok (firstn n ops) (firstn n (snd (run s ops))) ->
  exists F, is_run (w_autosplit (st_wl s)) (w_max (st_wl s)) (st_lw s) (firstn n ops) = Some F /\
    forall k i, iw_eq (abs_state (fst (run s (firstn n ops))) k i) (F (abs_state s) k i).
Proof.
  intros HI HM HCl HOK. apply run_refines_unknown; [exact HI|apply Forall_firstn'; exact HM|exact HCl|].
  rewrite run_snd_firstn. exact HOK.
Qed.

Lemma run_refines_constructed_unknown lws w ops : Forall constructed lws -> Forall op_comps_ok ops ->
  run_clean {| st_lw := lws; st_wl := w |} ops ->
  Forall2 call_ok ops (snd (run {| st_lw := lws; st_wl := w |} ops)) ->
  exists F, is_run (w_autosplit w) (w_max w) lws ops = Some F /\
    forall k i, iw_eq (abs_state (fst (run {| st_lw := lws; st_wl := w |} ops)) k i)
                      (F (abs_list lws) k i).
Proof.
  intros HC HM HCl HOK. destruct (constructed_inv lws w HC) as [HI _].
  exact (run_refines_unknown ops {| st_lw := lws; st_wl := w |} HI HM HCl HOK).
Qed.

Lemma run_inv_frame ops : forall s, st_inv s -> Forall op_comps_ok ops ->
  st_inv (fst (run s ops)) /\ frame s (fst (run s ops)).
Proof.
  induction ops as [|o r IH]; intros s HI HM.
  - split; [exact HI|apply frame_refl].
  - inversion HM as [|o' r' Ho Hr]; subst. rewrite run_fst_cons.
    assert (HI1 : st_inv (fst (step s o))) by (apply step_inv; [exact HI|exact Ho]).
    destruct (IH (fst (step s o)) HI1 Hr) as [A B]. split; [exact A|].
    eapply frame_trans; [apply frame_step|exact B].
Qed.

(** restart after a rejected call; nothing but the invariant is needed of the calls of [ops1] *)
Lemma run_refines_restart_unknown ops1 ops2 s : st_inv s -> Forall op_comps_ok ops1 -> Forall op_comps_ok ops2 ->
  let s1 := fst (run s ops1) in
  run_clean s1 ops2 -> Forall2 call_ok ops2 (snd (run s1 ops2)) ->
  exists F, is_run (w_autosplit (st_wl s)) (w_max (st_wl s)) (st_lw s) ops2 = Some F /\
    forall k i, iw_eq (abs_state (fst (run s (ops1 ++ ops2))) k i) (F (abs_state s1) k i).
Proof.
  intros HI HM1 HM2 s1 HCl HOK. rewrite run_fst_app. fold s1.
  destruct (run_inv_frame ops1 s HI HM1) as [HI1 HF1]. fold s1 in HI1, HF1.
  exact (run_refines_from_unknown s ops2 s1 HI1 HF1 HM2 HCl HOK).
Qed.

(* ------------------------------------------------------------------ deciding the hypotheses *)

Definition comps_givenb (comps : option (list (option composition))) : bool :=
  match comps with
  | Some cs => forallb (fun oc => match oc with Some c => comp_okb c | None => false end) cs
  | None => false
  end.
Definition op_mixb (o : op) : bool :=
  match op_comps o with Some cs => comps_givenb cs | None => true end.

Lemma ops_mix_check ops : forallb op_mixb ops = true -> Forall op_mix ops.
Proof.
  intro H. apply Forall_forall. intros o Ho. rewrite forallb_forall in H. specialize (H o Ho).
  unfold op_mixb in H. unfold op_mix. destruct (op_comps o) as [[cs|]|]; try exact I; [|discriminate].
  cbn [comps_givenb] in H. cbn [comps_given]. apply Forall_forall. intros oc Hoc.
  rewrite forallb_forall in H. specialize (H oc Hoc). destruct oc as [c|]; [|discriminate].
  apply comp_okb_ok. exact H.
Qed.

(* ================================================================== rejected calls: what they leave behind *)

(** [add_loop], whatever its outcome: the items before the first refused one have been mixed in,
    exactly as the ideal additions, the others have had no effect *)
Lemma add_loop_any ws : forall vsx cs l k L,
  length vsx = length ws -> length cs = length ws ->
  nth_error l k = Some L -> mix_inv L -> forallb vol_ok vsx = true -> Forall comp_ok cs ->
  exists vs rest, vsx = (map XQ vs ++ rest)%list /\ Forall (fun v => 0 <= v) vs /\
    (snd (add_loop L (zip (zip ws vsx) (map Some cs))) = None -> rest = []) /\
    mix_inv (fst (add_loop L (zip (zip ws vsx) (map Some cs)))) /\
    ist_eq (abs_list (upd l k (fst (add_loop L (zip (zip ws vsx) (map Some cs))))))
           (is_add (abs_list l) k L (zip (zip ws vs) cs)).
Proof.
  induction ws as [|w wr IH]; intros vsx cs l k L Hlv Hlc EL HI Hok HC.
  - destruct vsx as [|x xr]; [|discriminate]. cbn [zip add_loop fst snd].
    exists [], []. split; [reflexivity|]. split; [constructor|]. split; [reflexivity|]. split; [exact HI|].
    rewrite (upd_same_nth_error l k L EL). apply ist_eq_refl.
  - destruct vsx as [|x xr]; [discriminate|]. destruct cs as [|c cr]; [discriminate|].
    cbn [length] in Hlv, Hlc. injection Hlv as Hlv. injection Hlc as Hlc.
    cbn [forallb] in Hok. apply andb_prop in Hok. destruct Hok as [Hx Hok].
    inversion HC as [|c' cr' Hc HCr]; subst.
    assert (Hstop : forall e : err, exists vs rest, x :: xr = (map XQ vs ++ rest)%list /\ Forall (fun v => 0 <= v) vs /\
              (snd (L, Some e) = None -> rest = []) /\ mix_inv (fst (L, Some e)) /\
              ist_eq (abs_list (upd l k (fst (L, Some e)))) (is_add (abs_list l) k L (zip (zip (w :: wr) vs) (c :: cr)))).
    { intro e. exists [], (x :: xr). split; [reflexivity|]. split; [constructor|].
      split; [discriminate|]. split; [exact HI|]. cbn [fst zip is_add].
      rewrite (upd_same_nth_error l k L EL). apply ist_eq_refl. }
    cbn [zip map]. rewrite add_loop_cons'.
    destruct (lw_index L w) as [i|] eqn:Ei; [|apply Hstop].
    destruct x as [v| | |]; try apply Hstop.
    destruct (Qgtb (Qred (vol_at L i + v)) (lw_max L)); [apply Hstop|]. clear Hstop.
    pose proof (vol_ok_XQ' v Hx) as Hv.
    assert (Hi : (i < n_wells (lw_geom L))%nat) by (apply (lw_index_lt L w i); [apply HI|exact Ei]).
    assert (HI2 : mix_inv (add_step L i v (Some c))) by (apply add_step_inv; assumption).
    destruct (IH xr cr (upd l k (add_step L i v (Some c))) k (add_step L i v (Some c)) Hlv Hlc
                (nth_error_upd_same l k _ L EL) HI2 Hok HCr) as (vs & rest & Evs & Hvs & Hnone & HI1 & HR).
    exists (v :: vs), rest. split; [cbn [map app]; rewrite Evs; reflexivity|].
    split; [constructor; assumption|]. split; [exact Hnone|]. split; [exact HI1|].
    rewrite upd_upd in HR. cbn [zip is_add]. rewrite Ei.
    eapply ist_eq_trans; [exact HR|]. rewrite (is_add_geom k L _ _ (add_step_geom L i v (Some c))).
    apply is_add_congr. intros k' i'. rewrite <- (abs_list_upd_log l k _ None).
    apply abs_upd_add; try assumption. apply Hc.
Qed.

(** [add] with given compositions, whatever its outcome *)
Lemma add_any l k L wells vols label cs : nth_error l k = Some L -> mix_inv L -> Forall comp_ok cs ->
  exists vs rest, broadcast (flattenF vols) (length (flattenF wells)) = (map XQ vs ++ rest)%list /\
    Forall (fun v => 0 <= v) vs /\
    (snd (add L wells vols label (Some (map Some cs))) = None -> rest = []) /\
    ist_eq (abs_list (upd l k (fst (add L wells vols label (Some (map Some cs))))))
           (is_add (abs_list l) k L (zip (zip (flattenF wells) vs) cs)).
Proof.
  intros EL HI HC.
  assert (Hstop : forall e : err, exists vs rest,
            broadcast (flattenF vols) (length (flattenF wells)) = (map XQ vs ++ rest)%list /\
            Forall (fun v => 0 <= v) vs /\ (snd (L, Some e) = None -> rest = []) /\
            ist_eq (abs_list (upd l k (fst (L, Some e)))) (is_add (abs_list l) k L (zip (zip (flattenF wells) vs) cs))).
  { intro e. exists [], (broadcast (flattenF vols) (length (flattenF wells))).
    split; [reflexivity|]. split; [constructor|]. split; [discriminate|].
    cbn [fst]. rewrite zip_nil_r. cbn [zip is_add]. rewrite (upd_same_nth_error l k L EL). apply ist_eq_refl. }
  unfold add. destruct (prep_wells_vols wells vols) as [wv|e] eqn:EP; [|apply Hstop].
  destruct (prep_wells_vols_inv _ _ _ EP) as (Ewv & Hlv & Hok). cbv zeta in *. subst wv.
  destruct (length (map Some cs) =? length (zip (flattenF wells) (broadcast (flattenF vols) (length (flattenF wells)))))%nat
    eqn:El; cbn [negb]; [|apply Hstop]. clear Hstop.
  apply Nat.eqb_eq in El. rewrite map_length, (zip_length_eq _ _ Hlv) in El.
  rewrite mk_item_id.
  destruct (add_loop_any _ _ cs l k L Hlv El EL HI Hok HC) as (vs & rest & Evs & Hvs & Hnone & HI1 & HR).
  exists vs, rest. split; [exact Evs|]. split; [exact Hvs|].
  destruct (add_loop L (zip (zip (flattenF wells) (broadcast (flattenF vols) (length (flattenF wells)))) (map Some cs)))
    as [L1 [e|]]; cbn [fst snd] in *.
  - split; [discriminate|exact HR].
  - split; [exact Hnone|]. intros k' i'. rewrite abs_list_upd_log. apply HR.
Qed.

Lemma remove_loop_any ws : forall vsx l k L,
  length vsx = length ws -> nth_error l k = Some L -> mix_inv L -> forallb vol_ok vsx = true ->
  exists vs rest, vsx = (map XQ vs ++ rest)%list /\ Forall (fun v => 0 <= v) vs /\
    (snd (remove_loop L (zip ws vsx)) = None -> rest = []) /\
    mix_inv (fst (remove_loop L (zip ws vsx))) /\
    ist_eq (abs_list (upd l k (fst (remove_loop L (zip ws vsx))))) (is_rem (abs_list l) k L (zip ws vs)).
Proof.
  induction ws as [|w wr IH]; intros vsx l k L Hlv EL HI Hok.
  - destruct vsx as [|x xr]; [|discriminate]. cbn [zip remove_loop fst snd].
    exists [], []. split; [reflexivity|]. split; [constructor|]. split; [reflexivity|]. split; [exact HI|].
    rewrite (upd_same_nth_error l k L EL). apply ist_eq_refl.
  - destruct vsx as [|x xr]; [discriminate|].
    cbn [length] in Hlv. injection Hlv as Hlv.
    cbn [forallb] in Hok. apply andb_prop in Hok. destruct Hok as [Hx Hok].
    assert (Hstop : forall e : err, exists vs rest, x :: xr = (map XQ vs ++ rest)%list /\ Forall (fun v => 0 <= v) vs /\
              (snd (L, Some e) = None -> rest = []) /\ mix_inv (fst (L, Some e)) /\
              ist_eq (abs_list (upd l k (fst (L, Some e)))) (is_rem (abs_list l) k L (zip (w :: wr) vs))).
    { intro e. exists [], (x :: xr). split; [reflexivity|]. split; [constructor|].
      split; [discriminate|]. split; [exact HI|]. cbn [fst zip is_rem].
      rewrite (upd_same_nth_error l k L EL). apply ist_eq_refl. }
    cbn [zip]. rewrite remove_loop_cons'.
    destruct (lw_index L w) as [i|] eqn:Ei; [|apply Hstop].
    destruct x as [v| | |]; try apply Hstop.
    destruct (Qltb (Qred (vol_at L i - v)) (lw_min L)) eqn:Em; [apply Hstop|]. clear Hstop.
    apply Qltb_false' in Em. pose proof (vol_ok_XQ' v Hx) as Hv.
    assert (Hi : (i < n_wells (lw_geom L))%nat) by (apply (lw_index_lt L w i); [apply HI|exact Ei]).
    assert (HI2 : mix_inv (rem_step L i v)) by (apply rem_step_inv; assumption).
    destruct (IH xr (upd l k (rem_step L i v)) k (rem_step L i v) Hlv
                (nth_error_upd_same l k _ L EL) HI2 Hok) as (vs & rest & Evs & Hvs & Hnone & HI1 & HR).
    exists (v :: vs), rest. split; [cbn [map app]; rewrite Evs; reflexivity|].
    split; [constructor; assumption|]. split; [exact Hnone|]. split; [exact HI1|].
    rewrite upd_upd in HR. cbn [zip is_rem]. rewrite Ei.
    eapply ist_eq_trans; [exact HR|]. rewrite (is_rem_geom k L (rem_step L i v) _ eq_refl).
    apply is_rem_congr. apply abs_upd_rem_ideal; assumption.
Qed.

Lemma remove_any l k L wells vols label : nth_error l k = Some L -> mix_inv L ->
  exists vs rest, broadcast (flattenF vols) (length (flattenF wells)) = (map XQ vs ++ rest)%list /\
    Forall (fun v => 0 <= v) vs /\
    (snd (remove L wells vols label) = None -> rest = []) /\
    ist_eq (abs_list (upd l k (fst (remove L wells vols label))))
           (is_rem (abs_list l) k L (zip (flattenF wells) vs)).
Proof.
  intros EL HI. unfold remove. destruct (prep_wells_vols wells vols) as [wv|e] eqn:EP.
  - destruct (prep_wells_vols_inv _ _ _ EP) as (Ewv & Hlv & Hok). cbv zeta in *. subst wv.
    destruct (remove_loop_any _ _ l k L Hlv EL HI Hok) as (vs & rest & Evs & Hvs & Hnone & HI1 & HR).
    exists vs, rest. split; [exact Evs|]. split; [exact Hvs|].
    destruct (remove_loop L (zip (flattenF wells) (broadcast (flattenF vols) (length (flattenF wells)))))
      as [L1 [e|]]; cbn [fst snd] in *.
    + split; [discriminate|exact HR].
    + split; [exact Hnone|]. intros k' i'. rewrite abs_list_upd_log. apply HR.
  - exists [], (broadcast (flattenF vols) (length (flattenF wells))).
    split; [reflexivity|]. split; [constructor|]. split; [discriminate|].
    cbn [fst]. rewrite zip_nil_r. cbn [is_rem]. rewrite (upd_same_nth_error l k L EL). apply ist_eq_refl.
Qed.

(* ------------------------------------------------------------------ a pipetting step, whatever its outcome *)

(** what a pipetting step [sw -> dw] of volume [v] can leave behind: nothing, the aspirated liquid
    missing from the source (taken, never dispensed), or the whole ideal step *)
Definition is_partial_step (W : istate) (ks kd : nat) (Ls Ld : labware) (sw dw : string) (v : Q)
    (W' : istate) : Prop :=
  ist_eq W' W \/
  exists i_s, lw_index Ls sw = Some i_s /\
    (ist_eq W' (is_upd W ks i_s (iw_remove (W ks i_s) v)) \/
     exists i_d, lw_index Ld dw = Some i_d /\ ist_eq W' (is_transfer W ks i_s kd i_d v)).

Lemma is_partial_step_congr W1 W1' ks kd Ls Ld Ls' Ld' sw dw v W' :
  ist_eq W1 W1' -> lw_geom Ls' = lw_geom Ls -> lw_geom Ld' = lw_geom Ld ->
  is_partial_step W1 ks kd Ls Ld sw dw v W' -> is_partial_step W1' ks kd Ls' Ld' sw dw v W'.
Proof.
  intros HW Egs Egd [H|(i_s & Eis & [H|(i_d & Eid & H)])].
  - left. eapply ist_eq_trans; [exact H|exact HW].
  - right. exists i_s. split; [rewrite (lw_index_geom' Ls' Ls sw Egs); exact Eis|]. left.
    eapply ist_eq_trans; [exact H|]. intros k i. apply is_upd_congr; [exact HW|].
    apply iw_remove_congr. apply HW.
  - right. exists i_s. split; [rewrite (lw_index_geom' Ls' Ls sw Egs); exact Eis|]. right.
    exists i_d. split; [rewrite (lw_index_geom' Ld' Ld dw Egd); exact Eid|].
    eapply ist_eq_trans; [exact H|]. intros k i. apply is_transfer_congr. exact HW.
Qed.

Lemma lw_transfer_refines l ks kd Ls i_s Ld1 i_d v : Forall mix_inv l -> 0 < v ->
  nth_error l ks = Some Ls -> (i_s < n_wells (lw_geom Ls))%nat ->
  lw_min Ls <= Qred (vol_at Ls i_s - v) ->
  nth_error (upd l ks (log (rem_step Ls i_s v) None)) kd = Some Ld1 ->
  (i_d < n_wells (lw_geom Ld1))%nat ->
  ist_eq (abs_list (upd (upd l ks (log (rem_step Ls i_s v) None)) kd
                        (log (add_step Ld1 i_d v (Some (wca (lw_comp Ls) i_s))) None)))
         (is_transfer (abs_list l) ks i_s kd i_d v).
Proof.
  intros HI Hv ELs His Hmin ELd Hid.
  assert (HLs : mix_inv Ls) by (rewrite Forall_forall in HI; apply HI; eapply nth_error_In; exact ELs).
  assert (HLs' : mix_inv (log (rem_step Ls i_s v) None)) by (apply log_inv; apply rem_step_inv; assumption).
  assert (HLd : mix_inv Ld1).
  { assert (HF : Forall mix_inv (upd l ks (log (rem_step Ls i_s v) None))) by (apply Forall_upd'; assumption).
    rewrite Forall_forall in HF. apply HF. eapply nth_error_In. exact ELd. }
  pose proof (wca_comp_ok Ls i_s HLs) as [(NC & _) _].
  pose proof HLs as [(_ & Hlen & Hmin0 & _) HCI].
  assert (Hle : v <= vol_at Ls i_s) by (rewrite Qred_correct in Hmin; lra).
  assert (Hv0 : 0 <= v) by lra.
  intros k i. eapply iw_eq_trans; [apply abs_upd_add; assumption|].
  unfold is_transfer. cbv zeta.
  assert (H1 : ist_eq (abs_list (upd l ks (log (rem_step Ls i_s v) None)))
                      (is_upd (abs_list l) ks i_s (iw_remove (abs_list l ks i_s) v))).
  { intros k' i'. rewrite abs_list_upd_log. apply abs_upd_rem_ideal; assumption. }
  apply is_upd_congr; [exact H1|]. apply iw_add_congr; [apply H1|].
  intro c. unfold abs_list. rewrite ELs. unfold iw_frac. cbn [abs_well iw_vol iw_amt].
  rewrite wca_get_pfrac by apply HLs.
  rewrite pfrac_nonneg by apply (comp_inv_frac Ls c i_s HCI). field. lra.
Qed.

Lemma exec_step_any s ks kd sw dw v ws kw Ls Ld : st_inv s -> 0 < v ->
  nth_error (st_lw s) ks = Some Ls -> nth_error (st_lw s) kd = Some Ld ->
  is_partial_step (abs_state s) ks kd Ls Ld sw dw v (abs_state (fst (exec_step s ks kd sw dw v ws kw))).
Proof.
  intros HI Hv ELs ELd. unfold exec_step.
  pose proof (aspirate_inv s ks (A0 sw) (A0 (XQ v)) None kw HI) as HI1.
  destruct (aspirate s ks (A0 sw) (A0 (XQ v)) None kw) as [s1 [e|]] eqn:EA; cbn [fst] in HI1.
  - cbn [fst].
    destruct (aspirate_single_lw s ks sw v kw (st_lw s1)) as [E|(Ls0 & i & ELs0 & Ei & Hv0 & Hmin & E)];
      [rewrite EA; reflexivity| |].
    + left. rewrite !abs_state_list, E. apply ist_eq_refl.
    + rewrite ELs in ELs0. inversion ELs0; subst Ls0.
      pose proof (st_inv_nth s ks Ls HI ELs) as HLs.
      assert (His : (i < n_wells (lw_geom Ls))%nat) by (apply (lw_index_lt Ls sw); [apply HLs|exact Ei]).
      right. exists i. split; [exact Ei|]. left. rewrite !abs_state_list, E.
      intros k' i'. rewrite abs_list_upd_log. apply abs_upd_rem_ideal; assumption.
  - destruct (aspirate_single s ks sw v kw s1 EA) as (Ls0 & i_s & ELs0 & Eis & Hv0 & Hmin & Es1).
    rewrite ELs in ELs0. inversion ELs0; subst Ls0.
    assert (EL1 : nth_error (st_lw s1) ks = Some (log (rem_step Ls i_s v) None)).
    { rewrite Es1, (nth_error_upd _ _ _ _ _ ELs), Nat.eqb_refl. reflexivity. }
    rewrite EL1. unfold get_well_composition.
    rewrite (lw_index_geom' (log (rem_step Ls i_s v) None) Ls sw eq_refl), Eis.
    rewrite well_composition_at_wca. cbn [log set_hist rem_step set_vols lw_comp].
    pose proof (st_inv_nth s ks Ls HI ELs) as HLs.
    assert (His : (i_s < n_wells (lw_geom Ls))%nat) by (apply (lw_index_lt Ls sw); [apply HLs|exact Eis]).
    assert (Hrem : ist_eq (abs_state s1) (is_upd (abs_state s) ks i_s (iw_remove (abs_state s ks i_s) v))).
    { rewrite !abs_state_list, Es1. intros k' i'. rewrite abs_list_upd_log. apply abs_upd_rem_ideal; assumption. }
    pose proof (dispense_single_lw s1 kd dw v (wca (lw_comp Ls) i_s) kw) as HD.
    right. exists i_s. split; [exact Eis|].
    destruct (dispense s1 kd (A0 dw) (A0 (XQ v)) None (Some [Some (wca (lw_comp Ls) i_s)]) kw) as [s2 [e2|]];
      cbn [fst] in HD; [|destruct (tip_action (st_wl s2) ws) as [w e]]; cbn [fst];
      rewrite ?abs_state_set_wl;
      (destruct (HD (st_lw s2) eq_refl) as [E|(Ld1 & i_d & ELd1 & Eid & _ & E)];
       [left; rewrite (abs_state_list s2), E, <- abs_state_list; exact Hrem|]);
      (right; exists i_d;
       assert (Eg1 : lw_geom Ld1 = lw_geom Ld)
         by (rewrite Es1, nth_error_upd_gen in ELd1; destruct (Nat.eqb_spec kd ks) as [E0|N0];
             [subst kd; rewrite ELs in ELd1; inversion ELd1; rewrite ELs in ELd; inversion ELd; reflexivity
             |rewrite ELd in ELd1; inversion ELd1; reflexivity]);
       split; [rewrite <- (lw_index_geom' Ld1 Ld dw Eg1); exact Eid|];
       rewrite (abs_state_list s2), E, Es1, (abs_state_list s);
       rewrite Es1 in ELd1;
       apply lw_transfer_refines; try assumption;
       apply (lw_index_lt Ld1 dw); [|exact Eid];
       apply (st_inv_nth s1 kd Ld1 HI1); rewrite Es1; exact ELd1).
Qed.

Lemma exec_any acts : forall s ks kd ws kw Ls Ld, st_inv s -> Forall step_positive acts ->
  nth_error (st_lw s) ks = Some Ls -> nth_error (st_lw s) kd = Some Ld ->
  (snd (exec s ks kd acts ws kw) = None /\
   ist_eq (abs_state (fst (exec s ks kd acts ws kw))) (is_exec (abs_state s) ks kd Ls Ld acts)) \/
  (snd (exec s ks kd acts ws kw) <> None /\
   exists done sw dw v rest, acts = (done ++ Step sw dw v :: rest)%list /\
     is_partial_step (is_exec (abs_state s) ks kd Ls Ld done) ks kd Ls Ld sw dw v
                     (abs_state (fst (exec s ks kd acts ws kw)))).
Proof.
  induction acts as [|a r IH]; intros s ks kd ws kw Ls Ld HI HP ELs ELd.
  - left. split; [reflexivity|apply ist_eq_refl].
  - inversion HP as [|a' r' Ha Hr]; subst. destruct a as [sw dw v|]; cbn [exec].
    + cbn [step_positive] in Ha.
      pose proof (exec_step_any s ks kd sw dw v ws kw Ls Ld HI Ha ELs ELd) as HANY.
      destruct (exec_step s ks kd sw dw v ws kw) as [s1 [e|]] eqn:E1; cbn [fst] in HANY.
      * right. split; [cbn [snd]; discriminate|]. exists [], sw, dw, v, r. split; [reflexivity|].
        cbn [fst is_exec]. exact HANY.
      * destruct (exec_step_refines s ks kd sw dw v ws kw s1 HI Ha E1)
          as (Ls0 & i_s & Ld0 & i_d & ELs0 & Eis & ELd0 & Eid & _ & _ & _ & _ & HR).
        rewrite ELs in ELs0. inversion ELs0; subst Ls0. rewrite ELd in ELd0. inversion ELd0; subst Ld0.
        destruct (exec_step_geom _ _ _ _ _ _ _ _ _ E1 ks Ls ELs) as (Ls1 & ELs1 & Eg1).
        destruct (exec_step_geom _ _ _ _ _ _ _ _ _ E1 kd Ld ELd) as (Ld1 & ELd1 & Eg2).
        assert (HI1 : st_inv s1).
        { pose proof (exec_step_inv s ks kd sw dw v ws kw HI) as HI1. rewrite E1 in HI1. exact HI1. }
        destruct (IH s1 ks kd ws kw Ls1 Ld1 HI1 Hr ELs1 ELd1) as [[EN HX]|[EN (done & sw' & dw' & v' & rest & Eacts & HPS)]].
        -- left. split; [exact EN|]. cbn [is_exec]. rewrite Eis, Eid.
           eapply ist_eq_trans; [exact HX|]. rewrite (is_exec_geom ks kd Ls Ld Ls1 Ld1 r Eg1 Eg2).
           intros k i. apply is_exec_congr. exact HR.
        -- right. split; [exact EN|]. exists (Step sw dw v :: done), sw', dw', v', rest.
           split; [rewrite Eacts; reflexivity|]. cbn [is_exec]. rewrite Eis, Eid.
           eapply is_partial_step_congr; [| | |exact HPS]; [|symmetry; exact Eg1|symmetry; exact Eg2].
           rewrite (is_exec_geom ks kd Ls Ld Ls1 Ld1 done Eg1 Eg2).
           intros k i. apply is_exec_congr. exact HR.
    + destruct (IH (set_wl s (fst (commit (st_wl s)))) ks kd ws kw Ls Ld HI Hr ELs ELd)
        as [[EN HX]|[EN (done & sw' & dw' & v' & rest & Eacts & HPS)]].
      * left. split; [exact EN|exact HX].
      * right. split; [exact EN|]. exists (Commit :: done), sw', dw', v', rest.
        split; [rewrite Eacts; reflexivity|exact HPS].
Qed.

(** C05_rejected_transfer: a rejected [transfer] leaves either nothing behind, or the ideal
    execution of the steps of its plan before the failing one, plus possibly a part of that step *)
Lemma transfer_any s ks swells kd dwells vols label ws pb kw : st_inv s ->
  snd (transfer s ks swells kd dwells vols label ws pb kw) <> None ->
  ist_eq (abs_state (fst (transfer s ks swells kd dwells vols label ws pb kw))) (abs_state s) \/
  exists Ls Ld mode done sw dw v rest,
    nth_error (st_lw s) ks = Some Ls /\ nth_error (st_lw s) kd = Some Ld /\
    optimize_partition_by (is_trough (lw_geom Ls)) (is_trough (lw_geom Ld)) pb = Ok mode /\
    plan (w_autosplit (st_wl s)) (w_max (st_wl s)) mode (transfer_triples swells dwells vols)
      = (done ++ Step sw dw v :: rest)%list /\
    is_partial_step (is_exec (abs_state s) ks kd Ls Ld done) ks kd Ls Ld sw dw v
      (abs_state (fst (transfer s ks swells kd dwells vols label ws pb kw))).
Proof.
  intros HI. unfold transfer.
  destruct (w_dev (st_wl s)); try (intros _; left; apply ist_eq_refl);
  (destruct (nth_error (st_lw s) ks) as [Ls|] eqn:ELs; [|intros _; left; apply ist_eq_refl];
   destruct (nth_error (st_lw s) kd) as [Ld|] eqn:ELd; [|intros _; left; apply ist_eq_refl];
   cbv beta iota zeta; fold (transfer_triples swells dwells vols);
   match goal with |- context [if negb ?b then _ else _] => destruct (negb b); [intros _; left; apply ist_eq_refl|] end;
   match goal with |- context [if existsb ?f ?l then _ else _] => destruct (existsb f l); [intros _; left; apply ist_eq_refl|] end;
   match goal with |- context [if ?a || ?b then _ else _] => destruct (a || b); [intros _; left; apply ist_eq_refl|] end;
   destruct (optimize_partition_by (is_trough (lw_geom Ls)) (is_trough (lw_geom Ld)) pb) as [mode|e] eqn:Emode;
     [|intros _; left; apply ist_eq_refl];
   pose proof (comment_static (st_wl s) label) as [Em Ea];
   destruct (comment (st_wl s) label) as [w [e|]]; [intros _; left; apply ist_eq_refl|]; cbn [fst] in Em, Ea;
   rewrite Em, Ea;
   match goal with |- context [exec ?s0 ?a ?b ?acts ?c ?d] =>
     pose proof (exec_any acts s0 a b c d Ls Ld HI (plan_positive _ _ _ _) ELs ELd) as HE;
     destruct (exec s0 a b acts c d) as [s1 [e|]]; cbn [fst snd] in * end;
   [|match goal with |- context [if ?b then _ else _] => destruct b end; cbn [snd]; intro HN; congruence];
   intros _; destruct HE as [[EN _]|[_ (done & sw & dw & v & rest & Eacts & HPS)]]; [discriminate|];
   right; exists Ls, Ld, mode, done, sw, dw, v, rest;
   split; [reflexivity|]; split; [reflexivity|]; split; [exact Emode|]; split; [exact Eacts|exact HPS]).
Qed.

(* ------------------------------------------------------------------ distribute, whatever its outcome *)

Lemma remove_A0_cases L w x lab :
  (exists e, remove L (A0 w) (A0 x) lab = (L, Some e)) \/
  (exists v i, x = XQ v /\ 0 <= v /\ lw_index L w = Some i /\ lw_min L <= Qred (vol_at L i - v) /\
               remove L (A0 w) (A0 x) lab = (log (rem_step L i v) lab, None)).
Proof.
  destruct x as [v| | |].
  - change (remove L (A0 w) (A0 (XQ v)) lab) with (remove L (A1 [w]) (A1 [XQ v]) lab).
    rewrite remove_single. destruct (Qle_bool 0 v) eqn:Ev; [|left; eexists; reflexivity].
    destruct (lw_index L w) as [i|] eqn:Ei; [|left; eexists; reflexivity].
    destruct (Qltb (Qred (vol_at L i - v)) (lw_min L)) eqn:El; [left; eexists; reflexivity|].
    right. exists v, i. split; [reflexivity|]. split; [apply Qle_bool_iff; exact Ev|].
    split; [reflexivity|]. split; [apply Qltb_false'; exact El|reflexivity].
  - left. unfold remove, prep_wells_vols. cbn. eexists; reflexivity.
  - left. unfold remove, prep_wells_vols. cbn. destruct (lw_index L w); eexists; reflexivity.
  - left. unfold remove, prep_wells_vols. cbn. eexists; reflexivity.
Qed.

Lemma prefix_repeat_XQ n q : forall vs rest, repeat (XQ q) n = (map XQ vs ++ rest)%list ->
  vs = repeat q (length vs) /\ (length vs <= n)%nat.
Proof.
  induction n as [|n IH]; intros vs rest H.
  - destruct vs as [|v r]; [split; [reflexivity|cbn [length]; lia]|discriminate].
  - destruct vs as [|v r]; [split; [reflexivity|cbn [length]; lia]|].
    cbn [repeat map app] in H. injection H as Hv Hr. subst v. destruct (IH r rest Hr) as [E Hl].
    split; [cbn [length repeat]; rewrite <- E; reflexivity|cbn [length]; lia].
Qed.

Lemma zip_repeat_prefix {A B C} (v : B) (c : C) : forall (ws : list A) j n, (j <= n)%nat ->
  zip (zip ws (repeat v j)) (repeat c n) = map (fun w => (w, v, c)) (firstn j ws).
Proof.
  induction ws as [|w r IH]; intros j n Hj.
  - destruct j; reflexivity.
  - destruct j as [|j]; [reflexivity|]. destruct n as [|n]; [lia|].
    cbn [repeat zip firstn map]. rewrite IH by lia. reflexivity.
Qed.

(** C05_rejected_distribute (stated for any outcome): either nothing happened, or [n * v] left the
    source column at once and the first [j] destination wells received [v] each *)
Lemma distribute_any s ks kd dwells a : st_inv s ->
  ist_eq (abs_state (fst (distribute s ks kd dwells a))) (abs_state s) \/
  exists Ls Ld v i_s j,
    nth_error (st_lw s) ks = Some Ls /\ nth_error (st_lw s) kd = Some Ld /\
    rvol_x (d_volume a) = Some (XQ v) /\ 0 <= v /\
    lw_index Ls (well_id 0 (Z.to_nat (d_source_column a))) = Some i_s /\
    (j <= length (flattenF dwells))%nat /\
    (snd (distribute s ks kd dwells a) = None -> j = length (flattenF dwells)) /\
    Qn (length (flattenF dwells)) * v <= vol_at Ls i_s /\
    let X := vol_at Ls i_s - Qn (length (flattenF dwells)) * v in
    ist_eq (abs_state (fst (distribute s ks kd dwells a)))
      (is_add (is_upd (abs_state s) ks i_s
                 {| iw_vol := X; iw_amt := fun x => X * cget x (wca (lw_comp Ls) i_s) |})
              kd Ld (map (fun w => (w, v, wca (lw_comp Ls) i_s)) (firstn j (flattenF dwells)))).
Proof.
  intro HI. unfold distribute.
  destruct (nth_error (st_lw s) ks) as [Ls|] eqn:ELs; [|left; apply ist_eq_refl].
  destruct (nth_error (st_lw s) kd) as [Ld|] eqn:ELd; [|left; apply ist_eq_refl].
  pose proof (st_inv_nth s ks Ls HI ELs) as HLs.
  destruct (g_vrows (lw_geom Ls)) as [vr|]; [|left; apply ist_eq_refl].
  destruct (rvol_x (d_volume a)) as [xv|] eqn:Exv; [|left; apply ist_eq_refl].
  set (n := length (flattenF dwells)).
  set (c := wca (lw_comp Ls) (Z.to_nat (d_source_column a))).
  match goal with |- ist_eq (abs_state (fst (match xv with XQ _ => ?B | _ => _ end))) _ \/ ?R =>
    assert (HB : xv <> XNaN ->
      ist_eq (abs_state (fst B)) (abs_state s) \/
      exists Ls0 Ld0 v i_s j,
        Some Ls = Some Ls0 /\ Some Ld = Some Ld0 /\ Some xv = Some (XQ v) /\ 0 <= v /\
        lw_index Ls0 (well_id 0 (Z.to_nat (d_source_column a))) = Some i_s /\ (j <= n)%nat /\
        (snd B = None -> j = n) /\
        Qn n * v <= vol_at Ls0 i_s /\
        ist_eq (abs_state (fst B))
          (is_add (is_upd (abs_state s) ks i_s
                     {| iw_vol := vol_at Ls0 i_s - Qn n * v;
                        iw_amt := fun x => (vol_at Ls0 i_s - Qn n * v) * cget x (wca (lw_comp Ls0) i_s) |})
                  kd Ld0 (map (fun w => (w, v, wca (lw_comp Ls0) i_s)) (firstn j (flattenF dwells)))));
      [|destruct xv; [apply HB; discriminate|left; apply ist_eq_refl|apply HB; discriminate|apply HB; discriminate]] end.
  intros _. clear c.
  match goal with |- context [if ?b then (s, Some EInvalidOp) else _] => destruct b; [left; apply ist_eq_refl|] end.
  cbv zeta.
  match goal with |- context [if existsb ?f ?l then (s, Some EReject) else _] =>
    destruct (existsb f l); [left; apply ist_eq_refl|] end.
  destruct (positions_of (w_dev (st_wl s)) (lw_geom Ld) (flattenF dwells)) as [ps|e] eqn:EP; [|left; apply ist_eq_refl].
  pose proof (positions_of_length _ _ _ _ EP) as Hlen. fold n in Hlen.
  destruct (sort_Z (map Z.of_nat ps)) as [|p0 sorted'] eqn:ES; [left; apply ist_eq_refl|].
  match goal with |- context [if negb ?b then _ else _] => destruct (negb b); [left; apply ist_eq_refl|] end.
  rewrite Hlen.
  destruct (remove_A0_cases Ls (well_id 0 (Z.to_nat (d_source_column a))) (xmul_nat xv n) (d_label a))
    as [(e & ER)|(V & i_s & EV & HV & Eis & Hmin & ER)]; rewrite ER.
  { left. cbn [fst]. rewrite !abs_state_list. cbn [set_lw st_lw].
    rewrite (upd_same_nth_error _ ks Ls ELs). apply ist_eq_refl. }
  set (Ls' := log (rem_step Ls i_s V) (d_label a)).
  assert (His : (i_s < n_wells (lw_geom Ls))%nat) by (eapply (lw_index_lt Ls); [apply HLs|exact Eis]).
  assert (HLs' : mix_inv Ls') by (apply log_inv; apply rem_step_inv; assumption).
  assert (HI1 : Forall mix_inv (upd (st_lw s) ks Ls')) by (apply Forall_upd'; [exact HI|exact HLs']).
  unfold get_well_composition.
  rewrite (lw_index_geom' Ls' Ls _ eq_refl), Eis. rewrite well_composition_at_wca.
  change (lw_comp Ls') with (lw_comp Ls).
  destruct xv as [q| | |]; unfold xmul_nat in EV; try (destruct (n =? 0)%nat; discriminate).
  assert (EV' : V = Qred (q * Qn n)) by (unfold Qn; congruence).
  pose proof HLs as [(_ & Hlenv & Hmin0 & _) _].
  assert (HX : Qn n * q <= vol_at Ls i_s).
  { rewrite EV', !Qred_correct in Hmin. lra. }
  (* the state with the source emptied by [n * q] *)
  assert (Hsrc : ist_eq (abs_list (upd (st_lw s) ks Ls'))
                   (is_upd (abs_state s) ks i_s
                      {| iw_vol := vol_at Ls i_s - Qn n * q;
                         iw_amt := fun x => (vol_at Ls i_s - Qn n * q) * cget x (wca (lw_comp Ls) i_s) |})).
  { rewrite abs_state_list. intros k' i'. unfold Ls'. rewrite abs_list_upd_log.
    rewrite <- (abs_list_upd_log _ ks _ None).
    eapply iw_eq_trans; [apply abs_upd_rem; [exact ELs|lia]|].
    apply is_upd_congr; [intros; apply iw_eq_refl|].
    split; cbn [iw_vol iw_amt].
    - rewrite EV', Qred_correct. ring.
    - intro x. rewrite EV', Qred_correct. rewrite wca_get_pfrac by apply HLs.
      rewrite pfrac_nonneg by apply (comp_inv_frac Ls x i_s (proj2 HLs)). ring. }
  (* a non-negative volume, unless there is no destination at all *)
  assert (Hne : flattenF dwells <> []).
  { intro E0. rewrite E0 in EP. cbn [positions_of] in EP. inversion EP; subst ps. cbn in ES. discriminate. }
  assert (Hq : 0 <= q).
  { assert (Hn : 0 < Qn n).
    { unfold n. destruct (flattenF dwells) as [|d r]; [congruence|]. cbn [length]. rewrite Qn_S.
      pose proof (Qn_nonneg (length r)). lra. }
    rewrite EV', Qred_correct in HV.
    destruct (Qlt_le_dec q 0) as [Hneg|Hpos]; [|exact Hpos].
    exfalso. assert (q * Qn n < 0); [|lra].
    setoid_replace (q * Qn n) with (- ((- q) * Qn n)) by ring.
    assert (0 < (- q) * Qn n) by (apply Qmult_lt_0_compat; lra). lra. }
  destruct (nth_error (st_lw (set_lw s ks Ls')) kd) as [Ld1|] eqn:ELd1.
  2:{ right. exists Ls, Ld, q, i_s, 0%nat. split; [reflexivity|]. split; [reflexivity|]. split; [reflexivity|].
      split; [exact Hq|]. split; [exact Eis|]. split; [lia|]. split; [cbn [snd]; discriminate|].
      split; [exact HX|]. cbn [fst firstn map is_add]. rewrite (abs_state_list (set_lw s ks Ls')). exact Hsrc. }
  cbn [set_lw st_lw] in ELd1.
  assert (HLd1 : mix_inv Ld1) by (rewrite Forall_forall in HI1; apply HI1; eapply nth_error_In; exact ELd1).
  assert (Eg1 : lw_geom Ld1 = lw_geom Ld).
  { rewrite nth_error_upd_gen in ELd1. destruct (Nat.eqb_spec kd ks) as [E|N].
    - subst kd. rewrite ELs in ELd1. inversion ELd1; subst Ld1. rewrite ELs in ELd. inversion ELd; subst Ld.
      reflexivity.
    - rewrite ELd in ELd1. inversion ELd1. reflexivity. }
  pose proof (wca_comp_ok Ls i_s HLs) as [HC _].
  assert (HCS : Forall comp_ok (repeat (wca (lw_comp Ls) i_s) n))
    by (apply Forall_forall; intros x Hx; apply repeat_spec in Hx; subst x; exact HC).
  rewrite <- (map_repeat' Some (wca (lw_comp Ls) i_s) n).
  destruct (add_any (upd (st_lw s) ks Ls') kd Ld1 (A1 (flattenF dwells)) (A0 (XQ q)) (d_label a)
              (repeat (wca (lw_comp Ls) i_s) n) ELd1 HLd1 HCS) as (vs & rest & Evs & Hvs & Hnone & HR).
  cbn [flattenF broadcast] in Evs, HR. fold n in Evs.
  destruct (prefix_repeat_XQ _ _ _ _ Evs) as [Evs' Hj].
  rewrite Evs' in HR. rewrite (zip_repeat_prefix q (wca (lw_comp Ls) i_s) (flattenF dwells) _ n Hj) in HR.
  assert (Hfin : ist_eq (abs_list (upd (upd (st_lw s) ks Ls') kd
                    (fst (add Ld1 (A1 (flattenF dwells)) (A0 (XQ q)) (d_label a)
                            (Some (map Some (repeat (wca (lw_comp Ls) i_s) n)))))))
                  (is_add (is_upd (abs_state s) ks i_s
                     {| iw_vol := vol_at Ls i_s - Qn n * q;
                        iw_amt := fun x => (vol_at Ls i_s - Qn n * q) * cget x (wca (lw_comp Ls) i_s) |})
                     kd Ld (map (fun w => (w, q, wca (lw_comp Ls) i_s)) (firstn (length vs) (flattenF dwells))))).
  { eapply ist_eq_trans; [exact HR|]. rewrite (is_add_geom kd Ld Ld1 _ Eg1). apply is_add_congr. exact Hsrc. }
  right. exists Ls, Ld, q, i_s, (length vs).
  split; [reflexivity|]. split; [reflexivity|]. split; [reflexivity|]. split; [exact Hq|].
  split; [exact Eis|]. split; [exact Hj|].
  destruct (add Ld1 (A1 (flattenF dwells)) (A0 (XQ q)) (d_label a)
              (Some (map Some (repeat (wca (lw_comp Ls) i_s) n)))) as [Ld' [e|]]; cbn [fst snd] in *.
  { split; [discriminate|]. split; [exact HX|]. rewrite abs_state_list. cbn [set_lw st_lw]. exact Hfin. }
  assert (Hjn : length vs = n).
  { specialize (Hnone eq_refl). subst rest. rewrite app_nil_r in Evs.
    assert (H0 : length (repeat (XQ q) n) = length (map XQ vs)) by (rewrite Evs; reflexivity).
    rewrite repeat_length, map_length in H0. lia. }
  split; [intros _; exact Hjn|]. split; [exact HX|].
  destruct (ks =? kd)%nat;
  match goal with |- context [comment (st_wl ?s2) ?lab] =>
    destruct (comment (st_wl s2) lab) as [w1 [e|]] end;
  try match goal with |- context [reagent_distribution ?w ?args] =>
    destruct (reagent_distribution w args) as [w2 e2] end;
  cbn [fst]; rewrite abs_state_set_wl;
  (intros k' i'; rewrite ?abs_state_condense_at; revert k' i');
  rewrite abs_state_list; cbn [set_lw st_lw]; exact Hfin.
Qed.

(* ================================================================== programs with rejected calls *)

(** what a rejected liquid-adding call can leave behind: the ideal additions of the items before
    the first refused one (possibly none, possibly all: the failure may come after the tracking) *)
Definition partial_add (lws : list labware) (k : nat) (wells : arr string) (vols : arr xnum)
    (comps : option (list (option composition))) (W W' : istate) : Prop :=
  ist_eq W' W \/
  exists L vq rest, nth_error lws k = Some L /\
    broadcast (flattenF vols) (length (flattenF wells)) = (map XQ vq ++ rest)%list /\
    Forall (fun v => 0 <= v) vq /\
    ist_eq W' (is_addo W k L (zip (zip (flattenF wells) vq) (comps_list comps (length (flattenF wells))))).

Definition partial_rem (lws : list labware) (k : nat) (wells : arr string) (vols : arr xnum)
    (W W' : istate) : Prop :=
  ist_eq W' W \/
  exists L vq rest, nth_error lws k = Some L /\
    broadcast (flattenF vols) (length (flattenF wells)) = (map XQ vq ++ rest)%list /\
    Forall (fun v => 0 <= v) vq /\
    ist_eq W' (is_rem W k L (zip (flattenF wells) vq)).

(** what a rejected call can leave behind, per kind of call *)
Definition is_partial (auto : bool) (m : Q) (lws : list labware) (o : op) (W W' : istate) : Prop :=
  match o with
  | OAdd k ws vs _ cs => partial_add lws k ws vs cs W W'
  | ODispense k ws vs _ cs _ => partial_add lws k ws vs cs W W'
  | OEvoDisp k a _ cs => partial_add lws k (c_wells a) (evo_vols (c_volume a)) cs W W'
  | ORemove k ws vs _ => partial_rem lws k ws vs W W'
  | OAspirate k ws vs _ _ => partial_rem lws k ws vs W W'
  | OEvoAsp k a _ => partial_rem lws k (c_wells a) (evo_vols (c_volume a)) W W'
  | OTransfer ks sw kd dw vs _ _ pb _ =>
      ist_eq W' W \/
      exists Ls Ld mode done s d v rest,
        nth_error lws ks = Some Ls /\ nth_error lws kd = Some Ld /\
        optimize_partition_by (is_trough (lw_geom Ls)) (is_trough (lw_geom Ld)) pb = Ok mode /\
        plan auto m mode (transfer_triples sw dw vs) = (done ++ Step s d v :: rest)%list /\
        is_partial_step (is_exec W ks kd Ls Ld done) ks kd Ls Ld s d v W'
  | ODistribute ks kd dw a =>
      ist_eq W' W \/
      exists Ls Ld v i_s j c X,
        nth_error lws ks = Some Ls /\ nth_error lws kd = Some Ld /\
        rvol_x (d_volume a) = Some (XQ v) /\ 0 <= v /\
        lw_index Ls (well_id 0 (Z.to_nat (d_source_column a))) = Some i_s /\
        (j <= length (flattenF dw))%nat /\
        iw_eq (W ks i_s) {| iw_vol := X; iw_amt := fun x => X * cget x c |} /\
        Qn (length (flattenF dw)) * v <= X /\
        ist_eq W' (is_add (is_upd W ks i_s
                             {| iw_vol := X - Qn (length (flattenF dw)) * v;
                                iw_amt := fun x => (X - Qn (length (flattenF dw)) * v) * cget x c |})
                          kd Ld (map (fun w => (w, v, c)) (firstn j (flattenF dw))))
  | _ => ist_eq W' W
  end.

(** a program with its outcomes: accepted calls act as their ideal semantics, rejected calls leave
    one of the states [is_partial] describes *)
Inductive ideal_run (auto : bool) (m : Q) (lws : list labware)
    : list op -> list (option err) -> istate -> istate -> Prop :=
| IR_nil W W' : ist_eq W' W -> ideal_run auto m lws [] [] W W'
| IR_ok o r es W f W1 W' : is_op auto m lws o = Some f -> ist_eq W1 (f W) ->
    ideal_run auto m lws r es W1 W' -> ideal_run auto m lws (o :: r) (None :: es) W W'
| IR_rej o r e es W W1 W' : is_partial auto m lws o W W1 ->
    ideal_run auto m lws r es W1 W' -> ideal_run auto m lws (o :: r) (Some e :: es) W W'.

Lemma addlike_any_u s0 s k wells vols label comps l' : st_inv s ->
  map lw_geom (st_lw s) = map lw_geom (st_lw s0) -> comps_ok comps ->
  (forall L, nth_error (st_lw s) k = Some L -> plain_clean L wells comps) ->
  l' = match nth_error (st_lw s) k with
       | None => st_lw s
       | Some L => upd (st_lw s) k
                     (fst (add L (A1 (flattenF wells)) (A1 (broadcast (flattenF vols) (length (flattenF wells))))
                               label comps))
       end ->
  partial_add (st_lw s0) k wells vols comps (abs_state s) (abs_list l').
Proof.
  intros HI HG HC HCl El'. destruct (nth_error (st_lw s) k) as [L|] eqn:EL;
    [|left; subst l'; apply ist_eq_refl].
  destruct (add_any_u (st_lw s) k L (A1 (flattenF wells)) (A1 (broadcast (flattenF vols) (length (flattenF wells))))
              label comps EL (st_inv_nth s k L HI EL) HC (HCl L eq_refl)) as (vq & rest & Evq & Hvq & _ & HR).
  cbn [flattenF] in Evq, HR. rewrite broadcast_idem in Evq.
  destruct (nth_geom _ _ k L HG EL) as (L0 & EL0 & Eg0).
  right. exists L0, vq, rest. split; [exact EL0|]. split; [exact Evq|].
  split; [exact Hvq|]. subst l'. rewrite (is_addo_geom k L L0 _ Eg0). exact HR.
Qed.

Lemma remlike_any s0 s k wells vols label l' : st_inv s ->
  map lw_geom (st_lw s) = map lw_geom (st_lw s0) ->
  l' = match nth_error (st_lw s) k with
       | None => st_lw s
       | Some L => upd (st_lw s) k
                     (fst (remove L (A1 (flattenF wells)) (A1 (broadcast (flattenF vols) (length (flattenF wells))))
                                  label))
       end ->
  partial_rem (st_lw s0) k wells vols (abs_state s) (abs_list l').
Proof.
  intros HI HG El'. destruct (nth_error (st_lw s) k) as [L|] eqn:EL;
    [|left; subst l'; apply ist_eq_refl].
  destruct (remove_any (st_lw s) k L (A1 (flattenF wells)) (A1 (broadcast (flattenF vols) (length (flattenF wells))))
              label EL (st_inv_nth s k L HI EL)) as (vq & rest & Evq & Hvq & _ & HR).
  cbn [flattenF] in Evq, HR. rewrite broadcast_idem in Evq.
  destruct (nth_geom _ _ k L HG EL) as (L0 & EL0 & Eg0).
  right. exists L0, vq, rest. split; [exact EL0|]. split; [exact Evq|].
  split; [exact Hvq|]. subst l'. rewrite (is_rem_geom k L L0 _ Eg0). exact HR.
Qed.

(** C05_step_rejected_unknown: what a rejected call of a program leaves behind; compositions may
    be missing *)
Lemma step_partial_unknown s0 s o : st_inv s -> frame s0 s -> op_comps_ok o -> op_clean s o ->
  snd (step s o) <> None ->
  is_partial (w_autosplit (st_wl s0)) (w_max (st_wl s0)) (st_lw s0) o
             (abs_state s) (abs_state (fst (step s o))).
Proof.
  intros HI [HG [Hm Ha]] HM HCl HN.
  assert (Heff : op_effectless o -> ist_eq (abs_state (fst (step s o))) (abs_state s)).
  { intros HE k i. rewrite (effectless_abs s o HE). apply iw_eq_refl. }
  destruct o as [k ws vs l cs|k ws vs l|k n l|k ws vs l kw|k ws vs l cs kw|ks sw kd dw vs l sch pb kw
                |ks kd dw a|c|sch| | | |i|a|a|a|k a l|k a l cs|a];
    try (cbn [is_partial]; apply Heff; exact I); clear Heff; cbn [is_partial].
  - unfold op_comps_ok in HM. cbn [op_comps] in HM. cbn [op_clean] in HCl.
    rewrite (abs_state_list (fst _)). apply (addlike_any_u s0 s k ws vs l cs); try assumption.
    cbn [step]. rewrite on_lw_st_lw. destruct (nth_error (st_lw s) k) as [L|]; [|reflexivity].
    rewrite A1_flatten_add. reflexivity.
  - rewrite (abs_state_list (fst _)). apply (remlike_any s0 s k ws vs l); try assumption.
    cbn [step]. rewrite on_lw_st_lw. destruct (nth_error (st_lw s) k) as [L|]; [|reflexivity].
    rewrite A1_flatten_remove. reflexivity.
  - rewrite (abs_state_list (fst _)). apply (remlike_any s0 s k ws vs l); try assumption.
    cbn [step]. apply aspirate_st_lw.
  - unfold op_comps_ok in HM. cbn [op_comps] in HM. cbn [op_clean] in HCl.
    rewrite (abs_state_list (fst _)). apply (addlike_any_u s0 s k ws vs l cs); try assumption.
    cbn [step]. apply dispense_st_lw.
  - (* transfer *)
    cbn [step] in *.
    destruct (transfer_any s ks sw kd dw vs l sch pb kw HI HN)
      as [H|(Ls & Ld & mode & done & s1 & d1 & v1 & rest & ELs & ELd & Emode & Eplan & HPS)]; [left; exact H|].
    destruct (nth_geom _ _ ks Ls HG ELs) as (Ls0 & ELs0 & Egs).
    destruct (nth_geom _ _ kd Ld HG ELd) as (Ld0 & ELd0 & Egd).
    right. exists Ls0, Ld0, mode, done, s1, d1, v1, rest.
    split; [exact ELs0|]. split; [exact ELd0|]. split; [rewrite Egs, Egd; exact Emode|].
    split; [rewrite <- Hm, <- Ha; exact Eplan|].
    eapply is_partial_step_congr; [| | |exact HPS]; [|exact Egs|exact Egd].
    rewrite (is_exec_geom ks kd Ls Ld Ls0 Ld0 done Egs Egd). apply ist_eq_refl.
  - (* distribute *)
    cbn [step] in *.
    destruct (distribute_any s ks kd dw a HI)
      as [H|(Ls & Ld & v & i_s & j & ELs & ELd & Ev & Hv & Eis & Hj & _ & HX & HR)]; [left; exact H|].
    destruct (nth_geom _ _ ks Ls HG ELs) as (Ls0 & ELs0 & Egs).
    destruct (nth_geom _ _ kd Ld HG ELd) as (Ld0 & ELd0 & Egd).
    right. exists Ls0, Ld0, v, i_s, j, (wca (lw_comp Ls) i_s), (vol_at Ls i_s).
    split; [exact ELs0|]. split; [exact ELd0|]. split; [exact Ev|]. split; [exact Hv|].
    split; [rewrite (lw_index_geom' Ls0 Ls _ Egs); exact Eis|]. split; [exact Hj|].
    split; [unfold abs_state; rewrite ELs; apply abs_well_source; exact (st_inv_nth s ks Ls HI ELs)|].
    split; [exact HX|]. cbv zeta in HR. rewrite (is_add_geom kd Ld Ld0 _ Egd). exact HR.
  - (* evo_aspirate *)
    cbn [step] in *. destruct (w_dev (st_wl s)); try (left; apply ist_eq_refl).
    rewrite (abs_state_list (fst _)). apply (remlike_any s0 s k (c_wells a) (evo_vols (c_volume a)) l); try assumption.
    apply evo_aspirate_st_lw.
  - (* evo_dispense *)
    unfold op_comps_ok in HM. cbn [op_comps] in HM. cbn [op_clean] in HCl.
    cbn [step] in *. destruct (w_dev (st_wl s)); try (left; apply ist_eq_refl).
    rewrite (abs_state_list (fst _)).
    apply (addlike_any_u s0 s k (c_wells a) (evo_vols (c_volume a)) l cs); try assumption.
    apply evo_dispense_st_lw.
Qed.

(** C05_step_rejected: the same for the narrower class [op_mix] *)
Lemma step_partial s0 s o : st_inv s -> frame s0 s -> op_mix o -> snd (step s o) <> None ->
  is_partial (w_autosplit (st_wl s0)) (w_max (st_wl s0)) (st_lw s0) o
             (abs_state s) (abs_state (fst (step s o))).
Proof.
  intros HI HF HM HN.
  exact (step_partial_unknown s0 s o HI HF (op_mix_comps_ok o HM) (op_mix_clean s o HM) HN).
Qed.

(** C05_run_refines_any_unknown: any program, whatever the outcomes of its calls *)
Lemma run_any_from_unknown s0 ops : forall s, st_inv s -> frame s0 s -> Forall op_comps_ok ops ->
  run_clean s ops ->
  ideal_run (w_autosplit (st_wl s0)) (w_max (st_wl s0)) (st_lw s0) ops (snd (run s ops))
            (abs_state s) (abs_state (fst (run s ops))).
Proof.
  induction ops as [|o r IH]; intros s HI HF HM HCl.
  - cbn [run fst snd]. apply IR_nil. apply ist_eq_refl.
  - inversion HM as [|o' r' Ho Hr]; subst. rewrite run_snd_cons, run_fst_cons. destruct HCl as [HClo HClr].
    assert (HI1 : st_inv (fst (step s o))) by (apply step_inv; [exact HI|exact Ho]).
    assert (HF1 : frame s0 (fst (step s o))) by (eapply frame_trans; [exact HF|apply frame_step]).
    specialize (IH (fst (step s o)) HI1 HF1 Hr HClr).
    destruct (snd (step s o)) as [e|] eqn:Eo.
    + eapply IR_rej; [|exact IH]. apply step_partial_unknown; try assumption. rewrite Eo. discriminate.
    + destruct (step_refines_unknown s0 s o HI HF Ho HClo) as (f & Ef & Hf); [left; exact Eo|].
      eapply IR_ok; [exact Ef|exact Hf|exact IH].
Qed.

Lemma run_refines_any_unknown ops s : st_inv s -> Forall op_comps_ok ops -> run_clean s ops ->
  ideal_run (w_autosplit (st_wl s)) (w_max (st_wl s)) (st_lw s) ops (snd (run s ops))
            (abs_state s) (abs_state (fst (run s ops))).
Proof. intros HI HM HCl. exact (run_any_from_unknown s ops s HI (frame_refl s) HM HCl). Qed.

(** C05_run_refines_any: the same for the narrower class [op_mix] *)
Lemma run_refines_any ops s : st_inv s -> Forall op_mix ops ->
  ideal_run (w_autosplit (st_wl s)) (w_max (st_wl s)) (st_lw s) ops (snd (run s ops))
            (abs_state s) (abs_state (fst (run s ops))).
Proof.
  intros HI HM. exact (run_refines_any_unknown ops s HI (ops_mix_comps_ok ops HM) (ops_mix_clean ops HM s)).
Qed.

(** when every call was accepted the relation is the fold [is_run] *)
Lemma ideal_run_accepted auto m lws ops : forall es W W', ideal_run auto m lws ops es W W' ->
  Forall (fun e => e = None) es ->
  exists F, is_run auto m lws ops = Some F /\ ist_eq W' (F W).
Proof.
  induction ops as [|o r IH]; intros es W W' H HN; inversion H; subst.
  - exists (fun W => W). split; [reflexivity|assumption].
  - inversion HN as [|e' es' _ Hes]; subst.
    match goal with Hf : is_op auto m lws o = Some ?f, H1 : ist_eq ?W1 (?f W), Hr : ideal_run _ _ _ r _ ?W1 W' |- _ =>
      destruct (IH _ _ _ Hr Hes) as (G & EG & HG);
      exists (fun W => G (f W)); split; [cbn [is_run]; rewrite Hf, EG; reflexivity|];
      eapply ist_eq_trans; [exact HG|]; apply (is_run_congr _ _ _ _ G EG); exact H1 end.
  - inversion HN as [|e' es' He _]; subst. discriminate.
Qed.

(* ------------------------------------------------------------------ hypotheses that can be computed *)

(** labware sets built by the constructors *)
Inductive ctor := CPlate (a : lw_args) | CTrough (a : trough_args).

Fixpoint build_all (cs : list ctor) : option (list labware) :=
  match cs with
  | [] => Some []
  | c :: r =>
      match (match c with CPlate a => mk_labware a | CTrough a => mk_trough a end), build_all r with
      | Ok L, Some ls => Some (L :: ls)
      | _, _ => None
      end
  end.

Lemma build_all_constructed cs : forall lws, build_all cs = Some lws -> Forall constructed lws.
Proof.
  induction cs as [|c r IH]; intros lws H; cbn [build_all] in H.
  - inversion H. constructor.
  - destruct c as [a|a].
    + destruct (mk_labware a) as [L|e] eqn:E; [|discriminate]. destruct (build_all r) as [ls|]; [|discriminate].
      inversion H; subst. constructor; [left; exists a; exact E|apply IH; reflexivity].
    + destruct (mk_trough a) as [L|e] eqn:E; [|discriminate]. destruct (build_all r) as [ls|]; [|discriminate].
      inversion H; subst. constructor; [right; exists a; exact E|apply IH; reflexivity].
Qed.

Definition is_none (e : option err) : bool := match e with None => true | Some _ => false end.

Lemma forallb_is_none es : forallb is_none es = true -> Forall (fun e => e = None) es.
Proof.
  intro H. apply Forall_forall. intros e He. rewrite forallb_forall in H. specialize (H e He).
  destruct e; [discriminate|reflexivity].
Qed.

(** C05_run_refines_built: the run-level statement with hypotheses that evaluate *)
Lemma run_refines_built cs lws w ops : build_all cs = Some lws -> forallb op_mixb ops = true ->
  forallb is_none (snd (run {| st_lw := lws; st_wl := w |} ops)) = true ->
  exists F, is_run (w_autosplit w) (w_max w) lws ops = Some F /\
    forall k i, iw_eq (abs_state (fst (run {| st_lw := lws; st_wl := w |} ops)) k i) (F (abs_list lws) k i).
Proof.
  intros HB HM HN. apply run_refines_constructed.
  - exact (build_all_constructed cs lws HB).
  - apply ops_mix_check. exact HM.
  - apply all_none_call_ok; [apply run_snd_length|apply forallb_is_none; exact HN].
Qed.

Lemma run_any_built cs lws w ops : build_all cs = Some lws -> forallb op_mixb ops = true ->
  ideal_run (w_autosplit w) (w_max w) lws ops (snd (run {| st_lw := lws; st_wl := w |} ops))
            (abs_list lws) (abs_state (fst (run {| st_lw := lws; st_wl := w |} ops))).
Proof.
  intros HB HM. destruct (constructed_inv lws w (build_all_constructed cs lws HB)) as [HI _].
  exact (run_refines_any ops {| st_lw := lws; st_wl := w |} HI (ops_mix_check ops HM)).
Qed.

(* ------------------------------------------------------------------ deciding [run_clean] *)

Definition well_cleanb (L : labware) (i : nat) : bool :=
  negb (Qeq_bool (vol_at L i) 0) || forallb (fun ka => Qeq_bool (nth i (snd ka) 0) 0) (lw_comp L).

Definition plain_cleanb (L : labware) (wells : arr string) (comps : option (list (option composition))) : bool :=
  forallb (fun wc => match snd wc, lw_index L (fst wc) with
                     | None, Some i => well_cleanb L i
                     | _, _ => true
                     end)
          (zip (flattenF wells) (comps_list comps (length (flattenF wells)))).

Definition op_cleanb (s : state) (o : op) : bool :=
  match o with
  | OAdd k ws _ _ cs => match nth_error (st_lw s) k with Some L => plain_cleanb L ws cs | None => true end
  | ODispense k ws _ _ cs _ => match nth_error (st_lw s) k with Some L => plain_cleanb L ws cs | None => true end
  | OEvoDisp k a _ cs => match nth_error (st_lw s) k with Some L => plain_cleanb L (c_wells a) cs | None => true end
  | _ => true
  end.

Fixpoint run_cleanb (s : state) (ops : list op) : bool :=
  match ops with
  | [] => true
  | o :: r => op_cleanb s o && run_cleanb (fst (step s o)) r
  end.

Lemma assoc_get_entry {A} k (l : list (string * A)) a : assoc_get k l = Some a -> exists k', In (k', a) l.
Proof.
  induction l as [|[k1 a1] r IH]; cbn [assoc_get]; intro H; [discriminate|].
  destruct (String.eqb k1 k).
  - inversion H; subst. exists k1. left. reflexivity.
  - destruct (IH H) as (k' & Hin). exists k'. right. exact Hin.
Qed.

Lemma well_cleanb_ok L i : well_cleanb L i = true -> well_clean L i.
Proof.
  unfold well_cleanb, well_clean. intro H. apply orb_prop in H. destruct H as [H|H].
  - left. intro E. apply Qeq_bool_iff in E. rewrite E in H. discriminate.
  - right. intro x. unfold frac, frac_at. destruct (assoc_get x (lw_comp L)) as [a|] eqn:E; [|reflexivity].
    destruct (assoc_get_entry _ _ _ E) as (k' & Hin). rewrite forallb_forall in H.
    specialize (H (k', a) Hin). cbn [snd] in H. apply Qeq_bool_iff. exact H.
Qed.

Lemma plain_cleanb_ok L wells comps : plain_cleanb L wells comps = true -> plain_clean L wells comps.
Proof.
  unfold plain_cleanb, plain_clean. intro H. apply Forall_forall. intros wc Hin Hn i Ei.
  rewrite forallb_forall in H. specialize (H wc Hin). rewrite Hn, Ei in H. apply well_cleanb_ok. exact H.
Qed.

Lemma op_cleanb_ok s o : op_cleanb s o = true -> op_clean s o.
Proof.
  destruct o; cbn [op_cleanb op_clean]; intro H; try exact I;
    intros L EL; rewrite EL in H; apply plain_cleanb_ok; exact H.
Qed.

(** C05_clean_check *)
Lemma run_cleanb_ok ops : forall s, run_cleanb s ops = true -> run_clean s ops.
Proof.
  induction ops as [|o r IH]; intros s H; [exact I|]. cbn [run_cleanb] in H.
  apply andb_prop in H. destruct H as [Ho Hr]. split; [apply op_cleanb_ok; exact Ho|apply IH; exact Hr].
Qed.

(** C05_run_refines_built_unknown: the run-level statement with hypotheses that evaluate *)
Lemma run_refines_built_unknown cs lws w ops : build_all cs = Some lws -> forallb op_comps_okb ops = true ->
  run_cleanb {| st_lw := lws; st_wl := w |} ops = true ->
  forallb is_none (snd (run {| st_lw := lws; st_wl := w |} ops)) = true ->
  exists F, is_run (w_autosplit w) (w_max w) lws ops = Some F /\
    forall k i, iw_eq (abs_state (fst (run {| st_lw := lws; st_wl := w |} ops)) k i) (F (abs_list lws) k i).
Proof.
  intros HB HM HCl HN. apply run_refines_constructed_unknown.
  - exact (build_all_constructed cs lws HB).
  - apply (proj1 (ops_check ops)). exact HM.
  - apply run_cleanb_ok. exact HCl.
  - apply all_none_call_ok; [apply run_snd_length|apply forallb_is_none; exact HN].
Qed.

Lemma run_any_built_unknown cs lws w ops : build_all cs = Some lws -> forallb op_comps_okb ops = true ->
  run_cleanb {| st_lw := lws; st_wl := w |} ops = true ->
  ideal_run (w_autosplit w) (w_max w) lws ops (snd (run {| st_lw := lws; st_wl := w |} ops))
            (abs_list lws) (abs_state (fst (run {| st_lw := lws; st_wl := w |} ops))).
Proof.
  intros HB HM HCl. destruct (constructed_inv lws w (build_all_constructed cs lws HB)) as [HI _].
  exact (run_refines_any_unknown ops {| st_lw := lws; st_wl := w |} HI (proj1 (ops_check ops) HM)
           (run_cleanb_ok ops _ HCl)).
Qed.

(* ------------------------------------------------------------------ [run_clean] cannot be dropped *)

(** the plate of Proofs/MixingRunProofs.v ([cx_args]: 200 of "stock" in A01, 50 in B01, min 0):
    A01 is emptied, then 30 of a liquid of unknown composition are dispensed into it *)
Definition cx_plain : list op :=
  [ OAspirate 0 (A0 "A01"%string) (A0 (XQ 200)) None kw_default;
    ODispense 0 (A0 "A01"%string) (A0 (XQ 30)) None None kw_default ].

(** C05_run_refines_unknown_refuted: without [run_clean] the run-level statement is false.  Both
    calls are accepted and have an ideal meaning; the model (like the library) reports the 30 in
    the emptied well as 30 of "stock", the reference knows nothing about them. *)
Lemma run_refines_unknown_needs_clean :
  exists s ops F, st_inv s /\ Forall op_comps_ok ops /\ snd (run s ops) = [None; None] /\
    is_run (w_autosplit (st_wl s)) (w_max (st_wl s)) (st_lw s) ops = Some F /\
    run_cleanb s ops = false /\
    iw_vol (abs_state (fst (run s ops)) 0%nat 0%nat) == 30 /\ iw_vol (F (abs_state s) 0%nat 0%nat) == 30 /\
    iw_amt (abs_state (fst (run s ops)) 0%nat 0%nat) "stock"%string == 30 /\
    iw_amt (F (abs_state s) 0%nat 0%nat) "stock"%string == 0.
Proof.
  destruct (mk_labware cx_args) as [L|e] eqn:E; [|vm_compute in E; discriminate].
  pose proof (mk_labware_mix_inv cx_args L E) as HL.
  exists {| st_lw := [L]; st_wl := cx_w0 |}, cx_plain. eexists.
  split; [constructor; [exact HL|constructor]|].
  split; [repeat constructor|].
  vm_compute in E. inversion E; subst L.
  split; [vm_compute; reflexivity|]. split; [reflexivity|].
  vm_compute. repeat split.
Qed.

(* ================================================================== the definitions, spelled out
   (restated in Props/C05.v so that the statements there can be read on their own) *)

Lemma is_add_spec sg k L :
  is_add sg k L [] = sg /\
  forall w v c r, is_add sg k L ((w, v, c) :: r) =
    match lw_index L w with
    | Some i => is_add (is_upd sg k i (iw_add (sg k i) v (fun x => cget x c))) k L r
    | None => sg
    end.
Proof. split; reflexivity. Qed.

Lemma is_rem_spec sg k L :
  is_rem sg k L [] = sg /\
  forall w v r, is_rem sg k L ((w, v) :: r) =
    match lw_index L w with
    | Some i => is_rem (is_upd sg k i (iw_remove (sg k i) v)) k L r
    | None => sg
    end.
Proof. split; reflexivity. Qed.

Lemma is_addo_spec sg k L :
  is_addo sg k L [] = sg /\
  forall w v oc r, is_addo sg k L ((w, v, oc) :: r) =
    match lw_index L w with
    | Some i => is_addo (is_upd sg k i (match oc with
                                        | Some c => iw_add (sg k i) v (fun x => cget x c)
                                        | None => iw_dilute (sg k i) v
                                        end)) k L r
    | None => sg
    end.
Proof. split; reflexivity. Qed.

(** [iw_dilute]: the definition, what it means in a well that is not empty (fractions kept), and
    in a well without tracked amounts (nothing known; the quotient plays no role) *)
Lemma iw_dilute_spec w v :
  iw_dilute w v = {| iw_vol := iw_vol w + v;
                     iw_amt := fun k => iw_amt w k * ((iw_vol w + v) / iw_vol w) |} /\
  (~ iw_vol w == 0 -> ~ iw_vol w + v == 0 -> forall k, iw_frac (iw_dilute w v) k == iw_frac w k) /\
  ((forall k, iw_amt w k == 0) -> forall k, iw_amt (iw_dilute w v) k == 0).
Proof.
  split; [reflexivity|]. split.
  - intros H1 H2 k. apply iw_dilute_fractions; assumption.
  - apply iw_dilute_empty.
Qed.

Lemma call_shapes_spec lws k wells vols comps :
  is_addcall lws k wells vols comps =
    match xq_list (broadcast (flattenF vols) (length (flattenF wells))), nth_error lws k with
    | Some vs, Some L =>
        Some (fun W => is_addo W k L
                         (zip (zip (flattenF wells) vs) (comps_list comps (length (flattenF wells)))))
    | _, _ => None
    end /\
  is_remcall lws k wells vols =
    match xq_list (broadcast (flattenF vols) (length (flattenF wells))), nth_error lws k with
    | Some vs, Some L => Some (fun W => is_rem W k L (zip (flattenF wells) vs))
    | _, _ => None
    end.
Proof. split; reflexivity. Qed.

(** [xq_list]: all volumes are finite numbers; [comps_list]: the compositions argument as a list;
    with every composition given [is_addo] is [is_add] *)
Lemma call_lists_spec :
  (forall (vs : list xnum) (qs : list Q), xq_list vs = Some qs <-> vs = map XQ qs) /\
  (forall comps n, comps_list comps n = match comps with Some cs => cs | None => repeat None n end) /\
  (forall k L (ws : list string) (vs : list Q) (cs : list composition) W,
     is_addo W k L (zip (zip ws vs) (map Some cs)) = is_add W k L (zip (zip ws vs) cs)).
Proof.
  split; [|split; [reflexivity|exact is_addo_some]].
  intros vs qs. split; [apply xq_list_map|intro E; subst vs; apply xq_list_of_map].
Qed.

(** the step lists of the ideal transfer / distribution *)
Lemma steps_spec swells dwells (vols : arr Q) col (dw : arr string) v :
  transfer_triples swells dwells vols =
    (let sw := flattenF swells in let dw := flattenF dwells in let vs := flattenF vols in
     let nmax := Nat.max (length sw) (Nat.max (length dw) (length vs)) in
     zip (zip (broadcast sw nmax) (broadcast dw nmax)) (broadcast vs nmax)) /\
  dist_steps col dw v = map (fun w => Step (well_id 0 (Z.to_nat col)) w v) (flattenF dw).
Proof. split; reflexivity. Qed.

Lemma is_none_spec (e : option err) : is_none e = match e with None => true | Some _ => false end.
Proof. reflexivity. Qed.

(** the hypotheses about wells addressed without a composition *)
Lemma clean_spec :
  (forall L i, well_clean L i = (~ vol_at L i == 0 \/ forall x, frac L x i == 0)) /\
  (forall L wells comps, plain_clean L wells comps =
     Forall (fun wc => snd wc = None -> forall i, lw_index L (fst wc) = Some i -> well_clean L i)
            (zip (flattenF wells) (comps_list comps (length (flattenF wells))))) /\
  (forall s o, op_clean s o =
     match o with
     | OAdd k ws _ _ cs => forall L, nth_error (st_lw s) k = Some L -> plain_clean L ws cs
     | ODispense k ws _ _ cs _ => forall L, nth_error (st_lw s) k = Some L -> plain_clean L ws cs
     | OEvoDisp k a _ cs => forall L, nth_error (st_lw s) k = Some L -> plain_clean L (c_wells a) cs
     | _ => True
     end) /\
  (forall s, run_clean s [] = True) /\
  (forall s o r, run_clean s (o :: r) = (op_clean s o /\ run_clean (fst (step s o)) r)).
Proof. split; [reflexivity|]. split; [reflexivity|]. split; [intros s o; destruct o; reflexivity|]. split; reflexivity. Qed.

(** every composition given: nothing to check *)
Lemma mix_clean_spec : (forall s o, op_mix o -> op_comps_ok o /\ op_clean s o) /\
  (forall ops, Forall op_mix ops -> Forall op_comps_ok ops /\ forall s, run_clean s ops).
Proof.
  split.
  - intros s o H. split; [apply op_mix_comps_ok; exact H|apply op_mix_clean; exact H].
  - intros ops H. split; [apply ops_mix_comps_ok; exact H|apply ops_mix_clean; exact H].
Qed.

Lemma is_op_spec auto m lws o :
  is_op auto m lws o =
  match o with
  | OAdd k ws vs _ cs => is_addcall lws k ws vs cs
  | ODispense k ws vs _ cs _ => is_addcall lws k ws vs cs
  | OEvoDisp k a _ cs => is_addcall lws k (c_wells a) (evo_vols (c_volume a)) cs
  | ORemove k ws vs _ => is_remcall lws k ws vs
  | OAspirate k ws vs _ _ => is_remcall lws k ws vs
  | OEvoAsp k a _ => is_remcall lws k (c_wells a) (evo_vols (c_volume a))
  | OTransfer ks sw kd dw vs _ _ pb _ =>
      match nth_error lws ks, nth_error lws kd with
      | Some Ls, Some Ld =>
          match optimize_partition_by (is_trough (lw_geom Ls)) (is_trough (lw_geom Ld)) pb with
          | Ok mode => Some (fun W => is_exec W ks kd Ls Ld (plan auto m mode (transfer_triples sw dw vs)))
          | Err _ => None
          end
      | _, _ => None
      end
  | ODistribute ks kd dw a =>
      match nth_error lws ks, nth_error lws kd, rvol_x (d_volume a) with
      | Some Ls, Some Ld, Some (XQ v) =>
          if Qltb 0 v then Some (fun W => is_exec W ks kd Ls Ld (dist_steps (d_source_column a) dw v))
          else if Qeq_bool v 0 then Some (fun W => W)
          else None
      | _, _, _ => None
      end
  | _ => Some (fun W => W)
  end.
Proof. reflexivity. Qed.

Lemma is_run_spec auto m lws :
  is_run auto m lws [] = Some (fun W => W) /\
  forall o r, is_run auto m lws (o :: r) =
    match is_op auto m lws o, is_run auto m lws r with
    | Some f, Some g => Some (fun W => g (f W))
    | _, _ => None
    end.
Proof. split; reflexivity. Qed.

Lemma run_classes_spec (o : op) (e : option err) :
  op_mix o = match o with
             | OAdd _ _ _ _ cs => comps_given cs
             | ODispense _ _ _ _ cs _ => comps_given cs
             | OEvoDisp _ _ _ cs => comps_given cs
             | _ => True
             end /\
  (forall comps, comps_given comps =
     match comps with
     | Some cs => Forall (fun oc => match oc with Some c => comp_ok c | None => False end) cs
     | None => False
     end) /\
  op_effectless o = match o with OCondense _ _ _ => True | _ => op_record_only o end /\
  call_ok o e = (e = None \/ op_effectless o).
Proof. destruct o; repeat split. Qed.

Lemma is_partial_step_spec W ks kd Ls Ld sw dw v W' :
  is_partial_step W ks kd Ls Ld sw dw v W' =
  ((forall k i, iw_eq (W' k i) (W k i)) \/
   exists i_s, lw_index Ls sw = Some i_s /\
     ((forall k i, iw_eq (W' k i) (is_upd W ks i_s (iw_remove (W ks i_s) v) k i)) \/
      exists i_d, lw_index Ld dw = Some i_d /\
        forall k i, iw_eq (W' k i) (is_transfer W ks i_s kd i_d v k i))).
Proof. reflexivity. Qed.

Lemma partial_spec lws k wells vols comps W W' :
  partial_add lws k wells vols comps W W' =
    ((forall k' i, iw_eq (W' k' i) (W k' i)) \/
     exists L vq rest, nth_error lws k = Some L /\
       broadcast (flattenF vols) (length (flattenF wells)) = (map XQ vq ++ rest)%list /\
       Forall (fun v => 0 <= v) vq /\
       forall k' i, iw_eq (W' k' i)
         (is_addo W k L (zip (zip (flattenF wells) vq) (comps_list comps (length (flattenF wells)))) k' i)) /\
  partial_rem lws k wells vols W W' =
    ((forall k' i, iw_eq (W' k' i) (W k' i)) \/
     exists L vq rest, nth_error lws k = Some L /\
       broadcast (flattenF vols) (length (flattenF wells)) = (map XQ vq ++ rest)%list /\
       Forall (fun v => 0 <= v) vq /\
       forall k' i, iw_eq (W' k' i) (is_rem W k L (zip (flattenF wells) vq) k' i)).
Proof. split; reflexivity. Qed.

Lemma is_partial_spec auto m lws o W W' :
  is_partial auto m lws o W W' =
  match o with
  | OAdd k ws vs _ cs => partial_add lws k ws vs cs W W'
  | ODispense k ws vs _ cs _ => partial_add lws k ws vs cs W W'
  | OEvoDisp k a _ cs => partial_add lws k (c_wells a) (evo_vols (c_volume a)) cs W W'
  | ORemove k ws vs _ => partial_rem lws k ws vs W W'
  | OAspirate k ws vs _ _ => partial_rem lws k ws vs W W'
  | OEvoAsp k a _ => partial_rem lws k (c_wells a) (evo_vols (c_volume a)) W W'
  | OTransfer ks sw kd dw vs _ _ pb _ =>
      (forall k i, iw_eq (W' k i) (W k i)) \/
      exists Ls Ld mode done s d v rest,
        nth_error lws ks = Some Ls /\ nth_error lws kd = Some Ld /\
        optimize_partition_by (is_trough (lw_geom Ls)) (is_trough (lw_geom Ld)) pb = Ok mode /\
        plan auto m mode (transfer_triples sw dw vs) = (done ++ Step s d v :: rest)%list /\
        is_partial_step (is_exec W ks kd Ls Ld done) ks kd Ls Ld s d v W'
  | ODistribute ks kd dw a =>
      (forall k i, iw_eq (W' k i) (W k i)) \/
      exists Ls Ld v i_s j c X,
        nth_error lws ks = Some Ls /\ nth_error lws kd = Some Ld /\
        rvol_x (d_volume a) = Some (XQ v) /\ 0 <= v /\
        lw_index Ls (well_id 0 (Z.to_nat (d_source_column a))) = Some i_s /\
        (j <= length (flattenF dw))%nat /\
        iw_eq (W ks i_s) {| iw_vol := X; iw_amt := fun x => X * cget x c |} /\
        Qn (length (flattenF dw)) * v <= X /\
        forall k i, iw_eq (W' k i)
          (is_add (is_upd W ks i_s
                     {| iw_vol := X - Qn (length (flattenF dw)) * v;
                        iw_amt := fun x => (X - Qn (length (flattenF dw)) * v) * cget x c |})
                  kd Ld (map (fun w => (w, v, c)) (firstn j (flattenF dw))) k i)
  | _ => forall k i, iw_eq (W' k i) (W k i)
  end.
Proof. destruct o; reflexivity. Qed.

(** the constructors of [ideal_run], as one equivalence *)
Lemma ideal_run_spec auto m lws ops es W W' :
  ideal_run auto m lws ops es W W' <->
  match ops, es with
  | [], [] => forall k i, iw_eq (W' k i) (W k i)
  | o :: r, None :: es' =>
      exists f W1, is_op auto m lws o = Some f /\ (forall k i, iw_eq (W1 k i) (f W k i)) /\
                   ideal_run auto m lws r es' W1 W'
  | o :: r, Some _ :: es' =>
      exists W1, is_partial auto m lws o W W1 /\ ideal_run auto m lws r es' W1 W'
  | _, _ => False
  end.
Proof.
  split.
  - intro H. inversion H; subst.
    + assumption.
    + eexists; eexists; split; [eassumption|]. split; eassumption.
    + eexists; split; eassumption.
  - destruct ops as [|o r]; destruct es as [|[e|] es']; try (intro HF; contradiction).
    + intro H. apply IR_nil. exact H.
    + intros (W1 & H1 & H2). eapply IR_rej; eassumption.
    + intros (f & W1 & H1 & H2 & H3). eapply IR_ok; eassumption.
Qed.

Lemma frame_spec s s' : frame s s' =
  (map lw_geom (st_lw s') = map lw_geom (st_lw s) /\
   w_max (st_wl s') = w_max (st_wl s) /\ w_autosplit (st_wl s') = w_autosplit (st_wl s)).
Proof. reflexivity. Qed.

Lemma build_all_spec :
  build_all [] = Some [] /\
  forall c r, build_all (c :: r) =
    match (match c with CPlate a => mk_labware a | CTrough a => mk_trough a end), build_all r with
    | Ok L, Some ls => Some (L :: ls)
    | _, _ => None
    end.
Proof. split; reflexivity. Qed.

(** what [get_well_composition] reads is the fractions of the well *)
Lemma source_comp_frac L i : mix_inv L -> forall x, cget x (well_composition_at L i) == frac L x i.
Proof.
  intros HI x. rewrite well_composition_at_wca, wca_get_pfrac by apply HI.
  apply pfrac_nonneg. apply (comp_inv_frac L x i (proj2 HI)).
Qed.
