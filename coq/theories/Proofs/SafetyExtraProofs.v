(** Proofs for the additions to Props/C03.v and Props/C06.v (REVIEW.md items H3 and M13):
    - F20: [distribute] to destination wells that share one device position is accepted, tracks one
      dispense per named well but writes one dispense per position; two concrete programs (Fluent,
      EVO) whose accepted calls produce a worklist that the checked interpreter refuses;
    - [distribute] at the level of Worklist.v: the R record, its volume and its multi-dispense count;
    - [bounded_rec_full]: the A / D / R records of every reachable worklist are within max_volume;
    - [transfer] raises InvalidOperationError only for a planned step above max_volume, hence never
      with auto_split; without auto_split an oversized step is refused and leaves no record. *)
From Robo Require Import Prelude Str Wells Utils Labware Tips Records Partition Params Worklist EvoCmd
  Program Invariants Robot LabwareProofs PlanProofs RefinementProofs.
Require Import Lqa.
#[local] Open Scope Q_scope.

(* ------------------------------------------------------------------ F20: witnesses *)

#[local] Open Scope string_scope.

(** a source trough with one virtual row holding 1000, a destination trough with 4 virtual rows, empty *)
Definition dup_src : labware :=
  {| lw_name := "S"; lw_geom := {| g_rows := 1; g_cols := 1; g_vrows := Some 1%nat |};
     lw_min := 0; lw_max := 2000; lw_vols := [1000];
     lw_comp := [("S.column_01", [1])]; lw_hist := [(Some "initial", [1000])] |}.

Definition dup_dst : labware :=
  {| lw_name := "D"; lw_geom := {| g_rows := 1; g_cols := 1; g_vrows := Some 4%nat |};
     lw_min := 0; lw_max := 2000; lw_vols := [0];
     lw_comp := []; lw_hist := [(Some "initial", [0])] |}.

Definition dup_state : state :=
  {| st_lw := [dup_src; dup_dst]; st_wl := init_wl Fluent 950 true false |}.

(** distribute 20 to the virtual rows A01 and B01 of the destination trough (one Fluent position), then
    aspirate 30 from A01 *)
Definition dup_prog : list op :=
  [ODistribute 0 1 (A1 ["A01"; "B01"]) (ex_dargs 0 20);
   OAspirate 1 (A1 ["A01"]) (A1 [XQ 30]) None kw_default].

(** EVO, the state of the other examples: distribute 20 from the trough T4 to the plate well A02 named
    twice, then aspirate 30 from A02 *)
Definition dup_prog_evo : list op :=
  [ODistribute 1 0 (A1 ["A02"; "A02"]) (ex_dargs 0 20);
   OAspirate 0 (A1 ["A02"]) (A1 [XQ 30]) None kw_default].

Lemma dup_src_wf : wf_labware dup_src.
Proof.
  unfold wf_labware, wf_shape, wf_geom, vol_inv, dup_src, n_wells.
  cbn [lw_geom lw_vols lw_comp lw_hist lw_min lw_max g_rows g_cols g_vrows length snd].
  repeat split; try lia; try lra; try discriminate; repeat constructor; try lra.
Qed.

Lemma dup_dst_wf : wf_labware dup_dst.
Proof.
  unfold wf_labware, wf_shape, wf_geom, vol_inv, dup_dst, n_wells.
  cbn [lw_geom lw_vols lw_comp lw_hist lw_min lw_max g_rows g_cols g_vrows length snd].
  repeat split; try lia; try lra; try discriminate; repeat constructor; try lra.
Qed.

Lemma dup_state_good : good_state dup_state.
Proof.
  split; [|split; [|discriminate]].
  - constructor; [exact dup_src_wf|constructor; [exact dup_dst_wf|constructor]].
  - cbn. constructor; [intros [C|[]]; discriminate|constructor; [intros []|constructor]].
Qed.

(** what the two programs do *)
Lemma dup_prog_facts :
  let r := run dup_state dup_prog in
  snd r = [None; None] /\
  map render (w_recs (st_wl (fst r))) = ["R;S;;;1;1;D;;;1;1;20;W;1;1;0"; "A;D;;;1;;30.00;;;;"] /\
  map lw_vols (st_lw (fst r)) = [[960]; [10]]%Q /\
  interp true Fluent (robot_of (st_lw dup_state)) (w_recs (st_wl (fst r))) = None /\
  match interp false Fluent (robot_of (st_lw dup_state)) (w_recs (st_wl (fst r))) with
  | Some rb => map rk_vols (rb_racks rb) = [[980]; [-10]]%Q
  | None => False
  end.
Proof. vm_compute. repeat split; reflexivity. Qed.

Lemma dup_prog_evo_facts :
  let r := run (ex_state Evo) dup_prog_evo in
  snd r = [None; None] /\
  map render (w_recs (st_wl (fst r))) = ["R;T4;;;1;4;big;;;3;3;20;W;1;1;0"; "A;big;;;3;;30.00;;;;"] /\
  map lw_vols (st_lw (fst r)) = [[3000; 10; 100; 0]; [460; 500]]%Q /\
  interp true Evo (robot_of (st_lw (ex_state Evo))) (w_recs (st_wl (fst r))) = None /\
  match interp false Evo (robot_of (st_lw (ex_state Evo))) (w_recs (st_wl (fst r))) with
  | Some rb => map rk_vols (rb_racks rb) = [[3000; -10; 100; 0]; [480; 500]]%Q
  | None => False
  end.
Proof. vm_compute. repeat split; reflexivity. Qed.

#[local] Close Scope string_scope.

(** the statement of [prefix_safe] without [dst_positions_distinct] is false: Fluent *)
Theorem prefix_safe_duplicate_positions_refuted : exists s0 ops,
  good_state s0 /\ w_recs (st_wl s0) = [] /\ forallb wl_op ops = true /\
  Forall (fun o => match o with ODistribute ks _ _ _ => distribute_dev_ok s0 ks | _ => True end) ops /\
  Forall (fun e => e = None) (snd (run s0 ops)) /\
  interp true (w_dev (st_wl s0)) (robot_of (st_lw s0)) (w_recs (st_wl (fst (run s0 ops)))) = None.
Proof.
  exists dup_state, dup_prog.
  split; [exact dup_state_good|]. split; [reflexivity|]. split; [reflexivity|]. split.
  - constructor; [|constructor; [exact I|constructor]].
    right. split; [reflexivity|]. intros Ls HLs. cbn in HLs. injection HLs as <-. reflexivity.
  - destruct dup_prog_facts as (E & _ & _ & N & _). split; [|exact N].
    cbv zeta in E. rewrite E. repeat constructor.
Qed.

(** ... and on the EVO, where [distribute_dev_ok] holds for every call *)
Theorem prefix_safe_duplicate_positions_refuted_evo : exists s0 ops,
  good_state s0 /\ w_dev (st_wl s0) = Evo /\ w_recs (st_wl s0) = [] /\ forallb wl_op ops = true /\
  Forall (fun o => match o with ODistribute ks _ _ _ => distribute_dev_ok s0 ks | _ => True end) ops /\
  Forall (fun e => e = None) (snd (run s0 ops)) /\
  interp true (w_dev (st_wl s0)) (robot_of (st_lw s0)) (w_recs (st_wl (fst (run s0 ops)))) = None.
Proof.
  exists (ex_state Evo), dup_prog_evo.
  split; [apply ex_state_good; discriminate|]. split; [reflexivity|]. split; [reflexivity|].
  split; [reflexivity|]. split.
  - constructor; [left; reflexivity|constructor; [exact I|constructor]].
  - destruct dup_prog_evo_facts as (E & _ & _ & N & _). split; [|exact N].
    cbv zeta in E. rewrite E. repeat constructor.
Qed.

(** the single call: accepted, all side conditions of [distribute_replay] but the distinctness hold, and
    the replayed state differs from the tracked one (so [sim] fails after an accepted call) *)
Theorem distribute_duplicate_positions_refuted : exists s ks kd dwells a s' rb',
  good_state s /\ distribute_dev_ok s ks /\ distribute s ks kd dwells a = (s', None) /\
  interp true (w_dev (st_wl s)) (robot_of (st_lw s)) (w_recs (st_wl s')) = Some rb' /\
  map lw_vols (st_lw s') <> map rk_vols (rb_racks rb').
Proof.
  exists dup_state, 0%nat, 1%nat, (A1 ["A01"; "B01"]%string), (ex_dargs 0 20).
  eexists. eexists. split; [exact dup_state_good|]. split.
  - right. split; [reflexivity|]. intros Ls HLs. cbn in HLs. injection HLs as <-. reflexivity.
  - split; [vm_compute; reflexivity|]. split; [vm_compute; reflexivity|]. vm_compute. discriminate.
Qed.

(* ------------------------------------------------------------------ distribute: the R record *)

Lemma comment_max w c w' e : comment w c = (w', e) -> w_max w' = w_max w.
Proof. intro H. destruct (comment_spec _ _ _ _ H) as (ls & -> & _). reflexivity. Qed.

(** an accepted [distribute] appends the comment records of the label and one R record; the volume of
    the record is the requested one, within [0, max_volume]; the multi-dispense count is the requested
    one if count * volume fits into max_volume, otherwise floor(max_volume / volume), the largest count
    that fits *)
(** the comment lines an accepted call writes for its label *)
Definition label_lines (c : option string) : list string :=
  match c with
  | Some l => if String.eqb l "" then [] else comment_lines l
  | None => []
  end.

Lemma comment_ok_lines w c w' : comment w c = (w', None) -> w' = emit w (map RC (label_lines c)).
Proof.
  unfold comment, label_lines. intro H. destruct c as [l|]; [|injection H as <-; rewrite emit_nil; reflexivity].
  destruct (String.eqb l ""); [injection H as <-; rewrite emit_nil; reflexivity|].
  destruct (contains_char semi l); [discriminate H|]. injection H as <-. reflexivity.
Qed.

Theorem distribute_multi s ks kd dwells a s' :
  distribute s ks kd dwells a = (s', None) ->
  exists ls f,
    ls = label_lines (d_label a) /\
    st_wl s' = emit (st_wl s) (map RC ls ++ [RR f]) /\
    match d_volume a with
    | RVInt z => r_volume f = PyI z
    | RVFloat x => exists q, x = XQ q /\ r_volume f = PyF q
    | RVBad => False
    end /\
    0 <= pynum_q (r_volume f) /\ pynum_q (r_volume f) <= w_max (st_wl s) /\
    inject_Z (r_multi_disp f) * pynum_q (r_volume f) <= w_max (st_wl s) /\
    (inject_Z (d_multi_disp a) * pynum_q (r_volume f) <= w_max (st_wl s) ->
       r_multi_disp f = d_multi_disp a) /\
    (w_max (st_wl s) < inject_Z (d_multi_disp a) * pynum_q (r_volume f) ->
       r_multi_disp f = Qfloor (w_max (st_wl s) / pynum_q (r_volume f)) /\
       w_max (st_wl s) < inject_Z (r_multi_disp f + 1) * pynum_q (r_volume f)).
Proof.
  unfold distribute. cbv zeta. intro H.
  repeat match type of H with
         | context [match ?x with _ => _ end] => destruct x eqn:?
         | context [if ?b then _ else _] => destruct b eqn:?
         end; try discriminate.
  all: injection H as <- ->.
  all: match goal with Ec : comment _ _ = (_, None) |- _ =>
         rewrite ?st_wl_condense in Ec; cbn [st_wl set_wl set_lw] in Ec;
         pose proof (comment_max _ _ _ _ Ec) as Hmax;
         pose proof (comment_ok_lines _ _ _ Ec) as Wc end.
  all: match goal with Er : reagent_distribution _ _ = (_, None) |- _ =>
         destruct (reagent_distribution_spec _ _ _ _ Er) as (f1 & v1 & Hw & _);
         destruct (reagent_distribution_multi _ _ _ Er) as (f & Hrecs & Hvol & H0 & Hle & Hfit & Hreq & Hclamp)
       end.
  all: cbn [rd_volume rd_multi_disp] in Hvol, Hreq, Hclamp; rewrite Hmax in *.
  all: assert (Ef : f1 = f)
         by (rewrite Hw in Hrecs; cbn [w_recs emit] in Hrecs; apply app_inv_head in Hrecs; congruence).
  all: subst f1; exists (label_lines (d_label a)), f; cbn [st_wl set_wl].
  all: split; [reflexivity|].
  all: split; [rewrite Hw, Wc, emit_emit; reflexivity|].
  all: repeat (split; [assumption|]); assumption.
Qed.

(* ------------------------------------------------------------------ A / D / R records within max_volume *)

(** [bounded_rec] extended to R records: the volume of one dispense is within [0, m], and so is the
    volume aspirated for one round of multi-dispenses *)
Definition bounded_rec_full (m : Q) (r : srec) : Prop :=
  match r with
  | RA f | RD f => 0 <= ad_volume f /\ ad_volume f <= m
  | RR f => 0 <= pynum_q (r_volume f) /\ pynum_q (r_volume f) <= m /\
            inject_Z (r_multi_disp f) * pynum_q (r_volume f) <= m
  | _ => True
  end.

Lemma bounded_rec_full_weaken m r : bounded_rec_full m r -> bounded_rec m r.
Proof. destruct r; intro H; try exact I; exact H. Qed.

Definition emits_full (w w' : wstate) : Prop :=
  exists new, w' = emit w new /\ Forall (bounded_rec_full (w_max w)) new.

Lemma emits_full_refl w : emits_full w w.
Proof. exists []. rewrite emit_nil. split; [reflexivity|constructor]. Qed.

Lemma emits_full_trans w1 w2 w3 : emits_full w1 w2 -> emits_full w2 w3 -> emits_full w1 w3.
Proof.
  intros (n1 & -> & B1) (n2 & -> & B2). exists (n1 ++ n2)%list. rewrite emit_emit. split; [reflexivity|].
  apply Forall_app. split; [exact B1|exact B2].
Qed.

Lemma quiet_full m new : forallb quiet new = true -> Forall (bounded_rec_full m) new.
Proof.
  intro H. apply Forall_forall. intros r Hin. rewrite forallb_forall in H. specialize (H r Hin).
  destruct r; try exact I; discriminate.
Qed.

Lemma emits_full_quiet w w' : (exists new, w' = emit w new /\ forallb quiet new = true) -> emits_full w w'.
Proof. intros (new & Hw & Hq). exists new. split; [exact Hw|apply quiet_full; exact Hq]. Qed.

Lemma aspirate_well_full w a w' e : aspirate_well w a = (w', e) -> emits_full w w'.
Proof.
  intro H. apply aspirate_well_bounded in H. destruct e as [e|].
  - subst. apply emits_full_refl.
  - destruct H as (f & -> & H1 & H2). exists [RA f]. split; [reflexivity|].
    constructor; [split; assumption|constructor].
Qed.

Lemma dispense_well_full w a w' e : dispense_well w a = (w', e) -> emits_full w w'.
Proof.
  intro H. apply dispense_well_bounded in H. destruct e as [e|].
  - subst. apply emits_full_refl.
  - destruct H as (f & -> & H1 & H2). exists [RD f]. split; [reflexivity|].
    constructor; [split; assumption|constructor].
Qed.

Lemma reagent_distribution_full w a w' e : reagent_distribution w a = (w', e) -> emits_full w w'.
Proof.
  intro H. destruct e as [e|].
  - apply reagent_distribution_spec in H. subst. apply emits_full_refl.
  - destruct (reagent_distribution_spec _ _ _ _ H) as (f1 & v1 & Hw & _).
    destruct (reagent_distribution_multi _ _ _ H) as (f & Hrecs & _ & H0 & Hle & Hfit & _).
    assert (Ef : f1 = f)
      by (rewrite Hw in Hrecs; cbn [w_recs emit] in Hrecs; apply app_inv_head in Hrecs; congruence).
    subst f1. exists [RR f]. split; [exact Hw|]. constructor; [|constructor].
    cbn [bounded_rec_full]. repeat split; assumption.
Qed.

Lemma emit_wells_full asp kw L : forall items w w' e,
  emit_wells asp w L items kw = (w', e) -> emits_full w w'.
Proof.
  induction items as [|[well x] rest IH]; intros w w' e H; cbn [emit_wells] in H.
  - injection H as <- <-. apply emits_full_refl.
  - destruct (xpos x); [|eapply IH; exact H].
    destruct (device_position (w_dev w) (lw_geom L) well) as [pos|e0]; [|injection H as <- <-; apply emits_full_refl].
    destruct ((if asp then aspirate_well else dispense_well) w (ad_of_kw (lw_name L) pos (xq x) kw))
      as [w1 e1] eqn:E1.
    assert (H1 : emits_full w w1)
      by (destruct asp; [eapply aspirate_well_full|eapply dispense_well_full]; exact E1).
    destruct e1 as [e1|]; [injection H as <- <-; exact H1|].
    eapply emits_full_trans; [exact H1|eapply IH; exact H].
Qed.

Lemma aspirate_full s k wells vols label kw s' e :
  aspirate s k wells vols label kw = (s', e) -> emits_full (st_wl s) (st_wl s').
Proof.
  unfold aspirate, wells_vols. cbv zeta. intro H.
  destruct (nth_error (st_lw s) k) as [L|]; [|injection H as <- <-; apply emits_full_refl].
  cbv beta iota in H. destruct (remove L _ _ label) as [L' [e1|]]; [injection H as <- <-; apply emits_full_refl|].
  cbn [st_wl set_lw] in H. destruct (comment (st_wl s) label) as [w e2] eqn:Ec.
  pose proof (emits_full_quiet _ _ (comment_quiet _ _ _ _ Ec)) as H1.
  destruct e2 as [e2|]; [injection H as <- <-; exact H1|].
  destruct (emit_wells true w L' _ kw) as [w' e3] eqn:Ee. injection H as <- <-. cbn [st_wl set_wl].
  eapply emits_full_trans; [exact H1|eapply emit_wells_full; exact Ee].
Qed.

Lemma dispense_full s k wells vols label comps kw s' e :
  dispense s k wells vols label comps kw = (s', e) -> emits_full (st_wl s) (st_wl s').
Proof.
  unfold dispense, wells_vols. cbv zeta. intro H.
  destruct (nth_error (st_lw s) k) as [L|]; [|injection H as <- <-; apply emits_full_refl].
  cbv beta iota in H. destruct (add L _ _ label comps) as [L' [e1|]]; [injection H as <- <-; apply emits_full_refl|].
  cbn [st_wl set_lw] in H. destruct (comment (st_wl s) label) as [w e2] eqn:Ec.
  pose proof (emits_full_quiet _ _ (comment_quiet _ _ _ _ Ec)) as H1.
  destruct e2 as [e2|]; [injection H as <- <-; exact H1|].
  destruct (emit_wells false w L' _ kw) as [w' e3] eqn:Ee. injection H as <- <-. cbn [st_wl set_wl].
  eapply emits_full_trans; [exact H1|eapply emit_wells_full; exact Ee].
Qed.

Lemma exec_step_full s ks kd sw dw v ws kw s' e :
  exec_step s ks kd sw dw v ws kw = (s', e) -> emits_full (st_wl s) (st_wl s').
Proof.
  unfold exec_step. intro H.
  destruct (aspirate s ks (A0 sw) (A0 (XQ v)) None kw) as [s1 e1] eqn:Ea.
  pose proof (aspirate_full _ _ _ _ _ _ _ _ Ea) as H1.
  destruct e1 as [e1|]; [injection H as <- <-; exact H1|].
  destruct (nth_error (st_lw s1) ks) as [Ls|]; [|injection H as <- <-; exact H1].
  destruct (get_well_composition Ls sw) as [c|e2]; [|injection H as <- <-; exact H1].
  destruct (dispense s1 kd (A0 dw) (A0 (XQ v)) None (Some [Some c]) kw) as [s2 e3] eqn:Ed.
  pose proof (emits_full_trans _ _ _ H1 (dispense_full _ _ _ _ _ _ _ _ _ Ed)) as H2.
  destruct e3 as [e3|]; [injection H as <- <-; exact H2|].
  destruct (tip_action (st_wl s2) ws) as [w e4] eqn:Et. injection H as <- <-. cbn [st_wl set_wl].
  eapply emits_full_trans; [exact H2|]. apply emits_full_quiet. eapply tip_action_spec. exact Et.
Qed.

Lemma exec_full ks kd ws kw acts : forall s s' e,
  exec s ks kd acts ws kw = (s', e) -> emits_full (st_wl s) (st_wl s').
Proof.
  induction acts as [|a rest IH]; intros s s' e H; cbn [exec] in H.
  - injection H as <- <-. apply emits_full_refl.
  - destruct a as [sw dw v|].
    + destruct (exec_step s ks kd sw dw v ws kw) as [s1 e1] eqn:Es.
      pose proof (exec_step_full _ _ _ _ _ _ _ _ _ _ Es) as H1.
      destruct e1 as [e1|]; [injection H as <- <-; exact H1|].
      eapply emits_full_trans; [exact H1|eapply IH; exact H].
    + apply IH in H. cbn [st_wl set_wl commit fst] in H.
      eapply emits_full_trans; [|exact H]. exists [RB]. split; [reflexivity|]. constructor; [exact I|constructor].
Qed.

Lemma transfer_full s ks swells kd dwells vols label ws pb kw s' e :
  transfer s ks swells kd dwells vols label ws pb kw = (s', e) -> emits_full (st_wl s) (st_wl s').
Proof.
  unfold transfer. cbv zeta. intro H.
  assert (Hstop : forall e0, (s, Some e0) = (s', e) -> emits_full (st_wl s) (st_wl s'))
    by (intros e0 E; injection E as <- <-; apply emits_full_refl).
  destruct (w_dev (st_wl s)); try apply (Hstop _ H).
  all: destruct (nth_error (st_lw s) ks) as [Ls|]; [|apply (Hstop _ H)];
    destruct (nth_error (st_lw s) kd) as [Ld|]; [|apply (Hstop _ H)];
    destruct (negb _); [apply (Hstop _ H)|];
    destruct (existsb _ _); [apply (Hstop _ H)|];
    destruct (_ || _); [apply (Hstop _ H)|];
    destruct (optimize_partition_by _ _ pb) as [mode|e0]; [|apply (Hstop _ H)];
    destruct (comment (st_wl s) label) as [w e1] eqn:Ec;
    pose proof (emits_full_quiet _ _ (comment_quiet _ _ _ _ Ec)) as H1;
    (destruct e1 as [e1|]; [injection H as <- <-; exact H1|]);
    match type of H with context [exec ?st ?k1 ?k2 ?a ?sc ?kk] =>
      destruct (exec st k1 k2 a sc kk) as [s1 e2] eqn:Ee end;
    pose proof (emits_full_trans _ _ _ H1 (exec_full _ _ _ _ _ _ _ _ Ee)) as H2;
    (destruct e2 as [e2|]; [injection H as <- <-; exact H2|]);
    destruct (ks =? kd)%nat; injection H as <- <-; rewrite ?st_wl_condense; exact H2.
Qed.

Lemma distribute_full s ks kd dwells a s' e :
  distribute s ks kd dwells a = (s', e) -> emits_full (st_wl s) (st_wl s').
Proof.
  intro H. destruct e as [e|].
  - destruct (distribute_quiet_fail _ _ _ _ _ _ _ H) as (new & Hw & _ & Hq).
    apply emits_full_quiet. exists new. split; [exact Hw|apply Hq; discriminate].
  - destruct (distribute_multi _ _ _ _ _ _ H) as (ls & f & _ & Hw & _ & H0 & Hle & Hfit & _).
    exists (map RC ls ++ [RR f])%list. split; [exact Hw|]. apply Forall_app. split.
    + apply Forall_forall. intros r Hin. apply in_map_iff in Hin. destruct Hin as (l & <- & _). exact I.
    + constructor; [|constructor]. cbn [bounded_rec_full]. repeat split; assumption.
Qed.

Lemma evo_aspirate_full s k a label s' e :
  evo_aspirate s k a label = (s', e) -> emits_full (st_wl s) (st_wl s').
Proof.
  unfold evo_aspirate, wells_vols. cbv zeta. intro H.
  repeat match type of H with
         | context [match comment ?w ?l with _ => _ end] => destruct (comment w l) as [wc ec] eqn:Ec
         | context [match ?x with _ => _ end] => destruct x
         end;
    injection H as <- <-; cbn [st_wl set_wl set_lw]; try apply emits_full_refl;
    cbn [st_wl set_lw] in Ec; pose proof (emits_full_quiet _ _ (comment_quiet _ _ _ _ Ec)) as H1; try exact H1.
  eapply emits_full_trans; [exact H1|]. eexists. split; [reflexivity|]. constructor; [exact I|constructor].
Qed.

Lemma evo_dispense_full s k a label comps s' e :
  evo_dispense s k a label comps = (s', e) -> emits_full (st_wl s) (st_wl s').
Proof.
  unfold evo_dispense, wells_vols. cbv zeta. intro H.
  repeat match type of H with
         | context [match comment ?w ?l with _ => _ end] => destruct (comment w l) as [wc ec] eqn:Ec
         | context [match ?x with _ => _ end] => destruct x
         end;
    injection H as <- <-; cbn [st_wl set_wl set_lw]; try apply emits_full_refl;
    cbn [st_wl set_lw] in Ec; pose proof (emits_full_quiet _ _ (comment_quiet _ _ _ _ Ec)) as H1; try exact H1.
  eapply emits_full_trans; [exact H1|]. eexists. split; [reflexivity|]. constructor; [exact I|constructor].
Qed.

Lemma evo_wash_full s a s' e : evo_wash s a = (s', e) -> emits_full (st_wl s) (st_wl s').
Proof.
  unfold evo_wash. intro H. destruct (evo_wash_cmd a) as [cmd|e0]; injection H as <- <-.
  - eexists. split; [reflexivity|]. constructor; [exact I|constructor].
  - apply emits_full_refl.
Qed.

Lemma on_wl_full s f s' e : (forall w w' e0, f w = (w', e0) -> emits_full w w') ->
  on_wl s f = (s', e) -> emits_full (st_wl s) (st_wl s').
Proof.
  intros Hf H. unfold on_wl in H. destruct (f (st_wl s)) as [w e0] eqn:E. injection H as <- <-.
  eapply Hf. exact E.
Qed.

Lemma on_lw_full s k f s' e : on_lw s k f = (s', e) -> emits_full (st_wl s) (st_wl s').
Proof.
  unfold on_lw. intro H. destruct (nth_error (st_lw s) k) as [L|].
  - destruct (f L) as [L' e0]. injection H as <- <-. apply emits_full_refl.
  - injection H as <- <-. apply emits_full_refl.
Qed.

(** every operation of a program, accepted or rejected *)
Theorem step_full s o s' e : step s o = (s', e) -> emits_full (st_wl s) (st_wl s').
Proof.
  destruct o as [k wells vols label comps|k wells vols label|k n label|k wells vols label kw
                |k wells vols label comps kw|ks swells kd dwells vols label ws pb kw|ks kd dwells a
                |c|sch| | | |i|a|a|a|k a label|k a label comps|a]; cbn [step]; intro H.
  - eapply on_lw_full; exact H.
  - eapply on_lw_full; exact H.
  - eapply on_lw_full; exact H.
  - eapply aspirate_full; exact H.
  - eapply dispense_full; exact H.
  - eapply transfer_full; exact H.
  - eapply distribute_full; exact H.
  - eapply on_wl_full; [|exact H]. intros w w' e0 E. apply emits_full_quiet. eapply comment_quiet. exact E.
  - eapply on_wl_full; [|exact H]. intros w w' e0 E. apply emits_full_quiet. eapply wash_spec. exact E.
  - eapply on_wl_full; [|exact H]. intros w w' e0 E. apply emits_full_quiet. eapply decontaminate_spec. exact E.
  - eapply on_wl_full; [|exact H]. intros w w' e0 E. apply emits_full_quiet. eapply flush_spec. exact E.
  - eapply on_wl_full; [|exact H]. intros w w' e0 E. apply emits_full_quiet. eapply commit_spec. exact E.
  - eapply on_wl_full; [|exact H]. intros w w' e0 E. apply emits_full_quiet. eapply set_diti_spec. exact E.
  - eapply on_wl_full; [|exact H]. intros w w' e0 E. eapply aspirate_well_full. exact E.
  - eapply on_wl_full; [|exact H]. intros w w' e0 E. eapply dispense_well_full. exact E.
  - eapply on_wl_full; [|exact H]. intros w w' e0 E. eapply reagent_distribution_full. exact E.
  - destruct (w_dev (st_wl s)); try (injection H as <- <-; apply emits_full_refl).
    eapply evo_aspirate_full; exact H.
  - destruct (w_dev (st_wl s)); try (injection H as <- <-; apply emits_full_refl).
    eapply evo_dispense_full; exact H.
  - destruct (w_dev (st_wl s)); try (injection H as <- <-; apply emits_full_refl).
    eapply evo_wash_full; exact H.
Qed.

Theorem run_full ops : forall s, emits_full (st_wl s) (st_wl (fst (run s ops))).
Proof.
  induction ops as [|o r IH]; intro s.
  - cbn [run fst]. apply emits_full_refl.
  - rewrite run_cons. cbn [fst]. destruct (step s o) as [s1 e1] eqn:Es. cbn [fst].
    eapply emits_full_trans; [eapply step_full; exact Es|apply IH].
Qed.

(** every A / D / R record of every worklist reachable from an empty one, whatever the outcomes of the
    calls (accepted, rejected, continued after a rejection) *)
Theorem run_records_bounded_full s ops : w_recs (st_wl s) = [] ->
  w_max (st_wl (fst (run s ops))) = w_max (st_wl s) /\
  Forall (bounded_rec_full (w_max (st_wl s))) (w_recs (st_wl (fst (run s ops)))).
Proof.
  intro Hrecs. destruct (run_full ops s) as (new & Hw & Hb). rewrite Hw. cbn [w_max w_recs emit].
  rewrite Hrecs. cbn [app]. split; [reflexivity|exact Hb].
Qed.

(** ... and from any worklist whose records are bounded *)
Theorem run_records_bounded_full_from s ops :
  Forall (bounded_rec_full (w_max (st_wl s))) (w_recs (st_wl s)) ->
  Forall (bounded_rec_full (w_max (st_wl s))) (w_recs (st_wl (fst (run s ops)))).
Proof.
  intro H0. destruct (run_full ops s) as (new & Hw & Hb). rewrite Hw. cbn [w_recs emit].
  apply Forall_app. split; [exact H0|exact Hb].
Qed.

(* ------------------------------------------------------------------ where InvalidOperationError comes from *)

Lemma check_position_err p e : check_position p = Err e -> e = EReject.
Proof.
  unfold check_position. destruct p as [z|]; [|intro H; congruence].
  destruct (z <? 0)%Z; intro H; congruence.
Qed.

Lemma tip_mask_err t e : tip_mask t = Err e -> e = EReject.
Proof.
  unfold tip_mask. intro H.
  repeat match type of H with context [match ?x with _ => _ end] => destruct x end; congruence.
Qed.

Lemma check_volume_invalid pv m : check_volume pv (Some m) = Err EInvalidOp -> exists v, pv = PV (XQ v) /\ m < v.
Proof.
  unfold check_volume. destruct pv as [[v| | |]|]; try discriminate.
  destruct (Qltb v 0); [discriminate|]. destruct (Qgtb v max_tecan_volume); [discriminate|].
  destruct (Qgtb v m) eqn:E; [|discriminate]. intros _. exists v. split; [reflexivity|].
  apply Qgtb_true_iff. exact E.
Qed.

(** the argument check of an A / D record raises InvalidOperationError only for a volume above max_volume *)
Lemma prepare_ad_invalid a m : prepare_ad a (Some m) = Err EInvalidOp ->
  exists v, x_volume a = PV (XQ v) /\ m < v.
Proof.
  unfold prepare_ad. intro H.
  destruct (text_ok true (x_rack_label a)) as [label|]; [|discriminate].
  destruct (check_position (x_position a)) as [pos|e2] eqn:E2;
    [|apply check_position_err in E2; congruence].
  destruct (check_volume (x_volume a) (Some m)) as [v|e3] eqn:E3.
  - exfalso. destruct (text_ok false (x_liquid_class a)) as [lc|]; [|discriminate].
    destruct (tip_mask (x_tip a)) as [mask|e5] eqn:E5; [|apply tip_mask_err in E5; congruence].
    destruct (text_ok true (x_rack_id a)) as [rid|]; [|discriminate].
    destruct (text_ok false (x_tube_id a)) as [tid|]; [|discriminate].
    destruct (text_ok true (x_rack_type a)) as [rty|]; [|discriminate].
    destruct (text_ok true (x_forced a)) as [frt|]; discriminate.
  - injection H as ->. apply check_volume_invalid. exact E3.
Qed.

Lemma device_position_err d g s e : device_position d g s = Err e -> e = EReject \/ e = ECompat.
Proof.
  unfold device_position, evo_position, fluent_position. intro H.
  repeat match type of H with
         | context [match ?x with _ => _ end] => destruct x
         | context [if ?b then _ else _] => destruct b
         end; try discriminate; injection H as <-; auto.
Qed.

Lemma comment_err w c w' e : comment w c = (w', Some e) -> e = EReject.
Proof.
  unfold comment. intro H.
  repeat match type of H with
         | context [match ?x with _ => _ end] => destruct x
         | context [if ?b then _ else _] => destruct b
         end; congruence.
Qed.

Lemma tip_action_err w ws w' e : tip_action w ws = (w', Some e) -> e = EReject.
Proof.
  unfold tip_action, wash, flush. intro H.
  repeat match type of H with
         | context [match ?x with _ => _ end] => destruct x
         | context [if ?b then _ else _] => destruct b
         end; congruence.
Qed.

Lemma prep_wells_vols_err wells vols e : prep_wells_vols wells vols = Err e -> e = EReject.
Proof.
  unfold prep_wells_vols. intro H.
  repeat match type of H with context [if ?b then _ else _] => destruct b end; congruence.
Qed.

Lemma rem_run_err L items L' e : rem_run L items L' (Some e) -> e = EReject \/ e = EUnderflow.
Proof.
  intro H. remember (Some e) as oe eqn:Eo.
  induction H as [L|L w x rest Hi|L w x rest i Hi Hx|L w v rest i Hi Hg|L w v rest i L' e' Hi Hg Hr IH];
    try (injection Eo as <-; auto); try discriminate. apply IH. exact Eo.
Qed.

Lemma add_run_err L items L' e : add_run L items L' (Some e) -> e = EReject \/ e = EOverflow.
Proof.
  intro H. remember (Some e) as oe eqn:Eo.
  induction H as [L|L w x oc rest Hi|L w x oc rest i Hi Hx|L w v oc rest i Hi Hg
                 |L w v oc rest i L' e' Hi Hg Hr IH];
    try (injection Eo as <-; auto); try discriminate. apply IH. exact Eo.
Qed.

Lemma remove_err L wells vols label L' e : remove L wells vols label = (L', Some e) ->
  e = EReject \/ e = EUnderflow.
Proof.
  unfold remove. intro H. destruct (prep_wells_vols wells vols) as [wv|e0] eqn:Ep.
  - destruct (remove_loop L wv) as [L1 [e1|]] eqn:El; [|discriminate].
    injection H as _ <-. apply remove_loop_run in El. eapply rem_run_err. exact El.
  - injection H as _ <-. left. eapply prep_wells_vols_err. exact Ep.
Qed.

Lemma add_err L wells vols label comps L' e : add L wells vols label comps = (L', Some e) ->
  e = EReject \/ e = EOverflow.
Proof.
  unfold add. intro H. destruct (prep_wells_vols wells vols) as [wv|e0] eqn:Ep.
  - match type of H with context [negb ?b] => destruct b end; cbn [negb] in H; [|injection H as _ <-; auto].
    match type of H with context [add_loop L ?it] => destruct (add_loop L it) as [L1 [e1|]] eqn:El end;
      [|discriminate].
    injection H as _ <-. apply add_loop_run in El. eapply add_run_err. exact El.
  - injection H as _ <-. left. eapply prep_wells_vols_err. exact Ep.
Qed.

Lemma emits_max w w' : emits_bounded w w' -> w_max w' = w_max w.
Proof. intros (new & -> & _). reflexivity. Qed.

(** the record loop: InvalidOperationError only for an item above max_volume *)
Lemma emit_wells_invalid asp kw L : forall items w w',
  emit_wells asp w L items kw = (w', Some EInvalidOp) ->
  exists well x, In (well, x) items /\ w_max w < xq x.
Proof.
  induction items as [|[well x] rest IH]; intros w w' H; cbn [emit_wells] in H; [discriminate|].
  assert (Hrest : forall w0, w_max w0 = w_max w -> emit_wells asp w0 L rest kw = (w', Some EInvalidOp) ->
            exists well0 x0, In (well0, x0) ((well, x) :: rest) /\ w_max w < xq x0).
  { intros w0 Hm H0. destruct (IH _ _ H0) as (well0 & x0 & Hin & Hlt). exists well0, x0.
    split; [right; exact Hin|rewrite <- Hm; exact Hlt]. }
  destruct (xpos x); [|apply (Hrest w eq_refl H)].
  destruct (device_position (w_dev w) (lw_geom L) well) as [pos|e0] eqn:Ep.
  2:{ injection H as _ ->. apply device_position_err in Ep. destruct Ep; discriminate. }
  destruct ((if asp then aspirate_well else dispense_well) w (ad_of_kw (lw_name L) pos (xq x) kw))
    as [w1 e1] eqn:E1.
  destruct e1 as [e1|].
  - injection H as _ ->. exists well, x. split; [left; reflexivity|].
    assert (Hp : prepare_ad (ad_of_kw (lw_name L) pos (xq x) kw) (Some (w_max w)) = Err EInvalidOp).
    { destruct asp; [unfold aspirate_well in E1|unfold dispense_well in E1];
        destruct (prepare_ad (ad_of_kw (lw_name L) pos (xq x) kw) (Some (w_max w))) as [f|e2];
        congruence. }
    destruct (prepare_ad_invalid _ _ Hp) as (v & Hv & Hlt). cbn [ad_of_kw x_volume] in Hv.
    injection Hv as Hv. rewrite Hv. exact Hlt.
  - apply (Hrest w1); [|exact H].
    apply emits_max. destruct asp; [eapply aspirate_well_emits|eapply dispense_well_emits]; exact E1.
Qed.

Lemma aspirate_invalid s k wells vols label kw s' :
  aspirate s k wells vols label kw = (s', Some EInvalidOp) ->
  exists x, In x (snd (wells_vols wells vols)) /\ w_max (st_wl s) < xq x.
Proof.
  unfold aspirate. intro H.
  destruct (nth_error (st_lw s) k) as [L|]; [|discriminate].
  destruct (wells_vols wells vols) as [wl vl]. cbn [snd].
  destruct (remove L (A1 wl) (A1 vl) label) as [L' [e1|]] eqn:Er.
  { injection H as _ ->. apply remove_err in Er. destruct Er; discriminate. }
  cbn [st_wl set_lw] in H. destruct (comment (st_wl s) label) as [w [e2|]] eqn:Ec.
  { injection H as _ ->. apply comment_err in Ec. discriminate. }
  destruct (emit_wells true w L' (zip wl vl) kw) as [w' e3] eqn:Ee. injection H as _ ->.
  destruct (emit_wells_invalid _ _ _ _ _ _ Ee) as (well & x & Hin & Hlt).
  exists x. split; [apply zip_In in Hin; exact (proj2 Hin)|]. rewrite <- (comment_max _ _ _ _ Ec). exact Hlt.
Qed.

Lemma dispense_invalid s k wells vols label comps kw s' :
  dispense s k wells vols label comps kw = (s', Some EInvalidOp) ->
  exists x, In x (snd (wells_vols wells vols)) /\ w_max (st_wl s) < xq x.
Proof.
  unfold dispense. intro H.
  destruct (nth_error (st_lw s) k) as [L|]; [|discriminate].
  destruct (wells_vols wells vols) as [wl vl]. cbn [snd].
  destruct (add L (A1 wl) (A1 vl) label comps) as [L' [e1|]] eqn:Er.
  { injection H as _ ->. apply add_err in Er. destruct Er; discriminate. }
  cbn [st_wl set_lw] in H. destruct (comment (st_wl s) label) as [w [e2|]] eqn:Ec.
  { injection H as _ ->. apply comment_err in Ec. discriminate. }
  destruct (emit_wells false w L' (zip wl vl) kw) as [w' e3] eqn:Ee. injection H as _ ->.
  destruct (emit_wells_invalid _ _ _ _ _ _ Ee) as (well & x & Hin & Hlt).
  exists x. split; [apply zip_In in Hin; exact (proj2 Hin)|]. rewrite <- (comment_max _ _ _ _ Ec). exact Hlt.
Qed.

Lemma get_well_composition_err L w e : get_well_composition L w = Err e -> e = EReject.
Proof. unfold get_well_composition. destruct (lw_index L w); congruence. Qed.

(** one pipetting pair raises InvalidOperationError only if its volume is above max_volume *)
Lemma exec_step_invalid s ks kd sw dw v ws kw s' :
  exec_step s ks kd sw dw v ws kw = (s', Some EInvalidOp) -> w_max (st_wl s) < v.
Proof.
  unfold exec_step. intro H.
  destruct (aspirate s ks (A0 sw) (A0 (XQ v)) None kw) as [s1 [e1|]] eqn:Ea.
  { injection H as _ ->. destruct (aspirate_invalid _ _ _ _ _ _ _ Ea) as (x & Hin & Hlt).
    cbn in Hin. destruct Hin as [<-|[]]. exact Hlt. }
  pose proof (emits_max _ _ (aspirate_emits _ _ _ _ _ _ _ _ Ea)) as Hm1.
  destruct (nth_error (st_lw s1) ks) as [Ls|]; [|discriminate].
  destruct (get_well_composition Ls sw) as [c|e2] eqn:Eg.
  2:{ injection H as _ ->. apply get_well_composition_err in Eg. discriminate. }
  destruct (dispense s1 kd (A0 dw) (A0 (XQ v)) None (Some [Some c]) kw) as [s2 [e3|]] eqn:Ed.
  { injection H as _ ->. destruct (dispense_invalid _ _ _ _ _ _ _ _ Ed) as (x & Hin & Hlt).
    cbn in Hin. destruct Hin as [<-|[]]. rewrite <- Hm1. exact Hlt. }
  destruct (tip_action (st_wl s2) ws) as [w [e4|]] eqn:Et; [|discriminate].
  injection H as _ ->. apply tip_action_err in Et. discriminate.
Qed.

Lemma exec_invalid ks kd ws kw acts : forall s s',
  exec s ks kd acts ws kw = (s', Some EInvalidOp) ->
  exists sw dw v, In (Step sw dw v) acts /\ w_max (st_wl s) < v.
Proof.
  induction acts as [|a rest IH]; intros s s' H; cbn [exec] in H; [discriminate|].
  destruct a as [sw dw v|].
  - destruct (exec_step s ks kd sw dw v ws kw) as [s1 [e1|]] eqn:Es.
    + injection H as _ ->. exists sw, dw, v. split; [left; reflexivity|eapply exec_step_invalid; exact Es].
    + destruct (IH _ _ H) as (sw0 & dw0 & v0 & Hin & Hlt). exists sw0, dw0, v0.
      split; [right; exact Hin|]. rewrite <- (emits_max _ _ (exec_step_emits _ _ _ _ _ _ _ _ _ _ Es)). exact Hlt.
  - destruct (IH _ _ H) as (sw0 & dw0 & v0 & Hin & Hlt). exists sw0, dw0, v0.
    split; [right; exact Hin|exact Hlt].
Qed.

(** [transfer] raises InvalidOperationError only because a planned step is above max_volume *)
Theorem transfer_invalid s ks swells kd dwells vols label ws pb kw s' :
  transfer s ks swells kd dwells vols label ws pb kw = (s', Some EInvalidOp) ->
  exists Ls Ld mode sw dw v,
    nth_error (st_lw s) ks = Some Ls /\ nth_error (st_lw s) kd = Some Ld /\
    optimize_partition_by (is_trough (lw_geom Ls)) (is_trough (lw_geom Ld)) pb = Ok mode /\
    In (Step sw dw v) (plan (w_autosplit (st_wl s)) (w_max (st_wl s)) mode (t_triples swells dwells vols)) /\
    w_max (st_wl s) < v.
Proof.
  unfold transfer. cbv zeta. fold (t_n swells dwells vols).
  fold (t_src swells dwells vols). fold (t_dst swells dwells vols). fold (t_vol swells dwells vols).
  fold (t_triples swells dwells vols).
  intro H.
  destruct (w_dev (st_wl s)); [| |discriminate].
  all: destruct (nth_error (st_lw s) ks) as [Ls|] eqn:ELs; [|discriminate].
  all: destruct (nth_error (st_lw s) kd) as [Ld|] eqn:ELd; [|discriminate].
  all: match type of H with (if ?c then _ else _) = _ => destruct c; [discriminate|] end.
  all: match type of H with (if ?c then _ else _) = _ => destruct c; [discriminate|] end.
  all: match type of H with (if ?c then _ else _) = _ => destruct c; [discriminate|] end.
  all: destruct (optimize_partition_by (is_trough (lw_geom Ls)) (is_trough (lw_geom Ld)) pb)
         as [mode|eo] eqn:Emode; [|discriminate].
  all: destruct (comment (st_wl s) label) as [w [ec|]] eqn:Ec;
         [injection H as _ ->; apply comment_err in Ec; discriminate|].
  all: destruct (comment_cfg _ _ _ _ Ec) as (C1 & C2 & _); pose proof (comment_max _ _ _ _ Ec) as Cm.
  all: match type of H with context [exec ?s0 ?k1 ?k2 ?acts ?w1 ?w2] =>
         destruct (exec s0 k1 k2 acts w1 w2) as [s2 [ee|]] eqn:Ee end.
  all: try (destruct (ks =? kd)%nat; discriminate).
  all: injection H as _ ->.
  all: destruct (exec_invalid _ _ _ _ _ _ _ Ee) as (sw & dw & v & Hin & Hlt); cbn [st_wl set_wl] in Hlt.
  all: exists Ls, Ld, mode, sw, dw, v; rewrite Cm in *; rewrite <- ?C1, <- ?C2.
  all: split; [reflexivity|]; split; [reflexivity|]; split; [exact Emode|]; split; [exact Hin|exact Hlt].
Qed.

(** hence an automatically split transfer is never refused for being too large *)
Theorem transfer_autosplit_never_invalid s ks swells kd dwells vols label ws pb kw s' e :
  w_autosplit (st_wl s) = true -> 0 < w_max (st_wl s) ->
  transfer s ks swells kd dwells vols label ws pb kw = (s', Some e) -> e <> EInvalidOp.
Proof.
  intros Ha Hm H ->. destruct (transfer_invalid _ _ _ _ _ _ _ _ _ _ _ H) as (Ls & Ld & mode & sw & dw & v & _ & _ & _ & Hin & Hlt).
  rewrite Ha in Hin. destruct (plan_steps_positive _ _ _ _ _ _ _ Hm Hin) as (_ & Hle & _).
  specialize (Hle eq_refl). lra.
Qed.

(* ------------------------------------------------------------------ without auto_split *)

(** a pipetting pair whose volume is above max_volume fails (with whatever exception comes first) and
    appends nothing to the worklist; the source labware may already have been charged *)
Lemma exec_step_oversized s ks kd sw dw v ws kw : 0 < v -> w_max (st_wl s) < v ->
  exists s1 e, exec_step s ks kd sw dw v ws kw = (s1, Some e) /\ st_wl s1 = st_wl s.
Proof.
  intros Hv Hlt. unfold exec_step.
  destruct (aspirate s ks (A0 sw) (A0 (XQ v)) None kw) as [s1 e1] eqn:Ea.
  destruct (aspirate_single _ _ _ _ _ _ _ Hv Ea) as [_ Hr]. destruct e1 as [e1|].
  - exists s1, e1. split; [reflexivity|exact Hr].
  - exfalso. destruct Hr as (L & pos & f & _ & _ & Hp & _).
    destruct (prepare_ad_kw _ _ _ _ _ _ Hp) as (_ & _ & _ & _ & _ & Hle). lra.
Qed.

Lemma exec_app ks kd ws kw pre : forall s post,
  exec s ks kd (pre ++ post) ws kw =
  match exec s ks kd pre ws kw with
  | (s1, None) => exec s1 ks kd post ws kw
  | (s1, Some e) => (s1, Some e)
  end.
Proof.
  induction pre as [|a rest IH]; intros s post; cbn [app exec]; [reflexivity|].
  destruct a as [sw dw v|]; [|apply IH].
  destruct (exec_step s ks kd sw dw v ws kw) as [s1 [e1|]]; [reflexivity|apply IH].
Qed.

Definition steps_le (m : Q) (acts : list action) : Prop :=
  Forall (fun a => match a with Step _ _ x => x <= m | Commit => True end) acts.

(** the first planned step above [m] *)
Lemma first_oversized m acts : (exists sw dw v, In (Step sw dw v) acts /\ m < v) ->
  exists pre sw dw v post, acts = (pre ++ Step sw dw v :: post)%list /\ steps_le m pre /\ m < v.
Proof.
  induction acts as [|a rest IH]; intros (sw & dw & v & Hin & Hlt); [destruct Hin|].
  assert (Hgo : (exists sw0 dw0 v0, In (Step sw0 dw0 v0) rest /\ m < v0) ->
                match a with Step _ _ x => x <= m | Commit => True end ->
                exists pre sw0 dw0 v0 post, a :: rest = (pre ++ Step sw0 dw0 v0 :: post)%list /\
                  steps_le m pre /\ m < v0).
  { intros Hex Ha. destruct (IH Hex) as (pre & sw0 & dw0 & v0 & post & -> & Hpre & Hlt0).
    exists (a :: pre), sw0, dw0, v0, post. split; [reflexivity|]. split; [constructor; assumption|exact Hlt0]. }
  destruct a as [sw1 dw1 v1|].
  - destruct (Qlt_le_dec m v1) as [Hbig|Hok].
    + exists [], sw1, dw1, v1, rest. split; [reflexivity|]. split; [constructor|exact Hbig].
    + apply Hgo; [|exact Hok]. destruct Hin as [Hin|Hin]; [|exists sw, dw, v; split; assumption].
      injection Hin as _ _ <-. lra.
  - apply Hgo; [|exact I]. destruct Hin as [Hin|Hin]; [discriminate|]. exists sw, dw, v. split; assumption.
Qed.

Lemma zip_In_r {A B} (l1 : list A) : forall (l2 : list B) b, length l1 = length l2 -> In b l2 ->
  exists a, In (a, b) (zip l1 l2).
Proof.
  induction l1 as [|x r IH]; intros [|y s] b Hlen Hb; cbn [zip In length] in *; try contradiction; try lia.
  destruct Hb as [<-|Hb].
  - exists x. left. reflexivity.
  - destruct (IH s b) as [a Ha]; [lia|exact Hb|]. exists a. right. exact Ha.
Qed.

(** C06 / C03, without auto_split: a transfer that contains a volume above max_volume is never accepted.
    Either the arguments are refused before anything happens, or the plan has a first step above
    max_volume; the pairs planned before it are executed (and, if they succeed, their records ARE in the
    worklist); the oversized pair itself appends nothing; if its source well accepts the removal and its
    address is valid the exception is InvalidOperationError, raised after the source labware has been
    charged. *)
Theorem transfer_nosplit_refused s ks swells kd dwells vols label ws pb kw s' e v :
  w_autosplit (st_wl s) = false -> In v (t_vol swells dwells vols) -> 0 < v -> w_max (st_wl s) < v ->
  transfer s ks swells kd dwells vols label ws pb kw = (s', e) ->
  exists e0, e = Some e0 /\
    ((st_lw s' = st_lw s /\ st_wl s' = st_wl s /\ (e0 = ECompat \/ e0 = EReject)) \/
     exists mode w pre sw dw v1 post,
       comment (st_wl s) label = (w, None) /\
       plan false (w_max (st_wl s)) mode (t_triples swells dwells vols) = (pre ++ Step sw dw v1 :: post)%list /\
       steps_le (w_max (st_wl s)) pre /\ 0 < v1 /\ w_max (st_wl s) < v1 /\
       (exec (set_wl s w) ks kd pre ws kw = (s', Some e0) \/
        exists s1, exec (set_wl s w) ks kd pre ws kw = (s1, None) /\
          exec_step s1 ks kd sw dw v1 ws kw = (s', Some e0) /\ st_wl s' = st_wl s1 /\
          forall L L' pos, nth_error (st_lw s1) ks = Some L ->
            remove L (A1 [sw]) (A1 [XQ v1]) None = (L', None) ->
            device_position (w_dev (st_wl s)) (lw_geom L) sw = Ok pos ->
            text_ok true (PStr (lw_name L)) = Some (lw_name L) -> v1 <= max_tecan_volume ->
            e0 = EInvalidOp /\ s' = set_lw s1 ks L')).
Proof.
  intros Ha Hin Hv Hlt. unfold transfer. cbv zeta. fold (t_n swells dwells vols).
  fold (t_src swells dwells vols). fold (t_dst swells dwells vols). fold (t_vol swells dwells vols).
  fold (t_triples swells dwells vols).
  intro H.
  assert (Hstop : forall e1, (s, Some e1) = (s', e) -> e1 = ECompat \/ e1 = EReject ->
            exists e0, e = Some e0 /\
              ((st_lw s' = st_lw s /\ st_wl s' = st_wl s /\ (e0 = ECompat \/ e0 = EReject)) \/
               exists mode w pre sw dw v1 post,
                 comment (st_wl s) label = (w, None) /\
                 plan false (w_max (st_wl s)) mode (t_triples swells dwells vols)
                   = (pre ++ Step sw dw v1 :: post)%list /\
                 steps_le (w_max (st_wl s)) pre /\ 0 < v1 /\ w_max (st_wl s) < v1 /\
                 (exec (set_wl s w) ks kd pre ws kw = (s', Some e0) \/
                  exists s1, exec (set_wl s w) ks kd pre ws kw = (s1, None) /\
                    exec_step s1 ks kd sw dw v1 ws kw = (s', Some e0) /\ st_wl s' = st_wl s1 /\
                    forall L L' pos, nth_error (st_lw s1) ks = Some L ->
                      remove L (A1 [sw]) (A1 [XQ v1]) None = (L', None) ->
                      device_position (w_dev (st_wl s)) (lw_geom L) sw = Ok pos ->
                      text_ok true (PStr (lw_name L)) = Some (lw_name L) -> v1 <= max_tecan_volume ->
                      e0 = EInvalidOp /\ s' = set_lw s1 ks L'))).
  { intros e1 E He1. injection E as <- <-. exists e1. split; [reflexivity|]. left. auto. }
  destruct (w_dev (st_wl s)) eqn:Edev; [| |apply (Hstop _ H); auto].
  all: destruct (nth_error (st_lw s) ks) as [Ls|]; [|apply (Hstop _ H); auto].
  all: destruct (nth_error (st_lw s) kd) as [Ld|]; [|apply (Hstop _ H); auto].
  all: match type of H with (if negb ?c then _ else _) = _ => destruct c eqn:Elen; cbn [negb] in H;
         [|apply (Hstop _ H); auto] end.
  all: match type of H with (if ?c then _ else _) = _ => destruct c; [apply (Hstop _ H); auto|] end.
  all: match type of H with (if ?c then _ else _) = _ => destruct c; [apply (Hstop _ H); auto|] end.
  all: destruct (optimize_partition_by (is_trough (lw_geom Ls)) (is_trough (lw_geom Ld)) pb)
         as [mode|eo]; [|apply (Hstop _ H); auto].
  all: destruct (comment (st_wl s) label) as [w [ec|]] eqn:Ec.
  all: try (pose proof (comment_err _ _ _ _ Ec) as ->; destruct (comment_spec _ _ _ _ Ec) as (ls & Hw & Hnil);
            rewrite (Hnil ltac:(discriminate)) in Hw; cbn [map] in Hw; rewrite emit_nil in Hw; subst w;
            injection H as <- <-; exists EReject; split; [reflexivity|]; left; cbn [st_lw st_wl set_wl]; auto).
  all: pose proof (comment_max _ _ _ _ Ec) as Cm; destruct (comment_cfg _ _ _ _ Ec) as (_ & Ca & _).
  all: rewrite Ca, Ha, Cm in H.
  all: apply andb_true_iff in Elen; destruct Elen as [El1 El2];
       apply Nat.eqb_eq in El1; apply Nat.eqb_eq in El2.
  all: assert (Hstep : exists sw dw v1,
         In (Step sw dw v1) (plan false (w_max (st_wl s)) mode (t_triples swells dwells vols)) /\
         w_max (st_wl s) < v1)
    by (destruct (zip_In_r (zip (t_src swells dwells vols) (t_dst swells dwells vols))
                    (t_vol swells dwells vols) v) as [[sw dw] Ht];
          [rewrite zip_length; [congruence|symmetry; exact El1]|exact Hin|];
        exists sw, dw, v; split; [apply plan_nosplit_contains; [exact Ht|exact Hv]|exact Hlt]).
  all: destruct (first_oversized _ _ Hstep) as (pre & sw & dw & v1 & post & Hplan & Hpre & Hlt1).
  all: assert (Hv1 : 0 < v1)
    by (apply (plan_steps_pos false (w_max (st_wl s)) mode (t_triples swells dwells vols) sw dw);
        rewrite Hplan; apply in_or_app; right; left; reflexivity).
  all: rewrite Hplan, exec_app in H.
  all: destruct (exec (set_wl s w) ks kd pre ws kw) as [s1 [e1|]] eqn:Epre; cbv beta iota in H.
  all: try (injection H as <- <-; exists e1; split; [reflexivity|]; right;
            exists mode, w, pre, sw, dw, v1, post; repeat (split; [first [assumption|reflexivity]|]);
            left; exact Epre).
  all: pose proof (emits_max _ _ (exec_emits _ _ _ _ _ _ _ _ Epre)) as Hm1; cbn [st_wl set_wl] in Hm1;
       rewrite Cm in Hm1.
  all: cbn [exec] in H.
  all: destruct (exec_step_oversized s1 ks kd sw dw v1 ws kw Hv1 ltac:(rewrite Hm1; exact Hlt1))
         as (s2 & e2 & Es & Hw2).
  all: rewrite Es in H; injection H as <- <-; exists e2; split; [reflexivity|]; right.
  all: exists mode, w, pre, sw, dw, v1, post; repeat (split; [first [assumption|reflexivity]|]); right.
  all: exists s1; split; [exact Epre|]; split; [exact Es|]; split; [exact Hw2|].
  all: intros L L' pos HL Hrem Hpos Hname Hmaxt.
  all: assert (Edev1 : w_dev (st_wl s1) = w_dev (st_wl s))
    by (destruct (exec_emits _ _ _ _ _ _ _ _ Epre) as (new & -> & _); cbn [w_dev emit st_wl set_wl];
        destruct (comment_cfg _ _ _ _ Ec) as (_ & _ & _ & Cd); exact Cd).
  all: rewrite Edev in Edev1.
  all: rewrite <- Edev1 in Hpos; rewrite <- Hm1 in Hlt1.
  all: rewrite (exec_step_too_large s1 ks kd sw dw v1 ws kw L L' pos HL Hrem Hpos Hname Hv1 Hmaxt Hlt1) in Es.
  all: injection Es as <- <-; split; reflexivity.
Qed.

(** in particular: never accepted, and no A / D record above max_volume is written *)
Theorem transfer_nosplit_not_accepted s ks swells kd dwells vols label ws pb kw s' e v :
  w_autosplit (st_wl s) = false -> In v (t_vol swells dwells vols) -> 0 < v -> w_max (st_wl s) < v ->
  transfer s ks swells kd dwells vols label ws pb kw = (s', e) ->
  e <> None /\
  exists new, st_wl s' = emit (st_wl s) new /\ Forall (bounded_rec_full (w_max (st_wl s))) new.
Proof.
  intros Ha Hin Hv Hlt H. split.
  - destruct (transfer_nosplit_refused _ _ _ _ _ _ _ _ _ _ _ _ _ Ha Hin Hv Hlt H) as (e0 & -> & _). discriminate.
  - exact (transfer_full _ _ _ _ _ _ _ _ _ _ _ _ H).
Qed.

(* ------------------------------------------------------------------ distribute: volume above max_volume *)

(** [distribute] refuses a per-well volume above max_volume with InvalidOperationError before anything
    happens (the labware and the worklist are unchanged) *)
Theorem distribute_too_large s ks kd dwells a Ls Ld vr v :
  nth_error (st_lw s) ks = Some Ls -> nth_error (st_lw s) kd = Some Ld ->
  g_vrows (lw_geom Ls) = Some vr -> rvol_x (d_volume a) = Some (XQ v) -> w_max (st_wl s) < v ->
  distribute s ks kd dwells a = (s, Some EInvalidOp).
Proof.
  intros HLs HLd Hvr Hx Hlt. unfold distribute. rewrite HLs, HLd, Hvr, Hx. cbv zeta.
  assert (E : Qgtb v (w_max (st_wl s)) = true) by (apply Qgtb_true_iff; exact Hlt).
  rewrite E. reflexivity.
Qed.

(* ------------------------------------------------------------------ F20 against [distribute_replay] *)

(** the exact negation of [distribute_replay] without [dst_positions_distinct]: the call is accepted,
    the appended records replay, but the replayed state is not the tracked one *)
Theorem distribute_replay_duplicate_positions_refuted : exists s ks kd dwells a s' rb,
  good_state s /\ sim s rb /\ distribute_dev_ok s ks /\ distribute s ks kd dwells a = (s', None) /\
  forall new rb', st_wl s' = emit (st_wl s) new ->
    interp true (w_dev (st_wl s)) rb new = Some rb' -> ~ sim s' rb'.
Proof.
  exists dup_state, 0%nat, 1%nat, (A1 ["A01"; "B01"]%string), (ex_dargs 0 20).
  exists (fst (distribute dup_state 0 1 (A1 ["A01"; "B01"]%string) (ex_dargs 0 20))).
  exists (robot_of (st_lw dup_state)).
  split; [exact dup_state_good|]. split; [apply sim_robot_of|]. split.
  { right. split; [reflexivity|]. intros Ls HLs. cbn in HLs. injection HLs as <-. reflexivity. }
  split; [vm_compute; reflexivity|].
  intros new rb' Hw Hi Hsim.
  apply (f_equal w_recs) in Hw. cbn [w_recs emit] in Hw.
  assert (E0 : w_recs (st_wl dup_state) = []) by reflexivity. rewrite E0 in Hw. cbn [app] in Hw.
  subst new. vm_compute in Hi. injection Hi as <-.
  unfold sim, sim_racks in Hsim. vm_compute in Hsim.
  inversion Hsim as [|L1 r1 ls1 rs1 _ Htl]; subst.
  inversion Htl as [|L2 r2 ls2 rs2 (_ & _ & _ & _ & Hv) _]; subst.
  inversion Hv as [|x y xs ys Hxy _]; subst. discriminate Hxy.
Qed.
