(** Lemmas about the transfer model of Model/Worklist.v: the pure [plan] (C07 flows, step counts,
    commit placement; C06 splitting), the records written by [exec_step] / [exec], the rejection
    paths of [transfer], and [reagent_distribution]'s multi-dispense bound (C06). *)
From Robo Require Import Prelude Str Wells Utils Labware Tips Records Partition Params Worklist
  PartitionProofs LabwareProofs RecordsProofs.
From Coq Require Import Lqa Permutation.

(* ------------------------------------------------------------------------------------------ *)
(** * list helpers *)

Lemma flat_map_app_perm {A B} (f g : A -> list B) l :
  Permutation (flat_map (fun a => f a ++ g a) l) (flat_map f l ++ flat_map g l).
Proof.
  induction l as [|a r IH]; cbn [flat_map]; [constructor|].
  rewrite IH. rewrite <- !app_assoc. apply Permutation_app_head.
  rewrite !app_assoc. apply Permutation_app_tail. apply Permutation_app_comm.
Qed.

Lemma flat_map_ext_in' {A B} (f g : A -> list B) l :
  (forall a, In a l -> f a = g a) -> flat_map f l = flat_map g l.
Proof.
  induction l as [|a r IH]; intro H; cbn [flat_map]; [reflexivity|].
  rewrite (H a) by (left; reflexivity). f_equal. apply IH. intros b Hb. apply H. right; exact Hb.
Qed.

Lemma flat_map_nil {A B} (f : A -> list B) l : (forall a, In a l -> f a = []) -> flat_map f l = [].
Proof.
  induction l as [|a r IH]; intro H; cbn [flat_map]; [reflexivity|].
  rewrite (H a) by (left; reflexivity). apply IH. intros b Hb. apply H. right; exact Hb.
Qed.

Lemma flat_map_flat_map {A B C} (f : A -> list B) (g : B -> list C) l :
  flat_map g (flat_map f l) = flat_map (fun a => flat_map g (f a)) l.
Proof.
  induction l as [|a r IH]; cbn [flat_map]; [reflexivity|]. rewrite flat_map_app, IH. reflexivity.
Qed.

Lemma flat_map_perm_pointwise {A B} (f g : A -> list B) l :
  (forall a, In a l -> Permutation (f a) (g a)) -> Permutation (flat_map f l) (flat_map g l).
Proof.
  induction l as [|a r IH]; intro H; cbn [flat_map]; [constructor|].
  apply Permutation_app; [apply H; left; reflexivity|]. apply IH. intros b Hb. apply H. right; exact Hb.
Qed.

Lemma flat_map_perm_list {A B} (f : A -> list B) l l' :
  Permutation l l' -> Permutation (flat_map f l) (flat_map f l').
Proof.
  induction 1 as [|x l l' Hp IH|x y l|l l' l'' Hp1 IH1 Hp2 IH2]; cbn [flat_map].
  - constructor.
  - apply Permutation_app_head. exact IH.
  - rewrite !app_assoc. apply Permutation_app_tail. apply Permutation_app_comm.
  - exact (perm_trans IH1 IH2).
Qed.

Lemma flat_map_concat {A B} (f : A -> list B) (L : list (list A)) :
  flat_map (fun g => flat_map f g) L = flat_map f (concat L).
Proof.
  induction L as [|g r IH]; cbn [flat_map concat]; [reflexivity|]. rewrite flat_map_app, IH. reflexivity.
Qed.

Lemma filter_flat_map {A B} (p : B -> bool) (f : A -> list B) l :
  filter p (flat_map f l) = flat_map (fun a => filter p (f a)) l.
Proof.
  induction l as [|a r IH]; cbn [flat_map]; [reflexivity|]. rewrite filter_app, IH. reflexivity.
Qed.

Lemma filter_perm {A} (p : A -> bool) l l' : Permutation l l' -> Permutation (filter p l) (filter p l').
Proof.
  induction 1 as [|x l l' Hp IH|x y l|l l' l'' Hp1 IH1 Hp2 IH2]; cbn [filter].
  - constructor.
  - destruct (p x); [apply perm_skip|]; exact IH.
  - destruct (p x); destruct (p y); try reflexivity. apply perm_swap.
  - exact (perm_trans IH1 IH2).
Qed.

Lemma filter_id {A} (p : A -> bool) l : (forall x, In x l -> p x = true) -> filter p l = l.
Proof.
  induction l as [|x r IH]; intro H; cbn [filter]; [reflexivity|].
  rewrite (H x) by (left; reflexivity). f_equal. apply IH. intros y Hy. apply H. right; exact Hy.
Qed.

Lemma concat_filter {A} (p : A -> bool) (L : list (list A)) :
  concat (map (filter p) L) = filter p (concat L).
Proof.
  induction L as [|g r IH]; cbn [map concat]; [reflexivity|]. rewrite filter_app, IH. reflexivity.
Qed.

(** if the concatenation of a list of lists is a singleton, a function vanishing on [[]] sees it once *)
Lemma flat_map_single {A B} (G : list A -> list B) t : G [] = [] ->
  forall L, concat L = [t] -> flat_map G L = G [t].
Proof.
  intros HG L. induction L as [|x r IH]; intro H; cbn [concat flat_map] in *; [discriminate|].
  destruct x as [|y x'].
  - cbn [app] in H. rewrite HG, (IH H). reflexivity.
  - cbn [app] in H. injection H as Hy Hx. subst y.
    apply app_eq_nil in Hx. destruct Hx as [Hx Hr]. subst x'.
    assert (Hall : forall z, In z r -> G z = []).
    { intros z Hz. assert (Ez : z = []).
      { destruct z as [|a z']; [reflexivity|exfalso].
        apply in_split in Hz. destruct Hz as (r1 & r2 & Er). subst r.
        rewrite concat_app in Hr. cbn [concat] in Hr. apply app_eq_nil in Hr.
        destruct Hr as [_ Hr]. cbn [app] in Hr. discriminate. }
      subst z. exact HG. }
    rewrite (flat_map_nil G r Hall), app_nil_r. reflexivity.
Qed.

(* ------------------------------------------------------------------------------------------ *)
(** * pass-major versus row-major enumeration of (item, value list) rows *)

Section Transp.
  Context {T V B : Type} (f : T -> V -> list B).

  Definition cell (p : nat) (it : T * list V) : list B :=
    match nth_error (snd it) p with Some x => f (fst it) x | None => [] end.
  Definition row (l : list (T * list V)) (p : nat) : list B := flat_map (cell p) l.
  Definition maxlen (l : list (T * list V)) : nat :=
    fold_right (fun it m => Nat.max (length (snd it)) m) 0 l.
  Definition by_p (l : list (T * list V)) : list B := flat_map (row l) (seq 0 (maxlen l)).
  Definition by_i (l : list (T * list V)) : list B :=
    flat_map (fun it => flat_map (f (fst it)) (snd it)) l.

  Lemma cells_gen (t : T) : forall (vs : list V) k n, length vs <= n ->
    flat_map (fun p => match nth_error vs (p - k) with Some x => f t x | None => [] end) (seq k n)
    = flat_map (f t) vs.
  Proof.
    induction vs as [|x xs IH]; intros k n H.
    - cbn [flat_map]. apply flat_map_nil. intros p _. destruct (p - k); reflexivity.
    - destruct n as [|n]; [cbn [length] in H; lia|].
      cbn [seq flat_map]. replace (k - k) with 0 by lia. cbn [nth_error].
      f_equal. rewrite <- (IH (S k) n) by (cbn [length] in H; lia).
      apply flat_map_ext_in'. intros p Hp. apply in_seq in Hp.
      replace (p - k) with (S (p - S k)) by lia. reflexivity.
  Qed.

  Lemma cells_of_item t (vs : list V) n : length vs <= n ->
    flat_map (fun p => cell p (t, vs)) (seq 0 n) = flat_map (f t) vs.
  Proof.
    intro H. rewrite <- (cells_gen t vs 0 n H). apply flat_map_ext. intro p. unfold cell.
    cbn [fst snd]. rewrite Nat.sub_0_r. reflexivity.
  Qed.

  Lemma cell_beyond it p : length (snd it) <= p -> cell p it = [].
  Proof.
    intro H. unfold cell. destruct (nth_error (snd it) p) eqn:E; [|reflexivity].
    assert (p < length (snd it)) by (apply nth_error_Some; congruence). lia.
  Qed.

  Lemma row_beyond l p : maxlen l <= p -> row l p = [].
  Proof.
    induction l as [|it r IH]; intro H; [reflexivity|].
    cbn [maxlen fold_right] in H. fold (maxlen r) in H.
    unfold row. cbn [flat_map]. fold (row r p). rewrite IH by lia.
    rewrite cell_beyond by lia. reflexivity.
  Qed.

  Lemma rows_upto l n : maxlen l <= n -> flat_map (row l) (seq 0 n) = by_p l.
  Proof.
    intro H. unfold by_p. replace n with (maxlen l + (n - maxlen l)) by lia.
    rewrite seq_app, flat_map_app.
    rewrite (flat_map_nil (row l) (seq (0 + maxlen l) (n - maxlen l))); [apply app_nil_r|].
    intros p Hp. apply in_seq in Hp. apply row_beyond. lia.
  Qed.

  Theorem by_p_perm l : Permutation (by_p l) (by_i l).
  Proof.
    induction l as [|[t vs] r IH]; [constructor|].
    unfold by_p. cbn [maxlen fold_right snd]. fold (maxlen r).
    set (n := Nat.max (length vs) (maxlen r)).
    assert (E : forall p, row ((t, vs) :: r) p = cell p (t, vs) ++ row r p) by reflexivity.
    rewrite (flat_map_ext _ _ E). rewrite flat_map_app_perm.
    rewrite cells_of_item by (unfold n; lia). rewrite rows_upto by (unfold n; lia).
    cbn [by_i flat_map fst snd]. apply Permutation_app_head. exact IH.
  Qed.

  Lemma by_p_single t vs : by_p [(t, vs)] = flat_map (f t) vs.
  Proof.
    unfold by_p. cbn [maxlen fold_right snd]. rewrite Nat.max_0_r.
    rewrite <- (cells_of_item t vs (length vs)) by lia.
    apply flat_map_ext. intro p. unfold row. cbn [flat_map]. apply app_nil_r.
  Qed.

  Lemma maxlen_filter (q : T * list V -> bool) l : maxlen (filter q l) <= maxlen l.
  Proof.
    induction l as [|it r IH]; [cbn; lia|]. cbn [filter].
    destruct (q it); cbn [maxlen fold_right]; fold (maxlen r); fold (maxlen (filter q r)); lia.
  Qed.
End Transp.

(** restricting the cells to the rows selected by [q] is the same as dropping the other rows *)
Lemma by_p_filter {T V B} (f : T -> V -> list B) (q : T * list V -> bool) (l : list (T * list V)) :
  flat_map (fun p => flat_map (fun it => if q it then cell f p it else []) l) (seq 0 (maxlen l))
  = by_p f (filter q l).
Proof.
  rewrite <- (rows_upto f (filter q l) (maxlen l)) by apply maxlen_filter.
  apply flat_map_ext. intro p. unfold row.
  induction l as [|it r IH]; [reflexivity|]. cbn [flat_map filter].
  destruct (q it); cbn [flat_map app]; rewrite IH; reflexivity.
Qed.

(* ------------------------------------------------------------------------------------------ *)
(** * the steps of a plan *)

Local Open Scope Q_scope.

Definition steps_of (acts : list action) : list triple :=
  flat_map (fun a => match a with Step s d v => [(s, d, v)] | Commit => [] end) acts.

Definition sd_eqb (s d : string) (t : triple) : bool :=
  String.eqb (fst (fst t)) s && String.eqb (snd (fst t)) d.

Definition flow (s d : string) (l : list triple) : Q := Qsum (map snd (filter (sd_eqb s d) l)).

(** the steps one triple gives rise to, in order *)
Definition triple_steps (a : bool) (m : Q) (t : triple) : list triple :=
  flat_map (fun v => if Qltb 0 v then [(fst (fst t), snd (fst t), v)] else []) (vol_list a m (snd t)).

Definition mkrow (a : bool) (m : Q) (t : triple) : string * string * list Q :=
  (fst (fst t), snd (fst t), vol_list a m (snd t)).

Definition stepf (sd : string * string) (v : Q) : list triple :=
  if Qltb 0 v then [(fst sd, snd sd, v)] else [].

Lemma steps_of_app l1 l2 : steps_of (l1 ++ l2) = steps_of l1 ++ steps_of l2.
Proof. unfold steps_of. apply flat_map_app. Qed.

Lemma steps_of_In s d v acts : In (Step s d v) acts <-> In (s, d, v) (steps_of acts).
Proof.
  unfold steps_of. rewrite in_flat_map. split.
  - intro H. exists (Step s d v). split; [exact H|left; reflexivity].
  - intros ([s' d' v'|] & Hin & Hx); cbn [In] in Hx; [|destruct Hx].
    destruct Hx as [Hx|[]]. injection Hx as -> -> ->. exact Hin.
Qed.

Lemma n_steps_length acts : n_steps acts = length (steps_of acts).
Proof.
  unfold n_steps, steps_of. induction acts as [|[s d v|] r IH]; cbn [filter flat_map length app];
    [reflexivity|rewrite IH; reflexivity|exact IH].
Qed.

Lemma steps_of_pass p rows : steps_of (pass_steps p rows) = row stepf rows p.
Proof.
  unfold pass_steps, row, steps_of. rewrite flat_map_flat_map. apply flat_map_ext.
  intros [[s d] vs]. unfold cell, stepf. cbn [fst snd].
  destruct (nth_error vs p) as [v|]; [|reflexivity].
  destruct (Qltb 0 v); cbn [flat_map app]; reflexivity.
Qed.

Lemma group_plan_eq (a : bool) (m : Q) (g : list triple) :
  group_plan a m g =
  (flat_map (fun p => pass_steps p (map (mkrow a m) g) ++
               (if (1 <? maxlen (map (mkrow a m) g))%nat
                   && (1 <? length (pass_steps p (map (mkrow a m) g)))%nat
                   && negb (p =? maxlen (map (mkrow a m) g) - 1)%nat
                then [Commit] else []))
            (seq 0 (maxlen (map (mkrow a m) g)))
   ++ (if (1 <? maxlen (map (mkrow a m) g))%nat then [Commit] else []))%list.
Proof. reflexivity. Qed.

Lemma steps_of_group a m g : steps_of (group_plan a m g) = by_p stepf (map (mkrow a m) g).
Proof.
  rewrite group_plan_eq.
  set (rows := map (mkrow a m) g). set (np := maxlen rows).
  rewrite steps_of_app.
  assert (E2 : steps_of (if (1 <? np)%nat then [Commit] else []) = []).
  { destruct (1 <? np)%nat; reflexivity. }
  rewrite E2, app_nil_r. unfold steps_of at 1. rewrite flat_map_flat_map. unfold by_p. fold np.
  apply flat_map_ext. intro p.
  change (steps_of (pass_steps p rows ++
    (if (1 <? np)%nat && (1 <? length (pass_steps p rows))%nat && negb (p =? np - 1)%nat
     then [Commit] else [])) = row stepf rows p).
  rewrite steps_of_app, steps_of_pass.
  destruct ((1 <? np)%nat && (1 <? length (pass_steps p rows))%nat && negb (p =? np - 1)%nat);
    cbn [steps_of flat_map]; apply app_nil_r.
Qed.

Lemma by_i_rows a m g : by_i stepf (map (mkrow a m) g) = flat_map (triple_steps a m) g.
Proof.
  unfold by_i. induction g as [|t r IH]; [reflexivity|]. cbn [map flat_map]. rewrite IH.
  reflexivity.
Qed.

(** the steps of a group plan are those of its triples (pass-major instead of triple-major) *)
Lemma group_steps_perm a m g :
  Permutation (steps_of (group_plan a m g)) (flat_map (triple_steps a m) g).
Proof. rewrite steps_of_group, <- by_i_rows. apply by_p_perm. Qed.

Lemma steps_of_plan a m mode triples :
  steps_of (plan a m mode triples)
  = flat_map (fun g => steps_of (group_plan a m g)) (partition_by_column mode triples).
Proof. unfold plan, steps_of. apply flat_map_flat_map. Qed.

Theorem plan_steps_perm a m mode triples :
  Permutation (steps_of (plan a m mode triples)) (flat_map (triple_steps a m) triples).
Proof.
  rewrite steps_of_plan.
  apply perm_trans with (flat_map (fun g => flat_map (triple_steps a m) g)
                                  (partition_by_column mode triples)).
  - apply flat_map_perm_pointwise. intros g _. apply group_steps_perm.
  - rewrite flat_map_concat. apply flat_map_perm_list. apply partition_by_column_perm.
Qed.

(* ------------------------------------------------------------------------------------------ *)
(** * positivity and bounds of the planned steps *)

Lemma Qltb_true_iff a b : Qltb a b = true <-> a < b.
Proof.
  split; [apply Qltb_true|]. intro H. unfold Qltb. apply negb_true_iff.
  destruct (Qle_bool b a) eqn:E; [|reflexivity]. apply Qle_bool_iff in E. lra.
Qed.

Lemma Qltb_false_iff a b : Qltb a b = false <-> b <= a.
Proof.
  split; [apply Qltb_false|]. intro H. unfold Qltb. apply negb_false_iff. apply Qle_bool_iff. exact H.
Qed.

Lemma triple_steps_In a m t s d v :
  In (s, d, v) (triple_steps a m t) <->
  s = fst (fst t) /\ d = snd (fst t) /\ In v (vol_list a m (snd t)) /\ 0 < v.
Proof.
  unfold triple_steps. rewrite in_flat_map. split.
  - intros (x & Hx & Hin). destruct (Qltb 0 x) eqn:E; [|destruct Hin].
    destruct Hin as [Hin|[]]. injection Hin as <- <- <-. apply Qltb_true in E. auto.
  - intros (-> & -> & Hin & Hv). exists v. split; [exact Hin|].
    apply Qltb_true_iff in Hv. rewrite Hv. left. reflexivity.
Qed.

(** elements of a partition that are positive are at most [m] (whatever the sign of [v]) *)
Lemma partition_volume_le v m x : 0 < m -> In x (partition_volume v m) -> 0 < x -> x <= m.
Proof.
  intros Hm Hin Hx. destruct (Qlt_le_dec 0 v) as [Hv|Hv].
  - destruct (partition_volume_spec v m Hm Hv) as (_ & Hall & _). rewrite Forall_forall in Hall.
    exact (proj2 (Hall x Hin)).
  - unfold partition_volume in Hin. destruct (Qeq_bool v 0); [destruct Hin|].
    assert (E : Qltb v m = true) by (apply Qltb_true_iff; lra). rewrite E in Hin.
    destruct Hin as [Hin|[]]. subst x. lra.
Qed.

Lemma plan_step_origin a m mode triples s d v :
  In (Step s d v) (plan a m mode triples) <->
  exists v0, In (s, d, v0) triples /\ In v (vol_list a m v0) /\ 0 < v.
Proof.
  rewrite steps_of_In. split.
  - intro H. apply (Permutation_in _ (plan_steps_perm a m mode triples)) in H.
    apply in_flat_map in H. destruct H as ([[s0 d0] v0] & Hin & Hst).
    apply triple_steps_In in Hst. cbn [fst snd] in Hst. destruct Hst as (-> & -> & Hv & Hpos).
    exists v0. auto.
  - intros (v0 & Hin & Hv & Hpos).
    apply (Permutation_in _ (Permutation_sym (plan_steps_perm a m mode triples))).
    apply in_flat_map. exists (s, d, v0). split; [exact Hin|].
    apply triple_steps_In. cbn [fst snd]. auto.
Qed.

Theorem plan_steps_positive a m mode triples s d v :
  0 < m -> In (Step s d v) (plan a m mode triples) ->
  0 < v /\ (a = true -> v <= m) /\ (a = false -> In (s, d, v) triples) /\
  exists v0, In (s, d, v0) triples.
Proof.
  intros Hm H. apply plan_step_origin in H. destruct H as (v0 & Hin & Hv & Hpos).
  split; [exact Hpos|]. split; [|split].
  - intros ->. cbn [vol_list] in Hv. exact (partition_volume_le v0 m v Hm Hv Hpos).
  - intros ->. cbn [vol_list] in Hv. destruct Hv as [Hv|[]]. subst v0. exact Hin.
  - exists v0. exact Hin.
Qed.

(* ------------------------------------------------------------------------------------------ *)
(** * flows *)

Lemma flow_app s d l1 l2 : flow s d (l1 ++ l2) == flow s d l1 + flow s d l2.
Proof. unfold flow. rewrite filter_app, map_app. apply Qsum_app. Qed.

Lemma flow_nil s d : flow s d [] == 0.
Proof. unfold flow, Qsum. cbn [filter map fold_right]. reflexivity. Qed.

Lemma flow_cons s d t l : flow s d (t :: l) == (if sd_eqb s d t then snd t else 0) + flow s d l.
Proof.
  unfold flow. cbn [filter]. destruct (sd_eqb s d t); cbn [map]; unfold Qsum; cbn [fold_right];
    [reflexivity|ring].
Qed.

Lemma flow_perm s d l l' : Permutation l l' -> flow s d l == flow s d l'.
Proof.
  induction 1 as [|x l l' Hp IH|x y l|l l' l'' Hp1 IH1 Hp2 IH2].
  - reflexivity.
  - rewrite !flow_cons, IH. reflexivity.
  - rewrite !flow_cons. ring.
  - rewrite IH1. exact IH2.
Qed.

Lemma Qsum_filter_pos l : Forall (fun x => 0 < x) l ->
  flat_map (fun v => if Qltb 0 v then [v] else []) l = l.
Proof.
  induction 1 as [|x r Hx Hr IH]; cbn [flat_map]; [reflexivity|].
  apply Qltb_true_iff in Hx. rewrite Hx, IH. reflexivity.
Qed.

Lemma triple_steps_map a m t :
  triple_steps a m t
  = map (fun v => (fst (fst t), snd (fst t), v))
        (flat_map (fun v => if Qltb 0 v then [v] else []) (vol_list a m (snd t))).
Proof.
  unfold triple_steps. induction (vol_list a m (snd t)) as [|x r IH]; [reflexivity|].
  cbn [flat_map]. rewrite map_app, IH. destruct (Qltb 0 x); reflexivity.
Qed.

(** positive part of the volume list of a non-negative volume *)
Lemma vol_list_pos a m v : 0 < m -> 0 <= v ->
  flat_map (fun x => if Qltb 0 x then [x] else []) (vol_list a m v)
  = if Qltb 0 v then vol_list a m v else [].
Proof.
  intros Hm Hv. destruct (Qltb 0 v) eqn:E.
  - apply Qltb_true in E. destruct a; cbn [vol_list].
    + apply Qsum_filter_pos. destruct (partition_volume_spec v m Hm E) as (_ & Hall & _).
      rewrite Forall_forall in *. intros x Hx. exact (proj1 (Hall x Hx)).
    + apply Qsum_filter_pos. constructor; [exact E|constructor].
  - destruct a; cbn [vol_list].
    + apply Qltb_false in E. rewrite partition_volume_zero by lra. reflexivity.
    + cbn [flat_map]. rewrite E. reflexivity.
Qed.

Lemma vol_list_sum a m v : 0 < m -> 0 < v -> Qsum (vol_list a m v) == v.
Proof.
  intros Hm Hv. destruct a; cbn [vol_list].
  - exact (proj2 (proj2 (partition_volume_spec v m Hm Hv))).
  - apply Qsum_single.
Qed.

Lemma sd_eqb_map s d s' d' (l : list Q) :
  filter (sd_eqb s d) (map (fun v => (s', d', v)) l)
  = if String.eqb s' s && String.eqb d' d then map (fun v => (s', d', v)) l else [].
Proof.
  induction l as [|x r IH]; cbn [map filter]; [destruct (_ && _); reflexivity|].
  rewrite IH. unfold sd_eqb. cbn [fst snd]. destruct (String.eqb s' s && String.eqb d' d); reflexivity.
Qed.

Lemma flow_triple_steps a m s d t : 0 < m -> 0 <= snd t ->
  flow s d (triple_steps a m t) == if sd_eqb s d t then snd t else 0.
Proof.
  intros Hm Hv. rewrite triple_steps_map, (vol_list_pos a m (snd t) Hm Hv).
  unfold flow. rewrite sd_eqb_map. destruct t as [[s' d'] v]. unfold sd_eqb. cbn [fst snd] in *.
  destruct (String.eqb s' s && String.eqb d' d).
  - rewrite map_map. cbn [snd]. rewrite map_id.
    destruct (Qltb 0 v) eqn:E.
    + apply vol_list_sum; [exact Hm|apply Qltb_true; exact E].
    + apply Qltb_false in E. unfold Qsum. cbn [fold_right]. lra.
  - unfold Qsum. cbn [map fold_right]. reflexivity.
Qed.

Lemma flow_flat_steps a m s d triples : 0 < m -> Forall (fun t => 0 <= snd t) triples ->
  flow s d (flat_map (triple_steps a m) triples) == flow s d triples.
Proof.
  intros Hm. induction 1 as [|t r Ht Hr IH]; cbn [flat_map]; [reflexivity|].
  rewrite flow_app, flow_cons, IH, (flow_triple_steps a m s d t Hm Ht). reflexivity.
Qed.

Theorem plan_flows a m mode triples s d :
  0 < m -> Forall (fun t => 0 <= snd t) triples ->
  flow s d (steps_of (plan a m mode triples)) == flow s d triples.
Proof.
  intros Hm Hall. rewrite (flow_perm s d _ _ (plan_steps_perm a m mode triples)).
  apply flow_flat_steps; assumption.
Qed.

Theorem plan_flows_perm a m mode triples triples' s d :
  0 < m -> Forall (fun t => 0 <= snd t) triples -> Permutation triples triples' ->
  flow s d (steps_of (plan a m mode triples)) == flow s d (steps_of (plan a m mode triples')).
Proof.
  intros Hm Hall Hp.
  assert (Hall' : Forall (fun t => 0 <= snd t) triples').
  { rewrite Forall_forall in *. intros t Ht. apply Hall.
    exact (Permutation_in _ (Permutation_sym Hp) Ht). }
  rewrite (plan_flows a m mode triples s d Hm Hall), (plan_flows a m mode triples' s d Hm Hall').
  apply flow_perm. exact Hp.
Qed.

Theorem plan_flows_mode a m triples s d :
  0 < m -> Forall (fun t => 0 <= snd t) triples ->
  flow s d (steps_of (plan a m BySource triples)) == flow s d (steps_of (plan a m ByDestination triples)).
Proof.
  intros Hm Hall. rewrite !plan_flows by assumption. reflexivity.
Qed.

(** strongest form: the multiset of steps depends neither on the order of the triples nor on the
    partitioning side nor on anything but the triples *)
Theorem plan_steps_perm_any a m mode mode' triples triples' :
  Permutation triples triples' ->
  Permutation (steps_of (plan a m mode triples)) (steps_of (plan a m mode' triples')).
Proof.
  intro Hp. apply perm_trans with (flat_map (triple_steps a m) triples); [apply plan_steps_perm|].
  apply perm_trans with (flat_map (triple_steps a m) triples');
    [apply flat_map_perm_list; exact Hp|apply Permutation_sym; apply plan_steps_perm].
Qed.

(* ------------------------------------------------------------------------------------------ *)
(** * number of steps *)

Lemma length_flat_map_sum {A B} (f : A -> list B) l :
  length (flat_map f l) = list_sum (map (fun a => length (f a)) l).
Proof.
  induction l as [|a r IH]; cbn [flat_map map list_sum]; [reflexivity|].
  rewrite app_length, IH. reflexivity.
Qed.

Definition steps_for (m v : Q) : nat :=
  if Qltb 0 v then Z.to_nat (Z.max 1 (Qceiling (v / m))) else 0%nat.

Lemma triple_steps_length_split m t : 0 < m ->
  length (triple_steps true m t) = steps_for m (snd t).
Proof.
  intro Hm. rewrite triple_steps_map, map_length. unfold steps_for.
  destruct t as [[s d] v]. cbn [fst snd]. destruct (Qlt_le_dec v 0) as [Hneg|Hnn].
  - assert (E : Qltb 0 v = false) by (apply Qltb_false_iff; lra). rewrite E.
    cbn [vol_list]. unfold partition_volume.
    destruct (Qeq_bool v 0) eqn:E0; [reflexivity|].
    assert (E1 : Qltb v m = true) by (apply Qltb_true_iff; lra). rewrite E1.
    cbn [flat_map]. rewrite E. reflexivity.
  - rewrite (vol_list_pos true m v Hm Hnn). destruct (Qltb 0 v) eqn:E; [|reflexivity].
    apply Qltb_true in E. cbn [vol_list].
    destruct (partition_volume_spec v m Hm E) as (Hlen & _ & _). lia.
Qed.

Lemma triple_steps_length_nosplit m t :
  length (triple_steps false m t) = if Qltb 0 (snd t) then 1%nat else 0%nat.
Proof.
  unfold triple_steps. cbn [vol_list flat_map]. destruct (Qltb 0 (snd t)); reflexivity.
Qed.

Theorem plan_step_count_split m mode triples : 0 < m ->
  n_steps (plan true m mode triples) = list_sum (map (fun t => steps_for m (snd t)) triples).
Proof.
  intro Hm. rewrite n_steps_length.
  rewrite (Permutation_length (plan_steps_perm true m mode triples)), length_flat_map_sum.
  f_equal. apply map_ext. intro t. apply triple_steps_length_split. exact Hm.
Qed.

Theorem plan_step_count_nosplit m mode triples :
  n_steps (plan false m mode triples) = length (filter (fun t => Qltb 0 (snd t)) triples).
Proof.
  rewrite n_steps_length.
  rewrite (Permutation_length (plan_steps_perm false m mode triples)), length_flat_map_sum.
  induction triples as [|t r IH]; [reflexivity|]. cbn [map filter].
  change (list_sum (length (triple_steps false m t) :: map (fun a => length (triple_steps false m a)) r))
    with (length (triple_steps false m t) + list_sum (map (fun a => length (triple_steps false m a)) r))%nat.
  rewrite triple_steps_length_nosplit, IH. destruct (Qltb 0 (snd t)); reflexivity.
Qed.

(* ------------------------------------------------------------------------------------------ *)
(** * the steps of one (source, destination) pair, in order *)

Lemma filter_map_comm {A B} (q : B -> bool) (f : A -> B) l :
  filter q (map f l) = map f (filter (fun a => q (f a)) l).
Proof.
  induction l as [|a r IH]; [reflexivity|]. cbn [map filter]. rewrite IH.
  destruct (q (f a)); reflexivity.
Qed.

Lemma flat_map_map {A B C} (G : B -> list C) (h : A -> B) l :
  flat_map G (map h l) = flat_map (fun a => G (h a)) l.
Proof. induction l as [|a r IH]; [reflexivity|]. cbn [map flat_map]. rewrite IH. reflexivity. Qed.

Definition row_sd (s d : string) (it : string * string * list Q) : bool :=
  String.eqb (fst (fst it)) s && String.eqb (snd (fst it)) d.

Lemma filter_cell s d p it :
  filter (sd_eqb s d) (cell stepf p it) = if row_sd s d it then cell stepf p it else [].
Proof.
  unfold cell, stepf, row_sd. destruct it as [[s' d'] vs]. cbn [fst snd].
  destruct (nth_error vs p) as [x|]; [|destruct (_ && _); reflexivity].
  destruct (Qltb 0 x); [|destruct (_ && _); reflexivity].
  cbn [filter]. unfold sd_eqb. cbn [fst snd]. destruct (String.eqb s' s && String.eqb d' d); reflexivity.
Qed.

Lemma group_steps_filter a m g s d :
  filter (sd_eqb s d) (steps_of (group_plan a m g))
  = steps_of (group_plan a m (filter (sd_eqb s d) g)).
Proof.
  rewrite !steps_of_group. unfold by_p at 1. rewrite filter_flat_map.
  assert (E : forall p, filter (sd_eqb s d) (row stepf (map (mkrow a m) g) p)
                        = flat_map (fun it => if row_sd s d it then cell stepf p it else [])
                                   (map (mkrow a m) g)).
  { intro p. unfold row. rewrite filter_flat_map. apply flat_map_ext. intro it. apply filter_cell. }
  rewrite (flat_map_ext _ _ E). rewrite (by_p_filter stepf (row_sd s d)).
  rewrite filter_map_comm. reflexivity.
Qed.

Lemma group_plan_nil a m : group_plan a m [] = [].
Proof. reflexivity. Qed.

Lemma group_steps_single a m t : steps_of (group_plan a m [t]) = triple_steps a m t.
Proof. rewrite steps_of_group. cbn [map]. unfold mkrow. rewrite by_p_single. reflexivity. Qed.

(** if the pair (s, d) is requested by exactly one triple, its steps appear in the plan in the
    order of that triple's volume list *)
Theorem plan_steps_of_pair a m mode triples s d t :
  filter (sd_eqb s d) triples = [t] ->
  filter (sd_eqb s d) (steps_of (plan a m mode triples)) = triple_steps a m t.
Proof.
  intro H. rewrite steps_of_plan, filter_flat_map.
  rewrite (flat_map_ext _ _ (fun g => group_steps_filter a m g s d)).
  rewrite <- (flat_map_map (fun g => steps_of (group_plan a m g)) (filter (sd_eqb s d))).
  rewrite (flat_map_single (fun g => steps_of (group_plan a m g)) t).
  - apply group_steps_single.
  - reflexivity.
  - rewrite concat_filter. apply Permutation_length_1_inv. rewrite <- H.
    apply filter_perm. apply Permutation_sym. apply partition_by_column_perm.
Qed.

Lemma triple_steps_vols m s d v : 0 < m -> 0 <= v ->
  map snd (triple_steps true m (s, d, v)) = partition_volume v m.
Proof.
  intros Hm Hv. rewrite triple_steps_map, map_map. cbn [fst snd]. rewrite map_id.
  rewrite (vol_list_pos true m v Hm Hv). cbn [vol_list].
  destruct (Qltb 0 v) eqn:E; [reflexivity|]. apply Qltb_false in E.
  rewrite partition_volume_zero by lra. reflexivity.
Qed.

Theorem transfer_split m mode triples s d v : 0 < m -> 0 <= v ->
  filter (sd_eqb s d) triples = [(s, d, v)] ->
  map snd (filter (sd_eqb s d) (steps_of (plan true m mode triples))) = partition_volume v m.
Proof.
  intros Hm Hv H. rewrite (plan_steps_of_pair true m mode triples s d _ H).
  apply triple_steps_vols; assumption.
Qed.

Theorem transfer_split_spec m mode triples s d v : 0 < m -> 0 < v ->
  filter (sd_eqb s d) triples = [(s, d, v)] ->
  let l := map snd (filter (sd_eqb s d) (steps_of (plan true m mode triples))) in
  Z.of_nat (length l) = Z.max 1 (Qceiling (v / m)) /\
  Forall (fun x => 0 < x /\ x <= m) l /\
  Qsum l == v.
Proof.
  intros Hm Hv H l. subst l. rewrite (transfer_split m mode triples s d v Hm (Qlt_le_weak _ _ Hv) H).
  apply partition_volume_spec; assumption.
Qed.

Theorem transfer_split_zero m mode triples s d v : 0 < m -> v == 0 ->
  filter (sd_eqb s d) triples = [(s, d, v)] ->
  filter (sd_eqb s d) (steps_of (plan true m mode triples)) = [].
Proof.
  intros Hm Hv H. rewrite (plan_steps_of_pair true m mode triples s d _ H).
  rewrite triple_steps_map. cbn [fst snd vol_list]. rewrite partition_volume_zero by exact Hv. reflexivity.
Qed.

Theorem transfer_nosplit_pair m mode triples s d v :
  filter (sd_eqb s d) triples = [(s, d, v)] ->
  filter (sd_eqb s d) (steps_of (plan false m mode triples)) = if Qltb 0 v then [(s, d, v)] else [].
Proof.
  intro H. rewrite (plan_steps_of_pair false m mode triples s d _ H).
  unfold triple_steps. cbn [fst snd vol_list flat_map]. apply app_nil_r.
Qed.

(* ------------------------------------------------------------------------------------------ *)
(** * a planned step is never above max_volume *)

Lemma Qgtb_false_iff a b : Qgtb a b = false <-> a <= b.
Proof.
  unfold Qgtb. rewrite negb_false_iff. apply Qle_bool_iff.
Qed.

Lemma Qgtb_true_iff a b : Qgtb a b = true <-> b < a.
Proof.
  unfold Qgtb. rewrite negb_true_iff. split.
  - intro H. apply Qnot_le_lt. intro C. apply Qle_bool_iff in C. congruence.
  - intro H. destruct (Qle_bool a b) eqn:E; [|reflexivity]. apply Qle_bool_iff in E. lra.
Qed.

Lemma check_volume_ok v m : 0 <= v -> v <= m -> v <= max_tecan_volume ->
  check_volume (PV (XQ v)) (Some m) = Ok v.
Proof.
  intros H0 Hm Ht. unfold check_volume.
  assert (E1 : Qltb v 0 = false) by (apply Qltb_false_iff; exact H0).
  assert (E2 : Qgtb v max_tecan_volume = false) by (apply Qgtb_false_iff; exact Ht).
  assert (E3 : Qgtb v m = false) by (apply Qgtb_false_iff; exact Hm).
  rewrite E1, E2, E3. reflexivity.
Qed.

Lemma check_volume_invalid_iff v m :
  check_volume (PV (XQ v)) (Some m) = Err EInvalidOp <-> 0 <= v /\ v <= max_tecan_volume /\ m < v.
Proof.
  unfold check_volume. destruct (Qltb v 0) eqn:E1.
  { apply Qltb_true in E1. split; [discriminate|]. intros (H & _ & _). lra. }
  apply Qltb_false in E1. destruct (Qgtb v max_tecan_volume) eqn:E2.
  { apply Qgtb_true_iff in E2. split; [discriminate|]. intros (_ & H & _). lra. }
  apply Qgtb_false_iff in E2. destruct (Qgtb v m) eqn:E3.
  - apply Qgtb_true_iff in E3. split; [intros _; auto|reflexivity].
  - apply Qgtb_false_iff in E3. split; [discriminate|]. intros (_ & _ & H). lra.
Qed.

Theorem plan_never_refused m mode triples s d v : 0 < m ->
  In (Step s d v) (plan true m mode triples) ->
  check_volume (PV (XQ v)) (Some m) <> Err EInvalidOp /\
  (m <= max_tecan_volume -> check_volume (PV (XQ v)) (Some m) = Ok v).
Proof.
  intros Hm H. destruct (plan_steps_positive true m mode triples s d v Hm H) as (Hpos & Hle & _).
  specialize (Hle eq_refl). split.
  - intro C. apply check_volume_invalid_iff in C. lra.
  - intro Hmax. apply check_volume_ok; lra.
Qed.

(* ------------------------------------------------------------------------------------------ *)
(** * where the commits are *)

Definition is_split (a : bool) (m : Q) (t : triple) : Prop := (2 <= length (vol_list a m (snd t)))%nat.

Lemma pass_steps_no_commit p rows : ~ In Commit (pass_steps p rows).
Proof.
  unfold pass_steps. rewrite in_flat_map. intros (it & _ & H).
  destruct (nth_error (snd it) p) as [x|]; [|destruct H].
  destruct (Qltb 0 x); [|destruct H]. destruct H as [H|[]]. discriminate.
Qed.

Lemma maxlen_gt {T V} (l : list (T * list V)) k :
  (k < maxlen l)%nat <-> exists it, In it l /\ (k < length (snd it))%nat.
Proof.
  induction l as [|it r IH].
  - cbn [maxlen fold_right]. split; [lia|]. intros (it & [] & _).
  - cbn [maxlen fold_right]. fold (maxlen r). split.
    + intro H. destruct (Nat.lt_ge_cases k (length (snd it))) as [H1|H1].
      * exists it. split; [left; reflexivity|exact H1].
      * assert (H2 : (k < maxlen r)%nat) by lia. apply IH in H2. destruct H2 as (it' & Hin & Hl).
        exists it'. split; [right; exact Hin|exact Hl].
    + intros (it' & [E|Hin] & Hl).
      * subst it'. lia.
      * assert (H2 : (k < maxlen r)%nat) by (apply IH; exists it'; auto). lia.
Qed.

Lemma group_np_split a m g :
  (1 < maxlen (map (mkrow a m) g))%nat <-> exists t, In t g /\ is_split a m t.
Proof.
  rewrite maxlen_gt. split.
  - intros (it & Hin & Hl). apply in_map_iff in Hin. destruct Hin as (t & <- & Hin).
    exists t. split; [exact Hin|]. unfold is_split. cbn [mkrow snd] in Hl. lia.
  - intros (t & Hin & Hs). exists (mkrow a m t). split; [apply in_map; exact Hin|].
    unfold is_split in Hs. cbn [mkrow snd]. lia.
Qed.

Theorem group_commit_iff a m g :
  In Commit (group_plan a m g) <-> exists t, In t g /\ is_split a m t.
Proof.
  rewrite <- group_np_split, group_plan_eq.
  set (rows := map (mkrow a m) g). set (np := maxlen rows). split.
  - intro H. destruct (Nat.ltb_spec 1 np) as [Hnp|Hnp]; [exact Hnp|exfalso].
    rewrite app_nil_r in H. apply in_flat_map in H. destruct H as (p & _ & H).
    cbn [andb app] in H. rewrite app_nil_r in H. exact (pass_steps_no_commit p rows H).
  - intro H. apply in_or_app. right. apply Nat.ltb_lt in H. rewrite H. left. reflexivity.
Qed.

Theorem group_commit_last a m g :
  (exists t, In t g /\ is_split a m t) -> exists l, group_plan a m g = (l ++ [Commit])%list.
Proof.
  intro H. apply group_np_split in H. rewrite group_plan_eq. apply Nat.ltb_lt in H. rewrite H.
  eexists. reflexivity.
Qed.

Lemma in_groups_iff mode triples t :
  (exists g, In g (partition_by_column mode triples) /\ In t g) <-> In t triples.
Proof.
  split.
  - intros (g & Hg & Ht). apply (Permutation_in _ (partition_by_column_perm mode triples)).
    apply in_concat. exists g. auto.
  - intro H. apply (Permutation_in _ (Permutation_sym (partition_by_column_perm mode triples))) in H.
    apply in_concat in H. destruct H as (g & Hg & Ht). exists g. auto.
Qed.

Theorem plan_commit_iff a m mode triples :
  In Commit (plan a m mode triples) <-> exists t, In t triples /\ is_split a m t.
Proof.
  unfold plan. rewrite in_flat_map. split.
  - intros (g & Hg & H). apply group_commit_iff in H. destruct H as (t & Ht & Hs).
    exists t. split; [|exact Hs]. apply (in_groups_iff mode triples t). exists g. auto.
  - intros (t & Ht & Hs). apply (in_groups_iff mode triples t) in Ht. destruct Ht as (g & Hg & Ht).
    exists g. split; [exact Hg|]. apply group_commit_iff. exists t. auto.
Qed.

Theorem plan_no_commit_nosplit m mode triples : ~ In Commit (plan false m mode triples).
Proof.
  rewrite plan_commit_iff. intros (t & _ & Hs). unfold is_split in Hs. cbn [vol_list length] in Hs. lia.
Qed.

(** with auto_split a non-negative volume is split iff it exceeds max_volume *)
Theorem is_split_iff m t : 0 < m -> 0 <= snd t -> (is_split true m t <-> m < snd t).
Proof.
  intros Hm Hv. unfold is_split. cbn [vol_list]. destruct t as [[s d] v]. cbn [snd] in *.
  destruct (Qlt_le_dec 0 v) as [Hpos|Hz].
  - destruct (partition_volume_spec v m Hm Hpos) as (Hlen & _ & _).
    pose proof (ceil_lo (v / m)) as Hlo. pose proof (ceil_hi (v / m)) as Hhi.
    assert (Hvm : v == (v / m) * m) by (field; lra).
    split.
    + intro H. assert (Hc : (2 <= Qceiling (v / m))%Z) by lia.
      rewrite Zle_Qle in Hc. change (inject_Z 2) with 2 in Hc. nra.
    + intro H. assert (Hq : 1 < v / m) by (apply Qlt_shift_div_l; lra).
      assert (Hc : 1 < inject_Z (Qceiling (v / m))) by lra.
      change 1 with (inject_Z 1) in Hc. rewrite <- Zlt_Qlt in Hc. lia.
  - rewrite partition_volume_zero by lra. cbn [length]. split; [lia|intro H; lra].
Qed.

(** the steps of one group plan all stem from that group *)
Theorem group_step_origin a m g s d v :
  In (Step s d v) (group_plan a m g) <->
  exists v0, In (s, d, v0) g /\ In v (vol_list a m v0) /\ 0 < v.
Proof.
  rewrite steps_of_In. split.
  - intro H. apply (Permutation_in _ (group_steps_perm a m g)) in H.
    apply in_flat_map in H. destruct H as ([[s0 d0] v0] & Hin & Hst).
    apply triple_steps_In in Hst. cbn [fst snd] in Hst. destruct Hst as (-> & -> & Hv & Hpos).
    exists v0. auto.
  - intros (v0 & Hin & Hv & Hpos).
    apply (Permutation_in _ (Permutation_sym (group_steps_perm a m g))).
    apply in_flat_map. exists (s, d, v0). split; [exact Hin|].
    apply triple_steps_In. cbn [fst snd]. auto.
Qed.

(* ------------------------------------------------------------------------------------------ *)
(** * records written by one aspirate / dispense / tip action *)

Definition same_cfg (w w' : wstate) : Prop :=
  w_max w' = w_max w /\ w_autosplit w' = w_autosplit w /\ w_diti w' = w_diti w /\ w_dev w' = w_dev w.

Lemma same_cfg_refl w : same_cfg w w.
Proof. repeat split. Qed.
Lemma same_cfg_emit w rs : same_cfg w (emit w rs).
Proof. repeat split. Qed.
Lemma same_cfg_trans w1 w2 w3 : same_cfg w1 w2 -> same_cfg w2 w3 -> same_cfg w1 w3.
Proof. intros (A1 & A2 & A3 & A4) (B1 & B2 & B3 & B4). repeat split; congruence. Qed.

(** name and geometry of every labware of the state *)
Definition lw_frames (s : state) : list (string * geom) :=
  map (fun L => (lw_name L, lw_geom L)) (st_lw s).

Lemma upd_map_same {A B} (f : A -> B) x y : forall l k,
  nth_error l k = Some y -> f x = f y -> map f (upd l k x) = map f l.
Proof.
  induction l as [|z r IH]; intros [|k] H E; cbn [nth_error upd map] in *; try discriminate.
  - injection H as ->. rewrite E. reflexivity.
  - rewrite (IH k H E). reflexivity.
Qed.

Lemma nth_error_upd_same {A} (x y : A) : forall l k,
  nth_error l k = Some y -> nth_error (upd l k x) k = Some x.
Proof.
  induction l as [|z r IH]; intros [|k] H; cbn [nth_error upd] in *; try discriminate;
    [reflexivity|exact (IH k H)].
Qed.

Lemma frames_set_lw s k L L' :
  nth_error (st_lw s) k = Some L -> lw_name L' = lw_name L -> lw_geom L' = lw_geom L ->
  lw_frames (set_lw s k L') = lw_frames s.
Proof.
  intros H Hn Hg. unfold lw_frames, set_lw. cbn [st_lw].
  apply (upd_map_same _ L' L); [exact H|]. rewrite Hn, Hg. reflexivity.
Qed.

Lemma frames_nth s s' k L' :
  lw_frames s' = lw_frames s -> nth_error (st_lw s') k = Some L' ->
  exists L, nth_error (st_lw s) k = Some L /\ lw_name L' = lw_name L /\ lw_geom L' = lw_geom L.
Proof.
  intros HF H. unfold lw_frames in HF.
  assert (E : nth_error (map (fun L => (lw_name L, lw_geom L)) (st_lw s')) k
              = nth_error (map (fun L => (lw_name L, lw_geom L)) (st_lw s)) k) by (rewrite HF; reflexivity).
  rewrite !nth_error_map, H in E. cbn [option_map] in E.
  destruct (nth_error (st_lw s) k) as [L|]; cbn [option_map] in E; [|discriminate].
  injection E as En Eg. exists L. auto.
Qed.

Lemma remove_name_geom L wells vols label L' e :
  remove L wells vols label = (L', e) -> lw_name L' = lw_name L /\ lw_geom L' = lw_geom L.
Proof.
  unfold remove. intro H. destruct (prep_wells_vols wells vols) as [wv|e0].
  - destruct (remove_loop L wv) as [L1 oe] eqn:El. apply remove_loop_run, rem_run_frame in El.
    destruct El as (En & Eg & _).
    destruct oe as [e1|]; injection H as <- _; [auto|]. unfold log. cbn [lw_name lw_geom set_hist]. auto.
  - injection H as <- _. auto.
Qed.

Lemma add_name_geom L wells vols label comps L' e :
  add L wells vols label comps = (L', e) -> lw_name L' = lw_name L /\ lw_geom L' = lw_geom L.
Proof.
  unfold add. intro H. destruct (prep_wells_vols wells vols) as [wv|e0].
  - match type of H with context [negb ?b] => destruct b end; cbn [negb] in H.
    + match type of H with context [add_loop L ?it] => destruct (add_loop L it) as [L1 oe] eqn:El end.
      apply add_loop_run, add_run_frame in El. destruct El as (En & Eg & _).
      destruct oe as [e1|]; injection H as <- _; [auto|]. unfold log. cbn [lw_name lw_geom set_hist]. auto.
    + injection H as <- _. auto.
  - injection H as <- _. auto.
Qed.

(** pass-through fields of a record, as given by the keyword arguments *)
Definition kw_fields (k : kwargs) (f : adfields) : Prop :=
  k_liquid_class k = PStr (ad_liquid_class f) /\ tip_mask (k_tip k) = Ok (ad_tip f) /\
  k_rack_id k = PStr (ad_rack_id f) /\ k_tube_id k = PStr (ad_tube_id f) /\
  k_rack_type k = PStr (ad_rack_type f) /\ k_forced k = PStr (ad_forced_rack_type f).

Lemma kw_fields_agree k f f' : kw_fields k f -> kw_fields k f' ->
  ad_liquid_class f' = ad_liquid_class f /\ ad_tip f' = ad_tip f.
Proof.
  intros (A1 & A2 & _) (B1 & B2 & _). rewrite A1 in B1. rewrite A2 in B2.
  injection B1 as B1. injection B2 as B2. auto.
Qed.

Lemma text_ok_inv b t x : text_ok b t = Some x -> t = PStr x.
Proof.
  unfold text_ok. destruct t as [y|]; [|discriminate].
  destruct (contains_char semi y); [discriminate|].
  destruct (b && (32 <? String.length y)%nat); [discriminate|]. intro H. injection H as ->. reflexivity.
Qed.

Lemma check_volume_ok_inv v m q : check_volume (PV (XQ v)) (Some m) = Ok q ->
  q = v /\ 0 <= v /\ v <= max_tecan_volume /\ v <= m.
Proof.
  unfold check_volume. destruct (Qltb v 0) eqn:E1; [discriminate|].
  destruct (Qgtb v max_tecan_volume) eqn:E2; [discriminate|].
  destruct (Qgtb v m) eqn:E3; [discriminate|]. intro H. injection H as <-.
  apply Qltb_false in E1. apply Qgtb_false_iff in E2. apply Qgtb_false_iff in E3. auto.
Qed.

Lemma prepare_ad_inv name pos v k mx f :
  prepare_ad (ad_of_kw name pos v k) (Some mx) = Ok f ->
  ad_rack_label f = name /\ ad_position f = Z.of_nat pos /\ ad_volume f = v /\ kw_fields k f /\
  0 <= v /\ v <= mx /\ v <= max_tecan_volume.
Proof.
  unfold prepare_ad, ad_of_kw.
  cbn [x_rack_label x_position x_volume x_liquid_class x_tip x_rack_id x_tube_id x_rack_type x_forced].
  intro H.
  destruct (text_ok true (PStr name)) as [label|] eqn:E1; [|discriminate].
  apply text_ok_inv in E1. injection E1 as E1.
  destruct (check_position (PInt (Z.of_nat pos))) as [p|ep] eqn:E2; [|discriminate].
  unfold check_position in E2. destruct (Z.of_nat pos <? 0)%Z; [discriminate|]. injection E2 as E2.
  destruct (check_volume (PV (XQ v)) (Some mx)) as [q|ev] eqn:E3; [|discriminate].
  apply check_volume_ok_inv in E3. destruct E3 as (-> & H0 & Ht & Hm).
  destruct (text_ok false (k_liquid_class k)) as [lc|] eqn:E4; [|discriminate]. apply text_ok_inv in E4.
  destruct (tip_mask (k_tip k)) as [mask|et] eqn:E5; [|discriminate].
  destruct (text_ok true (k_rack_id k)) as [rid|] eqn:E6; [|discriminate]. apply text_ok_inv in E6.
  destruct (text_ok false (k_tube_id k)) as [tid|] eqn:E7; [|discriminate]. apply text_ok_inv in E7.
  destruct (text_ok true (k_rack_type k)) as [rty|] eqn:E8; [|discriminate]. apply text_ok_inv in E8.
  destruct (text_ok true (k_forced k)) as [frt|] eqn:E9; [|discriminate]. apply text_ok_inv in E9.
  injection H as <-. unfold kw_fields.
  cbn [ad_rack_label ad_position ad_volume ad_liquid_class ad_tip ad_rack_id ad_tube_id ad_rack_type
       ad_forced_rack_type].
  repeat split; auto.
Qed.

(** the record loop for one well with a positive volume *)
Lemma emit_one asp w L well v kw : 0 < v ->
  emit_wells asp w L [(well, XQ v)] kw =
  match device_position (w_dev w) (lw_geom L) well with
  | Err e => (w, Some e)
  | Ok pos =>
      match prepare_ad (ad_of_kw (lw_name L) pos v kw) (Some (w_max w)) with
      | Ok f => (emit w [if asp then RA f else RD f], None)
      | Err e => (w, Some e)
      end
  end.
Proof.
  intro Hv. apply Qltb_true_iff in Hv. cbn [emit_wells xpos xq]. rewrite Hv.
  destruct (device_position (w_dev w) (lw_geom L) well) as [pos|e]; [|reflexivity].
  destruct asp; [unfold aspirate_well|unfold dispense_well];
    destruct (prepare_ad (ad_of_kw (lw_name L) pos v kw) (Some (w_max w))) as [f|e]; reflexivity.
Qed.

Lemma aspirate_single s k well v kw s1 e : 0 < v ->
  aspirate s k (A0 well) (A0 (XQ v)) None kw = (s1, e) ->
  lw_frames s1 = lw_frames s /\
  match e with
  | Some _ => st_wl s1 = st_wl s
  | None => exists L pos f,
      nth_error (st_lw s) k = Some L /\
      device_position (w_dev (st_wl s)) (lw_geom L) well = Ok pos /\
      prepare_ad (ad_of_kw (lw_name L) pos v kw) (Some (w_max (st_wl s))) = Ok f /\
      st_wl s1 = emit (st_wl s) [RA f]
  end.
Proof.
  intros Hv H. unfold aspirate in H.
  destruct (nth_error (st_lw s) k) as [L|] eqn:Ek.
  2:{ injection H as <- <-. auto. }
  cbn [wells_vols flattenF broadcast length repeat] in H.
  destruct (remove L (A1 [well]) (A1 [XQ v]) None) as [L' oe] eqn:Er.
  destruct (remove_name_geom _ _ _ _ _ _ Er) as [En Eg].
  pose proof (frames_set_lw s k L L' Ek En Eg) as HF.
  destruct oe as [e1|].
  { injection H as <- <-. auto. }
  cbn [comment set_lw st_wl set_wl zip] in H. rewrite (emit_one true _ _ _ _ _ Hv) in H.
  rewrite Eg, En in H.
  destruct (device_position (w_dev (st_wl s)) (lw_geom L) well) as [pos|e2] eqn:Ep.
  2:{ injection H as <- <-. auto. }
  destruct (prepare_ad (ad_of_kw (lw_name L) pos v kw) (Some (w_max (st_wl s)))) as [f|e3] eqn:Ef.
  2:{ injection H as <- <-. auto. }
  injection H as <- <-. split; [exact HF|]. exists L, pos, f. auto.
Qed.

Lemma dispense_single s k well v comps kw s1 e : 0 < v ->
  dispense s k (A0 well) (A0 (XQ v)) None comps kw = (s1, e) ->
  lw_frames s1 = lw_frames s /\
  match e with
  | Some _ => st_wl s1 = st_wl s
  | None => exists L pos f,
      nth_error (st_lw s) k = Some L /\
      device_position (w_dev (st_wl s)) (lw_geom L) well = Ok pos /\
      prepare_ad (ad_of_kw (lw_name L) pos v kw) (Some (w_max (st_wl s))) = Ok f /\
      st_wl s1 = emit (st_wl s) [RD f]
  end.
Proof.
  intros Hv H. unfold dispense in H.
  destruct (nth_error (st_lw s) k) as [L|] eqn:Ek.
  2:{ injection H as <- <-. auto. }
  cbn [wells_vols flattenF broadcast length repeat] in H.
  destruct (add L (A1 [well]) (A1 [XQ v]) None comps) as [L' oe] eqn:Er.
  destruct (add_name_geom _ _ _ _ _ _ _ Er) as [En Eg].
  pose proof (frames_set_lw s k L L' Ek En Eg) as HF.
  destruct oe as [e1|].
  { injection H as <- <-. auto. }
  cbn [comment set_lw st_wl set_wl zip] in H. rewrite (emit_one false _ _ _ _ _ Hv) in H.
  rewrite Eg, En in H.
  destruct (device_position (w_dev (st_wl s)) (lw_geom L) well) as [pos|e2] eqn:Ep.
  2:{ injection H as <- <-. auto. }
  destruct (prepare_ad (ad_of_kw (lw_name L) pos v kw) (Some (w_max (st_wl s)))) as [f|e3] eqn:Ef.
  2:{ injection H as <- <-. auto. }
  injection H as <- <-. split; [exact HF|]. exists L, pos, f. auto.
Qed.

(** the records of the tip action *)
Definition tip_spec (diti : bool) (dev : device) (ws : scheme) (tip : list srec) : Prop :=
  match ws with
  | SReuse => tip = []
  | SFlush => tip = [RF]
  | SNone => tip = match dev with Fluent => [RF] | _ => [] end
  | SInt z => if diti then tip = [RW None]
              else (1 <= z <= 4)%Z /\ tip = [RW (Some (Z.to_nat z))]
  | SOther => diti = true /\ tip = [RW None]
  end.

Lemma emit_nil w : emit w [] = w.
Proof. unfold emit. rewrite app_nil_r. destruct w; reflexivity. Qed.

Lemma tip_action_spec w ws w' e : tip_action w ws = (w', e) ->
  match e with
  | None => exists tip, w' = emit w tip /\ tip_spec (w_diti w) (w_dev w) ws tip
  | Some _ => w' = w
  end.
Proof.
  unfold tip_action, wash, flush. intro H. destruct ws as [z| | | |]; cbn [tip_spec].
  - destruct (w_diti w).
    + injection H as <- <-. exists [RW None]. auto.
    + destruct ((1 <=? z)%Z && (z <=? 4)%Z) eqn:E; injection H as <- <-; [|reflexivity].
      apply andb_true_iff in E. destruct E as [E1 E2].
      apply Z.leb_le in E1. apply Z.leb_le in E2. exists [RW (Some (Z.to_nat z))]. auto.
  - injection H as <- <-. exists [RF]. auto.
  - injection H as <- <-. exists []. rewrite emit_nil. auto.
  - destruct (w_dev w); injection H as <- <-; eexists; (split; [|reflexivity]);
      try reflexivity; symmetry; apply emit_nil.
  - destruct (w_diti w); injection H as <- <-; [|reflexivity]. exists [RW None]. auto.
Qed.

(* ------------------------------------------------------------------------------------------ *)
(** * one executed step *)

Definition pair_records (Ls Ld : labware) (w : wstate) (sw dw : string) (v : Q) (ws : scheme)
    (kw : kwargs) (rs : list srec) : Prop :=
  exists pa pd fa fd tip,
    rs = ([RA fa; RD fd] ++ tip)%list /\
    device_position (w_dev w) (lw_geom Ls) sw = Ok pa /\
    device_position (w_dev w) (lw_geom Ld) dw = Ok pd /\
    ad_rack_label fa = lw_name Ls /\ ad_position fa = Z.of_nat pa /\
    ad_rack_label fd = lw_name Ld /\ ad_position fd = Z.of_nat pd /\
    ad_volume fa = v /\ ad_volume fd = v /\
    ad_liquid_class fd = ad_liquid_class fa /\ ad_tip fd = ad_tip fa /\
    kw_fields kw fa /\ kw_fields kw fd /\
    v <= w_max w /\
    tip_spec (w_diti w) (w_dev w) ws tip.

(** what can have been written when a step fails *)
Definition step_prefix (v : Q) (rs : list srec) : Prop :=
  rs = [] \/
  (exists fa, rs = [RA fa] /\ ad_volume fa = v) \/
  (exists fa fd, rs = [RA fa; RD fd] /\ ad_volume fa = v /\ ad_volume fd = v /\
                 ad_liquid_class fd = ad_liquid_class fa /\ ad_tip fd = ad_tip fa).

Lemma pair_records_ext Ls Ld w Ls' Ld' w' sw dw v ws kw rs :
  lw_name Ls' = lw_name Ls -> lw_geom Ls' = lw_geom Ls ->
  lw_name Ld' = lw_name Ld -> lw_geom Ld' = lw_geom Ld -> same_cfg w w' ->
  pair_records Ls Ld w sw dw v ws kw rs -> pair_records Ls' Ld' w' sw dw v ws kw rs.
Proof.
  intros E1 E2 E3 E4 (C1 & C2 & C3 & C4). unfold pair_records. rewrite E1, E2, E3, E4, C1, C3, C4.
  exact (fun H => H).
Qed.

Theorem exec_step_records s ks kd sw dw v ws kw s' e : 0 < v ->
  exec_step s ks kd sw dw v ws kw = (s', e) ->
  lw_frames s' = lw_frames s /\ same_cfg (st_wl s) (st_wl s') /\
  exists rs, w_recs (st_wl s') = (w_recs (st_wl s) ++ rs)%list /\
    match e with
    | None => exists Ls Ld, nth_error (st_lw s) ks = Some Ls /\ nth_error (st_lw s) kd = Some Ld /\
                            pair_records Ls Ld (st_wl s) sw dw v ws kw rs
    | Some _ => step_prefix v rs
    end.
Proof.
  intros Hv H. unfold exec_step in H.
  destruct (aspirate s ks (A0 sw) (A0 (XQ v)) None kw) as [s1 oe1] eqn:Ea.
  destruct (aspirate_single _ _ _ _ _ _ _ Hv Ea) as [HF1 HA].
  destruct oe1 as [e1|].
  { injection H as <- <-. rewrite HA. split; [exact HF1|]. split; [apply same_cfg_refl|].
    exists []. rewrite app_nil_r. split; [reflexivity|left; reflexivity]. }
  destruct HA as (Ls & pa & fa & Eks & Epa & Efa & Ew1).
  destruct (prepare_ad_inv _ _ _ _ _ _ Efa) as (Fa1 & Fa2 & Fa3 & Fa4 & Fa5 & Fa6 & _).
  assert (HP1 : step_prefix v [RA fa]) by (right; left; exists fa; auto).
  assert (HC1 : same_cfg (st_wl s) (st_wl s1)) by (rewrite Ew1; apply same_cfg_emit).
  assert (HR1 : w_recs (st_wl s1) = (w_recs (st_wl s) ++ [RA fa])%list) by (rewrite Ew1; reflexivity).
  destruct (nth_error (st_lw s1) ks) as [Ls1|].
  2:{ injection H as <- <-. split; [exact HF1|]. split; [exact HC1|]. exists [RA fa]. auto. }
  destruct (get_well_composition Ls1 sw) as [c|e2].
  2:{ injection H as <- <-. split; [exact HF1|]. split; [exact HC1|]. exists [RA fa]. auto. }
  destruct (dispense s1 kd (A0 dw) (A0 (XQ v)) None (Some [Some c]) kw) as [s2 oe3] eqn:Ed.
  destruct (dispense_single _ _ _ _ _ _ _ _ Hv Ed) as [HF2 HD].
  destruct oe3 as [e3|].
  { injection H as <- <-. rewrite HD. split; [congruence|]. split; [exact HC1|]. exists [RA fa]. auto. }
  destruct HD as (Ld1 & pd & fd & Ekd & Epd & Efd & Ew2).
  destruct (frames_nth s s1 kd Ld1 HF1 Ekd) as (Ld & Ekd0 & Edn & Edg).
  destruct HC1 as (C1 & C2 & C3 & C4). rewrite C1 in Efd. rewrite C4, Edg in Epd. rewrite Edn in Efd.
  destruct (prepare_ad_inv _ _ _ _ _ _ Efd) as (Fd1 & Fd2 & Fd3 & Fd4 & _).
  destruct (kw_fields_agree kw fa fd Fa4 Fd4) as [Elc Etip].
  assert (HC2 : same_cfg (st_wl s) (st_wl s2)).
  { rewrite Ew2. apply same_cfg_trans with (st_wl s1); [repeat split; assumption|apply same_cfg_emit]. }
  assert (HR2 : w_recs (st_wl s2) = (w_recs (st_wl s) ++ [RA fa; RD fd])%list).
  { rewrite Ew2. cbn [emit w_recs]. rewrite HR1, <- app_assoc. reflexivity. }
  destruct (tip_action (st_wl s2) ws) as [w3 oe4] eqn:Et.
  apply tip_action_spec in Et. injection H as <- <-. cbn [set_wl st_wl].
  split; [unfold lw_frames in *; cbn [st_lw set_wl]; congruence|].
  destruct oe4 as [e4|].
  - subst w3. split; [exact HC2|]. exists [RA fa; RD fd]. split; [exact HR2|].
    right; right. exists fa, fd. repeat split; auto.
  - destruct Et as (tip & -> & Hts). destruct HC2 as (D1 & D2 & D3 & D4).
    split; [repeat split; assumption|].
    exists ([RA fa; RD fd] ++ tip)%list. split.
    + cbn [emit w_recs]. rewrite HR2, <- app_assoc. reflexivity.
    + exists Ls, Ld. split; [exact Eks|]. split; [exact Ekd0|].
      rewrite D3, D4 in Hts.
      exists pa, pd, fa, fd, tip. repeat split; auto; first [apply Fa4 | apply Fd4].
Qed.

(* ------------------------------------------------------------------------------------------ *)
(** * a run of actions *)

Lemma same_cfg_sym w w' : same_cfg w w' -> same_cfg w' w.
Proof. intros (A1 & A2 & A3 & A4). repeat split; congruence. Qed.

Definition act_records (s : state) (ks kd : nat) (ws : scheme) (kw : kwargs) (a : action)
    (rs : list srec) : Prop :=
  match a with
  | Commit => rs = [RB]
  | Step sw dw v =>
      exists Ls Ld, nth_error (st_lw s) ks = Some Ls /\ nth_error (st_lw s) kd = Some Ld /\
                    pair_records Ls Ld (st_wl s) sw dw v ws kw rs
  end.

Lemma act_records_ext s s1 ks kd ws kw a rs :
  lw_frames s1 = lw_frames s -> same_cfg (st_wl s) (st_wl s1) ->
  act_records s1 ks kd ws kw a rs -> act_records s ks kd ws kw a rs.
Proof.
  intros HF HC. destruct a as [sw dw v|]; cbn [act_records]; [|exact (fun H => H)].
  intros (Ls1 & Ld1 & Hs & Hd & HP).
  destruct (frames_nth s s1 ks Ls1 HF Hs) as (Ls & Hs0 & Esn & Esg).
  destruct (frames_nth s s1 kd Ld1 HF Hd) as (Ld & Hd0 & Edn & Edg).
  exists Ls, Ld. split; [exact Hs0|]. split; [exact Hd0|].
  apply (pair_records_ext Ls1 Ld1 (st_wl s1)); try congruence. apply same_cfg_sym. exact HC.
Qed.

Lemma Forall2_weaken {A B} (R1 R2 : A -> B -> Prop) l1 l2 :
  (forall a b, R1 a b -> R2 a b) -> Forall2 R1 l1 l2 -> Forall2 R2 l1 l2.
Proof. intros H HF. induction HF as [|a b r1 r2 Hab Hr IH]; constructor; auto. Qed.

Theorem exec_records acts : forall s ks kd ws kw s',
  (forall sw dw v, In (Step sw dw v) acts -> 0 < v) ->
  exec s ks kd acts ws kw = (s', None) ->
  lw_frames s' = lw_frames s /\ same_cfg (st_wl s) (st_wl s') /\
  exists rss, w_recs (st_wl s') = (w_recs (st_wl s) ++ concat rss)%list /\
              Forall2 (act_records s ks kd ws kw) acts rss.
Proof.
  induction acts as [|a rest IH]; intros s ks kd ws kw s' Hpos H; cbn [exec] in H.
  - injection H as <-. split; [reflexivity|]. split; [apply same_cfg_refl|].
    exists []. cbn [concat]. rewrite app_nil_r. split; [reflexivity|constructor].
  - assert (Hpos' : forall sw dw v, In (Step sw dw v) rest -> 0 < v).
    { intros sw dw v Hin. apply (Hpos sw dw v). right. exact Hin. }
    destruct a as [sw dw v|].
    + destruct (exec_step s ks kd sw dw v ws kw) as [s1 oe] eqn:Es.
      assert (Hv : 0 < v) by (apply (Hpos sw dw v); left; reflexivity).
      destruct (exec_step_records _ _ _ _ _ _ _ _ _ _ Hv Es) as (HF1 & HC1 & rs & HR1 & Hact).
      destruct oe as [e|]; [discriminate|].
      destruct (IH s1 ks kd ws kw s' Hpos' H) as (HF2 & HC2 & rss & HR2 & Hall).
      split; [congruence|]. split; [exact (same_cfg_trans _ _ _ HC1 HC2)|].
      exists (rs :: rss). split.
      * cbn [concat]. rewrite HR2, HR1, <- app_assoc. reflexivity.
      * constructor; [exact Hact|].
        apply (Forall2_weaken (act_records s1 ks kd ws kw)); [|exact Hall].
        intros a b. apply act_records_ext; assumption.
    + destruct (IH _ ks kd ws kw s' Hpos' H) as (HF2 & HC2 & rss & HR2 & Hall).
      cbn [commit fst set_wl st_wl] in HC2, HR2.
      split; [exact HF2|]. split; [exact HC2|].
      exists ([RB] :: rss). split.
      * cbn [concat]. rewrite HR2. cbn [emit w_recs]. rewrite <- app_assoc. reflexivity.
      * constructor; [reflexivity|].
        apply (Forall2_weaken (act_records (set_wl s (emit (st_wl s) [RB])) ks kd ws kw)); [|exact Hall].
        intros a b. apply act_records_ext; [reflexivity|apply same_cfg_emit].
Qed.

(* ------------------------------------------------------------------------------------------ *)
(** * transfer: accepted and rejected calls *)

Definition t_n (swells dwells : arr string) (vols : arr Q) : nat :=
  Nat.max (length (flattenF swells)) (Nat.max (length (flattenF dwells)) (length (flattenF vols))).
Definition t_src (swells dwells : arr string) (vols : arr Q) : list string :=
  broadcast (flattenF swells) (t_n swells dwells vols).
Definition t_dst (swells dwells : arr string) (vols : arr Q) : list string :=
  broadcast (flattenF dwells) (t_n swells dwells vols).
Definition t_vol (swells dwells : arr string) (vols : arr Q) : list Q :=
  broadcast (flattenF vols) (t_n swells dwells vols).
Definition t_triples (swells dwells : arr string) (vols : arr Q) : list triple :=
  zip (zip (t_src swells dwells vols) (t_dst swells dwells vols)) (t_vol swells dwells vols).

Lemma broadcast_length {A} (l : list A) n :
  length (broadcast l n) = if (length l =? 1)%nat then n else length l.
Proof.
  destruct l as [|x [|y r]]; cbn [broadcast length Nat.eqb]; [reflexivity|apply repeat_length|reflexivity].
Qed.

Lemma comment_cfg w c w' e : comment w c = (w', e) -> same_cfg w w'.
Proof.
  unfold comment. destruct c as [c|]; [|intro H; injection H as <- _; apply same_cfg_refl].
  destruct (String.eqb c ""); [intro H; injection H as <- _; apply same_cfg_refl|].
  destruct (contains_char semi c); intro H; injection H as <- _;
    [apply same_cfg_refl|apply same_cfg_emit].
Qed.

Lemma condense_at_wl s k n label : st_wl (condense_at s k n label) = st_wl s.
Proof. unfold condense_at. destruct (nth_error (st_lw s) k); reflexivity. Qed.

Lemma plan_steps_pos a m mode triples sw dw v : In (Step sw dw v) (plan a m mode triples) -> 0 < v.
Proof. intro H. apply plan_step_origin in H. destruct H as (v0 & _ & _ & Hv). exact Hv. Qed.

Theorem transfer_records s ks swells kd dwells vols label ws pb kw s' :
  transfer s ks swells kd dwells vols label ws pb kw = (s', None) ->
  exists Ls Ld mode w rss,
    nth_error (st_lw s) ks = Some Ls /\ nth_error (st_lw s) kd = Some Ld /\
    optimize_partition_by (is_trough (lw_geom Ls)) (is_trough (lw_geom Ld)) pb = Ok mode /\
    comment (st_wl s) label = (w, None) /\
    w_recs (st_wl s') = (w_recs w ++ concat rss)%list /\
    Forall2 (act_records s ks kd ws kw)
            (plan (w_autosplit (st_wl s)) (w_max (st_wl s)) mode (t_triples swells dwells vols)) rss.
Proof.
  unfold transfer. cbv zeta. fold (t_n swells dwells vols).
  fold (t_src swells dwells vols). fold (t_dst swells dwells vols). fold (t_vol swells dwells vols).
  fold (t_triples swells dwells vols).
  intro H.
  destruct (w_dev (st_wl s)) eqn:Edev; [| |discriminate].
  all: destruct (nth_error (st_lw s) ks) as [Ls|] eqn:Eks; [|discriminate].
  all: destruct (nth_error (st_lw s) kd) as [Ld|] eqn:Ekd; [|discriminate].
  all: match type of H with (if ?c then _ else _) = _ => destruct c; [discriminate|] end.
  all: match type of H with (if ?c then _ else _) = _ => destruct c; [discriminate|] end.
  all: match type of H with (if ?c then _ else _) = _ => destruct c; [discriminate|] end.
  all: destruct (optimize_partition_by (is_trough (lw_geom Ls)) (is_trough (lw_geom Ld)) pb)
         as [mode|eo] eqn:Eo; [|discriminate].
  all: destruct (comment (st_wl s) label) as [w oc] eqn:Ec.
  all: pose proof (comment_cfg _ _ _ _ Ec) as HC.
  all: destruct oc as [ec|]; [discriminate|].
  all: match type of H with context [exec ?s0 ?k1 ?k2 ?acts ?w1 ?w2] =>
         destruct (exec s0 k1 k2 acts w1 w2) as [s2 oe] eqn:Ee end.
  all: destruct oe as [ee|]; [discriminate|].
  all: apply exec_records in Ee; [|intros sw0 dw0 v0; apply plan_steps_pos].
  all: destruct Ee as (HF & HC2 & rss & HR & Hall).
  all: cbn [set_wl st_wl] in HC2, HR.
  all: exists Ls, Ld, mode, w, rss.
  all: split; [first [exact Eks|reflexivity]|]. all: split; [first [exact Ekd|reflexivity]|].
  all: split; [first [exact Eo|reflexivity]|]. all: split; [first [exact Ec|reflexivity]|].
  all: destruct HC as (C1 & C2 & C3 & C4).
  all: split.
  all: try (destruct (ks =? kd)%nat; injection H as <-; rewrite ?condense_at_wl; exact HR).
  all: rewrite <- C1, <- C2.
  all: apply (Forall2_weaken (act_records (set_wl s w) ks kd ws kw)); [|exact Hall].
  all: intros a b; apply act_records_ext; [reflexivity|repeat split; assumption].
Qed.

Theorem transfer_compat s ks swells kd dwells vols label ws pb kw :
  w_dev (st_wl s) = BaseDev ->
  transfer s ks swells kd dwells vols label ws pb kw = (s, Some ECompat).
Proof. intro H. unfold transfer. rewrite H. reflexivity. Qed.

Definition bad_transfer (s : state) (ks kd : nat) (swells dwells : arr string) (vols : arr Q)
    (pb : string) : Prop :=
  length (t_src swells dwells vols) <> length (t_dst swells dwells vols) \/
  length (t_dst swells dwells vols) <> length (t_vol swells dwells vols) \/
  (exists v, In v (t_vol swells dwells vols) /\ v < 0) \/
  (exists L w, nth_error (st_lw s) ks = Some L /\ In w (t_src swells dwells vols) /\ lw_index L w = None) \/
  (exists L w, nth_error (st_lw s) kd = Some L /\ In w (t_dst swells dwells vols) /\ lw_index L w = None) \/
  nth_error (st_lw s) ks = None \/ nth_error (st_lw s) kd = None \/
  (pb <> "auto"%string /\ pb <> "source"%string /\ pb <> "destination"%string).

Lemma bad_transfer_false s ks kd swells dwells vols pb Ls Ld mode :
  nth_error (st_lw s) ks = Some Ls -> nth_error (st_lw s) kd = Some Ld ->
  negb ((length (t_src swells dwells vols) =? length (t_dst swells dwells vols))%nat
        && (length (t_dst swells dwells vols) =? length (t_vol swells dwells vols))%nat) = false ->
  existsb (fun v => Qltb v 0) (t_vol swells dwells vols) = false ->
  existsb (fun w => match lw_index Ls w with None => true | Some _ => false end)
          (t_src swells dwells vols)
  || existsb (fun w => match lw_index Ld w with None => true | Some _ => false end)
             (t_dst swells dwells vols) = false ->
  optimize_partition_by (is_trough (lw_geom Ls)) (is_trough (lw_geom Ld)) pb = Ok mode ->
  bad_transfer s ks kd swells dwells vols pb -> False.
Proof.
  intros Eks Ekd E1 E2 E3 Eo Hbad.
  apply negb_false_iff, andb_true_iff in E1. destruct E1 as [E1a E1b].
  apply Nat.eqb_eq in E1a. apply Nat.eqb_eq in E1b.
  apply orb_false_iff in E3. destruct E3 as [E3a E3b].
  destruct Hbad as [B|[B|[B|[B|[B|[B|[B|B]]]]]]]; try congruence.
  - destruct B as (v & Hin & Hneg).
    assert (C : existsb (fun v => Qltb v 0) (t_vol swells dwells vols) = true).
    { apply existsb_exists. exists v. split; [exact Hin|apply Qltb_true_iff; exact Hneg]. }
    congruence.
  - destruct B as (L & w & HL & Hin & Hidx). rewrite Eks in HL. injection HL as <-.
    assert (C : existsb (fun w => match lw_index Ls w with None => true | Some _ => false end)
                        (t_src swells dwells vols) = true).
    { apply existsb_exists. exists w. split; [exact Hin|rewrite Hidx; reflexivity]. }
    congruence.
  - destruct B as (L & w & HL & Hin & Hidx). rewrite Ekd in HL. injection HL as <-.
    assert (C : existsb (fun w => match lw_index Ld w with None => true | Some _ => false end)
                        (t_dst swells dwells vols) = true).
    { apply existsb_exists. exists w. split; [exact Hin|rewrite Hidx; reflexivity]. }
    congruence.
  - destruct B as (B1 & B2 & B3). rewrite (optimize_other _ _ pb B1 B2 B3) in Eo. discriminate.
Qed.

Theorem transfer_reject s ks swells kd dwells vols label ws pb kw :
  w_dev (st_wl s) <> BaseDev -> bad_transfer s ks kd swells dwells vols pb ->
  transfer s ks swells kd dwells vols label ws pb kw = (s, Some EReject).
Proof.
  intros Hdev Hbad. unfold transfer. cbv zeta. fold (t_n swells dwells vols).
  fold (t_src swells dwells vols). fold (t_dst swells dwells vols). fold (t_vol swells dwells vols).
  destruct (w_dev (st_wl s)) eqn:Edev; [| |congruence].
  all: destruct (nth_error (st_lw s) ks) as [Ls|] eqn:Eks; [|reflexivity].
  all: destruct (nth_error (st_lw s) kd) as [Ld|] eqn:Ekd; [|reflexivity].
  all: match goal with |- (if ?c then _ else _) = _ => destruct c eqn:E1; [reflexivity|] end.
  all: match goal with |- (if ?c then _ else _) = _ => destruct c eqn:E2; [reflexivity|] end.
  all: match goal with |- (if ?c then _ else _) = _ => destruct c eqn:E3; [reflexivity|] end.
  all: destruct (optimize_partition_by (is_trough (lw_geom Ls)) (is_trough (lw_geom Ld)) pb)
         as [mode|eo] eqn:Eo; [exfalso|reflexivity].
  all: exact (bad_transfer_false _ _ _ _ _ _ _ _ _ _ Eks Ekd E1 E2 E3 Eo Hbad).
Qed.

(* ------------------------------------------------------------------------------------------ *)
(** * without auto_split a step above max_volume is refused *)

Lemma prepare_ad_too_large a mx label pos v :
  text_ok true (x_rack_label a) = Some label -> check_position (x_position a) = Ok pos ->
  x_volume a = PV (XQ v) -> 0 <= v -> v <= max_tecan_volume -> mx < v ->
  prepare_ad a (Some mx) = Err EInvalidOp.
Proof.
  intros H1 H2 H3 H0 Ht Hm. unfold prepare_ad. rewrite H1, H2, H3.
  assert (E : check_volume (PV (XQ v)) (Some mx) = Err EInvalidOp).
  { apply check_volume_invalid_iff. auto. }
  rewrite E. reflexivity.
Qed.

Theorem aspirate_well_too_large w a label pos v :
  text_ok true (x_rack_label a) = Some label -> check_position (x_position a) = Ok pos ->
  x_volume a = PV (XQ v) -> 0 <= v -> v <= max_tecan_volume -> w_max w < v ->
  aspirate_well w a = (w, Some EInvalidOp) /\ dispense_well w a = (w, Some EInvalidOp).
Proof.
  intros H1 H2 H3 H0 Ht Hm. unfold aspirate_well, dispense_well.
  rewrite (prepare_ad_too_large a (w_max w) label pos v H1 H2 H3 H0 Ht Hm). auto.
Qed.

Theorem plan_nosplit_contains m mode triples s d v :
  In (s, d, v) triples -> 0 < v -> In (Step s d v) (plan false m mode triples).
Proof.
  intros Hin Hv. apply plan_step_origin. exists v. split; [exact Hin|]. split; [|exact Hv].
  left. reflexivity.
Qed.

Theorem exec_step_too_large s ks kd sw dw v ws kw L L' pos :
  nth_error (st_lw s) ks = Some L ->
  remove L (A1 [sw]) (A1 [XQ v]) None = (L', None) ->
  device_position (w_dev (st_wl s)) (lw_geom L) sw = Ok pos ->
  text_ok true (PStr (lw_name L)) = Some (lw_name L) ->
  0 < v -> v <= max_tecan_volume -> w_max (st_wl s) < v ->
  exec_step s ks kd sw dw v ws kw = (set_lw s ks L', Some EInvalidOp).
Proof.
  intros Hk Hr Hp Hn Hv Ht Hm. unfold exec_step, aspirate. rewrite Hk.
  cbn [wells_vols flattenF broadcast length repeat]. rewrite Hr.
  destruct (remove_name_geom _ _ _ _ _ _ Hr) as [En Eg].
  cbn [comment set_lw st_wl set_wl zip]. rewrite (emit_one true _ _ _ _ _ Hv). rewrite Eg, En, Hp.
  assert (E : prepare_ad (ad_of_kw (lw_name L) pos v kw) (Some (w_max (st_wl s))) = Err EInvalidOp).
  { apply (prepare_ad_too_large _ _ (lw_name L) (Z.of_nat pos) v); cbn [ad_of_kw x_rack_label x_position x_volume];
      try assumption; try reflexivity; [|lra].
    unfold check_position. destruct (Z.ltb_spec (Z.of_nat pos) 0) as [C|C]; [lia|reflexivity]. }
  rewrite E. reflexivity.
Qed.

(* ------------------------------------------------------------------------------------------ *)
(** * reagent_distribution never plans more multi-dispenses than fit into max_volume *)

(** re-export of [rc_reagent_ok] (Proofs/RecordsProofs.v), restricted to the volume and the
    multi-dispense count *)
Theorem reagent_distribution_multi w a w' :
  reagent_distribution w a = (w', None) ->
  exists f,
    w_recs w' = (w_recs w ++ [RR f])%list /\
    match rd_volume a with
    | RVInt z => r_volume f = PyI z
    | RVFloat x => exists q, x = XQ q /\ r_volume f = PyF q
    | RVBad => False
    end /\
    0 <= pynum_q (r_volume f) /\ pynum_q (r_volume f) <= w_max w /\
    inject_Z (r_multi_disp f) * pynum_q (r_volume f) <= w_max w /\
    (inject_Z (rd_multi_disp a) * pynum_q (r_volume f) <= w_max w -> r_multi_disp f = rd_multi_disp a) /\
    (w_max w < inject_Z (rd_multi_disp a) * pynum_q (r_volume f) ->
       r_multi_disp f = Qfloor (w_max w / pynum_q (r_volume f)) /\
       w_max w < inject_Z (r_multi_disp f + 1) * pynum_q (r_volume f)).
Proof.
  intro H. destruct (rc_reagent_ok w a w' H)
    as (f & _ & HR & _ & _ & _ & _ & _ & _ & _ & _ & _ & _ & _ & HV & _ & _ & _ & Hfit & Hnot
          & _ & _ & _ & _ & _ & _ & H0 & _ & Hmax & _).
  exists f. split; [exact HR|]. split; [exact HV|]. split; [exact H0|]. split; [exact Hmax|].
  split; [|split; [exact Hfit|]].
  - destruct (Qlt_le_dec (w_max w) (inject_Z (rd_multi_disp a) * pynum_q (r_volume f))) as [Hbig|Hok].
    + exact (proj1 (proj2 (proj2 (Hnot Hbig)))).
    + rewrite (Hfit Hok). exact Hok.
  - intro Hbig. destruct (Hnot Hbig) as (E1 & _ & _ & E2 & _). auto.
Qed.
