(** Lemmas about the transfer model of Model/Worklist.v: the pure [plan] (C07 flows, step counts,
    commit placement; C06 splitting), the records written by [exec_step] / [exec], the rejection
    paths of [transfer], and [reagent_distribution]'s multi-dispense bound (C06). *)
From Robo Require Import Prelude Str Wells Utils Labware Tips Records Partition Params Worklist
  PartitionProofs.
From Coq Require Import Lqa Permutation.

(* ------------------------------------------------------------------------------------------ *)
(** * list helpers *)

Lemma flat_map_app_perm {A B} (f g : A -> list B) l :
  Permutation (flat_map (fun a => f a ++ g a) l) (flat_map f l ++ flat_map g l).
Proof.
  induction l as [|a r IH]; cbn [flat_map]; [constructor|].
  rewrite IH. rewrite <- !app_assoc. apply Permutation_app_head.
  rewrite !app_assoc. apply Permutation_app_tail. apply Permutation_app_comm.
Qed.

Lemma flat_map_ext_in' {A B} (f g : A -> list B) l :
  (forall a, In a l -> f a = g a) -> flat_map f l = flat_map g l.
Proof.
  induction l as [|a r IH]; intro H; cbn [flat_map]; [reflexivity|].
  rewrite (H a) by (left; reflexivity). f_equal. apply IH. intros b Hb. apply H. right; exact Hb.
Qed.

Lemma flat_map_nil {A B} (f : A -> list B) l : (forall a, In a l -> f a = []) -> flat_map f l = [].
Proof.
  induction l as [|a r IH]; intro H; cbn [flat_map]; [reflexivity|].
  rewrite (H a) by (left; reflexivity). apply IH. intros b Hb. apply H. right; exact Hb.
Qed.

Lemma flat_map_flat_map {A B C} (f : A -> list B) (g : B -> list C) l :
  flat_map g (flat_map f l) = flat_map (fun a => flat_map g (f a)) l.
Proof.
  induction l as [|a r IH]; cbn [flat_map]; [reflexivity|]. rewrite flat_map_app, IH. reflexivity.
Qed.

Lemma flat_map_perm_pointwise {A B} (f g : A -> list B) l :
  (forall a, In a l -> Permutation (f a) (g a)) -> Permutation (flat_map f l) (flat_map g l).
Proof.
  induction l as [|a r IH]; intro H; cbn [flat_map]; [constructor|].
  apply Permutation_app; [apply H; left; reflexivity|]. apply IH. intros b Hb. apply H. right; exact Hb.
Qed.

Lemma flat_map_perm_list {A B} (f : A -> list B) l l' :
  Permutation l l' -> Permutation (flat_map f l) (flat_map f l').
Proof.
  induction 1 as [|x l l' Hp IH|x y l|l l' l'' Hp1 IH1 Hp2 IH2]; cbn [flat_map].
  - constructor.
  - apply Permutation_app_head. exact IH.
  - rewrite !app_assoc. apply Permutation_app_tail. apply Permutation_app_comm.
  - exact (perm_trans IH1 IH2).
Qed.

Lemma flat_map_concat {A B} (f : A -> list B) (L : list (list A)) :
  flat_map (fun g => flat_map f g) L = flat_map f (concat L).
Proof.
  induction L as [|g r IH]; cbn [flat_map concat]; [reflexivity|]. rewrite flat_map_app, IH. reflexivity.
Qed.

Lemma filter_flat_map {A B} (p : B -> bool) (f : A -> list B) l :
  filter p (flat_map f l) = flat_map (fun a => filter p (f a)) l.
Proof.
  induction l as [|a r IH]; cbn [flat_map]; [reflexivity|]. rewrite filter_app, IH. reflexivity.
Qed.

Lemma filter_perm {A} (p : A -> bool) l l' : Permutation l l' -> Permutation (filter p l) (filter p l').
Proof.
  induction 1 as [|x l l' Hp IH|x y l|l l' l'' Hp1 IH1 Hp2 IH2]; cbn [filter].
  - constructor.
  - destruct (p x); [apply perm_skip|]; exact IH.
  - destruct (p x); destruct (p y); try reflexivity. apply perm_swap.
  - exact (perm_trans IH1 IH2).
Qed.

Lemma filter_id {A} (p : A -> bool) l : (forall x, In x l -> p x = true) -> filter p l = l.
Proof.
  induction l as [|x r IH]; intro H; cbn [filter]; [reflexivity|].
  rewrite (H x) by (left; reflexivity). f_equal. apply IH. intros y Hy. apply H. right; exact Hy.
Qed.

Lemma concat_filter {A} (p : A -> bool) (L : list (list A)) :
  concat (map (filter p) L) = filter p (concat L).
Proof.
  induction L as [|g r IH]; cbn [map concat]; [reflexivity|]. rewrite filter_app, IH. reflexivity.
Qed.

(** if the concatenation of a list of lists is a singleton, a function vanishing on [[]] sees it once *)
Lemma flat_map_single {A B} (G : list A -> list B) t : G [] = [] ->
  forall L, concat L = [t] -> flat_map G L = G [t].
Proof.
  intros HG L. induction L as [|x r IH]; intro H; cbn [concat flat_map] in *; [discriminate|].
  destruct x as [|y x'].
  - cbn [app] in H. rewrite HG, (IH H). reflexivity.
  - cbn [app] in H. injection H as Hy Hx. subst y.
    apply app_eq_nil in Hx. destruct Hx as [Hx Hr]. subst x'.
    assert (Hall : forall z, In z r -> G z = []).
    { intros z Hz. assert (Ez : z = []).
      { destruct z as [|a z']; [reflexivity|exfalso].
        apply in_split in Hz. destruct Hz as (r1 & r2 & Er). subst r.
        rewrite concat_app in Hr. cbn [concat] in Hr. apply app_eq_nil in Hr.
        destruct Hr as [_ Hr]. cbn [app] in Hr. discriminate. }
      subst z. exact HG. }
    rewrite (flat_map_nil G r Hall), app_nil_r. reflexivity.
Qed.

(* ------------------------------------------------------------------------------------------ *)
(** * pass-major versus row-major enumeration of (item, value list) rows *)

Section Transp.
  Context {T V B : Type} (f : T -> V -> list B).

  Definition cell (p : nat) (it : T * list V) : list B :=
    match nth_error (snd it) p with Some x => f (fst it) x | None => [] end.
  Definition row (l : list (T * list V)) (p : nat) : list B := flat_map (cell p) l.
  Definition maxlen (l : list (T * list V)) : nat :=
    fold_right (fun it m => Nat.max (length (snd it)) m) 0 l.
  Definition by_p (l : list (T * list V)) : list B := flat_map (row l) (seq 0 (maxlen l)).
  Definition by_i (l : list (T * list V)) : list B :=
    flat_map (fun it => flat_map (f (fst it)) (snd it)) l.

  Lemma cells_gen (t : T) : forall (vs : list V) k n, length vs <= n ->
    flat_map (fun p => match nth_error vs (p - k) with Some x => f t x | None => [] end) (seq k n)
    = flat_map (f t) vs.
  Proof.
    induction vs as [|x xs IH]; intros k n H.
    - cbn [flat_map]. apply flat_map_nil. intros p _. destruct (p - k); reflexivity.
    - destruct n as [|n]; [cbn [length] in H; lia|].
      cbn [seq flat_map]. replace (k - k) with 0 by lia. cbn [nth_error].
      f_equal. rewrite <- (IH (S k) n) by (cbn [length] in H; lia).
      apply flat_map_ext_in'. intros p Hp. apply in_seq in Hp.
      replace (p - k) with (S (p - S k)) by lia. reflexivity.
  Qed.

  Lemma cells_of_item t (vs : list V) n : length vs <= n ->
    flat_map (fun p => cell p (t, vs)) (seq 0 n) = flat_map (f t) vs.
  Proof.
    intro H. rewrite <- (cells_gen t vs 0 n H). apply flat_map_ext. intro p. unfold cell.
    cbn [fst snd]. rewrite Nat.sub_0_r. reflexivity.
  Qed.

  Lemma cell_beyond it p : length (snd it) <= p -> cell p it = [].
  Proof.
    intro H. unfold cell. destruct (nth_error (snd it) p) eqn:E; [|reflexivity].
    assert (p < length (snd it)) by (apply nth_error_Some; congruence). lia.
  Qed.

  Lemma row_beyond l p : maxlen l <= p -> row l p = [].
  Proof.
    induction l as [|it r IH]; intro H; [reflexivity|].
    cbn [maxlen fold_right] in H. fold (maxlen r) in H.
    unfold row. cbn [flat_map]. fold (row r p). rewrite IH by lia.
    rewrite cell_beyond by lia. reflexivity.
  Qed.

  Lemma rows_upto l n : maxlen l <= n -> flat_map (row l) (seq 0 n) = by_p l.
  Proof.
    intro H. unfold by_p. replace n with (maxlen l + (n - maxlen l)) by lia.
    rewrite seq_app, flat_map_app.
    rewrite (flat_map_nil (row l) (seq (0 + maxlen l) (n - maxlen l))); [apply app_nil_r|].
    intros p Hp. apply in_seq in Hp. apply row_beyond. lia.
  Qed.

  Theorem by_p_perm l : Permutation (by_p l) (by_i l).
  Proof.
    induction l as [|[t vs] r IH]; [constructor|].
    unfold by_p. cbn [maxlen fold_right snd]. fold (maxlen r).
    set (n := Nat.max (length vs) (maxlen r)).
    assert (E : forall p, row ((t, vs) :: r) p = cell p (t, vs) ++ row r p) by reflexivity.
    rewrite (flat_map_ext _ _ E). rewrite flat_map_app_perm.
    rewrite cells_of_item by (unfold n; lia). rewrite rows_upto by (unfold n; lia).
    cbn [by_i flat_map fst snd]. apply Permutation_app_head. exact IH.
  Qed.

  Lemma by_p_single t vs : by_p [(t, vs)] = flat_map (f t) vs.
  Proof.
    unfold by_p. cbn [maxlen fold_right snd]. rewrite Nat.max_0_r.
    rewrite <- (cells_of_item t vs (length vs)) by lia.
    apply flat_map_ext. intro p. unfold row. cbn [flat_map]. apply app_nil_r.
  Qed.

  Lemma maxlen_filter (q : T * list V -> bool) l : maxlen (filter q l) <= maxlen l.
  Proof.
    induction l as [|it r IH]; [cbn; lia|]. cbn [filter].
    destruct (q it); cbn [maxlen fold_right]; fold (maxlen r); fold (maxlen (filter q r)); lia.
  Qed.
End Transp.

(** restricting the cells to the rows selected by [q] is the same as dropping the other rows *)
Lemma by_p_filter {T V B} (f : T -> V -> list B) (q : T * list V -> bool) (l : list (T * list V)) :
  flat_map (fun p => flat_map (fun it => if q it then cell f p it else []) l) (seq 0 (maxlen l))
  = by_p f (filter q l).
Proof.
  rewrite <- (rows_upto f (filter q l) (maxlen l)) by apply maxlen_filter.
  apply flat_map_ext. intro p. unfold row.
  induction l as [|it r IH]; [reflexivity|]. cbn [flat_map filter].
  destruct (q it); cbn [flat_map app]; rewrite IH; reflexivity.
Qed.

(* ------------------------------------------------------------------------------------------ *)
(** * the steps of a plan *)

Local Open Scope Q_scope.

Definition steps_of (acts : list action) : list triple :=
  flat_map (fun a => match a with Step s d v => [(s, d, v)] | Commit => [] end) acts.

Definition sd_eqb (s d : string) (t : triple) : bool :=
  String.eqb (fst (fst t)) s && String.eqb (snd (fst t)) d.

Definition flow (s d : string) (l : list triple) : Q := Qsum (map snd (filter (sd_eqb s d) l)).

(** the steps one triple gives rise to, in order *)
Definition triple_steps (a : bool) (m : Q) (t : triple) : list triple :=
  flat_map (fun v => if Qltb 0 v then [(fst (fst t), snd (fst t), v)] else []) (vol_list a m (snd t)).

Definition mkrow (a : bool) (m : Q) (t : triple) : string * string * list Q :=
  (fst (fst t), snd (fst t), vol_list a m (snd t)).

Definition stepf (sd : string * string) (v : Q) : list triple :=
  if Qltb 0 v then [(fst sd, snd sd, v)] else [].

Lemma steps_of_app l1 l2 : steps_of (l1 ++ l2) = steps_of l1 ++ steps_of l2.
Proof. unfold steps_of. apply flat_map_app. Qed.

Lemma steps_of_In s d v acts : In (Step s d v) acts <-> In (s, d, v) (steps_of acts).
Proof.
  unfold steps_of. rewrite in_flat_map. split.
  - intro H. exists (Step s d v). split; [exact H|left; reflexivity].
  - intros ([s' d' v'|] & Hin & Hx); cbn [In] in Hx; [|destruct Hx].
    destruct Hx as [Hx|[]]. injection Hx as -> -> ->. exact Hin.
Qed.

Lemma n_steps_length acts : n_steps acts = length (steps_of acts).
Proof.
  unfold n_steps, steps_of. induction acts as [|[s d v|] r IH]; cbn [filter flat_map length app];
    [reflexivity|rewrite IH; reflexivity|exact IH].
Qed.

Lemma steps_of_pass p rows : steps_of (pass_steps p rows) = row stepf rows p.
Proof.
  unfold pass_steps, row, steps_of. rewrite flat_map_flat_map. apply flat_map_ext.
  intros [[s d] vs]. unfold cell, stepf. cbn [fst snd].
  destruct (nth_error vs p) as [v|]; [|reflexivity].
  destruct (Qltb 0 v); cbn [flat_map app]; reflexivity.
Qed.

Lemma group_np a m g :
  fold_right (fun t acc => Nat.max (length (snd t)) acc) 0 (map (mkrow a m) g)
  = maxlen (map (mkrow a m) g).
Proof. reflexivity. Qed.

Lemma steps_of_group a m g : steps_of (group_plan a m g) = by_p stepf (map (mkrow a m) g).
Proof.
  unfold group_plan. fold (mkrow a m). cbv zeta. rewrite group_np.
  set (rows := map (mkrow a m) g). set (np := maxlen rows).
  rewrite steps_of_app.
  assert (E2 : steps_of (if (1 <? np)%nat then [Commit] else []) = []).
  { destruct (1 <? np)%nat; reflexivity. }
  rewrite E2, app_nil_r. unfold steps_of at 1. rewrite flat_map_flat_map. unfold by_p. fold np.
  apply flat_map_ext. intro p. fold (steps_of (pass_steps p rows ++
    (if (1 <? np)%nat && (1 <? length (pass_steps p rows))%nat && negb (p =? np - 1)%nat
     then [Commit] else []))).
  rewrite steps_of_app, steps_of_pass.
  destruct ((1 <? np)%nat && (1 <? length (pass_steps p rows))%nat && negb (p =? np - 1)%nat);
    cbn [steps_of flat_map]; apply app_nil_r.
Qed.

Lemma by_i_rows a m g : by_i stepf (map (mkrow a m) g) = flat_map (triple_steps a m) g.
Proof.
  unfold by_i. induction g as [|t r IH]; [reflexivity|]. cbn [map flat_map]. rewrite IH.
  reflexivity.
Qed.

(** the steps of a group plan are those of its triples (pass-major instead of triple-major) *)
Lemma group_steps_perm a m g :
  Permutation (steps_of (group_plan a m g)) (flat_map (triple_steps a m) g).
Proof. rewrite steps_of_group, <- by_i_rows. apply by_p_perm. Qed.

Lemma steps_of_plan a m mode triples :
  steps_of (plan a m mode triples)
  = flat_map (fun g => steps_of (group_plan a m g)) (partition_by_column mode triples).
Proof. unfold plan, steps_of. apply flat_map_flat_map. Qed.

Theorem plan_steps_perm a m mode triples :
  Permutation (steps_of (plan a m mode triples)) (flat_map (triple_steps a m) triples).
Proof.
  rewrite steps_of_plan.
  apply perm_trans with (flat_map (fun g => flat_map (triple_steps a m) g)
                                  (partition_by_column mode triples)).
  - apply flat_map_perm_pointwise. intros g _. apply group_steps_perm.
  - rewrite flat_map_concat. apply flat_map_perm_list. apply partition_by_column_perm.
Qed.

(* ------------------------------------------------------------------------------------------ *)
(** * positivity and bounds of the planned steps *)

Lemma Qltb_true_iff a b : Qltb a b = true <-> a < b.
Proof.
  split; [apply Qltb_true|]. intro H. unfold Qltb. apply negb_true_iff.
  destruct (Qle_bool b a) eqn:E; [|reflexivity]. apply Qle_bool_iff in E. lra.
Qed.

Lemma Qltb_false_iff a b : Qltb a b = false <-> b <= a.
Proof.
  split; [apply Qltb_false|]. intro H. unfold Qltb. apply negb_false_iff. apply Qle_bool_iff. exact H.
Qed.

Lemma triple_steps_In a m t s d v :
  In (s, d, v) (triple_steps a m t) <->
  s = fst (fst t) /\ d = snd (fst t) /\ In v (vol_list a m (snd t)) /\ 0 < v.
Proof.
  unfold triple_steps. rewrite in_flat_map. split.
  - intros (x & Hx & Hin). destruct (Qltb 0 x) eqn:E; [|destruct Hin].
    destruct Hin as [Hin|[]]. injection Hin as <- <- <-. apply Qltb_true in E. auto.
  - intros (-> & -> & Hin & Hv). exists v. split; [exact Hin|].
    apply Qltb_true_iff in Hv. rewrite Hv. left. reflexivity.
Qed.

(** elements of a partition that are positive are at most [m] (whatever the sign of [v]) *)
Lemma partition_volume_le v m x : 0 < m -> In x (partition_volume v m) -> 0 < x -> x <= m.
Proof.
  intros Hm Hin Hx. destruct (Qlt_le_dec 0 v) as [Hv|Hv].
  - destruct (partition_volume_spec v m Hm Hv) as (_ & Hall & _). rewrite Forall_forall in Hall.
    exact (proj2 (Hall x Hin)).
  - unfold partition_volume in Hin. destruct (Qeq_bool v 0); [destruct Hin|].
    assert (E : Qltb v m = true) by (apply Qltb_true_iff; lra). rewrite E in Hin.
    destruct Hin as [Hin|[]]. subst x. lra.
Qed.

Lemma plan_step_origin a m mode triples s d v :
  In (Step s d v) (plan a m mode triples) <->
  exists v0, In (s, d, v0) triples /\ In v (vol_list a m v0) /\ 0 < v.
Proof.
  rewrite steps_of_In. split.
  - intro H. apply (Permutation_in _ (plan_steps_perm a m mode triples)) in H.
    apply in_flat_map in H. destruct H as ([[s0 d0] v0] & Hin & Hst).
    apply triple_steps_In in Hst. cbn [fst snd] in Hst. destruct Hst as (-> & -> & Hv & Hpos).
    exists v0. auto.
  - intros (v0 & Hin & Hv & Hpos).
    apply (Permutation_in _ (Permutation_sym (plan_steps_perm a m mode triples))).
    apply in_flat_map. exists (s, d, v0). split; [exact Hin|].
    apply triple_steps_In. cbn [fst snd]. auto.
Qed.

Theorem plan_steps_positive a m mode triples s d v :
  0 < m -> In (Step s d v) (plan a m mode triples) ->
  0 < v /\ (a = true -> v <= m) /\ (a = false -> In (s, d, v) triples) /\
  exists v0, In (s, d, v0) triples.
Proof.
  intros Hm H. apply plan_step_origin in H. destruct H as (v0 & Hin & Hv & Hpos).
  split; [exact Hpos|]. split; [|split].
  - intros ->. cbn [vol_list] in Hv. exact (partition_volume_le v0 m v Hm Hv Hpos).
  - intros ->. cbn [vol_list] in Hv. destruct Hv as [Hv|[]]. subst v0. exact Hin.
  - exists v0. exact Hin.
Qed.

(* ------------------------------------------------------------------------------------------ *)
(** * flows *)

Lemma flow_app s d l1 l2 : flow s d (l1 ++ l2) == flow s d l1 + flow s d l2.
Proof. unfold flow. rewrite filter_app, map_app. apply Qsum_app. Qed.

Lemma flow_nil s d : flow s d [] == 0.
Proof. unfold flow, Qsum. cbn [filter map fold_right]. reflexivity. Qed.

Lemma flow_cons s d t l : flow s d (t :: l) == (if sd_eqb s d t then snd t else 0) + flow s d l.
Proof.
  unfold flow. cbn [filter]. destruct (sd_eqb s d t); cbn [map]; unfold Qsum; cbn [fold_right];
    [reflexivity|ring].
Qed.

Lemma flow_perm s d l l' : Permutation l l' -> flow s d l == flow s d l'.
Proof.
  induction 1 as [|x l l' Hp IH|x y l|l l' l'' Hp1 IH1 Hp2 IH2].
  - reflexivity.
  - rewrite !flow_cons, IH. reflexivity.
  - rewrite !flow_cons. ring.
  - rewrite IH1. exact IH2.
Qed.

Lemma Qsum_filter_pos l : Forall (fun x => 0 < x) l ->
  flat_map (fun v => if Qltb 0 v then [v] else []) l = l.
Proof.
  induction 1 as [|x r Hx Hr IH]; cbn [flat_map]; [reflexivity|].
  apply Qltb_true_iff in Hx. rewrite Hx, IH. reflexivity.
Qed.

Lemma triple_steps_map a m t :
  triple_steps a m t
  = map (fun v => (fst (fst t), snd (fst t), v))
        (flat_map (fun v => if Qltb 0 v then [v] else []) (vol_list a m (snd t))).
Proof.
  unfold triple_steps. induction (vol_list a m (snd t)) as [|x r IH]; [reflexivity|].
  cbn [flat_map]. rewrite map_app, IH. destruct (Qltb 0 x); reflexivity.
Qed.

(** positive part of the volume list of a non-negative volume *)
Lemma vol_list_pos a m v : 0 < m -> 0 <= v ->
  flat_map (fun x => if Qltb 0 x then [x] else []) (vol_list a m v)
  = if Qltb 0 v then vol_list a m v else [].
Proof.
  intros Hm Hv. destruct (Qltb 0 v) eqn:E.
  - apply Qltb_true in E. destruct a; cbn [vol_list].
    + apply Qsum_filter_pos. destruct (partition_volume_spec v m Hm E) as (_ & Hall & _).
      rewrite Forall_forall in *. intros x Hx. exact (proj1 (Hall x Hx)).
    + apply Qsum_filter_pos. constructor; [exact E|constructor].
  - destruct a; cbn [vol_list].
    + apply Qltb_false in E. rewrite partition_volume_zero by lra. reflexivity.
    + cbn [flat_map]. rewrite E. reflexivity.
Qed.

Lemma vol_list_sum a m v : 0 < m -> 0 < v -> Qsum (vol_list a m v) == v.
Proof.
  intros Hm Hv. destruct a; cbn [vol_list].
  - exact (proj2 (proj2 (partition_volume_spec v m Hm Hv))).
  - apply Qsum_single.
Qed.

Lemma sd_eqb_map s d s' d' (l : list Q) :
  filter (sd_eqb s d) (map (fun v => (s', d', v)) l)
  = if String.eqb s' s && String.eqb d' d then map (fun v => (s', d', v)) l else [].
Proof.
  induction l as [|x r IH]; cbn [map filter]; [destruct (_ && _); reflexivity|].
  rewrite IH. unfold sd_eqb. cbn [fst snd]. destruct (String.eqb s' s && String.eqb d' d); reflexivity.
Qed.

Lemma flow_triple_steps a m s d t : 0 < m -> 0 <= snd t ->
  flow s d (triple_steps a m t) == if sd_eqb s d t then snd t else 0.
Proof.
  intros Hm Hv. rewrite triple_steps_map, (vol_list_pos a m (snd t) Hm Hv).
  unfold flow. rewrite sd_eqb_map. destruct t as [[s' d'] v]. unfold sd_eqb. cbn [fst snd] in *.
  destruct (String.eqb s' s && String.eqb d' d).
  - rewrite map_map. cbn [snd]. rewrite map_id.
    destruct (Qltb 0 v) eqn:E.
    + apply vol_list_sum; [exact Hm|apply Qltb_true; exact E].
    + apply Qltb_false in E. unfold Qsum. cbn [fold_right]. lra.
  - unfold Qsum. cbn [map fold_right]. reflexivity.
Qed.

Lemma flow_flat_steps a m s d triples : 0 < m -> Forall (fun t => 0 <= snd t) triples ->
  flow s d (flat_map (triple_steps a m) triples) == flow s d triples.
Proof.
  intros Hm. induction 1 as [|t r Ht Hr IH]; cbn [flat_map]; [reflexivity|].
  rewrite flow_app, flow_cons, IH, (flow_triple_steps a m s d t Hm Ht). reflexivity.
Qed.

Theorem plan_flows a m mode triples s d :
  0 < m -> Forall (fun t => 0 <= snd t) triples ->
  flow s d (steps_of (plan a m mode triples)) == flow s d triples.
Proof.
  intros Hm Hall. rewrite (flow_perm s d _ _ (plan_steps_perm a m mode triples)).
  apply flow_flat_steps; assumption.
Qed.

Theorem plan_flows_perm a m mode triples triples' s d :
  0 < m -> Forall (fun t => 0 <= snd t) triples -> Permutation triples triples' ->
  flow s d (steps_of (plan a m mode triples)) == flow s d (steps_of (plan a m mode triples')).
Proof.
  intros Hm Hall Hp.
  assert (Hall' : Forall (fun t => 0 <= snd t) triples').
  { rewrite Forall_forall in *. intros t Ht. apply Hall.
    exact (Permutation_in _ (Permutation_sym Hp) Ht). }
  rewrite (plan_flows a m mode triples s d Hm Hall), (plan_flows a m mode triples' s d Hm Hall').
  apply flow_perm. exact Hp.
Qed.

Theorem plan_flows_mode a m triples s d :
  0 < m -> Forall (fun t => 0 <= snd t) triples ->
  flow s d (steps_of (plan a m BySource triples)) == flow s d (steps_of (plan a m ByDestination triples)).
Proof.
  intros Hm Hall. rewrite !plan_flows by assumption. reflexivity.
Qed.

(** strongest form: the multiset of steps depends neither on the order of the triples nor on the
    partitioning side nor on anything but the triples *)
Theorem plan_steps_perm_any a m mode mode' triples triples' :
  Permutation triples triples' ->
  Permutation (steps_of (plan a m mode triples)) (steps_of (plan a m mode' triples')).
Proof.
  intro Hp. apply perm_trans with (flat_map (triple_steps a m) triples); [apply plan_steps_perm|].
  apply perm_trans with (flat_map (triple_steps a m) triples');
    [apply flat_map_perm_list; exact Hp|apply Permutation_sym; apply plan_steps_perm].
Qed.
