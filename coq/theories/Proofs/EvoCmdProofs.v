(** Lemmas about the EVOware script commands (C13): what [evo_command] rejects, the structured command
    it renders, the wash command, the worklist wrappers, and the agreement of the decoded command
    (Spec/CmdDecode.v) with the (well, volume) pairing of the labware tracking. *)
From Robo Require Import Prelude Str Wells Utils Labware Tips Records Partition Params Worklist EvoCmd
  SelDecode CmdDecode WellsProofs PartitionProofs TipsProofs SelProofs.
#[local] Open Scope string_scope.

(* ------------------------------------------------------------------ small helpers *)

Lemma check_range_spec p lo hi z :
  check_range p lo hi = Some z <-> p = PInt z /\ (lo <= z <= hi)%Z.
Proof.
  unfold check_range. destruct p as [y|].
  - destruct ((lo <=? y) && (y <=? hi))%Z eqn:E.
    + apply andb_true_iff in E. destruct E as [E1 E2]. apply Z.leb_le in E1. apply Z.leb_le in E2.
      split.
      * intro H. injection H as <-. split; [reflexivity|lia].
      * intros [H _]. injection H as <-. reflexivity.
    + split; [discriminate|]. intros [H [H1 H2]]. injection H as ->.
      assert (X : ((lo <=? z) && (z <=? hi))%Z = true)
        by (apply andb_true_iff; split; apply Z.leb_le; assumption).
      congruence.
  - split; [discriminate|]. intros [H _]. discriminate H.
Qed.

Lemma check_range_none p lo hi :
  check_range p lo hi = None <-> p = PNotInt \/ exists z, p = PInt z /\ (z < lo \/ hi < z)%Z.
Proof.
  unfold check_range. destruct p as [y|].
  - destruct ((lo <=? y) && (y <=? hi))%Z eqn:E.
    + apply andb_true_iff in E. destruct E as [E1 E2]. apply Z.leb_le in E1. apply Z.leb_le in E2.
      split; [discriminate|]. intros [H|[z [H Hz]]]; [discriminate|]. injection H as ->. lia.
    + split; [|reflexivity]. intros _. right. exists y. split; [reflexivity|].
      apply andb_false_iff in E. destruct E as [E|E]; apply Z.leb_gt in E; lia.
  - split; [|reflexivity]. intros _. left. reflexivity.
Qed.

Lemma arm_ok_spec z : ((z =? 0) || (z =? 1))%Z = true <-> z = 0%Z \/ z = 1%Z.
Proof. rewrite orb_true_iff, !Z.eqb_eq. reflexivity. Qed.

Lemma text_ok_false_spec t s :
  text_ok false t = Some s <-> t = PStr s /\ contains_char semi s = false.
Proof.
  unfold text_ok. destruct t as [u|].
  - destruct (contains_char semi u) eqn:E; cbn [andb].
    + split; [discriminate|]. intros [H H']. injection H as ->. congruence.
    + split.
      * intro H. injection H as <-. split; [reflexivity|exact E].
      * intros [H _]. injection H as <-. reflexivity.
  - split; [discriminate|]. intros [H _]. discriminate H.
Qed.

(* ------------------------------------------------------------------ volumes *)

(** the volume argument of a command for [n] wells, validated (the [vols] of [evo_command]) *)
Definition cmd_vols (v : cmdvol) (m : Q) (n : nat) : res (list Q) :=
  match v with
  | CVList l => match check_volumes l m with
                | Err e => Err e
                | Ok qs => if (length qs =? n)%nat then Ok qs else Err EReject
                end
  | CVScalar x => match check_volume x (Some m) with
                  | Err e => Err e
                  | Ok q => Ok (repeat q n)
                  end
  | CVOther => Err EReject
  end.

Lemma check_volume_ok v m q : check_volume v (Some m) = Ok q ->
  v = PV (XQ q) /\ (0 <= q)%Q /\ (q <= max_tecan_volume)%Q /\ (q <= m)%Q.
Proof.
  unfold check_volume. destruct v as [[x| | |]|]; try discriminate.
  destruct (Qltb x 0) eqn:E1; [discriminate|].
  destruct (Qgtb x max_tecan_volume) eqn:E2; [discriminate|].
  destruct (Qgtb x m) eqn:E3; [discriminate|]. intro H. injection H as <-.
  apply Qltb_false in E1.
  unfold Qgtb in E2, E3. apply negb_false_iff in E2. apply negb_false_iff in E3.
  apply Qle_bool_iff in E2. apply Qle_bool_iff in E3. repeat split; assumption.
Qed.

Lemma check_volume_err v m e : check_volume v (Some m) = Err e ->
  (e = EReject /\ (v = PVBad \/ v = PV XNaN \/ v = PV XPInf \/ v = PV XNInf \/
                   exists q, v = PV (XQ q) /\ ((q < 0)%Q \/ (max_tecan_volume < q)%Q))) \/
  (e = EInvalidOp /\ exists q, v = PV (XQ q) /\ (0 <= q)%Q /\ (m < q)%Q).
Proof.
  unfold check_volume. destruct v as [[x| | |]|].
  - destruct (Qltb x 0) eqn:E1.
    { intro H. injection H as <-. left. split; [reflexivity|]. do 4 right. exists x.
      split; [reflexivity|]. left. apply Qltb_true. exact E1. }
    destruct (Qgtb x max_tecan_volume) eqn:E2.
    { intro H. injection H as <-. left. split; [reflexivity|]. do 4 right. exists x.
      split; [reflexivity|]. right. unfold Qgtb in E2. apply negb_true_iff in E2.
      apply Qnot_le_lt. intro C. apply Qle_bool_iff in C. congruence. }
    destruct (Qgtb x m) eqn:E3; [|discriminate].
    intro H. injection H as <-. right. split; [reflexivity|]. exists x. split; [reflexivity|].
    split; [apply Qltb_false; exact E1|].
    unfold Qgtb in E3. apply negb_true_iff in E3.
    apply Qnot_le_lt. intro C. apply Qle_bool_iff in C. congruence.
  - intro H. injection H as <-. left. split; [reflexivity|]. right. left. reflexivity.
  - intro H. injection H as <-. left. split; [reflexivity|]. right. right. left. reflexivity.
  - intro H. injection H as <-. left. split; [reflexivity|]. right. right. right. left. reflexivity.
  - intro H. injection H as <-. left. split; [reflexivity|]. left. reflexivity.
Qed.

(** the converse: what is refused, and with which error *)
Lemma check_volume_bad v m :
  v = PVBad \/ v = PV XNaN \/ v = PV XPInf \/ v = PV XNInf \/ (exists q, v = PV (XQ q) /\ (q < 0)%Q) ->
  check_volume v (Some m) = Err EReject.
Proof.
  intros [->|[->|[->|[->|[q [-> Hq]]]]]]; try reflexivity.
  unfold check_volume.
  destruct (Qltb q 0) eqn:E; [reflexivity|]. apply Qltb_false in E. exfalso.
  apply (Qlt_not_le _ _ Hq). exact E.
Qed.

Lemma check_volume_over q m : (0 <= q)%Q -> (q <= max_tecan_volume)%Q -> (m < q)%Q ->
  check_volume (PV (XQ q)) (Some m) = Err EInvalidOp.
Proof.
  intros H0 Ht Hm. unfold check_volume.
  destruct (Qltb q 0) eqn:E1.
  { apply Qltb_true in E1. exfalso. apply (Qlt_not_le _ _ E1). exact H0. }
  destruct (Qgtb q max_tecan_volume) eqn:E2.
  { unfold Qgtb in E2. apply negb_true_iff in E2. apply Qle_bool_iff in Ht. congruence. }
  destruct (Qgtb q m) eqn:E3; [reflexivity|].
  unfold Qgtb in E3. apply negb_false_iff in E3. apply Qle_bool_iff in E3.
  exfalso. apply (Qlt_not_le _ _ Hm). exact E3.
Qed.

Lemma check_volumes_ok l m : forall qs, check_volumes l m = Ok qs ->
  l = map (fun q => PV (XQ q)) qs /\
  Forall (fun q => (0 <= q)%Q /\ (q <= max_tecan_volume)%Q /\ (q <= m)%Q) qs.
Proof.
  induction l as [|v r IH]; intros qs H; cbn [check_volumes] in H.
  - injection H as <-. split; [reflexivity|constructor].
  - destruct (check_volume v (Some m)) as [q|e] eqn:Ev; [|discriminate].
    destruct (check_volumes r m) as [qs'|e] eqn:Er; [|discriminate]. injection H as <-.
    destruct (check_volume_ok _ _ _ Ev) as (-> & H1 & H2 & H3).
    destruct (IH qs' eq_refl) as [-> HF]. split; [reflexivity|].
    constructor; [repeat split; assumption|exact HF].
Qed.

(** a list is refused with the error of its first refused element *)
Lemma check_volumes_err l m e : check_volumes l m = Err e ->
  exists pre v post, l = (pre ++ v :: post)%list /\ check_volume v (Some m) = Err e /\
                     exists qs, check_volumes pre m = Ok qs.
Proof.
  induction l as [|v r IH]; cbn [check_volumes]; [discriminate|].
  destruct (check_volume v (Some m)) as [q|e0] eqn:Ev.
  - destruct (check_volumes r m) as [qs'|e1] eqn:Er; [discriminate|].
    intro H. injection H as <-. destruct (IH eq_refl) as (pre & v' & post & -> & Hv' & qs & Hpre).
    exists (v :: pre), v', post. split; [reflexivity|]. split; [exact Hv'|].
    exists (q :: qs). cbn [check_volumes]. rewrite Ev, Hpre. reflexivity.
  - intro H. injection H as <-. exists [], v, r. split; [reflexivity|]. split; [exact Ev|].
    exists []. reflexivity.
Qed.

Lemma check_volumes_In_err l m v : In v l -> (exists e, check_volume v (Some m) = Err e) ->
  exists e, check_volumes l m = Err e.
Proof.
  induction l as [|x r IH]; intros Hin [e He]; [destruct Hin|]. cbn [check_volumes].
  destruct (check_volume x (Some m)) as [q|e0] eqn:Ex; [|exists e0; reflexivity].
  destruct Hin as [->|Hin]; [congruence|].
  destruct (IH Hin (ex_intro _ e He)) as [e1 ->]. exists e1. reflexivity.
Qed.

(* ------------------------------------------------------------------ tips *)

Lemma cmd_tip_value_elem_bit e :
  cmd_tip_value e = match elem_bit e with Some b => Some (Z.of_N (bit b)) | None => None end.
Proof. destruct e as [z|n| |]; cbn [cmd_tip_value elem_bit]; try reflexivity.
       destruct ((1 <=? n) && (n <=? 8))%nat; reflexivity. Qed.

Definition tipval (b : nat) : Z := Z.of_N (bit b).

Lemma cmd_tip_values_elems_bits l :
  cmd_tip_values l = match elems_bits l with Some bs => Some (map tipval bs) | None => None end.
Proof.
  induction l as [|e r IH]; [reflexivity|]. cbn [cmd_tip_values elems_bits].
  rewrite cmd_tip_value_elem_bit, IH. destruct (elem_bit e) as [b|]; [|reflexivity].
  destruct (elems_bits r) as [bs|]; reflexivity.
Qed.

Lemma wash_tip_values_elems_bits l :
  wash_tip_values l = match elems_bits l with Some bs => Some (map tipval bs) | None => None end.
Proof.
  induction l as [|e r IH]; [reflexivity|]. cbn [wash_tip_values elems_bits]. unfold wash_tip_value.
  rewrite cmd_tip_value_elem_bit, IH. destruct (elem_bit e) as [b|]; [|reflexivity].
  destruct (elems_bits r) as [bs|]; reflexivity.
Qed.

Lemma tipval_pow2 b : tipval b = (2 ^ Z.of_nat b)%Z.
Proof. unfold tipval. rewrite bit_pow2, N2Z.inj_pow, nat_N_Z. reflexivity. Qed.

Lemma tipval_lt a b : (tipval a < tipval b)%Z <-> a < b.
Proof.
  rewrite !tipval_pow2. split.
  - intro H. apply Z.pow_lt_mono_r_iff in H; lia.
  - intro H. apply Z.pow_lt_mono_r; lia.
Qed.

Lemma tipval_inj a b : tipval a = tipval b -> a = b.
Proof.
  intro H. destruct (Nat.lt_total a b) as [C|[C|C]]; [|exact C|];
    apply tipval_lt in C; lia.
Qed.

Lemma tipval_eqb a b : (tipval a =? tipval b)%Z = (a =? b)%nat.
Proof.
  destruct (Nat.eqb_spec a b) as [->|Hne]; [apply Z.eqb_refl|].
  apply Z.eqb_neq. intro H. apply tipval_inj in H. contradiction.
Qed.

Lemma existsb_tipval i bs : existsb (Z.eqb (tipval i)) (map tipval bs) = existsb (Nat.eqb i) bs.
Proof.
  induction bs as [|b r IH]; [reflexivity|]. cbn [map existsb]. rewrite tipval_eqb, IH. reflexivity.
Qed.

Lemma eight_tipvals : eight = map tipval (seq 0 8).
Proof. reflexivity. Qed.

(** strictly ascending naturals *)
Fixpoint asc_nat (l : list nat) : bool :=
  match l with
  | a :: ((b :: _) as r) => (a <? b)%nat && asc_nat r
  | _ => true
  end.

Lemma asc_nat_cons a l : asc_nat (a :: l) = true <-> (forall x, In x l -> a < x) /\ asc_nat l = true.
Proof.
  revert a. induction l as [|b r IH]; intro a.
  - cbn [asc_nat In]. split; [intros _; split; [intros x []|reflexivity]|reflexivity].
  - change (asc_nat (a :: b :: r)) with ((a <? b)%nat && asc_nat (b :: r)).
    rewrite andb_true_iff, Nat.ltb_lt. split.
    + intros [H1 H2]. split; [|exact H2]. intros x [<-|Hx]; [exact H1|].
      apply IH in H2. destruct H2 as [H2 _]. specialize (H2 x Hx). lia.
    + intros [H1 H2]. split; [apply H1; left; reflexivity|exact H2].
Qed.

Lemma strictly_ascending_tipvals bs : strictly_ascending_Z (map tipval bs) = asc_nat bs.
Proof.
  induction bs as [|a [|b r] IH]; try reflexivity.
  change (strictly_ascending_Z (map tipval (a :: b :: r)))
    with ((tipval a <? tipval b)%Z && strictly_ascending_Z (map tipval (b :: r))).
  change (asc_nat (a :: b :: r)) with ((a <? b)%nat && asc_nat (b :: r)).
  rewrite IH. f_equal.
  destruct (Nat.ltb_spec a b) as [H|H].
  - apply Z.ltb_lt. apply tipval_lt. exact H.
  - apply Z.ltb_ge. destruct (Nat.eq_dec a b) as [->|Hne]; [lia|].
    assert (C : b < a) by lia. apply tipval_lt in C. lia.
Qed.

Lemma asc_nat_NoDup l : asc_nat l = true -> NoDup l.
Proof.
  induction l as [|a r IH]; intro H; [constructor|].
  apply asc_nat_cons in H. destruct H as [H1 H2]. constructor; [|exact (IH H2)].
  intro Hin. specialize (H1 a Hin). lia.
Qed.

(** the sum of distinct tip values is their bitwise OR *)
Lemma sum_tipvals_N bs :
  fold_right Z.add 0%Z (map tipval bs) = Z.of_N (fold_right (fun n m => (bit n + m)%N) 0%N bs).
Proof.
  induction bs as [|b r IH]; [reflexivity|]. cbn [map fold_right]. rewrite IH, N2Z.inj_add. reflexivity.
Qed.

Lemma sum_tipvals_or bs : NoDup bs -> fold_right Z.add 0%Z (map tipval bs) = Z.of_N (mask_or bs).
Proof. intro ND. rewrite sum_tipvals_N, sum_is_or by exact ND. reflexivity. Qed.

Lemma existsb_eqb_map_tipval x r : existsb (Z.eqb (tipval x)) (map tipval r) = existsb (Nat.eqb x) r.
Proof. apply existsb_tipval. Qed.

Lemma dedup_Z_tipvals bs : dedup_Z (map tipval bs) = map tipval (dedup bs).
Proof.
  induction bs as [|b r IH]; [reflexivity|]. cbn [map dedup_Z dedup].
  rewrite existsb_tipval. destruct (existsb (Nat.eqb b) r); [exact IH|].
  cbn [map]. rewrite IH. reflexivity.
Qed.

Lemma sum_dedup_tipvals_or bs :
  fold_right Z.add 0%Z (dedup_Z (map tipval bs)) = Z.of_N (mask_or bs).
Proof.
  rewrite dedup_Z_tipvals, sum_tipvals_or by apply nodup_dedup. rewrite mask_or_dedup. reflexivity.
Qed.

(* ------------------------------------------------------------------ slots *)

(** the structured slots: [None] where the model would raise IndexError *)
Fixpoint slots_struct (tipvs given : list Z) (vols : list Q) : option (list (option Z)) :=
  match tipvs with
  | [] => Some []
  | t :: rest =>
      if existsb (Z.eqb t) given then
        match vols with
        | v :: vr => match slots_struct rest given vr with
                     | Some sl => Some (Some (round2c v) :: sl)
                     | None => None
                     end
        | [] => None
        end
      else match slots_struct rest given vols with
           | Some sl => Some (None :: sl)
           | None => None
           end
  end.

Lemma slots_struct_render tipvs given : forall vols sl,
  slots_struct tipvs given vols = Some sl -> tip_slots tipvs given vols = render_slots sl.
Proof.
  induction tipvs as [|t rest IH]; intros vols sl H; cbn [slots_struct tip_slots] in *.
  - injection H as <-. reflexivity.
  - destruct (existsb (Z.eqb t) given).
    + destruct vols as [|v vr]; [discriminate|].
      destruct (slots_struct rest given vr) as [sl'|] eqn:E; [|discriminate]. injection H as <-.
      cbn [render_slots]. rewrite (IH vr sl' E). reflexivity.
    + destruct (slots_struct rest given vols) as [sl'|] eqn:E; [|discriminate]. injection H as <-.
      cbn [render_slots]. rewrite (IH vols sl' E). reflexivity.
Qed.

Lemma slots_struct_ok tipvs given : forall vols,
  slots_ok tipvs given (length vols) = match slots_struct tipvs given vols with Some _ => true | None => false end.
Proof.
  induction tipvs as [|t rest IH]; intro vols; cbn [slots_struct slots_ok]; [reflexivity|].
  destruct (existsb (Z.eqb t) given).
  - destruct vols as [|v vr]; [reflexivity|]. cbn [length]. rewrite IH.
    destruct (slots_struct rest given vr); reflexivity.
  - rewrite IH. destruct (slots_struct rest given vols); reflexivity.
Qed.

(* ------------------------------------------------------------------ the structured command *)

Definition evo_command_struct (kind : string) (n_rows n_cols : nat) (a : cmdargs) (max_volume : Q) : res cmd :=
  let wells := flattenF (c_wells a) in
  if negb (length wells =? length (c_tips a))%nat then Err EReject else
  if negb (strictly_ascending_str wells) then Err EReject else
  match check_range (c_grid a) 1 67, check_range (c_site a) 1 128 with
  | Some grid, Some site =>
      match cmd_vols (c_volume a) max_volume (length wells) with
      | Err e => Err e
      | Ok qs =>
          match text_ok false (c_liquid_class a), cmd_tip_values (c_tips a) with
          | Some lc, Some tvs =>
              if negb (strictly_ascending_Z tvs) then Err EReject else
              if negb ((c_arm a =? 0) || (c_arm a =? 1))%Z then Err EReject else
              match slots_struct eight tvs qs with
              | None => Err EReject
              | Some sl =>
                  match selection_array n_rows n_cols wells with
                  | None => Err EReject
                  | Some sel =>
                      if (2 <=? selected_columns n_rows n_cols wells)%nat then Err EReject else
                      Ok {| cm_kind := kind; cm_mask := fold_right Z.add 0%Z tvs; cm_lc := lc;
                            cm_slots := sl; cm_grid := grid; cm_site := (site - 1)%Z;
                            cm_sel := evo_get_selection n_rows n_cols sel; cm_arm := c_arm a |}
                  end
              end
          | _, _ => Err EReject
          end
      end
  | _, _ => Err EReject
  end.

(** the emitted text is the rendering of the structured command; same errors *)
Lemma evo_command_render kind n_rows n_cols a m :
  evo_command kind n_rows n_cols a m =
  match evo_command_struct kind n_rows n_cols a m with Ok c => Ok (render_cmd c) | Err e => Err e end.
Proof.
  unfold evo_command, evo_command_struct. cbv zeta.
  destruct (negb (length (flattenF (c_wells a)) =? length (c_tips a))%nat); [reflexivity|].
  destruct (negb (strictly_ascending_str (flattenF (c_wells a)))); [reflexivity|].
  destruct (check_range (c_grid a) 1 67) as [grid|]; [|reflexivity].
  destruct (check_range (c_site a) 1 128) as [site|]; [|reflexivity].
  fold (cmd_vols (c_volume a) m (length (flattenF (c_wells a)))).
  destruct (cmd_vols (c_volume a) m (length (flattenF (c_wells a)))) as [qs|e]; [|reflexivity].
  destruct (text_ok false (c_liquid_class a)) as [lc|]; [|reflexivity].
  destruct (cmd_tip_values (c_tips a)) as [tvs|]; [|reflexivity].
  destruct (negb (strictly_ascending_Z tvs)); [reflexivity|].
  destruct (negb ((c_arm a =? 0) || (c_arm a =? 1))%Z); [reflexivity|].
  rewrite slots_struct_ok.
  destruct (slots_struct eight tvs qs) as [sl|] eqn:Es; cbn [negb]; [|reflexivity].
  destruct (selection_array n_rows n_cols (flattenF (c_wells a))) as [sel|]; [|reflexivity].
  destruct (2 <=? selected_columns n_rows n_cols (flattenF (c_wells a)))%nat; [reflexivity|].
  unfold render_cmd. cbn [cm_kind cm_mask cm_lc cm_slots cm_grid cm_site cm_sel cm_arm].
  rewrite (slots_struct_render _ _ _ _ Es). reflexivity.
Qed.

Lemma evo_command_struct_text kind n_rows n_cols a m text :
  evo_command kind n_rows n_cols a m = Ok text ->
  exists c, evo_command_struct kind n_rows n_cols a m = Ok c /\ text = render_cmd c.
Proof.
  rewrite evo_command_render. destruct (evo_command_struct kind n_rows n_cols a m) as [c|e]; [|discriminate].
  intro H. injection H as <-. exists c. split; reflexivity.
Qed.
