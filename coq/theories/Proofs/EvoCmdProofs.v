(** Lemmas about the EVOware script commands (C13): what [evo_command] rejects, the structured command
    it renders, the wash command, the worklist wrappers, and the agreement of the decoded command
    (Spec/CmdDecode.v) with the (well, volume) pairing of the labware tracking. *)
From Robo Require Import Prelude Str Wells Utils Labware Tips Records Partition Params Worklist EvoCmd
  SelDecode CmdDecode WellsProofs PartitionProofs TipsProofs SelProofs RecordsProofs.
#[local] Open Scope string_scope.

(* ------------------------------------------------------------------ small helpers *)

Lemma check_range_spec p lo hi z :
  check_range p lo hi = Some z <-> p = PInt z /\ (lo <= z <= hi)%Z.
Proof.
  unfold check_range. destruct p as [y|].
  - destruct ((lo <=? y) && (y <=? hi))%Z eqn:E.
    + apply andb_true_iff in E. destruct E as [E1 E2]. apply Z.leb_le in E1. apply Z.leb_le in E2.
      split.
      * intro H. injection H as <-. split; [reflexivity|lia].
      * intros [H _]. injection H as <-. reflexivity.
    + split; [discriminate|]. intros [H [H1 H2]]. injection H as ->.
      assert (X : ((lo <=? z) && (z <=? hi))%Z = true)
        by (apply andb_true_iff; split; apply Z.leb_le; assumption).
      congruence.
  - split; [discriminate|]. intros [H _]. discriminate H.
Qed.

Lemma check_range_none p lo hi :
  check_range p lo hi = None <-> p = PNotInt \/ exists z, p = PInt z /\ (z < lo \/ hi < z)%Z.
Proof.
  unfold check_range. destruct p as [y|].
  - destruct ((lo <=? y) && (y <=? hi))%Z eqn:E.
    + apply andb_true_iff in E. destruct E as [E1 E2]. apply Z.leb_le in E1. apply Z.leb_le in E2.
      split; [discriminate|]. intros [H|[z [H Hz]]]; [discriminate|]. injection H as ->. lia.
    + split; [|reflexivity]. intros _. right. exists y. split; [reflexivity|].
      apply andb_false_iff in E. destruct E as [E|E]; apply Z.leb_gt in E; lia.
  - split; [|reflexivity]. intros _. left. reflexivity.
Qed.

Lemma arm_ok_spec z : ((z =? 0) || (z =? 1))%Z = true <-> z = 0%Z \/ z = 1%Z.
Proof. rewrite orb_true_iff, !Z.eqb_eq. reflexivity. Qed.

Lemma text_ok_false_spec t s :
  text_ok false t = Some s <-> t = PStr s /\ contains_char semi s = false.
Proof.
  unfold text_ok. destruct t as [u|].
  - destruct (contains_char semi u) eqn:E; cbn [andb].
    + split; [discriminate|]. intros [H H']. injection H as ->. congruence.
    + split.
      * intro H. injection H as <-. split; [reflexivity|exact E].
      * intros [H _]. injection H as <-. reflexivity.
  - split; [discriminate|]. intros [H _]. discriminate H.
Qed.

(* ------------------------------------------------------------------ volumes *)

(** the volume argument of a command for [n] wells, validated (the [vols] of [evo_command]) *)
Definition cmd_vols (v : cmdvol) (m : Q) (n : nat) : res (list Q) :=
  match v with
  | CVList l => match check_volumes l m with
                | Err e => Err e
                | Ok qs => if (length qs =? n)%nat then Ok qs else Err EReject
                end
  | CVIntList l => match check_volumes (int_pvols l) m with
                   | Err e => Err e
                   | Ok qs => if (length qs =? n)%nat then Ok qs else Err EReject
                   end
  | CVScalar x => match check_volume x (Some m) with
                  | Err e => Err e
                  | Ok q => Ok (repeat q n)
                  end
  | CVOther => Err EReject
  end.

(** an all-int list is validated like the float list of the same numbers *)
Lemma cmd_vols_int l m n : cmd_vols (CVIntList l) m n = cmd_vols (CVList (int_pvols l)) m n.
Proof. reflexivity. Qed.

Lemma evo_vols_int l : evo_vols (CVIntList l) = evo_vols (CVList (int_pvols l)).
Proof. reflexivity. Qed.

Lemma int_pvols_In z l : In z l -> In (PV (XQ (inject_Z z))) (int_pvols l).
Proof. intro H. unfold int_pvols. apply in_map_iff. exists z. split; [reflexivity|exact H]. Qed.

Lemma int_pvols_In_inv x l : In x (int_pvols l) -> exists z, In z l /\ x = PV (XQ (inject_Z z)).
Proof.
  unfold int_pvols. intro H. apply in_map_iff in H. destruct H as [z [<- Hz]]. exists z. split; [exact Hz|reflexivity].
Qed.

Lemma int_pvols_eq l : forall qs, int_pvols l = map (fun q => PV (XQ q)) qs -> qs = map inject_Z l.
Proof.
  induction l as [|z r IH]; intros [|q qs] H; cbn [int_pvols map] in H; try discriminate; [reflexivity|].
  injection H as Hq Hr. subst q. cbn [map]. f_equal. apply IH. exact Hr.
Qed.

Lemma check_volume_ok v m q : check_volume v (Some m) = Ok q ->
  v = PV (XQ q) /\ (0 <= q)%Q /\ (q <= max_tecan_volume)%Q /\ (q <= m)%Q.
Proof.
  unfold check_volume. destruct v as [[x| | |]|]; try discriminate.
  destruct (Qltb x 0) eqn:E1; [discriminate|].
  destruct (Qgtb x max_tecan_volume) eqn:E2; [discriminate|].
  destruct (Qgtb x m) eqn:E3; [discriminate|]. intro H. injection H as <-.
  apply Qltb_false in E1.
  unfold Qgtb in E2, E3. apply negb_false_iff in E2. apply negb_false_iff in E3.
  apply Qle_bool_iff in E2. apply Qle_bool_iff in E3. repeat split; assumption.
Qed.

Lemma check_volume_err v m e : check_volume v (Some m) = Err e ->
  (e = EReject /\ (v = PVBad \/ v = PV XNaN \/ v = PV XPInf \/ v = PV XNInf \/
                   exists q, v = PV (XQ q) /\ ((q < 0)%Q \/ (max_tecan_volume < q)%Q))) \/
  (e = EInvalidOp /\ exists q, v = PV (XQ q) /\ (0 <= q)%Q /\ (m < q)%Q).
Proof.
  unfold check_volume. destruct v as [[x| | |]|].
  - destruct (Qltb x 0) eqn:E1.
    { intro H. injection H as <-. left. split; [reflexivity|]. do 4 right. exists x.
      split; [reflexivity|]. left. apply Qltb_true. exact E1. }
    destruct (Qgtb x max_tecan_volume) eqn:E2.
    { intro H. injection H as <-. left. split; [reflexivity|]. do 4 right. exists x.
      split; [reflexivity|]. right. unfold Qgtb in E2. apply negb_true_iff in E2.
      apply Qnot_le_lt. intro C. apply Qle_bool_iff in C. congruence. }
    destruct (Qgtb x m) eqn:E3; [|discriminate].
    intro H. injection H as <-. right. split; [reflexivity|]. exists x. split; [reflexivity|].
    split; [apply Qltb_false; exact E1|].
    unfold Qgtb in E3. apply negb_true_iff in E3.
    apply Qnot_le_lt. intro C. apply Qle_bool_iff in C. congruence.
  - intro H. injection H as <-. left. split; [reflexivity|]. right. left. reflexivity.
  - intro H. injection H as <-. left. split; [reflexivity|]. right. right. left. reflexivity.
  - intro H. injection H as <-. left. split; [reflexivity|]. right. right. right. left. reflexivity.
  - intro H. injection H as <-. left. split; [reflexivity|]. left. reflexivity.
Qed.

(** the converse: what is refused, and with which error *)
Lemma check_volume_bad v m :
  v = PVBad \/ v = PV XNaN \/ v = PV XPInf \/ v = PV XNInf \/ (exists q, v = PV (XQ q) /\ (q < 0)%Q) ->
  check_volume v (Some m) = Err EReject.
Proof.
  intros [->|[->|[->|[->|[q [-> Hq]]]]]]; try reflexivity.
  unfold check_volume.
  destruct (Qltb q 0) eqn:E; [reflexivity|]. apply Qltb_false in E. exfalso.
  apply (Qlt_not_le _ _ Hq). exact E.
Qed.

Lemma check_volume_over q m : (0 <= q)%Q -> (q <= max_tecan_volume)%Q -> (m < q)%Q ->
  check_volume (PV (XQ q)) (Some m) = Err EInvalidOp.
Proof.
  intros H0 Ht Hm. unfold check_volume.
  destruct (Qltb q 0) eqn:E1.
  { apply Qltb_true in E1. exfalso. apply (Qlt_not_le _ _ E1). exact H0. }
  destruct (Qgtb q max_tecan_volume) eqn:E2.
  { unfold Qgtb in E2. apply negb_true_iff in E2. apply Qle_bool_iff in Ht. congruence. }
  destruct (Qgtb q m) eqn:E3; [reflexivity|].
  unfold Qgtb in E3. apply negb_false_iff in E3. apply Qle_bool_iff in E3.
  exfalso. apply (Qlt_not_le _ _ Hm). exact E3.
Qed.

Lemma check_volumes_ok l m : forall qs, check_volumes l m = Ok qs ->
  l = map (fun q => PV (XQ q)) qs /\
  Forall (fun q => (0 <= q)%Q /\ (q <= max_tecan_volume)%Q /\ (q <= m)%Q) qs.
Proof.
  induction l as [|v r IH]; intros qs H; cbn [check_volumes] in H.
  - injection H as <-. split; [reflexivity|constructor].
  - destruct (check_volume v (Some m)) as [q|e] eqn:Ev; [|discriminate].
    destruct (check_volumes r m) as [qs'|e] eqn:Er; [|discriminate]. injection H as <-.
    destruct (check_volume_ok _ _ _ Ev) as (-> & H1 & H2 & H3).
    destruct (IH qs' eq_refl) as [-> HF]. split; [reflexivity|].
    constructor; [repeat split; assumption|exact HF].
Qed.

(** a list is refused with the error of its first refused element *)
Lemma check_volumes_err l m e : check_volumes l m = Err e ->
  exists pre v post, l = (pre ++ v :: post)%list /\ check_volume v (Some m) = Err e /\
                     exists qs, check_volumes pre m = Ok qs.
Proof.
  induction l as [|v r IH]; cbn [check_volumes]; [discriminate|].
  destruct (check_volume v (Some m)) as [q|e0] eqn:Ev.
  - destruct (check_volumes r m) as [qs'|e1] eqn:Er; [discriminate|].
    intro H. injection H as <-. destruct (IH eq_refl) as (pre & v' & post & -> & Hv' & qs & Hpre).
    exists (v :: pre), v', post. split; [reflexivity|]. split; [exact Hv'|].
    exists (q :: qs). cbn [check_volumes]. rewrite Ev, Hpre. reflexivity.
  - intro H. injection H as <-. exists [], v, r. split; [reflexivity|]. split; [exact Ev|].
    exists []. reflexivity.
Qed.

Lemma check_volumes_In_err l m v : In v l -> (exists e, check_volume v (Some m) = Err e) ->
  exists e, check_volumes l m = Err e.
Proof.
  induction l as [|x r IH]; intros Hin [e He]; [destruct Hin|]. cbn [check_volumes].
  destruct (check_volume x (Some m)) as [q|e0] eqn:Ex; [|exists e0; reflexivity].
  destruct Hin as [->|Hin]; [congruence|].
  destruct (IH Hin (ex_intro _ e He)) as [e1 ->]. exists e1. reflexivity.
Qed.

(* ------------------------------------------------------------------ tips *)

Lemma cmd_tip_value_elem_bit e :
  cmd_tip_value e = match elem_bit e with Some b => Some (Z.of_N (bit b)) | None => None end.
Proof. destruct e as [z|n| |]; cbn [cmd_tip_value elem_bit]; try reflexivity.
       destruct ((1 <=? n) && (n <=? 8))%nat; reflexivity. Qed.

Definition tipval (b : nat) : Z := Z.of_N (bit b).

Lemma cmd_tip_values_elems_bits l :
  cmd_tip_values l = match elems_bits l with Some bs => Some (map tipval bs) | None => None end.
Proof.
  induction l as [|e r IH]; [reflexivity|]. cbn [cmd_tip_values elems_bits].
  rewrite cmd_tip_value_elem_bit, IH. destruct (elem_bit e) as [b|]; [|reflexivity].
  destruct (elems_bits r) as [bs|]; reflexivity.
Qed.

Lemma wash_tip_values_elems_bits l :
  wash_tip_values l = match elems_bits l with Some bs => Some (map tipval bs) | None => None end.
Proof.
  induction l as [|e r IH]; [reflexivity|]. cbn [wash_tip_values elems_bits]. unfold wash_tip_value.
  rewrite cmd_tip_value_elem_bit, IH. destruct (elem_bit e) as [b|]; [|reflexivity].
  destruct (elems_bits r) as [bs|]; reflexivity.
Qed.

Lemma tipval_pow2 b : tipval b = (2 ^ Z.of_nat b)%Z.
Proof. unfold tipval. rewrite bit_pow2, N2Z.inj_pow, nat_N_Z. reflexivity. Qed.

Lemma tipval_lt a b : (tipval a < tipval b)%Z <-> a < b.
Proof.
  rewrite !tipval_pow2. split.
  - intro H. apply Z.pow_lt_mono_r_iff in H; lia.
  - intro H. apply Z.pow_lt_mono_r; lia.
Qed.

Lemma tipval_inj a b : tipval a = tipval b -> a = b.
Proof.
  intro H. destruct (Nat.lt_total a b) as [C|[C|C]]; [|exact C|];
    apply tipval_lt in C; lia.
Qed.

Lemma tipval_eqb a b : (tipval a =? tipval b)%Z = (a =? b)%nat.
Proof.
  destruct (Nat.eqb_spec a b) as [->|Hne]; [apply Z.eqb_refl|].
  apply Z.eqb_neq. intro H. apply tipval_inj in H. contradiction.
Qed.

Lemma existsb_tipval i bs : existsb (Z.eqb (tipval i)) (map tipval bs) = existsb (Nat.eqb i) bs.
Proof.
  induction bs as [|b r IH]; [reflexivity|]. cbn [map existsb]. rewrite tipval_eqb, IH. reflexivity.
Qed.

Lemma eight_tipvals : eight = map tipval (seq 0 8).
Proof. reflexivity. Qed.

(** strictly ascending naturals *)
Fixpoint asc_nat (l : list nat) : bool :=
  match l with
  | a :: ((b :: _) as r) => (a <? b)%nat && asc_nat r
  | _ => true
  end.

Lemma asc_nat_cons a l : asc_nat (a :: l) = true <-> (forall x, In x l -> a < x) /\ asc_nat l = true.
Proof.
  revert a. induction l as [|b r IH]; intro a.
  - cbn [asc_nat In]. split; [intros _; split; [intros x []|reflexivity]|reflexivity].
  - change (asc_nat (a :: b :: r)) with ((a <? b)%nat && asc_nat (b :: r)).
    rewrite andb_true_iff, Nat.ltb_lt. split.
    + intros [H1 H2]. split; [|exact H2]. intros x [<-|Hx]; [exact H1|].
      apply IH in H2. destruct H2 as [H2 _]. specialize (H2 x Hx). lia.
    + intros [H1 H2]. split; [apply H1; left; reflexivity|exact H2].
Qed.

Lemma strictly_ascending_tipvals bs : strictly_ascending_Z (map tipval bs) = asc_nat bs.
Proof.
  induction bs as [|a [|b r] IH]; try reflexivity.
  change (strictly_ascending_Z (map tipval (a :: b :: r)))
    with ((tipval a <? tipval b)%Z && strictly_ascending_Z (map tipval (b :: r))).
  change (asc_nat (a :: b :: r)) with ((a <? b)%nat && asc_nat (b :: r)).
  rewrite IH. f_equal.
  destruct (Nat.ltb_spec a b) as [H|H].
  - apply Z.ltb_lt. apply tipval_lt. exact H.
  - apply Z.ltb_ge. destruct (Nat.eq_dec a b) as [->|Hne]; [lia|].
    assert (C : b < a) by lia. apply tipval_lt in C. lia.
Qed.

Lemma asc_nat_NoDup l : asc_nat l = true -> NoDup l.
Proof.
  induction l as [|a r IH]; intro H; [constructor|].
  apply asc_nat_cons in H. destruct H as [H1 H2]. constructor; [|exact (IH H2)].
  intro Hin. specialize (H1 a Hin). lia.
Qed.

(** the sum of distinct tip values is their bitwise OR *)
Lemma sum_tipvals_N bs :
  fold_right Z.add 0%Z (map tipval bs) = Z.of_N (fold_right (fun n m => (bit n + m)%N) 0%N bs).
Proof.
  induction bs as [|b r IH]; [reflexivity|]. cbn [map fold_right]. rewrite IH, N2Z.inj_add. reflexivity.
Qed.

Lemma sum_tipvals_or bs : NoDup bs -> fold_right Z.add 0%Z (map tipval bs) = Z.of_N (mask_or bs).
Proof. intro ND. rewrite sum_tipvals_N, sum_is_or by exact ND. reflexivity. Qed.

Lemma existsb_eqb_map_tipval x r : existsb (Z.eqb (tipval x)) (map tipval r) = existsb (Nat.eqb x) r.
Proof. apply existsb_tipval. Qed.

Lemma dedup_Z_tipvals bs : dedup_Z (map tipval bs) = map tipval (dedup bs).
Proof.
  induction bs as [|b r IH]; [reflexivity|]. cbn [map dedup_Z dedup].
  rewrite existsb_tipval. destruct (existsb (Nat.eqb b) r); [exact IH|].
  cbn [map]. rewrite IH. reflexivity.
Qed.

Lemma sum_dedup_tipvals_or bs :
  fold_right Z.add 0%Z (dedup_Z (map tipval bs)) = Z.of_N (mask_or bs).
Proof.
  rewrite dedup_Z_tipvals, sum_tipvals_or by apply nodup_dedup. rewrite mask_or_dedup. reflexivity.
Qed.

(* ------------------------------------------------------------------ slots *)

(** the structured slots: [None] where the model would raise IndexError *)
Fixpoint slots_struct (tipvs given : list Z) (vols : list Q) : option (list (option Z)) :=
  match tipvs with
  | [] => Some []
  | t :: rest =>
      if existsb (Z.eqb t) given then
        match vols with
        | v :: vr => match slots_struct rest given vr with
                     | Some sl => Some (Some (round2c v) :: sl)
                     | None => None
                     end
        | [] => None
        end
      else match slots_struct rest given vols with
           | Some sl => Some (None :: sl)
           | None => None
           end
  end.

Lemma slots_struct_render tipvs given : forall vols sl,
  slots_struct tipvs given vols = Some sl -> tip_slots tipvs given vols = render_slots sl.
Proof.
  induction tipvs as [|t rest IH]; intros vols sl H; cbn [slots_struct tip_slots] in *.
  - injection H as <-. reflexivity.
  - destruct (existsb (Z.eqb t) given).
    + destruct vols as [|v vr]; [discriminate|].
      destruct (slots_struct rest given vr) as [sl'|] eqn:E; [|discriminate]. injection H as <-.
      cbn [render_slots]. rewrite (IH vr sl' E). reflexivity.
    + destruct (slots_struct rest given vols) as [sl'|] eqn:E; [|discriminate]. injection H as <-.
      cbn [render_slots]. rewrite (IH vols sl' E). reflexivity.
Qed.

(** whole numbers of microlitres: the slots hold multiples of 100 and the all-int text is their
    integer spelling *)
Lemma round2c_inject_Z z : round2c (inject_Z z) = (100 * z)%Z.
Proof.
  apply rc_round2c_exact. unfold Qeq, inject_Z, Qmult. cbn [Qnum Qden]. lia.
Qed.

Lemma slots_struct_render_int tipvs given : forall l sl,
  slots_struct tipvs given (map inject_Z l) = Some sl -> tip_slots_int tipvs given l = render_slots_int sl.
Proof.
  induction tipvs as [|t rest IH]; intros l sl H; cbn [slots_struct tip_slots_int] in *.
  - injection H as <-. reflexivity.
  - destruct (existsb (Z.eqb t) given).
    + destruct l as [|v vr]; cbn [map] in H; [discriminate|].
      destruct (slots_struct rest given (map inject_Z vr)) as [sl'|] eqn:E; [|discriminate]. injection H as <-.
      cbn [render_slots_int]. rewrite (IH vr sl' E). rewrite round2c_inject_Z.
      replace (100 * v / 100)%Z with v by (rewrite Z.mul_comm, Z.div_mul; [reflexivity|discriminate]).
      reflexivity.
    + destruct (slots_struct rest given (map inject_Z l)) as [sl'|] eqn:E; [|discriminate]. injection H as <-.
      cbn [render_slots_int]. rewrite (IH l sl' E). reflexivity.
Qed.

Definition slot_whole (o : option Z) : Prop := match o with Some h => exists z, h = (100 * z)%Z | None => True end.

Lemma slots_struct_whole tipvs given : forall l sl,
  slots_struct tipvs given (map inject_Z l) = Some sl -> Forall slot_whole sl.
Proof.
  induction tipvs as [|t rest IH]; intros l sl H; cbn [slots_struct] in H.
  - injection H as <-. constructor.
  - destruct (existsb (Z.eqb t) given).
    + destruct l as [|v vr]; cbn [map] in H; [discriminate|].
      destruct (slots_struct rest given (map inject_Z vr)) as [sl'|] eqn:E; [|discriminate]. injection H as <-.
      constructor; [exists v; apply round2c_inject_Z|exact (IH vr sl' E)].
    + destruct (slots_struct rest given (map inject_Z l)) as [sl'|] eqn:E; [|discriminate]. injection H as <-.
      constructor; [exact I|exact (IH l sl' E)].
Qed.

Lemma slots_struct_ok tipvs given : forall vols,
  slots_ok tipvs given (length vols) = match slots_struct tipvs given vols with Some _ => true | None => false end.
Proof.
  induction tipvs as [|t rest IH]; intro vols; cbn [slots_struct slots_ok]; [reflexivity|].
  destruct (existsb (Z.eqb t) given).
  - destruct vols as [|v vr]; [reflexivity|]. cbn [length]. rewrite IH.
    destruct (slots_struct rest given vr); reflexivity.
  - rewrite IH. destruct (slots_struct rest given vols); reflexivity.
Qed.

(* ------------------------------------------------------------------ the structured command *)

Definition evo_command_struct (kind : string) (n_rows n_cols : nat) (a : cmdargs) (max_volume : Q) : res cmd :=
  let wells := flattenF (c_wells a) in
  if negb (length wells =? length (c_tips a))%nat then Err EReject else
  if negb (strictly_ascending_str wells) then Err EReject else
  match check_range (c_grid a) 1 67, check_range (c_site a) 1 128 with
  | Some grid, Some site =>
      match cmd_vols (c_volume a) max_volume (length wells) with
      | Err e => Err e
      | Ok qs =>
          match text_ok false (c_liquid_class a), cmd_tip_values (c_tips a) with
          | Some lc, Some tvs =>
              if negb (strictly_ascending_Z tvs) then Err EReject else
              if negb ((c_arm a =? 0) || (c_arm a =? 1))%Z then Err EReject else
              match slots_struct eight tvs qs with
              | None => Err EReject
              | Some sl =>
                  match selection_array n_rows n_cols wells with
                  | None => Err EReject
                  | Some sel =>
                      if (2 <=? selected_columns n_rows n_cols wells)%nat then Err EReject else
                      Ok {| cm_kind := kind; cm_mask := fold_right Z.add 0%Z tvs; cm_lc := lc;
                            cm_slots := sl; cm_grid := grid; cm_site := (site - 1)%Z;
                            cm_sel := evo_get_selection n_rows n_cols sel; cm_arm := c_arm a |}
                  end
              end
          | _, _ => Err EReject
          end
      end
  | _, _ => Err EReject
  end.

(** the text of a structured command for the volume argument [v]: the usual rendering ([render_cmd]:
    volumes with at least one fractional digit), except for an all-int volume list, whose whole numbers are
    written as plain integers ([render_cmd_int]) *)
Definition cmd_text (v : cmdvol) (c : cmd) : string :=
  match v with CVIntList _ => render_cmd_int c | _ => render_cmd c end.

Lemma cmd_vols_intlist_ok l m n qs : cmd_vols (CVIntList l) m n = Ok qs -> qs = map inject_Z l.
Proof.
  unfold cmd_vols. destruct (check_volumes (int_pvols l) m) as [qs'|e] eqn:E; [|discriminate].
  destruct (length qs' =? n)%nat; [|discriminate]. intro H. injection H as <-.
  destruct (check_volumes_ok _ _ _ E) as [Hq _]. exact (int_pvols_eq _ _ Hq).
Qed.

(** the emitted text is the rendering of the structured command; same errors *)
Lemma evo_command_render kind n_rows n_cols a m :
  evo_command kind n_rows n_cols a m =
  match evo_command_struct kind n_rows n_cols a m with Ok c => Ok (cmd_text (c_volume a) c) | Err e => Err e end.
Proof.
  unfold evo_command, evo_command_struct. cbv zeta.
  destruct (negb (length (flattenF (c_wells a)) =? length (c_tips a))%nat); [reflexivity|].
  destruct (negb (strictly_ascending_str (flattenF (c_wells a)))); [reflexivity|].
  destruct (check_range (c_grid a) 1 67) as [grid|]; [|reflexivity].
  destruct (check_range (c_site a) 1 128) as [site|]; [|reflexivity].
  fold (cmd_vols (c_volume a) m (length (flattenF (c_wells a)))).
  destruct (cmd_vols (c_volume a) m (length (flattenF (c_wells a)))) as [qs|e] eqn:Ev; [|reflexivity].
  destruct (text_ok false (c_liquid_class a)) as [lc|]; [|reflexivity].
  destruct (cmd_tip_values (c_tips a)) as [tvs|]; [|reflexivity].
  destruct (negb (strictly_ascending_Z tvs)); [reflexivity|].
  destruct (negb ((c_arm a =? 0) || (c_arm a =? 1))%Z); [reflexivity|].
  rewrite slots_struct_ok.
  destruct (slots_struct eight tvs qs) as [sl|] eqn:Es; cbn [negb]; [|reflexivity].
  destruct (selection_array n_rows n_cols (flattenF (c_wells a))) as [sel|]; [|reflexivity].
  destruct (2 <=? selected_columns n_rows n_cols (flattenF (c_wells a)))%nat; [reflexivity|].
  destruct (c_volume a) as [x|l|l|] eqn:Ecv; unfold cmd_text, render_cmd, render_cmd_int;
    cbn [cm_kind cm_mask cm_lc cm_slots cm_grid cm_site cm_sel cm_arm];
    try (rewrite (slots_struct_render _ _ _ _ Es); reflexivity).
  apply cmd_vols_intlist_ok in Ev. subst qs.
  rewrite (slots_struct_render_int _ _ _ _ Es). reflexivity.
Qed.

Lemma evo_command_struct_text kind n_rows n_cols a m text :
  evo_command kind n_rows n_cols a m = Ok text ->
  exists c, evo_command_struct kind n_rows n_cols a m = Ok c /\ text = cmd_text (c_volume a) c.
Proof.
  rewrite evo_command_render. destruct (evo_command_struct kind n_rows n_cols a m) as [c|e]; [|discriminate].
  intro H. injection H as <-. exists c. split; reflexivity.
Qed.

(* ------------------------------------------------------------------ acceptance, spelled out *)

Record accepted (n_rows n_cols : nat) (a : cmdargs) (m : Q)
    (grid site : Z) (qs : list Q) (lc : string) (bs : list nat) (sl : list (option Z)) (sel : list bool)
    : Prop := {
  acc_len : length (flattenF (c_wells a)) = length (c_tips a);
  acc_wells_asc : strictly_ascending_str (flattenF (c_wells a)) = true;
  acc_grid : c_grid a = PInt grid /\ (1 <= grid <= 67)%Z;
  acc_site : c_site a = PInt site /\ (1 <= site <= 128)%Z;
  acc_vols : cmd_vols (c_volume a) m (length (flattenF (c_wells a))) = Ok qs;
  acc_lc : c_liquid_class a = PStr lc /\ contains_char semi lc = false;
  acc_tips : elems_bits (c_tips a) = Some bs;
  acc_tips_asc : asc_nat bs = true;
  acc_arm : c_arm a = 0%Z \/ c_arm a = 1%Z;
  acc_slots : slots_struct eight (map tipval bs) qs = Some sl;
  acc_sel : selection_array n_rows n_cols (flattenF (c_wells a)) = Some sel;
  acc_cols : selected_columns n_rows n_cols (flattenF (c_wells a)) <= 1
}.

Definition the_cmd (kind : string) (n_rows n_cols : nat) (a : cmdargs)
    (grid site : Z) (lc : string) (bs : list nat) (sl : list (option Z)) (sel : list bool) : cmd :=
  {| cm_kind := kind; cm_mask := fold_right Z.add 0%Z (map tipval bs); cm_lc := lc;
     cm_slots := sl; cm_grid := grid; cm_site := (site - 1)%Z;
     cm_sel := evo_get_selection n_rows n_cols sel; cm_arm := c_arm a |}.

Lemma evo_command_struct_iff kind n_rows n_cols a m c :
  evo_command_struct kind n_rows n_cols a m = Ok c <->
  exists grid site qs lc bs sl sel,
    accepted n_rows n_cols a m grid site qs lc bs sl sel /\
    c = the_cmd kind n_rows n_cols a grid site lc bs sl sel.
Proof.
  unfold evo_command_struct. cbv zeta. split.
  - destruct (length (flattenF (c_wells a)) =? length (c_tips a))%nat eqn:E1; cbn [negb]; [|discriminate].
    destruct (strictly_ascending_str (flattenF (c_wells a))) eqn:E2; cbn [negb]; [|discriminate].
    destruct (check_range (c_grid a) 1 67) as [grid|] eqn:E3; [|discriminate].
    destruct (check_range (c_site a) 1 128) as [site|] eqn:E4; [|discriminate].
    destruct (cmd_vols (c_volume a) m (length (flattenF (c_wells a)))) as [qs|e] eqn:E5; [|discriminate].
    destruct (text_ok false (c_liquid_class a)) as [lc|] eqn:E6; [|discriminate].
    rewrite cmd_tip_values_elems_bits.
    destruct (elems_bits (c_tips a)) as [bs|] eqn:E7; [|discriminate].
    rewrite strictly_ascending_tipvals.
    destruct (asc_nat bs) eqn:E8; cbn [negb]; [|discriminate].
    destruct ((c_arm a =? 0) || (c_arm a =? 1))%Z eqn:E9; cbn [negb]; [|discriminate].
    destruct (slots_struct eight (map tipval bs) qs) as [sl|] eqn:E10; [|discriminate].
    destruct (selection_array n_rows n_cols (flattenF (c_wells a))) as [sel|] eqn:E11; [|discriminate].
    destruct (2 <=? selected_columns n_rows n_cols (flattenF (c_wells a)))%nat eqn:E12; [discriminate|].
    intro H. injection H as <-. exists grid, site, qs, lc, bs, sl, sel. split; [|reflexivity].
    constructor; try assumption.
    + apply Nat.eqb_eq. exact E1.
    + apply check_range_spec. exact E3.
    + apply check_range_spec. exact E4.
    + apply text_ok_false_spec. exact E6.
    + apply arm_ok_spec. exact E9.
    + apply Nat.leb_gt in E12. lia.
  - intros (grid & site & qs & lc & bs & sl & sel & A & ->).
    destruct A as [A1 A2 A3 A4 A5 A6 A7 A8 A9 A10 A11 A12].
    apply Nat.eqb_eq in A1. rewrite A1, A2. cbn [negb].
    apply check_range_spec in A3. apply check_range_spec in A4.
    rewrite A3, A4, A5.
    apply text_ok_false_spec in A6. rewrite A6, cmd_tip_values_elems_bits, A7.
    rewrite strictly_ascending_tipvals, A8. cbn [negb].
    apply arm_ok_spec in A9. rewrite A9. cbn [negb].
    rewrite A10, A11.
    replace (2 <=? selected_columns n_rows n_cols (flattenF (c_wells a)))%nat with false
      by (symmetry; apply Nat.leb_gt; lia).
    reflexivity.
Qed.

(** an accepted command: all checks passed, and the text is the rendering of [the_cmd] *)
Lemma evo_command_ok_iff kind n_rows n_cols a m text :
  evo_command kind n_rows n_cols a m = Ok text <->
  exists grid site qs lc bs sl sel,
    accepted n_rows n_cols a m grid site qs lc bs sl sel /\
    text = cmd_text (c_volume a) (the_cmd kind n_rows n_cols a grid site lc bs sl sel).
Proof.
  rewrite evo_command_render. split.
  - destruct (evo_command_struct kind n_rows n_cols a m) as [c|e] eqn:E; [|discriminate].
    intro H. injection H as <-. apply evo_command_struct_iff in E.
    destruct E as (grid & site & qs & lc & bs & sl & sel & A & ->).
    exists grid, site, qs, lc, bs, sl, sel. split; [exact A|reflexivity].
  - intros (grid & site & qs & lc & bs & sl & sel & A & ->).
    assert (E : evo_command_struct kind n_rows n_cols a m =
                Ok (the_cmd kind n_rows n_cols a grid site lc bs sl sel)).
    { apply evo_command_struct_iff. exists grid, site, qs, lc, bs, sl, sel. split; [exact A|reflexivity]. }
    rewrite E. reflexivity.
Qed.

(** acceptance does not depend on the command kind *)
Lemma evo_command_kind_indep k1 k2 n_rows n_cols a m :
  (exists t, evo_command k1 n_rows n_cols a m = Ok t) <-> (exists t, evo_command k2 n_rows n_cols a m = Ok t).
Proof.
  split; intros [t H]; apply evo_command_ok_iff in H;
    destruct H as (grid & site & qs & lc & bs & sl & sel & A & _);
    eexists; apply evo_command_ok_iff; exists grid, site, qs, lc, bs, sl, sel; (split; [exact A|reflexivity]).
Qed.

(* ------------------------------------------------------------------ rejection *)

(** the errors: everything is a plain rejection except a volume above the worklist's max_volume *)
Lemma cmd_vols_err v m n e : cmd_vols v m n = Err e ->
  e = EReject \/
  (e = EInvalidOp /\ exists q, (0 <= q)%Q /\ (m < q)%Q /\
     (v = CVScalar (PV (XQ q)) \/ (exists l, v = CVList l /\ In (PV (XQ q)) l) \/
      (exists l z, v = CVIntList l /\ In z l /\ q = inject_Z z))).
Proof.
  unfold cmd_vols. destruct v as [x|l|l|].
  - destruct (check_volume x (Some m)) as [q|e0] eqn:E; [discriminate|]. intro H. injection H as <-.
    apply check_volume_err in E. destruct E as [[-> _]|[-> (q & -> & H0 & Hm)]]; [left; reflexivity|].
    right. split; [reflexivity|]. exists q. repeat split; try assumption. left. reflexivity.
  - destruct (check_volumes l m) as [qs|e0] eqn:E.
    + destruct (length qs =? n)%nat; [discriminate|]. intro H. injection H as <-. left. reflexivity.
    + intro H. injection H as <-. apply check_volumes_err in E.
      destruct E as (pre & x & post & -> & Hx & _). apply check_volume_err in Hx.
      destruct Hx as [[-> _]|[-> (q & -> & H0 & Hm)]]; [left; reflexivity|].
      right. split; [reflexivity|]. exists q. repeat split; try assumption. right. left.
      eexists. split; [reflexivity|]. apply in_or_app. right. left. reflexivity.
  - destruct (check_volumes (int_pvols l) m) as [qs|e0] eqn:E.
    + destruct (length qs =? n)%nat; [discriminate|]. intro H. injection H as <-. left. reflexivity.
    + intro H. injection H as <-. apply check_volumes_err in E.
      destruct E as (pre & x & post & Hl & Hx & _). apply check_volume_err in Hx.
      destruct Hx as [[-> _]|[-> (q & -> & H0 & Hm)]]; [left; reflexivity|].
      right. split; [reflexivity|]. exists q. repeat split; try assumption. right. right.
      assert (Hin : In (PV (XQ q)) (int_pvols l)) by (rewrite Hl; apply in_or_app; right; left; reflexivity).
      apply int_pvols_In_inv in Hin. destruct Hin as [z [Hz Hq]]. injection Hq as ->.
      exists l, z. split; [reflexivity|]. split; [exact Hz|reflexivity].
  - intro H. injection H as <-. left. reflexivity.
Qed.

Lemma evo_command_struct_errors kind n_rows n_cols a m e :
  evo_command_struct kind n_rows n_cols a m = Err e ->
  e = EReject \/ cmd_vols (c_volume a) m (length (flattenF (c_wells a))) = Err e.
Proof.
  unfold evo_command_struct. cbv zeta.
  destruct (negb (length (flattenF (c_wells a)) =? length (c_tips a))%nat);
    [intro H; injection H as <-; left; reflexivity|].
  destruct (negb (strictly_ascending_str (flattenF (c_wells a))));
    [intro H; injection H as <-; left; reflexivity|].
  destruct (check_range (c_grid a) 1 67) as [grid|]; [|intro H; injection H as <-; left; reflexivity].
  destruct (check_range (c_site a) 1 128) as [site|]; [|intro H; injection H as <-; left; reflexivity].
  destruct (cmd_vols (c_volume a) m (length (flattenF (c_wells a)))) as [qs|e0];
    [|intro H; injection H as <-; right; reflexivity].
  destruct (text_ok false (c_liquid_class a)) as [lc|]; [|intro H; injection H as <-; left; reflexivity].
  destruct (cmd_tip_values (c_tips a)) as [tvs|]; [|intro H; injection H as <-; left; reflexivity].
  destruct (negb (strictly_ascending_Z tvs)); [intro H; injection H as <-; left; reflexivity|].
  destruct (negb ((c_arm a =? 0) || (c_arm a =? 1))%Z); [intro H; injection H as <-; left; reflexivity|].
  destruct (slots_struct eight tvs qs) as [sl|]; [|intro H; injection H as <-; left; reflexivity].
  destruct (selection_array n_rows n_cols (flattenF (c_wells a))) as [sel|];
    [|intro H; injection H as <-; left; reflexivity].
  destruct (2 <=? selected_columns n_rows n_cols (flattenF (c_wells a)))%nat;
    [intro H; injection H as <-; left; reflexivity|discriminate].
Qed.

Lemma evo_command_errors kind n_rows n_cols a m e :
  evo_command kind n_rows n_cols a m = Err e ->
  e = EReject \/
  (e = EInvalidOp /\ exists q, (0 <= q)%Q /\ (m < q)%Q /\
     (c_volume a = CVScalar (PV (XQ q)) \/ (exists l, c_volume a = CVList l /\ In (PV (XQ q)) l) \/
      (exists l z, c_volume a = CVIntList l /\ In z l /\ q = inject_Z z))).
Proof.
  rewrite evo_command_render.
  destruct (evo_command_struct kind n_rows n_cols a m) as [c|e0] eqn:E; [discriminate|].
  intro H. injection H as <-. apply evo_command_struct_errors in E.
  destruct E as [->|E]; [left; reflexivity|]. exact (cmd_vols_err _ _ _ _ E).
Qed.

(** generic: whenever a necessary condition of acceptance fails, the call is an error *)
Lemma evo_command_not_accepted kind n_rows n_cols a m :
  (forall grid site qs lc bs sl sel, ~ accepted n_rows n_cols a m grid site qs lc bs sl sel) ->
  exists e, evo_command kind n_rows n_cols a m = Err e.
Proof.
  intro H. destruct (evo_command kind n_rows n_cols a m) as [t|e] eqn:E; [|exists e; reflexivity].
  apply evo_command_ok_iff in E. destruct E as (grid & site & qs & lc & bs & sl & sel & A & _).
  exfalso. exact (H _ _ _ _ _ _ _ A).
Qed.

Ltac reject_by field A X :=
  apply evo_command_not_accepted;
  intros ? ? ? ? ? ? ? A; pose proof (field _ _ _ _ _ _ _ _ _ _ _ A) as X.

Lemma reject_length kind n_rows n_cols a m :
  length (flattenF (c_wells a)) <> length (c_tips a) ->
  evo_command kind n_rows n_cols a m = Err EReject.
Proof.
  intro H. unfold evo_command. cbv zeta. apply Nat.eqb_neq in H. rewrite H. reflexivity.
Qed.

Lemma reject_wells_order kind n_rows n_cols a m :
  strictly_ascending_str (flattenF (c_wells a)) = false ->
  evo_command kind n_rows n_cols a m = Err EReject.
Proof.
  intro H. unfold evo_command. cbv zeta. rewrite H.
  destruct (negb (length (flattenF (c_wells a)) =? length (c_tips a))%nat); reflexivity.
Qed.

(** repeated wells, or a pair out of order anywhere in the list, make the list not strictly ascending *)
Lemma strictly_ascending_str_pair l1 x y l2 :
  str_leb y x = true -> strictly_ascending_str (l1 ++ x :: y :: l2) = false.
Proof.
  intro H. induction l1 as [|z r IH].
  - cbn [app]. change (strictly_ascending_str (x :: y :: l2))
      with (negb (str_leb y x) && strictly_ascending_str (y :: l2)). rewrite H. reflexivity.
  - destruct r as [|z' r'].
    + cbn [app] in *. change (strictly_ascending_str (z :: x :: y :: l2))
        with (negb (str_leb x z) && strictly_ascending_str (x :: y :: l2)).
      rewrite IH. apply andb_false_r.
    + change (strictly_ascending_str ((z :: z' :: r') ++ x :: y :: l2))
        with (negb (str_leb z' z) && strictly_ascending_str ((z' :: r') ++ x :: y :: l2)).
      rewrite IH. apply andb_false_r.
Qed.

Lemma strictly_ascending_str_cons a l :
  strictly_ascending_str (a :: l) = true <->
  (forall x, In x l -> str_leb x a = false) /\ strictly_ascending_str l = true.
Proof.
  revert a. induction l as [|b r IH]; intro a.
  - cbn [strictly_ascending_str In]. split; [intros _; split; [intros x []|reflexivity]|reflexivity].
  - change (strictly_ascending_str (a :: b :: r))
      with (negb (str_leb b a) && strictly_ascending_str (b :: r)).
    rewrite andb_true_iff, negb_true_iff. split.
    + intros [H1 H2]. split; [|exact H2]. intros x [<-|Hx]; [exact H1|].
      apply IH in H2. destruct H2 as [H2 _]. specialize (H2 x Hx).
      destruct (str_leb x a) eqn:E; [|reflexivity].
      apply str_leb_false in H1. destruct H1 as [H1 _].
      rewrite (str_leb_trans x a b E H1) in H2. discriminate.
    + intros [H1 H2]. split; [apply H1; left; reflexivity|exact H2].
Qed.

Lemma strictly_ascending_str_NoDup l : strictly_ascending_str l = true -> NoDup l.
Proof.
  induction l as [|a r IH]; intro H; [constructor|].
  apply strictly_ascending_str_cons in H. destruct H as [H1 H2]. constructor; [|exact (IH H2)].
  intro Hin. specialize (H1 a Hin). rewrite str_leb_refl in H1. discriminate.
Qed.

Lemma reject_repeated_well kind n_rows n_cols a m :
  ~ NoDup (flattenF (c_wells a)) -> evo_command kind n_rows n_cols a m = Err EReject.
Proof.
  intro H. apply reject_wells_order.
  destruct (strictly_ascending_str (flattenF (c_wells a))) eqn:E; [|reflexivity].
  exfalso. apply H. apply strictly_ascending_str_NoDup. exact E.
Qed.

Lemma reject_grid kind n_rows n_cols a m :
  c_grid a = PNotInt \/ (exists z, c_grid a = PInt z /\ (z < 1 \/ 67 < z)%Z) ->
  evo_command kind n_rows n_cols a m = Err EReject.
Proof.
  intro H. apply check_range_none in H. unfold evo_command. cbv zeta. rewrite H.
  destruct (negb (length (flattenF (c_wells a)) =? length (c_tips a))%nat); [reflexivity|].
  destruct (negb (strictly_ascending_str (flattenF (c_wells a)))); reflexivity.
Qed.

Lemma reject_site kind n_rows n_cols a m :
  c_site a = PNotInt \/ (exists z, c_site a = PInt z /\ (z < 1 \/ 128 < z)%Z) ->
  evo_command kind n_rows n_cols a m = Err EReject.
Proof.
  intro H. apply check_range_none in H. unfold evo_command. cbv zeta. rewrite H.
  destruct (negb (length (flattenF (c_wells a)) =? length (c_tips a))%nat); [reflexivity|].
  destruct (negb (strictly_ascending_str (flattenF (c_wells a)))); [reflexivity|].
  destruct (check_range (c_grid a) 1 67); reflexivity.
Qed.

(** a refused volume: the call fails with the volume's error unless an earlier check already
    rejected it *)
Lemma reject_volume kind n_rows n_cols a m e :
  cmd_vols (c_volume a) m (length (flattenF (c_wells a))) = Err e ->
  evo_command kind n_rows n_cols a m = Err e \/ evo_command kind n_rows n_cols a m = Err EReject.
Proof.
  intro H. unfold evo_command. cbv zeta.
  destruct (negb (length (flattenF (c_wells a)) =? length (c_tips a))%nat); [right; reflexivity|].
  destruct (negb (strictly_ascending_str (flattenF (c_wells a)))); [right; reflexivity|].
  destruct (check_range (c_grid a) 1 67); [|right; reflexivity].
  destruct (check_range (c_site a) 1 128); [|right; reflexivity].
  fold (cmd_vols (c_volume a) m (length (flattenF (c_wells a)))). rewrite H. left. reflexivity.
Qed.

(** ... and exactly that error when wells, tips, grid and site are fine *)
Lemma reject_volume_exact kind n_rows n_cols a m e g s :
  length (flattenF (c_wells a)) = length (c_tips a) ->
  strictly_ascending_str (flattenF (c_wells a)) = true ->
  c_grid a = PInt g -> (1 <= g <= 67)%Z -> c_site a = PInt s -> (1 <= s <= 128)%Z ->
  cmd_vols (c_volume a) m (length (flattenF (c_wells a))) = Err e ->
  evo_command kind n_rows n_cols a m = Err e.
Proof.
  intros H1 H2 Hg Hg' Hs Hs' H. unfold evo_command. cbv zeta.
  apply Nat.eqb_eq in H1. rewrite H1, H2. cbn [negb].
  rewrite (proj2 (check_range_spec _ 1 67 g) (conj Hg Hg')).
  rewrite (proj2 (check_range_spec _ 1 128 s) (conj Hs Hs')).
  fold (cmd_vols (c_volume a) m (length (flattenF (c_wells a)))). rewrite H. reflexivity.
Qed.

Lemma cmd_vols_scalar_bad x m n :
  x = PVBad \/ x = PV XNaN \/ x = PV XPInf \/ x = PV XNInf \/ (exists q, x = PV (XQ q) /\ (q < 0)%Q) ->
  cmd_vols (CVScalar x) m n = Err EReject.
Proof. intro H. unfold cmd_vols. rewrite (check_volume_bad _ _ H). reflexivity. Qed.

Lemma cmd_vols_scalar_over q m n : (0 <= q)%Q -> (q <= max_tecan_volume)%Q -> (m < q)%Q ->
  cmd_vols (CVScalar (PV (XQ q))) m n = Err EInvalidOp.
Proof. intros H0 Ht Hm. unfold cmd_vols. rewrite check_volume_over by assumption. reflexivity. Qed.

Lemma cmd_vols_list_bad l m n x :
  In x l -> (exists e, check_volume x (Some m) = Err e) -> exists e, cmd_vols (CVList l) m n = Err e.
Proof.
  intros Hin He. destruct (check_volumes_In_err l m x Hin He) as [e E].
  exists e. unfold cmd_vols. rewrite E. reflexivity.
Qed.

Lemma cmd_vols_list_length l m n : length l <> n -> exists e, cmd_vols (CVList l) m n = Err e.
Proof.
  intro H. unfold cmd_vols. destruct (check_volumes l m) as [qs|e] eqn:E; [|exists e; reflexivity].
  destruct (check_volumes_ok _ _ _ E) as [-> _]. rewrite map_length in H.
  apply Nat.eqb_neq in H. rewrite H. exists EReject. reflexivity.
Qed.

Lemma cmd_vols_other m n : cmd_vols CVOther m n = Err EReject.
Proof. reflexivity. Qed.

Lemma reject_volume_any kind n_rows n_cols a m :
  (exists e, cmd_vols (c_volume a) m (length (flattenF (c_wells a))) = Err e) ->
  exists e, evo_command kind n_rows n_cols a m = Err e.
Proof.
  intros [e H]. destruct (reject_volume kind n_rows n_cols a m e H) as [E|E]; eexists; exact E.
Qed.

Lemma reject_liquid_class kind n_rows n_cols a m :
  c_liquid_class a = PNotStr \/ (exists s, c_liquid_class a = PStr s /\ contains_char semi s = true) ->
  exists e, evo_command kind n_rows n_cols a m = Err e.
Proof.
  intro H. reject_by acc_lc A X. destruct X as [E1 E2].
  destruct H as [H|[s [H Hs]]]; rewrite H in E1; [discriminate|]. injection E1 as ->. congruence.
Qed.

Lemma reject_tips_invalid kind n_rows n_cols a m :
  (exists x, In x (c_tips a) /\ elem_bit x = None) ->
  exists e, evo_command kind n_rows n_cols a m = Err e.
Proof.
  intro H. reject_by acc_tips A X. apply elems_bits_none in H. congruence.
Qed.

Lemma reject_tips_order kind n_rows n_cols a m bs :
  elems_bits (c_tips a) = Some bs -> asc_nat bs = false ->
  exists e, evo_command kind n_rows n_cols a m = Err e.
Proof.
  intros Hb H. reject_by acc_tips A X. pose proof (acc_tips_asc _ _ _ _ _ _ _ _ _ _ _ A). congruence.
Qed.

Lemma reject_arm kind n_rows n_cols a m :
  c_arm a <> 0%Z -> c_arm a <> 1%Z -> exists e, evo_command kind n_rows n_cols a m = Err e.
Proof. intros H0 H1. reject_by acc_arm A X. tauto. Qed.

Lemma reject_columns kind n_rows n_cols a m :
  2 <= selected_columns n_rows n_cols (flattenF (c_wells a)) ->
  exists e, evo_command kind n_rows n_cols a m = Err e.
Proof. intro H. reject_by acc_cols A X. lia. Qed.

Lemma selection_array_some rows cols wells sel : selection_array rows cols wells = Some sel ->
  exists rcs, map (make_well_index rows cols) wells = map Some rcs /\
    sel = flat_map (fun c => map (fun r => existsb (fun rc => (fst rc =? r)%nat && (snd rc =? c)%nat) rcs)
                                 (seq 0 (Nat.min 26 rows))) (seq 0 cols).
Proof.
  unfold selection_array.
  match goal with |- context [fold_right ?f (Some []) wells] => set (F := fold_right f (Some []) wells) end.
  assert (G : forall idxs, F = Some idxs -> map (make_well_index rows cols) wells = map Some idxs).
  { subst F. induction wells as [|w r IH]; intros idxs H; cbn [fold_right] in H.
    - injection H as <-. reflexivity.
    - destruct (make_well_index rows cols w) as [rc|] eqn:Ew; [|discriminate].
      match type of H with match ?X with _ => _ end = _ => destruct X as [l|] eqn:El end; [|discriminate].
      injection H as <-. cbn [map]. rewrite Ew, (IH l eq_refl). reflexivity. }
  destruct F as [idxs|]; [|discriminate]. intro H. injection H as <-.
  exists idxs. split; [apply G; reflexivity|reflexivity].
Qed.

Lemma selection_array_none rows cols wells :
  (exists w, In w wells /\ make_well_index rows cols w = None) -> selection_array rows cols wells = None.
Proof.
  intros [w [Hin Hw]]. destruct (selection_array rows cols wells) as [sel|] eqn:E; [|reflexivity].
  apply selection_array_some in E. destruct E as (rcs & Hm & _). exfalso.
  apply (in_map (make_well_index rows cols)) in Hin. rewrite Hm, Hw in Hin.
  apply in_map_iff in Hin. destruct Hin as [x [Hx _]]. discriminate.
Qed.

Lemma reject_unknown_well kind n_rows n_cols a m :
  (exists w, In w (flattenF (c_wells a)) /\ make_well_index n_rows n_cols w = None) ->
  exists e, evo_command kind n_rows n_cols a m = Err e.
Proof.
  intro H. reject_by acc_sel A X. rewrite (selection_array_none _ _ _ H) in X. discriminate.
Qed.

(* ------------------------------------------------------------------ the wash command *)

(** a wash volume: an int 0..100 printed as is, or a float 0..100 printed rounded to one decimal *)
Inductive wash_vol_text : pyfi -> string -> Prop :=
| WVInt z : (0 <= z <= 100)%Z -> wash_vol_text (FI_int z) (decZ z)
| WVFloat q : (0 <= q)%Q -> (q <= 100)%Q -> wash_vol_text (FI_float (XQ q)) (pyrepr_round1 q).

Lemma wash_vol_spec v s : wash_vol v = Some s <-> wash_vol_text v s.
Proof.
  split.
  - unfold wash_vol. destruct v as [z|[q| | |]|]; try discriminate.
    + destruct ((0 <=? z) && (z <=? 100))%Z eqn:E; [|discriminate]. intro H. injection H as <-.
      apply andb_true_iff in E. destruct E as [E1 E2]. apply Z.leb_le in E1. apply Z.leb_le in E2.
      constructor. lia.
    + destruct (Qle_bool 0 q && Qle_bool q 100) eqn:E; [|discriminate]. intro H. injection H as <-.
      apply andb_true_iff in E. destruct E as [E1 E2].
      apply Qle_bool_iff in E1. apply Qle_bool_iff in E2. constructor; assumption.
  - intro H. destruct H as [z Hz|q H0 H1]; unfold wash_vol.
    + replace ((0 <=? z) && (z <=? 100))%Z with true; [reflexivity|].
      symmetry. apply andb_true_iff. split; apply Z.leb_le; lia.
    + apply Qle_bool_iff in H0. apply Qle_bool_iff in H1. rewrite H0, H1. reflexivity.
Qed.

Definition wash_text (mask wg wsite cg csite : Z) (wv : string) (wd : Z) (cv : string)
    (cd ag ags rs fw lv arm : Z) : string :=
  "B;Wash(" ++ decZ mask ++ "," ++ decZ wg ++ "," ++ decZ (wsite - 1)
  ++ "," ++ decZ cg ++ "," ++ decZ (csite - 1) ++ ",""" ++ wv ++ """," ++ decZ wd
  ++ ",""" ++ cv ++ """," ++ decZ cd ++ "," ++ decZ ag ++ "," ++ decZ ags ++ ","
  ++ decZ rs ++ "," ++ decZ fw ++ "," ++ decZ lv ++ ",1000," ++ decZ arm ++ ");".

Definition int_in (p : pyint) (lo hi z : Z) : Prop := p = PInt z /\ (lo <= z <= hi)%Z.

Record wash_ok (a : washargs) (bs : list nat) (wg wsite cg csite : Z) (wv : string) (wd : Z)
    (cv : string) (cd ag ags rs fw lv : Z) : Prop := {
  wo_tips : elems_bits (wa_tips a) = Some bs;
  wo_wg : int_in (wa_waste_grid a) 1 67 wg;
  wo_ws : int_in (wa_waste_site a) 1 128 wsite;
  wo_cg : int_in (wa_cleaner_grid a) 1 67 cg;
  wo_cs : int_in (wa_cleaner_site a) 1 128 csite;
  wo_arm : wa_arm a = 0%Z \/ wa_arm a = 1%Z;
  wo_wv : wash_vol_text (wa_waste_vol a) wv;
  wo_wd : int_in (wa_waste_delay a) 0 1000 wd;
  wo_cv : wash_vol_text (wa_cleaner_vol a) cv;
  wo_cd : int_in (wa_cleaner_delay a) 0 1000 cd;
  wo_ag : int_in (wa_airgap a) 0 100 ag;
  wo_ags : int_in (wa_airgap_speed a) 1 1000 ags;
  wo_rs : int_in (wa_retract_speed a) 1 100 rs;
  wo_fw : int_in (wa_fastwash a) 0 1 fw;
  wo_lv : int_in (wa_low_volume a) 0 1 lv
}.

Lemma evo_wash_cmd_iff a text :
  evo_wash_cmd a = Ok text <->
  exists bs wg wsite cg csite wv wd cv cd ag ags rs fw lv,
    wash_ok a bs wg wsite cg csite wv wd cv cd ag ags rs fw lv /\
    text = wash_text (Z.of_N (mask_or bs)) wg wsite cg csite wv wd cv cd ag ags rs fw lv (wa_arm a).
Proof.
  unfold evo_wash_cmd. rewrite wash_tip_values_elems_bits. split.
  - destruct (elems_bits (wa_tips a)) as [bs|] eqn:E0; [|discriminate].
    destruct (check_range (wa_waste_grid a) 1 67) as [wg|] eqn:E1; [|discriminate].
    destruct (check_range (wa_waste_site a) 1 128) as [wsite|] eqn:E2; [|discriminate].
    destruct (check_range (wa_cleaner_grid a) 1 67) as [cg|] eqn:E3; [|discriminate].
    destruct (check_range (wa_cleaner_site a) 1 128) as [csite|] eqn:E4; [|discriminate].
    destruct ((wa_arm a =? 0) || (wa_arm a =? 1))%Z eqn:E5; cbn [negb]; [|discriminate].
    destruct (wash_vol (wa_waste_vol a)) as [wv|] eqn:E6; [|discriminate].
    destruct (check_range (wa_waste_delay a) 0 1000) as [wd|] eqn:E7; [|discriminate].
    destruct (wash_vol (wa_cleaner_vol a)) as [cv|] eqn:E8; [|discriminate].
    destruct (check_range (wa_cleaner_delay a) 0 1000) as [cd|] eqn:E9; [|discriminate].
    destruct (check_range (wa_airgap a) 0 100) as [ag|] eqn:E10; [|discriminate].
    destruct (check_range (wa_airgap_speed a) 1 1000) as [ags|] eqn:E11; [|discriminate].
    destruct (check_range (wa_retract_speed a) 1 100) as [rs|] eqn:E12; [|discriminate].
    destruct (check_range (wa_fastwash a) 0 1) as [fw|] eqn:E13; [|discriminate].
    destruct (check_range (wa_low_volume a) 0 1) as [lv|] eqn:E14; [|discriminate].
    intro H. injection H as <-.
    exists bs, wg, wsite, cg, csite, wv, wd, cv, cd, ag, ags, rs, fw, lv. split.
    + constructor; try (apply check_range_spec; assumption); try (apply wash_vol_spec; assumption).
      * exact E0.
      * apply arm_ok_spec. exact E5.
    + rewrite sum_dedup_tipvals_or. reflexivity.
  - intros (bs & wg & wsite & cg & csite & wv & wd & cv & cd & ag & ags & rs & fw & lv & W & ->).
    destruct W as [W0 W1 W2 W3 W4 W5 W6 W7 W8 W9 W10 W11 W12 W13 W14].
    apply check_range_spec in W1, W2, W3, W4, W7, W9, W10, W11, W12, W13, W14.
    apply wash_vol_spec in W6, W8. apply arm_ok_spec in W5.
    rewrite W0, W1, W2, W3, W4, W5, W6, W7, W8, W9, W10, W11, W12, W13, W14. cbn [negb].
    rewrite sum_dedup_tipvals_or. reflexivity.
Qed.

(** Tip.Any (or anything that is not a tip 1..8) among the wash tips is refused *)
Lemma evo_wash_cmd_bad_tip a :
  (exists x, In x (wa_tips a) /\ elem_bit x = None) -> evo_wash_cmd a = Err EReject.
Proof.
  intro H. apply elems_bits_none in H. unfold evo_wash_cmd.
  rewrite wash_tip_values_elems_bits, H. reflexivity.
Qed.

Lemma evo_wash_cmd_errors a e : evo_wash_cmd a = Err e -> e = EReject.
Proof.
  unfold evo_wash_cmd.
  repeat match goal with
         | |- context [match ?X with _ => _ end] => destruct X
         | |- context [if ?X then _ else _] => destruct X
         end; intro H; try discriminate; injection H as <-; reflexivity.
Qed.

(** the worklist wrapper: exactly one record, or nothing at all *)
Lemma evo_wash_accept s a s' :
  evo_wash s a = (s', None) <->
  exists text, evo_wash_cmd a = Ok text /\ s' = set_wl s (emit (st_wl s) [RCmd text]).
Proof.
  unfold evo_wash. destruct (evo_wash_cmd a) as [text|e].
  - split.
    + intro H. injection H as <-. exists text. split; reflexivity.
    + intros [t [H ->]]. injection H as <-. reflexivity.
  - split; [discriminate|]. intros [t [H _]]. discriminate H.
Qed.

Lemma evo_wash_reject s a s' e :
  evo_wash s a = (s', Some e) <-> evo_wash_cmd a = Err e /\ s' = s.
Proof.
  unfold evo_wash. destruct (evo_wash_cmd a) as [text|e0].
  - split; [discriminate|]. intros [H _]. discriminate H.
  - split.
    + intro H. injection H as <- <-. split; reflexivity.
    + intros [H ->]. injection H as <-. reflexivity.
Qed.

(* ------------------------------------------------------------------ the slots of an accepted command *)

Lemma asc_nat_head s bs : asc_nat bs = true -> (forall b, In b bs -> s <= b) -> In s bs ->
  exists bs', bs = s :: bs'.
Proof.
  intros Ha Hb Hin. destruct bs as [|b bs']; [destruct Hin|].
  apply asc_nat_cons in Ha. destruct Ha as [Ha _]. destruct Hin as [->|Hin]; [exists bs'; reflexivity|].
  specialize (Ha s Hin). specialize (Hb b (or_introl eq_refl)). lia.
Qed.

Lemma existsb_eqb_false i l : existsb (Nat.eqb i) l = false <-> ~ In i l.
Proof.
  rewrite <- existsb_eqb_In. destruct (existsb (Nat.eqb i) l); split; congruence.
Qed.

(** slots for the tip values 2^s .. 2^(s+n-1): the k-th given tip gets the k-th volume, the others 0 *)
Lemma slots_struct_spec given : forall n s bs qs,
  (forall i, s <= i -> existsb (Z.eqb (tipval i)) given = existsb (Nat.eqb i) bs) ->
  asc_nat bs = true -> (forall b, In b bs -> s <= b < s + n) -> length qs = length bs ->
  exists sl, slots_struct (map tipval (seq s n)) given qs = Some sl /\ length sl = n /\
    map (fun b => nth_error sl (b - s)) bs = map (fun q => Some (Some (round2c q))) qs /\
    (forall i, s <= i < s + n -> ~ In i bs -> nth_error sl (i - s) = Some None).
Proof.
  induction n as [|n IH]; intros s bs qs Hg Ha Hb Hl.
  - destruct bs as [|b bs']; [|specialize (Hb b (or_introl eq_refl)); lia].
    destruct qs as [|q qs']; [|discriminate Hl].
    exists []. repeat split; intros; lia.
  - cbn [seq map slots_struct]. rewrite (Hg s (le_n s)).
    destruct (existsb (Nat.eqb s) bs) eqn:Es.
    + apply existsb_eqb_In in Es.
      destruct (asc_nat_head s bs Ha (fun b Hin => proj1 (Hb b Hin)) Es) as [bs' ->].
      destruct qs as [|q qs']; [discriminate Hl|]. cbn [length] in Hl.
      apply asc_nat_cons in Ha. destruct Ha as [Ha1 Ha2].
      destruct (IH (S s) bs' qs') as (sl & E & Hlen & Hmap & Hnone).
      * intros i Hi. rewrite (Hg i) by lia. cbn [existsb].
        replace (i =? s)%nat with false by (symmetry; apply Nat.eqb_neq; lia). reflexivity.
      * exact Ha2.
      * intros b Hin. specialize (Ha1 b Hin). specialize (Hb b (or_intror Hin)). lia.
      * lia.
      * rewrite E. exists (Some (round2c q) :: sl). split; [reflexivity|]. split; [cbn [length]; lia|]. split.
        -- cbn [map]. rewrite Nat.sub_diag. cbn [nth_error]. f_equal. rewrite <- Hmap.
           apply map_ext_in. intros b Hin. specialize (Ha1 b Hin).
           replace (b - s) with (S (b - S s)) by lia. reflexivity.
        -- intros i Hi Hni. assert (His : i <> s) by (intro C; apply Hni; left; symmetry; exact C).
           replace (i - s) with (S (i - S s)) by lia. cbn [nth_error]. apply Hnone; [lia|].
           intro C. apply Hni. right. exact C.
    + apply existsb_eqb_false in Es.
      assert (Hb' : forall b, In b bs -> S s <= b < S s + n).
      { intros b Hin. specialize (Hb b Hin). assert (Hbs : b <> s) by (intro C; subst b; contradiction). lia. }
      destruct (IH (S s) bs qs) as (sl & E & Hlen & Hmap & Hnone).
      * intros i Hi. apply Hg. lia.
      * exact Ha.
      * exact Hb'.
      * exact Hl.
      * rewrite E. exists (None :: sl). split; [reflexivity|]. split; [cbn [length]; lia|]. split.
        -- rewrite <- Hmap. apply map_ext_in. intros b Hin. specialize (Hb' b Hin).
           replace (b - s) with (S (b - S s)) by lia. reflexivity.
        -- intros i Hi Hni. destruct (Nat.eq_dec i s) as [->|Hne].
           ++ rewrite Nat.sub_diag. reflexivity.
           ++ replace (i - s) with (S (i - S s)) by lia. cbn [nth_error]. apply Hnone; [lia|exact Hni].
Qed.

Lemma elems_bits_lt8 l bs : elems_bits l = Some bs -> forall b, In b bs -> b < 8.
Proof.
  intros H b Hb. apply (elems_bits_In l bs H) in Hb. destruct Hb as [e [_ He]].
  exact (elem_bit_lt8 e b He).
Qed.

Lemma elems_bits_length l : forall bs, elems_bits l = Some bs -> length bs = length l.
Proof.
  induction l as [|e r IH]; intros bs H; cbn [elems_bits] in H.
  - injection H as <-. reflexivity.
  - destruct (elem_bit e) as [b|]; [|discriminate]. destruct (elems_bits r) as [bs'|]; [|discriminate].
    injection H as <-. cbn [length]. rewrite (IH bs' eq_refl). reflexivity.
Qed.

(** the eight slots of a command with ascending tips [bs] (bit indices) and volumes [qs] *)
Lemma slots_eight bs qs sl :
  asc_nat bs = true -> (forall b, In b bs -> b < 8) -> length qs = length bs ->
  slots_struct eight (map tipval bs) qs = Some sl ->
  length sl = 8 /\
  map (fun b => nth_error sl b) bs = map (fun q => Some (Some (round2c q))) qs /\
  (forall i, i < 8 -> ~ In i bs -> nth_error sl i = Some None).
Proof.
  intros Ha Hb Hl Hs. rewrite eight_tipvals in Hs.
  destruct (slots_struct_spec (map tipval bs) 8 0 bs qs) as (sl' & E & Hlen & Hmap & Hnone).
  - intros i _. apply existsb_tipval.
  - exact Ha.
  - intros b Hin. specialize (Hb b Hin). lia.
  - exact Hl.
  - rewrite E in Hs. injection Hs as <-. split; [exact Hlen|]. split.
    + rewrite <- Hmap. apply map_ext. intro b. rewrite Nat.sub_0_r. reflexivity.
    + intros i Hi Hni. rewrite <- (Nat.sub_0_r i). apply Hnone; [lia|exact Hni].
Qed.

Lemma cmd_vols_length v m n qs : cmd_vols v m n = Ok qs -> length qs = n.
Proof.
  unfold cmd_vols. destruct v as [x|l|l|]; [| | |discriminate].
  - destruct (check_volume x (Some m)) as [q|e]; [|discriminate]. intro H. injection H as <-.
    apply repeat_length.
  - destruct (check_volumes l m) as [qs'|e]; [|discriminate].
    destruct (length qs' =? n)%nat eqn:E; [|discriminate]. intro H. injection H as <-.
    apply Nat.eqb_eq. exact E.
  - destruct (check_volumes (int_pvols l) m) as [qs'|e]; [|discriminate].
    destruct (length qs' =? n)%nat eqn:E; [|discriminate]. intro H. injection H as <-.
    apply Nat.eqb_eq. exact E.
Qed.

Lemma accepted_lengths n_rows n_cols a m grid site qs lc bs sl sel :
  accepted n_rows n_cols a m grid site qs lc bs sl sel ->
  length qs = length (flattenF (c_wells a)) /\ length bs = length (flattenF (c_wells a)).
Proof.
  intro A. split.
  - exact (cmd_vols_length _ _ _ _ (acc_vols _ _ _ _ _ _ _ _ _ _ _ A)).
  - rewrite (elems_bits_length _ _ (acc_tips _ _ _ _ _ _ _ _ _ _ _ A)).
    symmetry. exact (acc_len _ _ _ _ _ _ _ _ _ _ _ A).
Qed.

(** slot i holds a volume exactly when tip i (bit index i-1) is given *)
Lemma slots_filled_iff bs qs sl :
  asc_nat bs = true -> (forall b, In b bs -> b < 8) -> length qs = length bs ->
  slots_struct eight (map tipval bs) qs = Some sl ->
  forall i, i < 8 -> ((exists h, nth_error sl i = Some (Some h)) <-> In i bs).
Proof.
  intros Ha Hb Hl Hs i Hi. destruct (slots_eight bs qs sl Ha Hb Hl Hs) as (Hlen & Hmap & Hnone). split.
  - intros [h Hh]. destruct (in_dec Nat.eq_dec i bs) as [Hin|Hni]; [exact Hin|].
    rewrite (Hnone i Hi Hni) in Hh. discriminate.
  - intro Hin. apply (in_map (fun b => nth_error sl b)) in Hin. rewrite Hmap in Hin.
    apply in_map_iff in Hin. destruct Hin as [q [Hq _]]. exists (round2c q). symmetry. exact Hq.
Qed.

(** the fields of the structured command of an accepted call *)
Lemma accepted_fields kind n_rows n_cols a m grid site qs lc bs sl sel :
  accepted n_rows n_cols a m grid site qs lc bs sl sel ->
  let c := the_cmd kind n_rows n_cols a grid site lc bs sl sel in
  cm_kind c = kind /\
  c_liquid_class a = PStr (cm_lc c) /\
  cm_arm c = c_arm a /\
  c_grid a = PInt (cm_grid c) /\
  c_site a = PInt (cm_site c + 1) /\
  cm_mask c = Z.of_N (mask_or bs) /\ (0 <= cm_mask c < 256)%Z /\
  length (cm_slots c) = 8 /\
  (forall i, i < 8 -> ((exists h, nth_error (cm_slots c) i = Some (Some h)) <-> In i bs)) /\
  (forall i, i < 8 -> ((exists h, nth_error (cm_slots c) i = Some (Some h)) <->
                       Z.testbit (cm_mask c) (Z.of_nat i) = true)).
Proof.
  intro A. cbv zeta. unfold the_cmd. cbn [cm_kind cm_lc cm_arm cm_grid cm_site cm_mask cm_slots].
  destruct (accepted_lengths _ _ _ _ _ _ _ _ _ _ _ A) as [Lq Lb].
  destruct A as [A1 A2 A3 A4 A5 A6 A7 A8 A9 A10 A11 A12].
  pose proof (elems_bits_lt8 _ _ A7) as Hb8.
  assert (Em : fold_right Z.add 0%Z (map tipval bs) = Z.of_N (mask_or bs))
    by (apply sum_tipvals_or; apply asc_nat_NoDup; exact A8).
  assert (Lqb : length qs = length bs) by lia.
  destruct (slots_eight bs qs sl A8 Hb8 Lqb A10) as (Hlen & _ & _).
  pose proof (slots_filled_iff bs qs sl A8 Hb8 Lqb A10) as Hf.
  split; [reflexivity|]. split; [exact (proj1 A6)|]. split; [reflexivity|].
  split; [exact (proj1 A3)|]. split; [rewrite (proj1 A4); f_equal; lia|].
  split; [exact Em|]. split.
  { rewrite Em. pose proof (mask_valid_lt256 _ _ A7). lia. }
  split; [exact Hlen|]. split; [exact Hf|].
  intros i Hi. rewrite (Hf i Hi), Em, <- nat_N_Z, Z.testbit_of_N, testbit_mask_or.
  symmetry. apply existsb_eqb_In.
Qed.

(* ------------------------------------------------------------------ the worklist wrappers *)

Lemma comment_spec w label w' e : comment w label = (w', e) ->
  w_max w' = w_max w /\ (exists cs, w_recs w' = (w_recs w ++ map RC cs)%list) /\ (e <> None -> w' = w).
Proof.
  unfold comment. destruct label as [s|].
  - destruct (String.eqb s "").
    + intro H. injection H as <- <-. split; [reflexivity|]. split; [|reflexivity].
      exists []. cbn [map]. rewrite app_nil_r. reflexivity.
    + destruct (contains_char semi s).
      * intro H. injection H as <- <-. split; [reflexivity|]. split; [|reflexivity].
        exists []. cbn [map]. rewrite app_nil_r. reflexivity.
      * intro H. injection H as <- <-. split; [reflexivity|]. split; [|congruence].
        exists (comment_lines s). reflexivity.
  - intro H. injection H as <- <-. split; [reflexivity|]. split; [|reflexivity].
    exists []. cbn [map]. rewrite app_nil_r. reflexivity.
Qed.

Lemma nth_error_upd_other {A} (l : list A) : forall i j x, i <> j -> nth_error (upd l i x) j = nth_error l j.
Proof.
  induction l as [|y r IH]; intros i j x H; [destruct i; reflexivity|].
  destruct i as [|i]; destruct j as [|j]; cbn [upd nth_error]; try reflexivity; try congruence.
  apply IH. congruence.
Qed.

Lemma nth_error_upd_same {A} (l : list A) : forall i x y, nth_error l i = Some y -> nth_error (upd l i x) i = Some x.
Proof.
  induction l as [|z r IH]; intros i x y H; [destruct i; discriminate|].
  destruct i as [|i]; cbn [upd nth_error] in *; [reflexivity|]. exact (IH i x y H).
Qed.

(** the (wells, volumes) the tracking of an evo_aspirate / evo_dispense call works on *)
Definition track_wells (a : cmdargs) : list string := fst (wells_vols (c_wells a) (evo_vols (c_volume a))).
Definition track_vols (a : cmdargs) : list xnum := snd (wells_vols (c_wells a) (evo_vols (c_volume a))).

Lemma track_wells_eq a : track_wells a = flattenF (c_wells a).
Proof. reflexivity. Qed.

Lemma evo_aspirate_accept s k a label s' :
  evo_aspirate s k a label = (s', None) ->
  exists L L' w text,
    nth_error (st_lw s) k = Some L /\
    remove L (A1 (track_wells a)) (A1 (track_vols a)) label = (L', None) /\
    comment (st_wl s) label = (w, None) /\
    evo_command "Aspirate" (n_row_ids (lw_geom L)) (g_cols (lw_geom L)) a (w_max (st_wl s)) = Ok text /\
    st_lw s' = upd (st_lw s) k L' /\
    st_wl s' = emit w [RCmd text].
Proof.
  unfold evo_aspirate, track_wells, track_vols, wells_vols. cbv zeta. cbn [fst snd].
  destruct (nth_error (st_lw s) k) as [L|] eqn:EL; [|discriminate].
  destruct (remove L _ _ label) as [L' [e|]] eqn:ER; [discriminate|].
  cbn [set_lw st_wl].
  destruct (comment (st_wl s) label) as [w [e|]] eqn:EC; [discriminate|].
  destruct (comment_spec _ _ _ _ EC) as (Hmax & _ & _). rewrite Hmax.
  destruct (evo_command "Aspirate" _ _ a (w_max (st_wl s))) as [text|e] eqn:EV; [|discriminate].
  intro H. injection H as <-. exists L, L', w, text. cbn [set_wl set_lw st_lw st_wl].
  repeat split; try assumption; reflexivity.
Qed.

Lemma evo_dispense_accept s k a label comps s' :
  evo_dispense s k a label comps = (s', None) ->
  exists L L' w text,
    nth_error (st_lw s) k = Some L /\
    add L (A1 (track_wells a)) (A1 (track_vols a)) label comps = (L', None) /\
    comment (st_wl s) label = (w, None) /\
    evo_command "Dispense" (n_row_ids (lw_geom L)) (g_cols (lw_geom L)) a (w_max (st_wl s)) = Ok text /\
    st_lw s' = upd (st_lw s) k L' /\
    st_wl s' = emit w [RCmd text].
Proof.
  unfold evo_dispense, track_wells, track_vols, wells_vols. cbv zeta. cbn [fst snd].
  destruct (nth_error (st_lw s) k) as [L|] eqn:EL; [|discriminate].
  destruct (add L _ _ label comps) as [L' [e|]] eqn:ER; [discriminate|].
  cbn [set_lw st_wl].
  destruct (comment (st_wl s) label) as [w [e|]] eqn:EC; [discriminate|].
  destruct (comment_spec _ _ _ _ EC) as (Hmax & _ & _). rewrite Hmax.
  destruct (evo_command "Dispense" _ _ a (w_max (st_wl s))) as [text|e] eqn:EV; [|discriminate].
  intro H. injection H as <-. exists L, L', w, text. cbn [set_wl set_lw st_lw st_wl].
  repeat split; try assumption; reflexivity.
Qed.

(** a failing call appends no command: the records grow by label comments at most *)
Lemma evo_aspirate_reject s k a label s' e :
  evo_aspirate s k a label = (s', Some e) ->
  exists cs, w_recs (st_wl s') = (w_recs (st_wl s) ++ map RC cs)%list.
Proof.
  unfold evo_aspirate, wells_vols. cbv zeta.
  destruct (nth_error (st_lw s) k) as [L|] eqn:EL.
  2:{ intro H. injection H as <- _. exists []. cbn [map]. rewrite app_nil_r. reflexivity. }
  destruct (remove L _ _ label) as [L' [e0|]] eqn:ER.
  { intro H. injection H as <- _. exists []. cbn [map set_lw st_wl]. rewrite app_nil_r. reflexivity. }
  cbn [set_lw st_wl].
  destruct (comment (st_wl s) label) as [w [e0|]] eqn:EC;
    destruct (comment_spec _ _ _ _ EC) as (_ & Hcs & _).
  { intro H. injection H as <- _. exact Hcs. }
  destruct (evo_command "Aspirate" _ _ a (w_max w)) as [text|e0]; [discriminate|].
  intro H. injection H as <- _. exact Hcs.
Qed.

Lemma evo_dispense_reject s k a label comps s' e :
  evo_dispense s k a label comps = (s', Some e) ->
  exists cs, w_recs (st_wl s') = (w_recs (st_wl s) ++ map RC cs)%list.
Proof.
  unfold evo_dispense, wells_vols. cbv zeta.
  destruct (nth_error (st_lw s) k) as [L|] eqn:EL.
  2:{ intro H. injection H as <- _. exists []. cbn [map]. rewrite app_nil_r. reflexivity. }
  destruct (add L _ _ label comps) as [L' [e0|]] eqn:ER.
  { intro H. injection H as <- _. exists []. cbn [map set_lw st_wl]. rewrite app_nil_r. reflexivity. }
  cbn [set_lw st_wl].
  destruct (comment (st_wl s) label) as [w [e0|]] eqn:EC;
    destruct (comment_spec _ _ _ _ EC) as (_ & Hcs & _).
  { intro H. injection H as <- _. exact Hcs. }
  destruct (evo_command "Dispense" _ _ a (w_max w)) as [text|e0]; [discriminate|].
  intro H. injection H as <- _. exact Hcs.
Qed.

(** a command refused by [evo_command] makes the whole call fail with that error *)
Lemma evo_aspirate_cmd_reject s k a label L L' w e :
  nth_error (st_lw s) k = Some L ->
  remove L (A1 (track_wells a)) (A1 (track_vols a)) label = (L', None) ->
  comment (st_wl s) label = (w, None) ->
  evo_command "Aspirate" (n_row_ids (lw_geom L)) (g_cols (lw_geom L)) a (w_max (st_wl s)) = Err e ->
  evo_aspirate s k a label = ({| st_lw := upd (st_lw s) k L'; st_wl := w |}, Some e).
Proof.
  intros EL ER EC EV. unfold evo_aspirate. rewrite EL.
  unfold track_wells, track_vols in ER. destruct (wells_vols (c_wells a) (evo_vols (c_volume a))) as [ws vs].
  cbn [fst snd] in ER. rewrite ER. cbn [set_lw st_wl]. rewrite EC.
  destruct (comment_spec _ _ _ _ EC) as (Hmax & _ & _). rewrite Hmax, EV. reflexivity.
Qed.

(** the tracked volumes of an accepted command are its validated volumes *)
Lemma broadcast_map_XQ qs n : length qs = n -> broadcast (map XQ qs) n = map XQ qs.
Proof.
  intro H. destruct qs as [|q [|q' r]]; try reflexivity.
  cbn [length] in H. subst n. reflexivity.
Qed.

Lemma map_repeat {A B} (f : A -> B) x n : map f (repeat x n) = repeat (f x) n.
Proof. induction n as [|n IH]; [reflexivity|]. cbn [repeat map]. rewrite IH. reflexivity. Qed.

Lemma cmd_vols_track a m qs :
  cmd_vols (c_volume a) m (length (flattenF (c_wells a))) = Ok qs -> track_vols a = map XQ qs.
Proof.
  unfold track_vols, wells_vols, cmd_vols. cbv zeta. cbn [snd].
  destruct (c_volume a) as [x|l|l|]; [| | |discriminate].
  - destruct (check_volume x (Some m)) as [q|e] eqn:E; [|discriminate]. intro H. injection H as <-.
    destruct (check_volume_ok _ _ _ E) as [-> _]. cbn [evo_vols flattenF broadcast].
    rewrite map_repeat. reflexivity.
  - destruct (check_volumes l m) as [qs'|e] eqn:E; [|discriminate].
    destruct (length qs' =? length (flattenF (c_wells a)))%nat eqn:El; [|discriminate].
    intro H. injection H as <-. apply Nat.eqb_eq in El.
    destruct (check_volumes_ok _ _ _ E) as [-> _]. cbn [evo_vols flattenF]. rewrite map_map.
    cbn beta iota. apply broadcast_map_XQ. exact El.
  - destruct (check_volumes (int_pvols l) m) as [qs'|e] eqn:E; [|discriminate].
    destruct (length qs' =? length (flattenF (c_wells a)))%nat eqn:El; [|discriminate].
    intro H. injection H as <-. apply Nat.eqb_eq in El.
    destruct (check_volumes_ok _ _ _ E) as [Hq _]. cbn [evo_vols flattenF]. rewrite Hq, map_map.
    cbn beta iota. apply broadcast_map_XQ. exact El.
Qed.

(** what [remove]/[add] make of the tracked lists: they are already broadcast *)
Lemma track_pairs a :
  zip (flattenF (A1 (track_wells a))) (broadcast (flattenF (A1 (track_vols a))) (length (flattenF (A1 (track_wells a)))))
  = zip (track_wells a) (track_vols a).
Proof.
  cbn [flattenF]. unfold track_wells, track_vols, wells_vols. cbv zeta. cbn [fst snd]. f_equal.
  set (n := length (flattenF (c_wells a))). set (l := flattenF (evo_vols (c_volume a))).
  destruct l as [|x [|y r]]; try reflexivity.
  cbn [broadcast]. destruct n as [|[|n]]; reflexivity.
Qed.

(* ------------------------------------------------------------------ wells of one column *)

#[local] Close Scope string_scope.

Lemma n_row_ids_plate R C : n_row_ids {| g_rows := R; g_cols := C; g_vrows := None |} = Nat.min 26 R.
Proof. reflexivity. Qed.

(** ids the index knows are canonical: [well_id row column] with row and column in range *)
Lemma wells_indexed R C : forall ws rcs, map (make_well_index R C) ws = map Some rcs ->
  ws = map (fun rc => well_id (fst rc) (snd rc)) rcs /\
  Forall (fun rc => fst rc < Nat.min 26 R /\ snd rc < C) rcs.
Proof.
  induction ws as [|w r IH]; intros [|rc rcs] H; cbn [map] in H; try discriminate.
  - split; [reflexivity|constructor].
  - injection H as Hw Hr. destruct (IH rcs Hr) as [-> HF].
    unfold make_well_index in Hw. apply well_index_domain in Hw.
    destruct Hw as (r0 & c0 & Hr0 & Hc0 & -> & ->). rewrite n_row_ids_plate in Hr0.
    cbn [g_cols g_vrows] in *. split; [reflexivity|]. constructor; [split; assumption|exact HF].
Qed.

Lemma wells_indexed_conv R C rcs :
  Forall (fun rc => fst rc < Nat.min 26 R /\ snd rc < C) rcs ->
  map (make_well_index R C) (map (fun rc => well_id (fst rc) (snd rc)) rcs) = map Some rcs.
Proof.
  induction rcs as [|[r c] rcs IH]; intro H; [reflexivity|].
  inversion H as [|x l [Hr Hc] HF]; subst x l. cbn [map fst snd] in *. rewrite (IH HF). f_equal.
  unfold make_well_index. rewrite well_index_ok; [reflexivity| |exact Hc].
  rewrite n_row_ids_plate. exact Hr.
Qed.

Lemma selected_columns_rcs R C : forall ws rcs, map (make_well_index R C) ws = map Some rcs ->
  selected_columns R C ws = length (filter (fun c => existsb (fun rc => snd rc =? c) rcs) (seq 0 C)).
Proof.
  intros ws rcs H. unfold selected_columns. f_equal. apply filter_ext. intro c.
  revert rcs H. induction ws as [|w r IH]; intros [|rc rcs] H; cbn [map] in H; try discriminate; [reflexivity|].
  injection H as Hw Hr. cbn [existsb]. rewrite Hw, (IH rcs Hr). reflexivity.
Qed.

Lemma filter_two_length (p : nat -> bool) s n c1 c2 :
  In c1 (seq s n) -> In c2 (seq s n) -> p c1 = true -> p c2 = true -> c1 <> c2 ->
  2 <= length (filter p (seq s n)).
Proof.
  intros I1 I2 P1 P2 Hne.
  assert (ND : NoDup [c1; c2]).
  { constructor; [intros [C|[]]; congruence|]. constructor; [intros []|constructor]. }
  change 2 with (length [c1; c2]). apply NoDup_incl_length; [exact ND|].
  intros x [<-|[<-|[]]]; apply filter_In; split; assumption.
Qed.

(** wells in two different columns: at least two selected columns *)
Lemma selected_columns_two R C ws w1 w2 rc1 rc2 :
  In w1 ws -> In w2 ws -> make_well_index R C w1 = Some rc1 -> make_well_index R C w2 = Some rc2 ->
  snd rc1 <> snd rc2 -> 2 <= selected_columns R C ws.
Proof.
  intros I1 I2 H1 H2 Hne. unfold selected_columns.
  assert (B1 : snd rc1 < C).
  { unfold make_well_index in H1. apply well_index_domain in H1.
    destruct H1 as (r0 & c0 & _ & Hc0 & _ & ->). exact Hc0. }
  assert (B2 : snd rc2 < C).
  { unfold make_well_index in H2. apply well_index_domain in H2.
    destruct H2 as (r0 & c0 & _ & Hc0 & _ & ->). exact Hc0. }
  apply (filter_two_length _ 0 C (snd rc1) (snd rc2)); try (apply in_seq; lia); try exact Hne.
  - apply existsb_exists. exists w1. split; [exact I1|]. rewrite H1. apply Nat.eqb_refl.
  - apply existsb_exists. exists w2. split; [exact I2|]. rewrite H2. apply Nat.eqb_refl.
Qed.

(** at most one selected column: all wells lie in the same column *)
Lemma selected_columns_le1 R C ws rcs : map (make_well_index R C) ws = map Some rcs ->
  selected_columns R C ws <= 1 -> forall rc1 rc2, In rc1 rcs -> In rc2 rcs -> snd rc1 = snd rc2.
Proof.
  intros Hm Hle rc1 rc2 I1 I2. destruct (Nat.eq_dec (snd rc1) (snd rc2)) as [E|Hne]; [exact E|exfalso].
  assert (J : forall rc, In rc rcs -> exists w, In w ws /\ make_well_index R C w = Some rc).
  { intros rc Hin. apply (in_map Some) in Hin. rewrite <- Hm in Hin. apply in_map_iff in Hin.
    destruct Hin as [w [Hw Hin]]. exists w. split; assumption. }
  destruct (J rc1 I1) as [w1 [Iw1 H1]]. destruct (J rc2 I2) as [w2 [Iw2 H2]].
  pose proof (selected_columns_two R C ws w1 w2 rc1 rc2 Iw1 Iw2 H1 H2 Hne). lia.
Qed.

Lemma filter_eqb_seq c : forall n s, s <= c < s + n -> filter (fun x => x =? c) (seq s n) = [c].
Proof.
  induction n as [|n IH]; intros s H; [lia|]. cbn [seq filter].
  destruct (Nat.eqb_spec s c) as [->|Hne].
  - f_equal. apply filter_nil_iff. intros z Hz. apply in_seq in Hz. apply Nat.eqb_neq. lia.
  - apply IH. lia.
Qed.

(** a non-empty set of wells of one column: exactly one selected column *)
Lemma selected_columns_one R C ws rcs c : map (make_well_index R C) ws = map Some rcs ->
  rcs <> [] -> (forall rc, In rc rcs -> snd rc = c) -> selected_columns R C ws = 1.
Proof.
  intros Hm Hne Hc. rewrite (selected_columns_rcs R C ws rcs Hm).
  destruct (wells_indexed R C ws rcs Hm) as [_ HF].
  destruct rcs as [|rc0 rcs']; [congruence|].
  assert (Hc0 : c < C).
  { inversion HF as [|x l [_ Hx] _]; subst x l. rewrite <- (Hc rc0 (or_introl eq_refl)). exact Hx. }
  rewrite (filter_ext _ (fun x => x =? c)).
  - rewrite filter_eqb_seq by lia. reflexivity.
  - intro x. destruct (Nat.eqb_spec x c) as [->|Hx].
    + apply existsb_exists. exists rc0. split; [left; reflexivity|].
      rewrite (Hc rc0 (or_introl eq_refl)). apply Nat.eqb_refl.
    + destruct (existsb (fun rc => snd rc =? x) (rc0 :: rcs')) eqn:E; [|reflexivity].
      apply existsb_exists in E. destruct E as [rc [Hin E]]. apply Nat.eqb_eq in E.
      rewrite (Hc rc Hin) in E. congruence.
Qed.

(** within one column the string order of the ids is the order of the rows *)
Lemma strictly_ascending_rows c rs : Forall (fun r => r < 26) rs ->
  strictly_ascending_str (map (fun r => well_id r c) rs) = asc_nat rs.
Proof.
  induction rs as [|a [|b r] IH]; intro H; try reflexivity.
  change (strictly_ascending_str (map (fun r => well_id r c) (a :: b :: r)))
    with (negb (str_leb (well_id b c) (well_id a c)) &&
          strictly_ascending_str (map (fun r => well_id r c) (b :: r))).
  change (asc_nat (a :: b :: r)) with ((a <? b)%nat && asc_nat (b :: r)).
  inversion H as [|x l Ha H']; subst x l. inversion H' as [|x l Hb _]; subst x l.
  rewrite (IH H'), well_id_row_order by assumption. rewrite (Nat.ltb_antisym b a). reflexivity.
Qed.

Lemma same_column_rcs (rcs : list (nat * nat)) c : (forall rc, In rc rcs -> snd rc = c) ->
  rcs = map (fun r => (r, c)) (map fst rcs).
Proof.
  induction rcs as [|[r c'] rcs IH]; intro H; [reflexivity|]. cbn [map fst].
  rewrite <- IH by (intros rc Hin; apply H; right; exact Hin).
  specialize (H (r, c') (or_introl eq_refl)). cbn [snd] in H. subst c'. reflexivity.
Qed.

(** the bridge: for ids of one column, "ascending ids" is "ascending rows" *)
Lemma single_column_order R C ws rcs c : map (make_well_index R C) ws = map Some rcs ->
  (forall rc, In rc rcs -> snd rc = c) ->
  strictly_ascending_str ws = asc_nat (map fst rcs).
Proof.
  intros Hm Hc. destruct (wells_indexed R C ws rcs Hm) as [-> HF].
  rewrite (same_column_rcs rcs c Hc) at 1. rewrite !map_map. cbn [fst snd].
  rewrite <- (map_map fst (fun r => well_id r c)). apply strictly_ascending_rows.
  apply Forall_forall. intros r Hr. apply in_map_iff in Hr. destruct Hr as [rc [<- Hin]].
  rewrite Forall_forall in HF. destruct (HF rc Hin) as [Hlt _]. lia.
Qed.

Lemma single_column R C ws rcs :
  map (make_well_index R C) ws = map Some rcs ->
  (selected_columns R C ws <= 1 <-> exists c, forall rc, In rc rcs -> snd rc = c) /\
  (forall c, (forall rc, In rc rcs -> snd rc = c) ->
     (rcs <> [] -> selected_columns R C ws = 1) /\
     strictly_ascending_str ws = asc_nat (map fst rcs)).
Proof.
  intro Hm. split.
  - split.
    + intro Hle. destruct rcs as [|rc0 rcs'] eqn:E; [exists 0; intros rc []|]. rewrite <- E in *.
      exists (snd rc0). intros rc Hin. apply (selected_columns_le1 R C ws rcs Hm Hle); [exact Hin|].
      rewrite E. left. reflexivity.
    + intros [c Hc]. destruct rcs as [|rc0 rcs'] eqn:E.
      * destruct ws as [|w ws']; [|discriminate Hm]. unfold selected_columns. cbn [existsb].
        rewrite filter_nil_iff by reflexivity. cbn [length]. lia.
      * rewrite <- E in *. rewrite (selected_columns_one R C ws rcs c Hm); [lia| |exact Hc].
        rewrite E. discriminate.
  - intros c Hc. split.
    + intro Hne. exact (selected_columns_one R C ws rcs c Hm Hne Hc).
    + exact (single_column_order R C ws rcs c Hm Hc).
Qed.

(* ------------------------------------------------------------------ decoding an accepted command *)

(** an ascending list within [s, s+n) is recovered by filtering the range for membership *)
Lemma filter_member_asc : forall n s bs, asc_nat bs = true -> (forall b, In b bs -> s <= b < s + n) ->
  filter (fun i => existsb (Nat.eqb i) bs) (seq s n) = bs.
Proof.
  induction n as [|n IH]; intros s bs Ha Hb.
  - destruct bs as [|b bs']; [reflexivity|]. specialize (Hb b (or_introl eq_refl)). lia.
  - cbn [seq filter]. destruct (existsb (Nat.eqb s) bs) eqn:Es.
    + apply existsb_eqb_In in Es.
      destruct (asc_nat_head s bs Ha (fun b Hin => proj1 (Hb b Hin)) Es) as [bs' ->].
      apply asc_nat_cons in Ha. destruct Ha as [Ha1 Ha2]. f_equal.
      transitivity (filter (fun i => existsb (Nat.eqb i) bs') (seq (S s) n)); [|apply (IH (S s) bs' Ha2)].
      * apply filter_ext_in. intros i Hi. apply in_seq in Hi. cbn [existsb].
        replace (i =? s) with false by (symmetry; apply Nat.eqb_neq; lia). reflexivity.
      * intros b Hin. specialize (Ha1 b Hin). specialize (Hb b (or_intror Hin)). lia.
    + apply existsb_eqb_false in Es. apply IH; [exact Ha|].
      intros b Hin. specialize (Hb b Hin). assert (Hbs : b <> s) by (intro C; subst b; contradiction). lia.
Qed.

Lemma mask_tips_or bs : asc_nat bs = true -> (forall b, In b bs -> b < 8) ->
  mask_tips (Z.of_N (mask_or bs)) = bs.
Proof.
  intros Ha Hb. unfold mask_tips.
  transitivity (filter (fun i => existsb (Nat.eqb i) bs) (seq 0 8)).
  - apply filter_ext. intro i. rewrite <- nat_N_Z, Z.testbit_of_N. apply testbit_mask_or.
  - apply (filter_member_asc 8 0 bs Ha). intros b Hin. specialize (Hb b Hin). lia.
Qed.

Lemma flat_map_ext_in {A B} (f g : A -> list B) l :
  (forall x, In x l -> f x = g x) -> flat_map f l = flat_map g l.
Proof.
  induction l as [|a r IH]; intro H; [reflexivity|]. cbn [flat_map].
  rewrite (H a (or_introl eq_refl)), IH; [reflexivity|]. intros x Hx. apply H. right. exact Hx.
Qed.

Lemma flat_map_nil {A B} (f : A -> list B) l : (forall x, In x l -> f x = []) -> flat_map f l = [].
Proof.
  induction l as [|a r IH]; intro H; [reflexivity|]. cbn [flat_map].
  rewrite (H a (or_introl eq_refl)), IH; [reflexivity|]. intros x Hx. apply H. right. exact Hx.
Qed.

Lemma flat_map_single {B} (g : nat -> list B) c0 : forall n s, s <= c0 < s + n ->
  (forall c, c <> c0 -> g c = []) -> flat_map g (seq s n) = g c0.
Proof.
  induction n as [|n IH]; intros s H Hg; [lia|]. cbn [seq flat_map].
  destruct (Nat.eq_dec s c0) as [->|Hne].
  - rewrite flat_map_nil; [apply app_nil_r|]. intros x Hx. apply in_seq in Hx. apply Hg. lia.
  - rewrite (Hg s Hne). cbn [app]. apply IH; [lia|exact Hg].
Qed.

(** blocks of equal length: length and indexing of the concatenation *)
Lemma flat_map_blocks_length {B} (g : nat -> list B) rows : (forall c, length (g c) = rows) ->
  forall n s, length (flat_map g (seq s n)) = n * rows.
Proof.
  intros Hg. induction n as [|n IH]; intro s; [reflexivity|].
  cbn [seq flat_map]. rewrite app_length, Hg, IH. reflexivity.
Qed.

Lemma flat_map_blocks_nth {B} (g : nat -> list B) rows d : (forall c, length (g c) = rows) ->
  forall n s c r, c < n -> r < rows -> nth (c * rows + r) (flat_map g (seq s n)) d = nth r (g (s + c)) d.
Proof.
  intros Hg. induction n as [|n IH]; intros s c r Hc Hr; [lia|]. cbn [seq flat_map].
  destruct c as [|c'].
  - cbn [Nat.mul Nat.add]. rewrite app_nth1 by (rewrite Hg; exact Hr). rewrite Nat.add_0_r. reflexivity.
  - rewrite app_nth2 by (rewrite Hg; cbn [Nat.mul]; lia). rewrite Hg.
    replace (S c' * rows + r - rows) with (c' * rows + r) by (cbn [Nat.mul]; lia).
    rewrite IH by lia. f_equal. f_equal. lia.
Qed.

(** the selection bitmap of wells of one column, and what the decoder reads from it *)
Definition sel_of (rows cols : nat) (rcs : list (nat * nat)) : list bool :=
  flat_map (fun c => map (fun r => existsb (fun rc => (fst rc =? r) && (snd rc =? c)) rcs) (seq 0 rows))
           (seq 0 cols).

Lemma sel_of_length rows cols rcs : length (sel_of rows cols rcs) = cols * rows.
Proof.
  unfold sel_of. apply flat_map_blocks_length. intro c. rewrite map_length, seq_length. reflexivity.
Qed.

Lemma sel_of_nth rows cols rcs c r : c < cols -> r < rows ->
  nth (c * rows + r) (sel_of rows cols rcs) false =
  existsb (fun rc => (fst rc =? r) && (snd rc =? c)) rcs.
Proof.
  intros Hc Hr. unfold sel_of.
  rewrite (flat_map_blocks_nth _ rows false) by
    (try (intro c'; rewrite map_length, seq_length; reflexivity); assumption).
  cbn [Nat.add]. rewrite (nth_map_seq _ false rows 0 r Hr). reflexivity.
Qed.

Lemma selected_wells_sel_of rows cols rcs :
  selected_wells rows cols (sel_of rows cols rcs) =
  flat_map (fun c => flat_map (fun r => if existsb (fun rc => (fst rc =? r) && (snd rc =? c)) rcs
                                        then [(r, c)] else []) (seq 0 rows)) (seq 0 cols).
Proof.
  unfold selected_wells. apply flat_map_ext_in. intros c Hc. apply in_seq in Hc.
  apply flat_map_ext_in. intros r Hr. apply in_seq in Hr.
  rewrite sel_of_nth by lia. reflexivity.
Qed.

Lemma flat_map_filter_map {A B} (p : A -> bool) (f : A -> B) l :
  flat_map (fun x => if p x then [f x] else []) l = map f (filter p l).
Proof.
  induction l as [|a r IH]; [reflexivity|]. cbn [flat_map filter]. rewrite IH.
  destruct (p a); reflexivity.
Qed.

Lemma existsb_column c0 rs r c :
  existsb (fun rc => (fst rc =? r) && (snd rc =? c)) (map (fun r' : nat => (r', c0)) rs)
  = existsb (Nat.eqb r) rs && (c0 =? c).
Proof.
  induction rs as [|x xs IH]; [reflexivity|]. cbn [map existsb fst snd]. rewrite IH.
  rewrite (Nat.eqb_sym x r). destruct (r =? x), (c0 =? c), (existsb (Nat.eqb r) xs); reflexivity.
Qed.

(** wells of one column with ascending rows are read back exactly, in that order *)
Lemma selected_wells_column rows cols c0 rs :
  asc_nat rs = true -> (forall r, In r rs -> r < rows) -> (rs <> [] -> c0 < cols) ->
  selected_wells rows cols (sel_of rows cols (map (fun r => (r, c0)) rs)) = map (fun r => (r, c0)) rs.
Proof.
  intros Ha Hr Hc. rewrite selected_wells_sel_of.
  pose proof (existsb_column c0 rs) as E.
  destruct rs as [|r0 rs'] eqn:Ers.
  - cbn [map]. apply flat_map_nil. intros c _. apply flat_map_nil. intros r _. reflexivity.
  - rewrite <- Ers in *. assert (Hc0 : c0 < cols) by (apply Hc; rewrite Ers; discriminate).
    rewrite (flat_map_single _ c0 cols 0); [|lia|].
    + rewrite (flat_map_ext_in _ (fun r => if existsb (Nat.eqb r) rs then [(r, c0)] else [])).
      * rewrite (flat_map_filter_map (fun r => existsb (Nat.eqb r) rs) (fun r => (r, c0))).
        rewrite (filter_member_asc rows 0 rs Ha); [reflexivity|].
        intros b Hin. specialize (Hr b Hin). lia.
      * intros r _. rewrite E, Nat.eqb_refl, andb_true_r. reflexivity.
    + intros c Hne. apply flat_map_nil. intros r _. rewrite E.
      replace (c0 =? c) with false by (symmetry; apply Nat.eqb_neq; congruence).
      rewrite andb_false_r. reflexivity.
Qed.

Lemma same_column_map c0 rs : same_column (map (fun r : nat => (r, c0)) rs) = true.
Proof.
  destruct rs as [|r rs']; [reflexivity|]. cbn [map same_column snd]. apply forallb_forall.
  intros x Hx. apply in_map_iff in Hx. destruct Hx as [r' [<- _]]. apply Nat.eqb_refl.
Qed.

(** the effect (row, column, volume in ul as hundredths / 100) of wells [rcs] with volumes [qs] *)
Definition effect_of (rcs : list (nat * nat)) (qs : list Q) : list (nat * nat * Q) :=
  map (fun p => (fst (fst p), snd (fst p), round2c (snd p) # 100)) (zip rcs qs).

Lemma pair_up_slots sl : forall ws bs qs, length ws = length bs -> length qs = length bs ->
  map (fun b => nth_error sl b) bs = map (fun q => Some (Some (round2c q))) qs ->
  pair_up ws bs sl = Some (effect_of ws qs).
Proof.
  induction ws as [|rc ws IH]; intros [|b bs] [|q qs] Hw Hq Hm; cbn [length] in *; try discriminate.
  - reflexivity.
  - cbn [map] in Hm. injection Hm as Hb Hm. cbn [pair_up]. rewrite Hb.
    rewrite (IH bs qs) by (try lia; exact Hm). reflexivity.
Qed.

(** decoding the structured command of an accepted call *)
Lemma accepted_decode kind n_rows n_cols a m grid site qs lc bs sl sel :
  n_rows <= 26 -> n_cols < 256 ->
  accepted n_rows n_cols a m grid site qs lc bs sl sel ->
  exists rcs,
    map (make_well_index n_rows n_cols) (flattenF (c_wells a)) = map Some rcs /\
    length qs = length rcs /\
    track_vols a = map XQ qs /\
    decode_effect n_rows n_cols (the_cmd kind n_rows n_cols a grid site lc bs sl sel) = Some (effect_of rcs qs).
Proof.
  intros HR HC A.
  destruct (accepted_lengths _ _ _ _ _ _ _ _ _ _ _ A) as [Lq Lb].
  pose proof (cmd_vols_track _ _ _ (acc_vols _ _ _ _ _ _ _ _ _ _ _ A)) as Htrack.
  destruct A as [A1 A2 A3 A4 A5 A6 A7 A8 A9 A10 A11 A12].
  destruct (selection_array_some _ _ _ _ A11) as (rcs & Hm & Hsel).
  rewrite (Nat.min_r 26 n_rows HR) in Hsel. fold (sel_of n_rows n_cols rcs) in Hsel.
  assert (Lr : length rcs = length (flattenF (c_wells a))).
  { apply (f_equal (@length _)) in Hm. rewrite !map_length in Hm. symmetry. exact Hm. }
  exists rcs. split; [exact Hm|]. split; [lia|]. split; [exact Htrack|].
  (* one column, ascending rows *)
  destruct (proj1 (proj1 (single_column n_rows n_cols _ rcs Hm)) A12) as [c0 Hc0].
  pose proof (single_column_order n_rows n_cols _ rcs c0 Hm Hc0) as Hord. rewrite A2 in Hord. symmetry in Hord.
  destruct (wells_indexed n_rows n_cols _ rcs Hm) as [_ HF]. rewrite (Nat.min_r 26 n_rows HR) in HF.
  rewrite Forall_forall in HF.
  pose proof (same_column_rcs rcs c0 Hc0) as Ercs. set (rs := map fst rcs) in *.
  assert (Hrs : forall r, In r rs -> r < n_rows).
  { intros r Hr. apply in_map_iff in Hr. destruct Hr as [rc [<- Hin]]. exact (proj1 (HF rc Hin)). }
  assert (Hcc : rs <> [] -> c0 < n_cols).
  { intro Hne. destruct rcs as [|rc0 rcs']; [exfalso; apply Hne; reflexivity|].
    rewrite <- (Hc0 rc0 (or_introl eq_refl)). exact (proj2 (HF rc0 (or_introl eq_refl))). }
  (* the tips and slots *)
  pose proof (elems_bits_lt8 _ _ A7) as Hb8.
  assert (Em : fold_right Z.add 0%Z (map tipval bs) = Z.of_N (mask_or bs))
    by (apply sum_tipvals_or; apply asc_nat_NoDup; exact A8).
  assert (Lqb : length qs = length bs) by lia.
  destruct (slots_eight bs qs sl A8 Hb8 Lqb A10) as (_ & Hmap & _).
  (* the selection string *)
  unfold decode_effect, the_cmd. cbn [cm_sel cm_mask cm_slots].
  rewrite evo_get_selection_decode; [|lia|lia|rewrite Hsel, sel_of_length; apply Nat.mul_comm].
  rewrite !Nat.eqb_refl. cbn [andb].
  replace (length sel =? n_rows * n_cols) with true
    by (symmetry; apply Nat.eqb_eq; rewrite Hsel, sel_of_length; apply Nat.mul_comm).
  rewrite Hsel, Ercs, (selected_wells_column n_rows n_cols c0 rs Hord Hrs Hcc), same_column_map.
  rewrite Em, (mask_tips_or bs A8 Hb8).
  apply pair_up_slots; [rewrite map_length; unfold rs; rewrite map_length; lia|exact Lqb|exact Hmap].
Qed.

Lemma evo_command_agree kind n_rows n_cols a m text :
  n_rows <= 26 -> n_cols < 256 ->
  evo_command kind n_rows n_cols a m = Ok text ->
  exists c qs rcs,
    evo_command_struct kind n_rows n_cols a m = Ok c /\ text = cmd_text (c_volume a) c /\
    map (make_well_index n_rows n_cols) (flattenF (c_wells a)) = map Some rcs /\
    length qs = length rcs /\
    track_vols a = map XQ qs /\
    decode_effect n_rows n_cols c = Some (effect_of rcs qs).
Proof.
  intros HR HC H. destruct (evo_command_struct_text _ _ _ _ _ _ H) as (c & Hc & ->).
  pose proof Hc as Hc'. apply evo_command_struct_iff in Hc'.
  destruct Hc' as (grid & site & qs & lc & bs & sl & sel & A & ->).
  destruct (accepted_decode kind n_rows n_cols a m grid site qs lc bs sl sel HR HC A)
    as (rcs & Hm & Hl & Ht & Hd).
  exists (the_cmd kind n_rows n_cols a grid site lc bs sl sel), qs, rcs.
  repeat split; assumption.
Qed.

(* ------------------------------------------------------------------ command and ledger side by side *)

From Robo Require Import Invariants LabwareProofs.

(** flat index of the real well behind (row letter index, column): troughs have one real row *)
Definition real_index (g : geom) (rc : nat * nat) : nat :=
  flat_index g (match g_vrows g with Some _ => 0 | None => fst rc end, snd rc).

Lemma events_of_indexed L : forall rcs qs,
  Forall (fun rc => fst rc < n_row_ids (lw_geom L) /\ snd rc < g_cols (lw_geom L)) rcs ->
  length qs = length rcs ->
  events_of L (zip (map (fun rc => well_id (fst rc) (snd rc)) rcs) (map XQ qs))
  = Some (zip (map (real_index (lw_geom L)) rcs) qs).
Proof.
  induction rcs as [|rc rcs IH]; intros [|q qs] HF Hl; cbn [length] in Hl; try discriminate; [reflexivity|].
  inversion HF as [|x l [Hr Hc] HF']; subst x l. cbn [map zip events_of].
  unfold lw_index at 1. rewrite (well_index_ok _ _ _ Hr Hc). rewrite (IH qs HF') by lia. reflexivity.
Qed.

Lemma evo_command_ledger_bridge kind L a m text :
  g_cols (lw_geom L) < 256 ->
  evo_command kind (n_row_ids (lw_geom L)) (g_cols (lw_geom L)) a m = Ok text ->
  exists c qs rcs,
    text = cmd_text (c_volume a) c /\
    decode_effect (n_row_ids (lw_geom L)) (g_cols (lw_geom L)) c = Some (effect_of rcs qs) /\
    length qs = length rcs /\
    events_of L (zip (track_wells a) (track_vols a)) = Some (zip (map (real_index (lw_geom L)) rcs) qs).
Proof.
  intros HC H.
  destruct (evo_command_agree _ _ _ _ _ _ (n_row_ids_le (lw_geom L)) HC H)
    as (c & qs & rcs & _ & -> & Hm & Hl & Ht & Hd).
  exists c, qs, rcs. split; [reflexivity|]. split; [exact Hd|]. split; [exact Hl|].
  destruct (wells_indexed _ _ _ _ Hm) as [Hw HF]. rewrite track_wells_eq, Hw, Ht.
  apply events_of_indexed; [|exact Hl].
  apply Forall_forall. intros rc Hin. rewrite Forall_forall in HF. destruct (HF rc Hin) as [H1 H2].
  split; [lia|exact H2].
Qed.

(** accepted evo_aspirate: the emitted command, decoded, names the wells [rcs] with the volumes [qs]
    (to two decimals), and the tracked labware changed by exactly [- qs] on those wells *)
Lemma evo_aspirate_ledger s k a label s' L :
  evo_aspirate s k a label = (s', None) -> nth_error (st_lw s) k = Some L -> wf_shape L ->
  g_cols (lw_geom L) < 256 ->
  exists L' w text c rcs qs,
    nth_error (st_lw s') k = Some L' /\ st_wl s' = emit w [RCmd text] /\
    text = cmd_text (c_volume a) c /\
    decode_effect (n_row_ids (lw_geom L)) (g_cols (lw_geom L)) c = Some (effect_of rcs qs) /\
    length qs = length rcs /\
    length (lw_vols L') = length (lw_vols L) /\
    forall j, (nth j (lw_vols L') 0 ==
               nth j (lw_vols L) 0 + delta (neg_events (zip (map (real_index (lw_geom L)) rcs) qs)) j)%Q.
Proof.
  intros H HL HS HC. destruct (evo_aspirate_accept _ _ _ _ _ H) as (L0 & L' & w & text & EL & ER & EC & EV & Elw & Ewl).
  rewrite HL in EL. injection EL as <-.
  destruct (evo_command_ledger_bridge _ L a _ text HC EV) as (c & qs & rcs & -> & Hd & Hl & Hev).
  destruct (remove_ledger _ _ _ _ _ ER HS) as (evs & Hevs & Hlen & HJ).
  rewrite track_pairs, Hev in Hevs. injection Hevs as <-.
  exists L', w, (cmd_text (c_volume a) c), c, rcs, qs.
  split; [rewrite Elw; exact (nth_error_upd_same _ _ _ _ HL)|].
  split; [exact Ewl|]. split; [reflexivity|]. split; [exact Hd|]. split; [exact Hl|].
  split; [exact Hlen|exact HJ].
Qed.

Lemma evo_dispense_ledger s k a label comps s' L :
  evo_dispense s k a label comps = (s', None) -> nth_error (st_lw s) k = Some L -> wf_shape L ->
  g_cols (lw_geom L) < 256 ->
  exists L' w text c rcs qs,
    nth_error (st_lw s') k = Some L' /\ st_wl s' = emit w [RCmd text] /\
    text = cmd_text (c_volume a) c /\
    decode_effect (n_row_ids (lw_geom L)) (g_cols (lw_geom L)) c = Some (effect_of rcs qs) /\
    length qs = length rcs /\
    length (lw_vols L') = length (lw_vols L) /\
    forall j, (nth j (lw_vols L') 0 ==
               nth j (lw_vols L) 0 + delta (zip (map (real_index (lw_geom L)) rcs) qs) j)%Q.
Proof.
  intros H HL HS HC. destruct (evo_dispense_accept _ _ _ _ _ _ H) as (L0 & L' & w & text & EL & ER & EC & EV & Elw & Ewl).
  rewrite HL in EL. injection EL as <-.
  destruct (evo_command_ledger_bridge _ L a _ text HC EV) as (c & qs & rcs & -> & Hd & Hl & Hev).
  destruct (add_ledger _ _ _ _ _ _ ER HS) as (evs & Hevs & Hlen & HJ).
  rewrite track_pairs, Hev in Hevs. injection Hevs as <-.
  exists L', w, (cmd_text (c_volume a) c), c, rcs, qs.
  split; [rewrite Elw; exact (nth_error_upd_same _ _ _ _ HL)|].
  split; [exact Ewl|]. split; [reflexivity|]. split; [exact Hd|]. split; [exact Hl|].
  split; [exact Hlen|exact HJ].
Qed.

(* ------------------------------------------------------------------ packaged statements for Props/C13 *)

Lemma reject_shape kind R C a m :
  let wells := flattenF (c_wells a) in
  let r := evo_command kind R C a m in
  (length wells <> length (c_tips a) -> r = Err EReject) /\
  (strictly_ascending_str wells = false -> r = Err EReject) /\
  (~ NoDup wells -> r = Err EReject) /\
  (forall l1 x y l2, wells = l1 ++ x :: y :: l2 -> str_leb y x = true -> r = Err EReject) /\
  ((exists x, In x (c_tips a) /\ elem_bit x = None) -> exists e, r = Err e) /\
  (In TAny (c_tips a) \/ In TOther (c_tips a) -> exists e, r = Err e) /\
  (forall bs, elems_bits (c_tips a) = Some bs -> asc_nat bs = false -> exists e, r = Err e) /\
  (2 <= selected_columns R C wells -> exists e, r = Err e) /\
  (forall w1 w2 rc1 rc2, In w1 wells -> In w2 wells ->
     make_well_index R C w1 = Some rc1 -> make_well_index R C w2 = Some rc2 -> snd rc1 <> snd rc2 ->
     exists e, r = Err e) /\
  ((exists w, In w wells /\ make_well_index R C w = None) -> exists e, r = Err e).
Proof.
  cbv zeta. repeat split.
  - apply reject_length.
  - apply reject_wells_order.
  - apply reject_repeated_well.
  - intros l1 x y l2 E H. apply reject_wells_order. rewrite E. apply strictly_ascending_str_pair. exact H.
  - apply reject_tips_invalid.
  - intros [H|H]; apply reject_tips_invalid; [exists TAny|exists TOther]; (split; [exact H|reflexivity]).
  - intros bs. apply reject_tips_order.
  - apply reject_columns.
  - intros w1 w2 rc1 rc2 I1 I2 H1 H2 Hne. apply reject_columns.
    exact (selected_columns_two R C _ w1 w2 rc1 rc2 I1 I2 H1 H2 Hne).
  - apply reject_unknown_well.
Qed.

Lemma reject_ranges kind R C a m :
  let r := evo_command kind R C a m in
  (c_grid a = PNotInt \/ (exists z, c_grid a = PInt z /\ (z < 1 \/ 67 < z)%Z) -> r = Err EReject) /\
  (c_site a = PNotInt \/ (exists z, c_site a = PInt z /\ (z < 1 \/ 128 < z)%Z) -> r = Err EReject) /\
  (c_arm a <> 0%Z -> c_arm a <> 1%Z -> exists e, r = Err e) /\
  (c_liquid_class a = PNotStr \/ (exists s, c_liquid_class a = PStr s /\ contains_char semi s = true) ->
   exists e, r = Err e).
Proof.
  cbv zeta. repeat split.
  - apply reject_grid.
  - apply reject_site.
  - apply reject_arm.
  - apply reject_liquid_class.
Qed.

Definition bad_volume (x : pvol) : Prop :=
  x = PVBad \/ x = PV XNaN \/ x = PV XPInf \/ x = PV XNInf \/ (exists q, x = PV (XQ q) /\ (q < 0)%Q).

Lemma reject_volumes kind R C a m :
  let wells := flattenF (c_wells a) in
  let r := evo_command kind R C a m in
  (* one volume for all wells *)
  (forall x, c_volume a = CVScalar x -> bad_volume x -> r = Err EReject) /\
  (forall q, c_volume a = CVScalar (PV (XQ q)) -> (0 <= q)%Q -> (q <= max_tecan_volume)%Q -> (m < q)%Q ->
     r = Err EInvalidOp \/ r = Err EReject) /\
  (* one volume per well *)
  (forall l x, c_volume a = CVList l -> In x l -> bad_volume x -> exists e, r = Err e) /\
  (forall l q, c_volume a = CVList l -> In (PV (XQ q)) l -> (m < q)%Q -> exists e, r = Err e) /\
  (forall l, c_volume a = CVList l -> length l <> length wells -> exists e, r = Err e) /\
  (* one Python int per well *)
  (forall l z, c_volume a = CVIntList l -> In z l -> (z < 0)%Z -> exists e, r = Err e) /\
  (forall l z, c_volume a = CVIntList l -> In z l -> (m < inject_Z z)%Q -> exists e, r = Err e) /\
  (forall l, c_volume a = CVIntList l -> length l <> length wells -> exists e, r = Err e) /\
  (c_volume a = CVOther -> exists e, r = Err e) /\
  (* the error is the volume's own error when wells, tips order, grid and site are fine *)
  (forall e g s, length wells = length (c_tips a) -> strictly_ascending_str wells = true ->
     c_grid a = PInt g -> (1 <= g <= 67)%Z -> c_site a = PInt s -> (1 <= s <= 128)%Z ->
     cmd_vols (c_volume a) m (length wells) = Err e -> r = Err e).
Proof.
  cbv zeta. repeat split.
  - intros x Hv Hx. pose proof (cmd_vols_scalar_bad x m (length (flattenF (c_wells a))) Hx) as E.
    rewrite <- Hv in E. destruct (reject_volume kind R C a m _ E) as [X|X]; exact X.
  - intros q Hv H0 Ht Hm. pose proof (cmd_vols_scalar_over q m (length (flattenF (c_wells a))) H0 Ht Hm) as E.
    rewrite <- Hv in E. exact (reject_volume kind R C a m _ E).
  - intros l x Hv Hin Hx. apply reject_volume_any. rewrite Hv.
    apply (cmd_vols_list_bad l m _ x Hin). exists EReject. apply check_volume_bad. exact Hx.
  - intros l q Hv Hin Hm. apply reject_volume_any. rewrite Hv.
    apply (cmd_vols_list_bad l m _ _ Hin).
    destruct (check_volume (PV (XQ q)) (Some m)) as [q'|e] eqn:E; [|exists e; reflexivity].
    destruct (check_volume_ok _ _ _ E) as (Hq & _ & _ & Hle). injection Hq as <-.
    exfalso. exact (Qlt_not_le _ _ Hm Hle).
  - intros l Hv Hl. apply reject_volume_any. rewrite Hv. apply cmd_vols_list_length. exact Hl.
  - intros l z Hv Hin Hz. apply reject_volume_any. rewrite Hv, cmd_vols_int.
    apply (cmd_vols_list_bad _ m _ _ (int_pvols_In z l Hin)). exists EReject. apply check_volume_bad.
    do 4 right. exists (inject_Z z). split; [reflexivity|]. unfold Qlt, inject_Z. cbn [Qnum Qden]. lia.
  - intros l z Hv Hin Hm. apply reject_volume_any. rewrite Hv, cmd_vols_int.
    apply (cmd_vols_list_bad _ m _ _ (int_pvols_In z l Hin)).
    destruct (check_volume (PV (XQ (inject_Z z))) (Some m)) as [q'|e] eqn:E; [|exists e; reflexivity].
    destruct (check_volume_ok _ _ _ E) as (Hq & _ & _ & Hle). injection Hq as <-.
    exfalso. exact (Qlt_not_le _ _ Hm Hle).
  - intros l Hv Hl. apply reject_volume_any. rewrite Hv, cmd_vols_int. apply cmd_vols_list_length.
    unfold int_pvols. rewrite map_length. exact Hl.
  - intros Hv. apply reject_volume_any. rewrite Hv. exists EReject. reflexivity.
  - intros e g s. apply reject_volume_exact.
Qed.

Lemma reject_worklist :
  (forall s k a label s' e, evo_aspirate s k a label = (s', Some e) ->
     exists cs, w_recs (st_wl s') = w_recs (st_wl s) ++ map RC cs) /\
  (forall s k a label comps s' e, evo_dispense s k a label comps = (s', Some e) ->
     exists cs, w_recs (st_wl s') = w_recs (st_wl s) ++ map RC cs) /\
  (forall s k a label L L' w e,
     nth_error (st_lw s) k = Some L ->
     remove L (A1 (track_wells a)) (A1 (track_vols a)) label = (L', None) ->
     comment (st_wl s) label = (w, None) ->
     evo_command "Aspirate" (n_row_ids (lw_geom L)) (g_cols (lw_geom L)) a (w_max (st_wl s)) = Err e ->
     evo_aspirate s k a label = ({| st_lw := upd (st_lw s) k L'; st_wl := w |}, Some e)).
Proof.
  split; [exact evo_aspirate_reject|]. split; [exact evo_dispense_reject|exact evo_aspirate_cmd_reject].
Qed.

Lemma tracking_statement :
  (forall s k a label s', evo_aspirate s k a label = (s', None) ->
     exists L L' w text,
       nth_error (st_lw s) k = Some L /\
       remove L (A1 (track_wells a)) (A1 (track_vols a)) label = (L', None) /\
       comment (st_wl s) label = (w, None) /\
       evo_command "Aspirate" (n_row_ids (lw_geom L)) (g_cols (lw_geom L)) a (w_max (st_wl s)) = Ok text /\
       st_lw s' = upd (st_lw s) k L' /\
       st_wl s' = emit w [RCmd text]) /\
  (forall s k a label comps s', evo_dispense s k a label comps = (s', None) ->
     exists L L' w text,
       nth_error (st_lw s) k = Some L /\
       add L (A1 (track_wells a)) (A1 (track_vols a)) label comps = (L', None) /\
       comment (st_wl s) label = (w, None) /\
       evo_command "Dispense" (n_row_ids (lw_geom L)) (g_cols (lw_geom L)) a (w_max (st_wl s)) = Ok text /\
       st_lw s' = upd (st_lw s) k L' /\
       st_wl s' = emit w [RCmd text]) /\
  (forall (l : list labware) i j x, i <> j -> nth_error (upd l i x) j = nth_error l j) /\
  (forall w label w' e, comment w label = (w', e) ->
     w_max w' = w_max w /\ (exists cs, w_recs w' = w_recs w ++ map RC cs) /\ (e <> None -> w' = w)).
Proof.
  split; [exact evo_aspirate_accept|]. split; [exact evo_dispense_accept|].
  split; [exact (@nth_error_upd_other labware)|exact comment_spec].
Qed.

Lemma fields_statement kind R C a m text :
  evo_command kind R C a m = Ok text ->
  exists c bs,
    evo_command_struct kind R C a m = Ok c /\ text = cmd_text (c_volume a) c /\
    elems_bits (c_tips a) = Some bs /\ asc_nat bs = true /\
    cm_kind c = kind /\
    c_liquid_class a = PStr (cm_lc c) /\
    cm_arm c = c_arm a /\
    c_grid a = PInt (cm_grid c) /\
    c_site a = PInt (cm_site c + 1) /\
    cm_mask c = Z.of_N (mask_or bs) /\
    cm_mask c = fold_right Z.add 0%Z (map tipval bs) /\
    (0 <= cm_mask c < 256)%Z /\
    length (cm_slots c) = 8 /\
    (forall i, i < 8 -> ((exists h, nth_error (cm_slots c) i = Some (Some h)) <-> In i bs)) /\
    (forall i, i < 8 -> ((exists h, nth_error (cm_slots c) i = Some (Some h)) <->
                         Z.testbit (cm_mask c) (Z.of_nat i) = true)).
Proof.
  intro H. destruct (evo_command_struct_text _ _ _ _ _ _ H) as (c & Hc & ->).
  pose proof Hc as Hc'. apply evo_command_struct_iff in Hc'.
  destruct Hc' as (grid & site & qs & lc & bs & sl & sel & A & ->).
  destruct (accepted_fields kind R C a m grid site qs lc bs sl sel A)
    as (F1 & F2 & F3 & F4 & F5 & F6 & F7 & F8 & F9 & F10).
  exists (the_cmd kind R C a grid site lc bs sl sel), bs.
  split; [exact Hc|]. split; [reflexivity|].
  split; [exact (acc_tips _ _ _ _ _ _ _ _ _ _ _ A)|]. split; [exact (acc_tips_asc _ _ _ _ _ _ _ _ _ _ _ A)|].
  repeat (split; [assumption|]). split; [reflexivity|]. repeat (split; [assumption|]). assumption.
Qed.

Lemma wash_statement a text :
  evo_wash_cmd a = Ok text <->
  exists bs wg wsite cg csite wv wd cv cd ag ags rs fw lv,
    elems_bits (wa_tips a) = Some bs /\
    (wa_waste_grid a = PInt wg /\ (1 <= wg <= 67)%Z) /\
    (wa_waste_site a = PInt wsite /\ (1 <= wsite <= 128)%Z) /\
    (wa_cleaner_grid a = PInt cg /\ (1 <= cg <= 67)%Z) /\
    (wa_cleaner_site a = PInt csite /\ (1 <= csite <= 128)%Z) /\
    (wa_arm a = 0%Z \/ wa_arm a = 1%Z) /\
    wash_vol_text (wa_waste_vol a) wv /\
    (wa_waste_delay a = PInt wd /\ (0 <= wd <= 1000)%Z) /\
    wash_vol_text (wa_cleaner_vol a) cv /\
    (wa_cleaner_delay a = PInt cd /\ (0 <= cd <= 1000)%Z) /\
    (wa_airgap a = PInt ag /\ (0 <= ag <= 100)%Z) /\
    (wa_airgap_speed a = PInt ags /\ (1 <= ags <= 1000)%Z) /\
    (wa_retract_speed a = PInt rs /\ (1 <= rs <= 100)%Z) /\
    (wa_fastwash a = PInt fw /\ (0 <= fw <= 1)%Z) /\
    (wa_low_volume a = PInt lv /\ (0 <= lv <= 1)%Z) /\
    text = ("B;Wash(" ++ decZ (Z.of_N (mask_or bs)) ++ "," ++ decZ wg ++ "," ++ decZ (wsite - 1)
            ++ "," ++ decZ cg ++ "," ++ decZ (csite - 1) ++ ",""" ++ wv ++ """," ++ decZ wd
            ++ ",""" ++ cv ++ """," ++ decZ cd ++ "," ++ decZ ag ++ "," ++ decZ ags ++ ","
            ++ decZ rs ++ "," ++ decZ fw ++ "," ++ decZ lv ++ ",1000," ++ decZ (wa_arm a) ++ ");")%string.
Proof.
  rewrite evo_wash_cmd_iff. split.
  - intros (bs & wg & wsite & cg & csite & wv & wd & cv & cd & ag & ags & rs & fw & lv & W & ->).
    destruct W as [W0 W1 W2 W3 W4 W5 W6 W7 W8 W9 W10 W11 W12 W13 W14].
    exists bs, wg, wsite, cg, csite, wv, wd, cv, cd, ag, ags, rs, fw, lv.
    repeat (split; [assumption|]). reflexivity.
  - intros (bs & wg & wsite & cg & csite & wv & wd & cv & cd & ag & ags & rs & fw & lv &
            W0 & W1 & W2 & W3 & W4 & W5 & W6 & W7 & W8 & W9 & W10 & W11 & W12 & W13 & W14 & ->).
    exists bs, wg, wsite, cg, csite, wv, wd, cv, cd, ag, ags, rs, fw, lv.
    split; [constructor; assumption|reflexivity].
Qed.

Lemma wash_mask_statement :
  (forall l bs, elems_bits l = Some bs ->
     wash_tip_values l = Some (map tipval bs) /\
     fold_right Z.add 0%Z (dedup_Z (map tipval bs)) = Z.of_N (mask_or bs)) /\
  (forall a, (exists x, In x (wa_tips a) /\ elem_bit x = None) -> evo_wash_cmd a = Err EReject) /\
  (forall a e, evo_wash_cmd a = Err e -> e = EReject).
Proof.
  split; [|split; [exact evo_wash_cmd_bad_tip|exact evo_wash_cmd_errors]].
  intros l bs H. split; [rewrite wash_tip_values_elems_bits, H; reflexivity|apply sum_dedup_tipvals_or].
Qed.

Lemma wash_worklist_statement s a s' :
  (evo_wash s a = (s', None) <->
   exists text, evo_wash_cmd a = Ok text /\ s' = set_wl s (emit (st_wl s) [RCmd text])) /\
  (forall e, evo_wash s a = (s', Some e) <-> evo_wash_cmd a = Err e /\ s' = s).
Proof. split; [apply evo_wash_accept|intro e; apply evo_wash_reject]. Qed.

Lemma single_column_statement R C ws rcs :
  map (make_well_index R C) ws = map Some rcs ->
  (ws = map (fun rc => well_id (fst rc) (snd rc)) rcs /\
   Forall (fun rc => fst rc < Nat.min 26 R /\ snd rc < C) rcs) /\
  (selected_columns R C ws <= 1 <-> exists c, forall rc, In rc rcs -> snd rc = c) /\
  (forall c, (forall rc, In rc rcs -> snd rc = c) ->
     (rcs <> [] -> selected_columns R C ws = 1) /\
     strictly_ascending_str ws = asc_nat (map fst rcs)).
Proof.
  intro Hm. split; [exact (wells_indexed R C ws rcs Hm)|exact (single_column R C ws rcs Hm)].
Qed.

Lemma errors_statement kind R C a m e :
  evo_command kind R C a m = Err e ->
  e = EReject \/
  (e = EInvalidOp /\ exists q, (0 <= q)%Q /\ (m < q)%Q /\
     (c_volume a = CVScalar (PV (XQ q)) \/ (exists l, c_volume a = CVList l /\ In (PV (XQ q)) l) \/
      (exists l z, c_volume a = CVIntList l /\ In z l /\ q = inject_Z z))).
Proof. exact (evo_command_errors kind R C a m e). Qed.
