(** Shared specification-level definitions: well-formedness of labware and of program states,
    the volume-limit invariant (C02), and the abstract ledger of accepted additions/removals (C04). *)
From Robo Require Import Prelude Str Wells Utils Labware Records Params Worklist.
#[local] Open Scope Q_scope.

Definition wf_geom (g : geom) : Prop :=
  (1 <= g_rows g <= 26)%nat /\ (1 <= g_cols g)%nat /\
  match g_vrows g with
  | Some v => g_rows g = 1%nat /\ (1 <= v <= 26)%nat
  | None => True
  end.

(** shape consistency of a labware record *)
Definition wf_shape (L : labware) : Prop :=
  wf_geom (lw_geom L) /\
  length (lw_vols L) = n_wells (lw_geom L) /\
  Forall (fun ka => length (snd ka) = n_wells (lw_geom L)) (lw_comp L) /\
  Forall (fun h => length (snd h) = n_wells (lw_geom L)) (lw_hist L) /\
  lw_hist L <> [].

(** the volume-limit invariant of C02: no well negative or above max_volume, 0 <= min < max *)
Definition vol_inv (L : labware) : Prop :=
  0 <= lw_min L /\ lw_min L < lw_max L /\
  Forall (fun v => 0 <= v /\ v <= lw_max L) (lw_vols L).

Definition wf_labware (L : labware) : Prop := wf_shape L /\ vol_inv L.

Definition wf_state (s : state) : Prop := Forall wf_labware (st_lw s).

(** events of accepted calls, per real well (flat index): positive = added, negative = removed *)
Definition event := (nat * Q)%type.
Fixpoint delta (evs : list event) (j : nat) : Q :=
  match evs with
  | [] => 0
  | (i, v) :: r => (if Nat.eqb i j then v else 0) + delta r j
  end.
