(** Independent decoder for EVOware well-selection strings (specification side of C12).
    EVOware rule: two hex digits for the number of columns, two for the number of rows, then one
    character per seven wells in column-major order, least significant bit first, offset 48 ('0').
    Definitions only. *)
From Robo Require Import Prelude.

(** the [k] low bits of [n], least significant first *)
Fixpoint unbits (k : nat) (n : N) : list bool :=
  match k with
  | O => []
  | S k' => N.odd n :: unbits k' (N.div2 n)
  end.

(** all wells described by a list of character codes: 7 per code *)
Definition decode_all (codes : list N) : list bool :=
  concat (map (fun c => unbits 7 (c - 48)%N) codes).

(** ... truncated to the [n] wells of the labware *)
Definition decode_codes (n : nat) (codes : list N) : list bool := firstn n (decode_all codes).

(** value of one (upper-case) hex digit *)
Definition hex_val (a : ascii) : option N :=
  let n := N_of_ascii a in
  if ((48 <=? n) && (n <=? 57))%N then Some (n - 48)%N
  else if ((65 <=? n) && (n <=? 70))%N then Some (n - 55)%N
  else None.

(** exactly two hex digits *)
Definition parse_hex2 (s : string) : option N :=
  match s with
  | String a (String b EmptyString) =>
      match hex_val a, hex_val b with
      | Some x, Some y => Some (16 * x + y)%N
      | _, _ => None
      end
  | _ => None
  end.

Fixpoint codes_of_string (s : string) : list N :=
  match s with
  | EmptyString => []
  | String a r => N_of_ascii a :: codes_of_string r
  end.

(** selection string -> (rows, columns, selection in column-major order) *)
Definition decode_selection (s : string) : option (nat * nat * list bool) :=
  match s with
  | String c1 (String c2 (String r1 (String r2 rest))) =>
      match parse_hex2 (String c1 (String c2 EmptyString)),
            parse_hex2 (String r1 (String r2 EmptyString)) with
      | Some cols, Some rows =>
          let rows := N.to_nat rows in
          let cols := N.to_nat cols in
          Some (rows, cols, decode_codes (rows * cols) (codes_of_string rest))
      | _, _ => None
      end
  | _ => None
  end.
