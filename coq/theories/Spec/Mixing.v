(** Ideal mixing: an independent specification of what the composition tracking of a well has to
    report (C05).  Definitions only; the lemmas are in Proofs/MixingProofs.v.

    The ideal view of one well is its volume [V] and the absolute amount [amt k] of every component
    [k].  Removing liquid takes the same share of every component; adding [v] of a liquid with
    fractions [g] adds [v * g k] to every amount.  The reported fraction is [amt k / V]. *)
From Robo Require Import Prelude Str Wells Utils Labware Records Params Worklist Invariants.
#[local] Open Scope Q_scope.

(* ------------------------------------------------------------------ reading the model's tables *)

(** value bound to component [k] in a composition, 0 if the component is absent *)
Definition cget (k : string) (c : composition) : Q :=
  match assoc_get k c with Some x => x | None => 0 end.

Definition mem_str (k : string) (l : list string) : bool := existsb (String.eqb k) l.

(** the keys of [ks] that do not occur in [seen], in order *)
Definition fresh_keys (seen ks : list string) : list string :=
  filter (fun k => negb (mem_str k seen)) ks.

(** reported fraction of component [k] in the real well with flat index [i]; 0 for an unknown name *)
Definition frac_at (comp : list (string * list Q)) (k : string) (i : nat) : Q :=
  match assoc_get k comp with Some a => nth i a 0 | None => 0 end.
Definition frac (L : labware) (k : string) (i : nat) : Q := frac_at (lw_comp L) k i.

(** the fraction as [get_well_composition] reads it: entries that are not positive are dropped *)
Definition pfrac (L : labware) (k : string) (i : nat) : Q :=
  if Qltb 0 (frac L k i) then frac L k i else 0.

(** sum of the fractions of well [i] over all components *)
Definition col_sum (comp : list (string * list Q)) (i : nat) : Q :=
  Qsum (map (fun ka => nth i (snd ka) 0) comp).
Definition well_sum (L : labware) (i : nat) : Q := col_sum (lw_comp L) i.

(** write one fraction, creating the component as an all-zero array if it is new
    (the loop body shared by [write_composition] and [initial_composition]) *)
Definition set_frac (n : nat) (comp : list (string * list Q)) (k : string) (i : nat) (x : Q)
    : list (string * list Q) :=
  assoc_set k (upd (match assoc_get k comp with Some a => a | None => repeat 0 n end) i x) comp.

(* ------------------------------------------------------------------ the ideal well *)

Record iwell := { iw_vol : Q; iw_amt : string -> Q }.

Definition iw_frac (w : iwell) (k : string) : Q := iw_amt w k / iw_vol w.

(** removing [v]: every amount shrinks by the factor [(V - v) / V] *)
Definition iw_remove (w : iwell) (v : Q) : iwell :=
  {| iw_vol := iw_vol w - v;
     iw_amt := fun k => iw_amt w k * ((iw_vol w - v) / iw_vol w) |}.

(** adding [v] of a liquid with fractions [g] *)
Definition iw_add (w : iwell) (v : Q) (g : string -> Q) : iwell :=
  {| iw_vol := iw_vol w + v;
     iw_amt := fun k => iw_amt w k + v * g k |}.

Definition iw_eq (a b : iwell) : Prop :=
  iw_vol a == iw_vol b /\ forall k, iw_amt a k == iw_amt b k.

(** all wells of all labware: labware number -> flat well index -> ideal well *)
Definition istate := nat -> nat -> iwell.

Definition is_upd (sg : istate) (k i : nat) (w : iwell) : istate :=
  fun k' i' => if ((k' =? k) && (i' =? i))%nat then w else sg k' i'.

(** one pipetting step: take [v] out of well [(ks, i_s)], put it into well [(kd, i_d)];
    the liquid moved has the fractions of the source well *)
Definition is_transfer (sg : istate) (ks i_s kd i_d : nat) (v : Q) : istate :=
  let g := iw_frac (sg ks i_s) in
  let sg1 := is_upd sg ks i_s (iw_remove (sg ks i_s) v) in
  is_upd sg1 kd i_d (iw_add (sg1 kd i_d) v g).

(** a planned sequence of pipetting steps between labware [ks] and [kd]; well ids are resolved with
    the (never changing) geometry of the two labware; tip handling ([Commit]) moves no liquid *)
Fixpoint is_exec (sg : istate) (ks kd : nat) (Ls Ld : labware) (acts : list action) : istate :=
  match acts with
  | [] => sg
  | Commit :: r => is_exec sg ks kd Ls Ld r
  | Step sw dw v :: r =>
      match lw_index Ls sw, lw_index Ld dw with
      | Some i, Some j => is_exec (is_transfer sg ks i kd j v) ks kd Ls Ld r
      | _, _ => sg
      end
  end.

Definition step_positive (a : action) : Prop :=
  match a with Step _ _ v => 0 < v | Commit => True end.

(* ------------------------------------------------------------------ abstraction of the model *)

Definition abs_well (L : labware) (i : nat) : iwell :=
  {| iw_vol := vol_at L i; iw_amt := fun k => vol_at L i * frac L k i |}.

Definition iw_empty : iwell := {| iw_vol := 0; iw_amt := fun _ => 0 |}.

Definition abs_state (s : state) : istate :=
  fun k i => match nth_error (st_lw s) k with Some L => abs_well L i | None => iw_empty end.

(** amount of component [k] in one labware / in all labware *)
Definition lw_amount (L : labware) (k : string) : Q :=
  Qsum (map (fun i => vol_at L i * frac L k i) (seq 0 (n_wells (lw_geom L)))).
Definition total_amount (lws : list labware) (k : string) : Q :=
  Qsum (map (fun L => lw_amount L k) lws).

(* ------------------------------------------------------------------ invariants *)

(** every array has one entry per real well, names are pairwise distinct, every fraction is in
    [0, 1], and the fractions of a well sum to at most 1 *)
Definition comp_inv (L : labware) : Prop :=
  Forall (fun ka => length (snd ka) = n_wells (lw_geom L)) (lw_comp L) /\
  NoDup (map fst (lw_comp L)) /\
  Forall (fun ka => Forall (fun f => 0 <= f /\ f <= 1) (snd ka)) (lw_comp L) /\
  forall i, (i < n_wells (lw_geom L))%nat -> well_sum L i <= 1.

(** the composition of well [i] is completely known *)
Definition fully_known (L : labware) (i : nat) : Prop := well_sum L i == 1.

(** the fractions sum to 1 in every non-empty well *)
Definition known_inv (L : labware) : Prop :=
  forall i, (i < n_wells (lw_geom L))%nat -> ~ vol_at L i == 0 -> fully_known L i.

(** the part of [wf_labware] that the mixing arithmetic relies on: volumes are never negative *)
Definition vol_base (L : labware) : Prop :=
  wf_geom (lw_geom L) /\
  length (lw_vols L) = n_wells (lw_geom L) /\
  0 <= lw_min L /\
  Forall (fun v => 0 <= v) (lw_vols L).

Definition mix_inv (L : labware) : Prop := vol_base L /\ comp_inv L.

(** a composition a caller may pass to [add] / [dispense]: a dict of fractions *)
Definition comp_ok (c : composition) : Prop :=
  NoDup (map fst c) /\ Forall (fun kf => 0 <= snd kf /\ snd kf <= 1) c /\ Qsum (map snd c) <= 1.
Definition comp_full (c : composition) : Prop := Qsum (map snd c) == 1.

Definition ocomp_ok (oc : option composition) : Prop :=
  match oc with Some c => comp_ok c | None => True end.

(** an addition that keeps non-empty wells fully known: a positive volume comes with a complete
    composition (an addition without composition must be of volume zero) *)
Definition oadd_known (x : xnum) (oc : option composition) : Prop :=
  match x, oc with
  | XQ v, Some c => 0 < v -> comp_full c
  | XQ v, None => v == 0
  | _, _ => True
  end.

(** default component names *)
Definition init_name (name : string) (multi : bool) (names : list (string * option string))
    (w : string) : string :=
  match assoc_get w names with
  | Some (Some s) => s
  | _ => if multi then (name ++ "." ++ w)%string else name
  end.

(* ------------------------------------------------------------------ further statement-level definitions *)

(** one element of [add_loop] / [remove_loop] (the loop bodies of the model, named) *)
Definition add_step (L : labware) (i : nat) (v : Q) (oc : option composition) : labware :=
  let v0 := vol_at L i in
  let L1 := set_vols L (upd (lw_vols L) i (Qred (v0 + v))) in
  match oc with
  | Some c => write_composition L1 i (combine_composition v0 (well_composition_at L1 i) v c)
  | None => L1
  end.

Definition rem_step (L : labware) (i : nat) (v : Q) : labware :=
  set_vols L (upd (lw_vols L) i (Qred (vol_at L i - v))).

(** invariants of a whole program state *)
Definition st_inv (s : state) : Prop := Forall mix_inv (st_lw s).
Definition st_known (s : state) : Prop := Forall known_inv (st_lw s).

(** compositions a caller may pass to [add] / [dispense] *)
Definition comps_ok (comps : option (list (option composition))) : Prop :=
  match comps with Some cs => Forall ocomp_ok cs | None => True end.

(** compositions of an [add] that keep wells fully known: every positive volume has a complete one *)
Definition comps_known (comps : option (list (option composition))) : Prop :=
  match comps with
  | Some cs => Forall (fun oc => match oc with Some c => comp_full c | None => False end) cs
  | None => False
  end.

(** component amounts brought in by the items of an [add] *)
Fixpoint items_amt (k : string) (items : list (string * xnum * option composition)) : Q :=
  match items with
  | [] => 0
  | (_, x, oc) :: r => (match x, oc with XQ v, Some c => v * cget k c | _, _ => 0 end) + items_amt k r
  end.

(** default component name of trough column [c] *)
Definition trough_default (name : string) (multi : bool) (c : nat) : string :=
  if multi then (name ++ ".column_" ++ pad2 (c + 1))%string else name.
