(** An independent interpreter of worklist records (the "robot"): it knows the racks on the worktable
    (name, geometry, contents), finds a rack by its label, inverts the device-specific well numbering and
    executes A / D / R records; W*, F, B, C, S records do not move liquid.  Written from the record
    semantics, not from the emitters in Model/Worklist.v.  Definitions only. *)
From Robo Require Import Prelude Str Wells Labware Records.
#[local] Open Scope Q_scope.

Record rack := {
  rk_name : string;
  rk_geom : geom;
  rk_min : Q;
  rk_max : Q;
  rk_vols : list Q;                       (* real wells, row-major *)
  rk_comp : list (string * list Q)        (* component -> fraction per real well *)
}.

Definition rack_of (L : labware) : rack :=
  {| rk_name := lw_name L; rk_geom := lw_geom L; rk_min := lw_min L; rk_max := lw_max L;
     rk_vols := lw_vols L; rk_comp := lw_comp L |}.

Fixpoint find_rack (rs : list rack) (name : string) : option nat :=
  match rs with
  | [] => None
  | r :: rest => if String.eqb (rk_name r) name then Some 0%nat
                 else match find_rack rest name with Some i => Some (S i) | None => None end
  end.

(** inverse of the 1-based column-major numbering: position -> flat index of the real well *)
Definition unpos (d : device) (g : geom) (p : nat) : option nat :=
  if (p =? 0)%nat then None else
  let q := (p - 1)%nat in
  match g_vrows g with
  | None =>
      let R := g_rows g in
      let r := (q mod R)%nat in let c := (q / R)%nat in
      if (c <? g_cols g)%nat then Some (r * g_cols g + c)%nat else None
  | Some v =>
      let c := match d with Evo => (q / v)%nat | Fluent => q | BaseDev => g_cols g end in
      if (c <? g_cols g)%nat then Some c else None
  end.

(** fractions of all components in one well *)
Definition fractions_at (r : rack) (i : nat) : list (string * Q) :=
  map (fun kf => (fst kf, nth i (snd kf) 0)) (rk_comp r).

Definition fget (k : string) (c : list (string * Q)) : Q :=
  match assoc_get k c with Some x => x | None => 0 end.

Definition set_rack_vol (r : rack) (i : nat) (v : Q) : rack :=
  {| rk_name := rk_name r; rk_geom := rk_geom r; rk_min := rk_min r; rk_max := rk_max r;
     rk_vols := upd (rk_vols r) i v; rk_comp := rk_comp r |}.

(** ideal mixing of [v] of a liquid with fractions [g] into well [i] holding [V]:
    every component k gets (V * f_k + v * g_k) / (V + v); a zero total leaves the fractions alone *)
Definition mix_into (r : rack) (i : nat) (V v : Q) (g : list (string * Q)) : list (string * list Q) :=
  if Qeq_bool (V + v) 0 then rk_comp r else
  let n := length (rk_vols r) in
  let old := rk_comp r in
  let newkeys := filter (fun k => match assoc_get k old with Some _ => false | None => true end) (map fst g) in
  let all := old ++ map (fun k => (k, repeat 0 n)) newkeys in
  map (fun ka => (fst ka, upd (snd ka) i ((V * nth i (snd ka) 0 + v * fget (fst ka) g) / (V + v)))) all.

Record robot := { rb_racks : list rack; rb_tip : option (list (string * Q)) }.

Definition with_rack (rb : robot) (k : nat) (r : rack) (tip : option (list (string * Q))) : robot :=
  {| rb_racks := upd (rb_racks rb) k r; rb_tip := tip |}.

(** [checked]: refuse a step that takes a well below min_volume or above max_volume *)
Definition do_aspirate (checked : bool) (d : device) (rb : robot) (label : string) (p : nat) (v : Q) : option robot :=
  match find_rack (rb_racks rb) label with
  | None => None
  | Some k =>
      match nth_error (rb_racks rb) k with
      | None => None
      | Some r =>
          match unpos d (rk_geom r) p with
          | None => None
          | Some i =>
              let nv := nth i (rk_vols r) 0 - v in
              if checked && Qltb nv (rk_min r) then None
              else Some (with_rack rb k (set_rack_vol r i nv) (Some (fractions_at r i)))
          end
      end
  end.

Definition do_dispense (checked : bool) (d : device) (rb : robot) (label : string) (p : nat) (v : Q) : option robot :=
  match find_rack (rb_racks rb) label with
  | None => None
  | Some k =>
      match nth_error (rb_racks rb) k with
      | None => None
      | Some r =>
          match unpos d (rk_geom r) p with
          | None => None
          | Some i =>
              let V := nth i (rk_vols r) 0 in
              let nv := V + v in
              if checked && Qgtb nv (rk_max r) then None
              else
                let comp := match rb_tip rb with Some g => mix_into r i V v g | None => rk_comp r end in
                Some (with_rack rb k
                        {| rk_name := rk_name r; rk_geom := rk_geom r; rk_min := rk_min r; rk_max := rk_max r;
                           rk_vols := upd (rk_vols r) i nv; rk_comp := comp |} (rb_tip rb))
          end
      end
  end.

(** all positions of a source range must address the same real well *)
Definition range_index (d : device) (g : geom) (s0 s1 : nat) : option nat :=
  match unpos d g s0 with
  | None => None
  | Some i => if forallb (fun p => match unpos d g p with Some j => (j =? i)%nat | None => false end)
                         (seq s0 (s1 + 1 - s0)) then Some i else None
  end.

Fixpoint dispense_all (checked : bool) (d : device) (rb : robot) (label : string) (ps : list nat) (v : Q) : option robot :=
  match ps with
  | [] => Some rb
  | p :: rest => match do_dispense checked d rb label p v with
                 | Some rb' => dispense_all checked d rb' label rest v
                 | None => None
                 end
  end.

Definition do_reagent (checked : bool) (d : device) (rb : robot) (f : rfields) : option robot :=
  match find_rack (rb_racks rb) (r_src_label f) with
  | None => None
  | Some k =>
      match nth_error (rb_racks rb) k with
      | None => None
      | Some r =>
          match range_index d (rk_geom r) (Z.to_nat (r_src_start f)) (Z.to_nat (r_src_end f)) with
          | None => None
          | Some i =>
              let dsts := filter (fun p => negb (existsb (Z.eqb (Z.of_nat p)) (r_exclude f)))
                                 (seq (Z.to_nat (r_dst_start f)) (Z.to_nat (r_dst_end f) + 1 - Z.to_nat (r_dst_start f))) in
              let v := pynum_q (r_volume f) in
              let total := v * inject_Z (Z.of_nat (length dsts)) in
              let nv := nth i (rk_vols r) 0 - total in
              if checked && Qltb nv (rk_min r) then None
              else
                let rb1 := with_rack rb k (set_rack_vol r i nv) (Some (fractions_at r i)) in
                dispense_all checked d rb1 (r_dst_label f) dsts v
          end
      end
  end.

Definition interp1 (checked : bool) (d : device) (rb : robot) (rec : srec) : option robot :=
  match rec with
  | RA f => do_aspirate checked d rb (ad_rack_label f) (Z.to_nat (ad_position f)) (ad_volume f)
  | RD f => do_dispense checked d rb (ad_rack_label f) (Z.to_nat (ad_position f)) (ad_volume f)
  | RR f => do_reagent checked d rb f
  | RW _ | RWD | RF => Some {| rb_racks := rb_racks rb; rb_tip := None |}
  | RB | RC _ | RS _ => Some rb
  | RCmd _ => Some rb      (* EVOware script commands are interpreted by Spec/CmdDecode.v *)
  end.

Fixpoint interp (checked : bool) (d : device) (rb : robot) (recs : list srec) : option robot :=
  match recs with
  | [] => Some rb
  | r :: rest => match interp1 checked d rb r with
                 | Some rb' => interp checked d rb' rest
                 | None => None
                 end
  end.

Definition robot_of (lws : list labware) : robot := {| rb_racks := map rack_of lws; rb_tip := None |}.

(** every A / D record volume is at most [m] *)
Definition step_volumes_le (m : Q) (recs : list srec) : Prop :=
  Forall (fun r => match r with RA f | RD f => ad_volume f <= m | _ => True end) recs.
