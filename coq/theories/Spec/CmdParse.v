(** Independent textual parser for EVOware script commands - specification side of C13 (and the value
    of a written decimal, used by C09 for the volume field of R records).  Definitions only.

    Nothing here refers to the emitters [evo_command] / [evo_wash_cmd] or to the printer [render_cmd]:
    the parser works on the text by cutting it at the first "(", splitting at ",", at the double quote
    and at ")", and reads numbers with [parse_decN].

    Grammar (EVOware script commands as written into a worklist, documented parameter order):
      B;Aspirate(<mask>,"<liquid class>",<slot 1>,...,<slot 8>,0,0,0,0,<grid>,<site>,1,"<selection>",0,<arm>);
      B;Dispense(  the same  );
        a slot is  0  (tip unused) or  "<digits>.<one or two digits>"  or  "<digits>"  (microlitres)
      B;Wash(<mask>,<waste grid>,<waste site>,<cleaner grid>,<cleaner site>,"<waste vol>",<waste delay>,
             "<cleaner vol>",<cleaner delay>,<airgap>,<airgap speed>,<retract speed>,<fastwash>,<low volume>,
             1000,<arm>);
        a wash volume is  <digits>  or  <digits>.<one digit>  (millilitres)
    All numbers are non-negative decimals without sign. *)
From Robo Require Import Prelude Str CmdDecode.
#[local] Open Scope string_scope.

(* ------------------------------------------------------------------ the value of a written decimal *)

Definition digit_val (a : ascii) : Z := Z.of_nat (nat_of_ascii a - 48).

(** the value of the fractional digits "d1 d2 d3 ..." written after the point: 0.d1d2d3... *)
Fixpoint frac_val (s : string) : Q :=
  match s with
  | EmptyString => 0
  | String a r => (inject_Z (digit_val a) + frac_val r) / 10
  end.

(** the value of a decimal whose integer part reads [i] and whose fractional digits are [fp] *)
Definition dec_val (i : N) (fp : string) : Q := inject_Z (Z.of_N i) + frac_val fp.

(* ------------------------------------------------------------------ cutting and quoting *)

Notation dq := (""""%char) (only parsing).       (* the double quote *)

(** the text before and after the first occurrence of [c] *)
Fixpoint cut_first (c : ascii) (s : string) : option (string * string) :=
  match s with
  | EmptyString => None
  | String a r =>
      if Ascii.eqb a c then Some (EmptyString, r)
      else match cut_first c r with
           | Some (x, y) => Some (String a x, y)
           | None => None
           end
  end.

(** [p ++ rest] -> [rest] *)
Fixpoint strip_prefix (p s : string) : option string :=
  match p with
  | EmptyString => Some s
  | String a p' => match s with
                   | String b s' => if Ascii.eqb a b then strip_prefix p' s' else None
                   | EmptyString => None
                   end
  end.

(** a field of the form "x" (in double quotes, no further quote inside) *)
Definition unquote (s : string) : option string :=
  match split_on dq s with
  | [EmptyString; x; EmptyString] => Some x
  | _ => None
  end.

(** an unsigned integer field *)
Definition parse_nat_field (s : string) : option Z :=
  match parse_decN s with Some n => Some (Z.of_N n) | None => None end.

(** "ddd.d" or "ddd.dd" or "ddd": the number of hundredths *)
Definition parse_hundredths (s : string) : option N :=
  match split_on "."%char s with
  | [ip] => match parse_decN ip with Some i => Some (100 * i)%N | None => None end
  | [ip; fp] =>
      match parse_decN ip with
      | Some i =>
          match fp with
          | String a EmptyString =>
              match parse_decN (String a "0") with Some c => Some (100 * i + c)%N | None => None end
          | String a (String b EmptyString) =>
              match parse_decN fp with Some c => Some (100 * i + c)%N | None => None end
          | _ => None
          end
      | None => None
      end
  | _ => None
  end.

(** one volume slot: [0] = unused, ["v"] = v microlitres, read as hundredths *)
Definition parse_slot (s : string) : option (option Z) :=
  if String.eqb s "0" then Some None
  else match unquote s with
       | Some v => match parse_hundredths v with Some h => Some (Some (Z.of_N h)) | None => None end
       | None => None
       end.

Fixpoint parse_slots (l : list string) : option (list (option Z)) :=
  match l with
  | [] => Some []
  | s :: r => match parse_slot s, parse_slots r with
              | Some o, Some os => Some (o :: os)
              | _, _ => None
              end
  end.

(** the last field and the end of the command: "<arm>);" *)
Definition parse_last (s : string) : option Z :=
  match split_on ")"%char s with
  | [arm; e] => if String.eqb e ";" then parse_nat_field arm else None
  | _ => None
  end.

(* ------------------------------------------------------------------ Aspirate / Dispense *)

(** the fields after the eight slots: 0,0,0,0,grid,site,1,"selection",0,arm); *)
Definition parse_cmd_tail (kind : string) (mask : Z) (lc : string) (slots : list (option Z))
    (l : list string) : option cmd :=
  match l with
  | [z1; z2; z3; z4; grid; site; one; sel; z5; last] =>
      if String.eqb z1 "0" && String.eqb z2 "0" && String.eqb z3 "0" && String.eqb z4 "0"
         && String.eqb one "1" && String.eqb z5 "0" then
        match parse_nat_field grid, parse_nat_field site, unquote sel, parse_last last with
        | Some g, Some st, Some se, Some arm =>
            Some {| cm_kind := kind; cm_mask := mask; cm_lc := lc; cm_slots := slots;
                    cm_grid := g; cm_site := st; cm_sel := se; cm_arm := arm |}
        | _, _, _, _ => None
        end
      else None
  | _ => None
  end.

Definition parse_cmd (text : string) : option cmd :=
  match strip_prefix "B;" text with
  | Some rest =>
      match cut_first "("%char rest with
      | Some (kind, body) =>
          if String.eqb kind "Aspirate" || String.eqb kind "Dispense" then
            match split_on ","%char body with
            | mask :: lc :: rest' =>
                match parse_nat_field mask, unquote lc, parse_slots (firstn 8 rest') with
                | Some m, Some l, Some sl => parse_cmd_tail kind m l sl (skipn 8 rest')
                | _, _, _ => None
                end
            | _ => None
            end
          else None
      | None => None
      end
  | None => None
  end.

(* ------------------------------------------------------------------ Wash *)

(** a parsed wash command; volumes in tenths of a millilitre *)
Record wcmd := {
  wc_mask : Z;
  wc_waste_grid : Z; wc_waste_site : Z;          (* site as written: zero-based *)
  wc_cleaner_grid : Z; wc_cleaner_site : Z;
  wc_waste_vol : N; wc_waste_delay : Z;
  wc_cleaner_vol : N; wc_cleaner_delay : Z;
  wc_airgap : Z; wc_airgap_speed : Z; wc_retract_speed : Z;
  wc_fastwash : Z; wc_low_volume : Z;
  wc_arm : Z
}.

(** "ddd" or "ddd.d": the number of tenths *)
Definition parse_tenths (s : string) : option N :=
  match split_on "."%char s with
  | [ip] => match parse_decN ip with Some i => Some (10 * i)%N | None => None end
  | [ip; fp] =>
      match parse_decN ip, fp with
      | Some i, String a EmptyString =>
          match parse_decN fp with Some c => Some (10 * i + c)%N | None => None end
      | _, _ => None
      end
  | _ => None
  end.

Definition parse_qvol (s : string) : option N :=
  match unquote s with Some v => parse_tenths v | None => None end.

Definition parse_wash (text : string) : option wcmd :=
  match strip_prefix "B;Wash(" text with
  | Some body =>
      match split_on ","%char body with
      | [mask; wg; ws; cg; cs; wv; wd; cv; cd; ag; ags; rs; fw; lv; k; last] =>
          if String.eqb k "1000" then
            match parse_nat_field mask, parse_nat_field wg, parse_nat_field ws, parse_nat_field cg,
                  parse_nat_field cs with
            | Some mask', Some wg', Some ws', Some cg', Some cs' =>
                match parse_qvol wv, parse_nat_field wd, parse_qvol cv, parse_nat_field cd with
                | Some wv', Some wd', Some cv', Some cd' =>
                    match parse_nat_field ag, parse_nat_field ags, parse_nat_field rs, parse_nat_field fw,
                          parse_nat_field lv, parse_last last with
                    | Some ag', Some ags', Some rs', Some fw', Some lv', Some arm =>
                        Some {| wc_mask := mask'; wc_waste_grid := wg'; wc_waste_site := ws';
                                wc_cleaner_grid := cg'; wc_cleaner_site := cs';
                                wc_waste_vol := wv'; wc_waste_delay := wd';
                                wc_cleaner_vol := cv'; wc_cleaner_delay := cd';
                                wc_airgap := ag'; wc_airgap_speed := ags'; wc_retract_speed := rs';
                                wc_fastwash := fw'; wc_low_volume := lv'; wc_arm := arm |}
                    | _, _, _, _, _, _ => None
                    end
                | _, _, _, _ => None
                end
            | _, _, _, _, _ => None
            end
          else None
      | _ => None
      end
  | None => None
  end.
