(** Independent parser for the text of Tecan worklist (.gwl) records — specification side of C09.
    Tecan grammar: one record per line, fields separated by ";".
      A;RackLabel;RackID;RackType;Position;TubeID;Volume;LiquidClass;TipType;TipMask;ForcedRackType
      D;...                                                       (same eleven fields)
      R;SrcLabel;SrcID;SrcType;SrcStart;SrcEnd;DstLabel;DstID;DstType;DstStart;DstEnd;
        Volume;LiquidClass;DiTiReuse;MultiDisp;Direction[;ExcludedWell]*
      W; W1; W2; W3; W4; WD; F; B;                                (one empty trailing field)
      C;comment text
      S;DiTiIndex
    The parser works on the text only; it does not use [Records.render]. Definitions only. *)
From Robo Require Import Prelude Str.
#[local] Open Scope string_scope.

(** a parsed aspirate / dispense record *)
Record pad := {
  pa_rack_label : string;
  pa_rack_id : string;
  pa_rack_type : string;
  pa_position : N;
  pa_tube_id : string;
  pa_volume_c : N;              (* the volume in hundredths: "12.34" is 1234 *)
  pa_liquid_class : string;
  pa_tip : option N;            (* None: empty tip-mask field *)
  pa_forced_rack_type : string
}.

(** a parsed reagent-distribution record *)
Record prd := {
  pr_src_label : string; pr_src_id : string; pr_src_type : string; pr_src_start : N; pr_src_end : N;
  pr_dst_label : string; pr_dst_id : string; pr_dst_type : string; pr_dst_start : N; pr_dst_end : N;
  pr_volume : string;           (* the volume field as written; see [parse_decimal] *)
  pr_liquid_class : string;
  pr_diti_reuse : N;
  pr_multi_disp : N;
  pr_direction : bool;          (* "0" = left to right = false, "1" = right to left = true *)
  pr_exclude : list N
}.

Inductive prec :=
| PA (f : pad)
| PD (f : pad)
| PR (f : prd)
| PW (scheme : option N)        (* "W;" = None, "W1;".."W4;" = Some 1..4 *)
| PWD
| PF
| PB
| PC (text : string)
| PS (index : N).

(** "ddd.dd": digits, a point, exactly two digits; the value in hundredths *)
Definition parse_cents (s : string) : option N :=
  match split_on "."%char s with
  | [ip; fp] =>
      match fp with
      | String _ (String _ EmptyString) =>
          match parse_decN ip, parse_decN fp with
          | Some i, Some c => Some (100 * i + c)%N
          | _, _ => None
          end
      | _ => None
      end
  | _ => None
  end.

(** a decimal with optional fraction: integer part and the fractional digits as written *)
Definition parse_decimal (s : string) : option (N * string) :=
  match split_on "."%char s with
  | [ip] => match parse_decN ip with Some i => Some (i, "") | None => None end
  | [ip; fp] =>
      match parse_decN ip, fp with
      | Some i, String _ _ => if all_digits fp then Some (i, fp) else None
      | _, _ => None
      end
  | _ => None
  end.

(** the tip-mask field: empty or a decimal *)
Definition parse_mask (s : string) : option (option N) :=
  match s with
  | EmptyString => Some None
  | _ => match parse_decN s with Some m => Some (Some m) | None => None end
  end.

Definition parse_dir (s : string) : option bool :=
  if String.eqb s "0" then Some false else if String.eqb s "1" then Some true else None.

Fixpoint parse_decs (l : list string) : option (list N) :=
  match l with
  | [] => Some []
  | s :: r => match parse_decN s, parse_decs r with
              | Some n, Some ns => Some (n :: ns)
              | _, _ => None
              end
  end.

(** the ten fields after "A" / "D" *)
Definition parse_ad (fields : list string) : option pad :=
  match fields with
  | [label; rid; rty; pos; tid; vol; lc; tiptype; mask; frt] =>
      match parse_decN pos, parse_cents vol, parse_mask mask with
      | Some p, Some v, Some m =>
          if String.eqb tiptype "" then
            Some {| pa_rack_label := label; pa_rack_id := rid; pa_rack_type := rty; pa_position := p;
                    pa_tube_id := tid; pa_volume_c := v; pa_liquid_class := lc; pa_tip := m;
                    pa_forced_rack_type := frt |}
          else None
      | _, _, _ => None
      end
  | _ => None
  end.

(** the fields after "R": fifteen fixed ones, then the excluded wells *)
Definition parse_r (fields : list string) : option prd :=
  match fields with
  | sl :: sid :: sty :: ss :: se :: dl :: did :: dty :: ds :: de :: vol :: lc :: reuse :: multi :: dir :: excl =>
      match parse_decN ss, parse_decN se, parse_decN ds, parse_decN de with
      | Some ss', Some se', Some ds', Some de' =>
          match parse_decN reuse, parse_decN multi, parse_dir dir, parse_decs excl with
          | Some ru, Some mu, Some d, Some ex =>
              Some {| pr_src_label := sl; pr_src_id := sid; pr_src_type := sty;
                      pr_src_start := ss'; pr_src_end := se';
                      pr_dst_label := dl; pr_dst_id := did; pr_dst_type := dty;
                      pr_dst_start := ds'; pr_dst_end := de';
                      pr_volume := vol; pr_liquid_class := lc;
                      pr_diti_reuse := ru; pr_multi_disp := mu; pr_direction := d; pr_exclude := ex |}
          | _, _, _, _ => None
          end
      | _, _, _, _ => None
      end
  | _ => None
  end.

(** records that consist of the keyword and one empty trailing field *)
Definition parse_keyword (k : string) : option prec :=
  if String.eqb k "W" then Some (PW None)
  else if String.eqb k "W1" then Some (PW (Some 1%N))
  else if String.eqb k "W2" then Some (PW (Some 2%N))
  else if String.eqb k "W3" then Some (PW (Some 3%N))
  else if String.eqb k "W4" then Some (PW (Some 4%N))
  else if String.eqb k "WD" then Some PWD
  else if String.eqb k "F" then Some PF
  else if String.eqb k "B" then Some PB
  else None.

(** one line of a worklist *)
Definition parse_record (line : string) : option prec :=
  match split_on ";"%char line with
  | [] => None
  | k :: rest =>
      if String.eqb k "A" then match parse_ad rest with Some f => Some (PA f) | None => None end
      else if String.eqb k "D" then match parse_ad rest with Some f => Some (PD f) | None => None end
      else if String.eqb k "R" then match parse_r rest with Some f => Some (PR f) | None => None end
      else if String.eqb k "C" then match rest with [t] => Some (PC t) | _ => None end
      else if String.eqb k "S" then
        match rest with
        | [i] => match parse_decN i with Some n => Some (PS n) | None => None end
        | _ => None
        end
      else match rest with
           | [e] => if String.eqb e "" then parse_keyword k else None
           | _ => None
           end
  end.

(** number of ";"-separated fields of a line *)
Definition n_fields (line : string) : nat := List.length (split_on ";"%char line).
