(** Independent reading of an EVOware [B;Aspirate(...)] / [B;Dispense(...)] script command
    (specification side of C13).  Definitions only; nothing here refers to the emitter [evo_command].

    Command text, in the documented parameter order:
      B;<kind>(<tip mask>,"<liquid class>",<slot 1>,...,<slot 8>,0,0,0,0,<grid>,<site>,1,"<selection>",0,<arm>);
    slot i is ["<volume>"] if tip i (value 2^(i-1)) takes part and [0] otherwise; the site is
    zero-based; the selection string is the one of Spec/SelDecode.v.

    EVOware rule for multi-tip commands: the tips of the mask, in ascending order, serve the selected
    wells (all in one column) in ascending row order; each tip moves the volume of its own slot. *)
From Robo Require Import Prelude Str SelDecode.
#[local] Open Scope string_scope.

(** structured view of one command; volumes are numbers of hundredths (two decimals) *)
Record cmd := {
  cm_kind : string;                 (* "Aspirate" or "Dispense" *)
  cm_mask : Z;                      (* tip mask *)
  cm_lc : string;                   (* liquid class *)
  cm_slots : list (option Z);       (* the eight volume slots: [Some h] = h/100 ul, [None] = unused *)
  cm_grid : Z;
  cm_site : Z;                      (* as emitted: zero-based *)
  cm_sel : string;                  (* well selection string *)
  cm_arm : Z
}.

(* ------------------------------------------------------------------ printer *)

(** a used slot prints its volume with at least one fractional digit, in quotes *)
Fixpoint render_slots (l : list (option Z)) : string :=
  match l with
  | [] => ""
  | Some h :: r => """" ++ repr_dec (Z.to_N h) 2 ++ """," ++ render_slots r
  | None :: r => "0," ++ render_slots r
  end.

Definition render_cmd (c : cmd) : string :=
  "B;" ++ cm_kind c ++ "(" ++ decZ (cm_mask c) ++ ",""" ++ cm_lc c ++ ""","
  ++ render_slots (cm_slots c) ++ "0,0,0,0," ++ decZ (cm_grid c) ++ "," ++ decZ (cm_site c)
  ++ ",1,""" ++ cm_sel c ++ """,0," ++ decZ (cm_arm c) ++ ");".

(** the second spelling of the same command: every used slot holds a whole number of microlitres and is
    written as a plain integer ("5" instead of "5.0"; what the library writes for per-tip volumes given as a
    list of Python ints).  Meant for slots that are multiples of 100 hundredths. *)
Fixpoint render_slots_int (l : list (option Z)) : string :=
  match l with
  | [] => ""
  | Some h :: r => """" ++ decZ (h / 100) ++ """," ++ render_slots_int r
  | None :: r => "0," ++ render_slots_int r
  end.

Definition render_cmd_int (c : cmd) : string :=
  "B;" ++ cm_kind c ++ "(" ++ decZ (cm_mask c) ++ ",""" ++ cm_lc c ++ ""","
  ++ render_slots_int (cm_slots c) ++ "0,0,0,0," ++ decZ (cm_grid c) ++ "," ++ decZ (cm_site c)
  ++ ",1,""" ++ cm_sel c ++ """,0," ++ decZ (cm_arm c) ++ ");".

(* ------------------------------------------------------------------ decoder *)

(** the tips of a mask: indices 0..7 of the set bits, ascending (index i = tip i+1 = value 2^i) *)
Definition mask_tips (m : Z) : list nat :=
  filter (fun i => Z.testbit m (Z.of_nat i)) (seq 0 8).

(** the selected wells (row, column) of a decoded selection, column by column, rows ascending *)
Definition selected_wells (rows cols : nat) (sel : list bool) : list (nat * nat) :=
  flat_map (fun c => flat_map (fun r => if nth (c * rows + r) sel false then [(r, c)] else [])
                              (seq 0 rows))
           (seq 0 cols).

Definition same_column (ws : list (nat * nat)) : bool :=
  match ws with
  | [] => true
  | rc :: r => forallb (fun rc' => (snd rc' =? snd rc)%nat) r
  end.

(** k-th tip serves k-th well with the volume of the tip's slot; [None] if the counts differ or a
    tip's slot is missing or empty *)
Fixpoint pair_up (ws : list (nat * nat)) (tips : list nat) (slots : list (option Z))
    : option (list (nat * nat * Q)) :=
  match ws, tips with
  | [], [] => Some []
  | rc :: ws', t :: tips' =>
      match nth_error slots t with
      | Some (Some h) =>
          match pair_up ws' tips' slots with
          | Some l => Some ((fst rc, snd rc, h # 100) :: l)
          | None => None
          end
      | _ => None
      end
  | _, _ => None
  end.

(** the effect of a command on a labware of [rows] x [cols] wells: (row, column, volume) per well;
    [None] if the selection does not decode to this geometry, spans several columns, or does not
    pair up with the tips *)
Definition decode_effect (rows cols : nat) (c : cmd) : option (list (nat * nat * Q)) :=
  match decode_selection (cm_sel c) with
  | Some (r, cl, sel) =>
      if ((r =? rows) && (cl =? cols) && (length sel =? rows * cols))%nat then
        let ws := selected_wells rows cols sel in
        if same_column ws then pair_up ws (mask_tips (cm_mask c)) (cm_slots c) else None
      else None
  | None => None
  end.

(** consistency of mask and slots: eight slots, slot i used exactly when bit i of the mask is set,
    mask within 8 bits *)
Definition cmd_consistent (c : cmd) : bool :=
  (length (cm_slots c) =? 8)%nat && (0 <=? cm_mask c)%Z && (cm_mask c <? 256)%Z &&
  forallb (fun i => Bool.eqb (Z.testbit (cm_mask c) (Z.of_nat i))
                             (match nth_error (cm_slots c) i with Some (Some _) => true | _ => false end))
          (seq 0 8).
