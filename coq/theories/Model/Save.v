(** BaseWorklist.save / __init__(filepath) / __enter__ / __exit__ / __str__ / __repr__.

    File system: ONE file is followed, the one at the path given to [save]; its state is
    [option string] ([None] = the file does not exist, [Some txt] = its content as Latin-1 text,
    one [ascii] per byte). That a successful [save] leaves the file with exactly the encoded text
    (unlink, then open with mode "w") is the DEFINITION of the file model, not a theorem.

    Modelling assumptions (outside the model, no theorem speaks about them):
    - records and file names are [string] = lists of [ascii], i.e. every character is one of the 256
      Latin-1 characters. A record with a character outside Latin-1 makes the library raise
      UnicodeEncodeError AFTER the old file was unlinked and re-created, leaving an EMPTY file; the model
      cannot express such a record.
    - POSIX paths ('/' separates components), as on the machine where the correspondence harness runs. *)
From Robo Require Import Prelude Str Records Params.
#[local] Open Scope string_scope.

Definition crlf : string := String (ascii_of_nat 13) (String (ascii_of_nat 10) EmptyString).
Definition lf : string := String (ascii_of_nat 10) EmptyString.

(** what [open(..., "w", newline="\r\n")] does to the text written: EVERY "\n" becomes "\r\n"
    (also one inside a record); a "\r" is left alone *)
Fixpoint translate_lf (s : string) : string :=
  match s with
  | EmptyString => EmptyString
  | String a r =>
      if Ascii.eqb a (ascii_of_nat 10) then String (ascii_of_nat 13) (String a (translate_lf r))
      else String a (translate_lf r)
  end.

(** text written: [file.write("\n".join(self))] through the newline translation *)
Definition encode_file (recs : list string) : string := translate_lf (join lf recs).
(** [__repr__] = [__str__] = ["\n".join(self)] *)
Definition str_worklist (recs : list string) : string := join lf recs.

(** reading back: [content.split("\r\n")] *)
Fixpoint split_crlf_aux (s cur : string) : list string :=
  match s with
  | EmptyString => [cur]
  | String a r =>
      if Ascii.eqb a (ascii_of_nat 13) then
        match r with
        | String b r' => if Ascii.eqb b (ascii_of_nat 10) then cur :: split_crlf_aux r' EmptyString
                         else split_crlf_aux r (cur ++ String a EmptyString)
        | EmptyString => [cur ++ String a EmptyString]
        end
      else split_crlf_aux r (cur ++ String a EmptyString)
  end.
Definition decode_file (s : string) : list string := split_crlf_aux s EmptyString.

(** ASCII lower-casing. [str.lower] also changes the upper-case letters of the upper half of Latin-1
    (À -> à ...), but no character other than g G w W l L and "." is sent to one of g w l "." (checked
    over all of Unicode), so the comparison with ".gwl" below is the library's. *)
Definition lower_ascii (a : ascii) : ascii :=
  let n := nat_of_ascii a in
  if ((65 <=? n) && (n <=? 90))%nat then ascii_of_nat (n + 32) else a.
Fixpoint lower (s : string) : string :=
  match s with EmptyString => EmptyString | String a r => String (lower_ascii a) (lower r) end.

(** [PurePosixPath(p).name]: the path is split at '/', empty components and "." components are dropped
    (so "a.gwl/", "a.gwl/." and "x//a.gwl" all name "a.gwl"; ".." is kept), the name is the last remaining
    component, or "" if there is none ("", "/", "."). *)
Definition path_component (c : string) : bool := negb (String.eqb c "" || String.eqb c ".").
Definition path_parts (p : string) : list string := filter path_component (split_on "/"%char p).
Definition basename (p : string) : string := last (path_parts p) "".

(** [PurePath.suffix] (Python 3.12): [i = name.rfind('.')]; [name[i:]] if [0 < i < len(name) - 1], else "".
    I.e. the part of the name from its last dot on, unless that dot is the first character of the name (a leading
    dot starts a hidden file, not an extension) or the last one (a name ending in a dot has no suffix). *)
Fixpoint last_dot_suffix (s : string) (cur : option string) : option string :=
  match s with
  | EmptyString => cur
  | String a r => if Ascii.eqb a "."%char then last_dot_suffix r (Some s) else last_dot_suffix r cur
  end.
Definition suffix (name : string) : string :=
  match name with
  | EmptyString => EmptyString
  | String a r => match last_dot_suffix r None with
                  | Some (String _ EmptyString) => EmptyString
                  | Some x => x
                  | None => EmptyString
                  end
  end.
(** the test on one path component / on a path: [Path(filepath).suffix.lower() == ".gwl"] *)
Definition file_ok (name : string) : bool := String.eqb (lower (suffix name)) ".gwl".
Definition name_ok (filepath : string) : bool := file_ok (basename filepath).

(** [save]: file content afterwards, or refusal (AssertionError, raised before the file is touched)
    leaving the old state *)
Definition save (filepath : string) (old : option string) (recs : list string) : option string * option err :=
  if name_ok filepath then (Some (encode_file recs), None) else (old, Some EReject).

(** * The worklist as a context manager

    The Python object IS the list of its record strings plus the optional path given to [__init__].
    [wf_recs] are those strings; [ws_lines] below connects them with the record model. *)
Record wl_file := { wf_path : option string; wf_recs : list string }.

(** [__init__(filepath)]: [self._filepath = Path(filepath)] or [None]; the list starts empty *)
Definition wl_init (path : option string) : wl_file := {| wf_path := path; wf_recs := [] |}.
(** appending records (what every worklist method does, [self.append] / [self.extend]) *)
Definition wl_append (w : wl_file) (rs : list string) : wl_file :=
  {| wf_path := wf_path w; wf_recs := (wf_recs w ++ rs)%list |}.
(** [__enter__]: [self.clear()] *)
Definition wl_enter (w : wl_file) : wl_file := {| wf_path := wf_path w; wf_recs := [] |}.
(** [self.save(filepath)]: any path, the object is unchanged *)
Definition wl_save (w : wl_file) (filepath : string) (old : option string) : option string * option err :=
  save filepath old (wf_recs w).
(** [__exit__(exc_type, exc_val, exc_tb)]: [if self._filepath: self.save(self._filepath)]; returns None.
    The exception arguments are not looked at: the file is written in the same way when an exception leaves
    the block ([raised = true]), and the exception then propagates (None is falsy). A [Path] is always truthy
    (also [Path("")], which is "." and is refused by [save]), so the test is "a path was given".
    [old] / the result are the state of the file at [wf_path]; without a path nothing is touched. *)
Definition wl_exit (w : wl_file) (raised : bool) (old : option string) : option string * option err :=
  match wf_path w with
  | Some p => save p old (wf_recs w)
  | None => (old, None)
  end.

(** the same on the record-level worklist state of Params: the lines are the rendered records *)
Definition ws_lines (w : wstate) : list string := map render (w_recs w).
Definition ws_clear (w : wstate) : wstate :=
  {| w_recs := []; w_max := w_max w; w_autosplit := w_autosplit w; w_diti := w_diti w; w_dev := w_dev w |}.
Definition ws_file (path : option string) (w : wstate) : wl_file := {| wf_path := path; wf_recs := ws_lines w |}.
