(** BaseWorklist.save / __enter__ / __exit__ / __str__ (file system modelled as: the file's content
    becomes exactly the encoded text) *)
From Robo Require Import Prelude Str.
#[local] Open Scope string_scope.

Definition crlf : string := String (ascii_of_nat 13) (String (ascii_of_nat 10) EmptyString).
Definition lf : string := String (ascii_of_nat 10) EmptyString.

(** text written: records joined by "\n", every "\n" translated to CRLF by [newline="\r\n"] *)
Definition encode_file (recs : list string) : string := join crlf recs.
Definition str_worklist (recs : list string) : string := join lf recs.

(** reading back: split at CRLF *)
Fixpoint split_crlf_aux (s cur : string) : list string :=
  match s with
  | EmptyString => [cur]
  | String a r =>
      if Ascii.eqb a (ascii_of_nat 13) then
        match r with
        | String b r' => if Ascii.eqb b (ascii_of_nat 10) then cur :: split_crlf_aux r' EmptyString
                         else split_crlf_aux r (cur ++ String a EmptyString)
        | EmptyString => [cur ++ String a EmptyString]
        end
      else split_crlf_aux r (cur ++ String a EmptyString)
  end.
Definition decode_file (s : string) : list string := split_crlf_aux s EmptyString.

Definition lower_ascii (a : ascii) : ascii :=
  let n := nat_of_ascii a in
  if ((65 <=? n) && (n <=? 90))%nat then ascii_of_nat (n + 32) else a.
Fixpoint lower (s : string) : string :=
  match s with EmptyString => EmptyString | String a r => String (lower_ascii a) (lower r) end.
(** [filepath.suffix.lower() == ".gwl"]: the part of the name from its last dot on, which must not be the
    first character of the name (a leading dot starts a hidden file, not an extension) *)
Fixpoint last_dot_suffix (s : string) (cur : option string) : option string :=
  match s with
  | EmptyString => cur
  | String a r => if Ascii.eqb a "."%char then last_dot_suffix r (Some s) else last_dot_suffix r cur
  end.
Definition suffix (name : string) : string :=
  match name with
  | EmptyString => EmptyString
  | String a r => match last_dot_suffix r None with Some x => x | None => EmptyString end
  end.
Definition name_ok (filename : string) : bool := String.eqb (lower (suffix filename)) ".gwl".

(** [save]: file content afterwards, or refusal leaving the old content *)
Definition save (filename : string) (old : option string) (recs : list string) : option string * option err :=
  if name_ok filename then (Some (encode_file recs), None) else (old, Some EReject).
