(** robotools/worklists/utils.py: partition_volume, partition_by_column, optimize_partition_by *)
From Robo Require Import Prelude Str.

(** [partition_volume(volume, max_volume=M)] for [volume >= 0], [M > 0] *)
Definition partition_volume (v m : Q) : list Q :=
  if Qeq_bool v 0 then []
  else if Qltb v m then [v]
  else
    let n := Qceiling (v / m) in
    let c := inject_Z (Qceiling (v / inject_Z n)) in
    let s := if Qle_bool c m then c else m in
    repeat s (Z.to_nat (n - 1)) ++ [Qred (v - inject_Z (n - 1) * s)].

(** string order of Python ([<] on str compares code points) *)
Fixpoint str_leb (a b : string) : bool :=
  match a, b with
  | EmptyString, _ => true
  | String _ _, EmptyString => false
  | String x r, String y s =>
      let nx := nat_of_ascii x in let ny := nat_of_ascii y in
      if (nx <? ny)%nat then true else if (ny <? nx)%nat then false else str_leb r s
  end.

Definition triple := (string * string * Q)%type.

Inductive pmode := BySource | ByDestination.
Definition pkey (m : pmode) (t : triple) : string :=
  match m with BySource => fst (fst t) | ByDestination => snd (fst t) end.

(** stable insertion sort by a string key *)
Fixpoint insert_by {A} (key : A -> string) (x : A) (l : list A) : list A :=
  match l with
  | [] => [x]
  | y :: r => if str_leb (key y) (key x) then y :: insert_by key x r else x :: l
  end.
Definition sort_by {A} (key : A -> string) (l : list A) : list A :=
  fold_left (fun acc x => insert_by key x acc) l [].

(** grouping by the column suffix [id[1:]] of the partitioning side; groups in order of first
    appearance, members in input order *)
Fixpoint group_insert (k : string) (t : triple) (gs : list (string * list triple)) : list (string * list triple) :=
  match gs with
  | [] => [(k, [t])]
  | (k', ts) :: r => if String.eqb k' k then (k', ts ++ [t]) :: r else (k', ts) :: group_insert k t r
  end.
Definition group_by_column (m : pmode) (l : list triple) : list (string * list triple) :=
  fold_left (fun gs t => group_insert (str_tail (pkey m t)) t gs) l [].

(** [partition_by_column]: groups sorted by column key, triples within a group sorted by the id of
    the partitioning side (stable) *)
Definition partition_by_column (m : pmode) (l : list triple) : list (list triple) :=
  map (fun g => sort_by (pkey m) (snd g)) (sort_by fst (group_by_column m l)).

(** [optimize_partition_by] *)
Definition optimize_partition_by (src_trough dst_trough : bool) (mode : string) : res pmode :=
  if String.eqb mode "auto" then
    Ok (if src_trough && negb dst_trough then ByDestination else BySource)
  else if String.eqb mode "source" then Ok BySource
  else if String.eqb mode "destination" then Ok ByDestination
  else Err EValue.
