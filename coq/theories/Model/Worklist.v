(** BaseWorklist.aspirate / dispense / distribute and EvoWorklist / FluentWorklist.transfer
    (one model for both device copies, parameterised by the device of the worklist state). *)
From Robo Require Import Prelude Str Wells Utils Labware Tips Records Partition Params.
#[local] Open Scope string_scope.

(** pass-through keyword arguments of aspirate / dispense / transfer *)
Record kwargs := {
  k_liquid_class : ptext;
  k_tip : tiparg;
  k_rack_id : ptext;
  k_tube_id : ptext;
  k_rack_type : ptext;
  k_forced : ptext
}.
Definition kw_default : kwargs :=
  {| k_liquid_class := PStr ""; k_tip := TipOne TAny; k_rack_id := PStr ""; k_tube_id := PStr "";
     k_rack_type := PStr ""; k_forced := PStr "" |}.

Definition ad_of_kw (name : string) (pos : nat) (v : Q) (k : kwargs) : adargs :=
  {| x_rack_label := PStr name; x_position := PInt (Z.of_nat pos); x_volume := PV (XQ v);
     x_liquid_class := k_liquid_class k; x_tip := k_tip k; x_rack_id := k_rack_id k;
     x_tube_id := k_tube_id k; x_rack_type := k_rack_type k; x_forced := k_forced k |}.

Record state := { st_lw : list labware; st_wl : wstate }.
Definition set_lw (s : state) (k : nat) (L : labware) : state :=
  {| st_lw := upd (st_lw s) k L; st_wl := st_wl s |}.
Definition set_wl (s : state) (w : wstate) : state := {| st_lw := st_lw s; st_wl := w |}.

Definition xpos (x : xnum) : bool := match x with XQ v => Qltb 0 v | XPInf => true | _ => false end.
Definition xq (x : xnum) : Q := match x with XQ v => v | _ => 0%Q end.

(** the per-well record loop of aspirate / dispense: one record per positive volume *)
Fixpoint emit_wells (asp : bool) (w : wstate) (L : labware) (items : list (string * xnum)) (k : kwargs)
    : wstate * option err :=
  match items with
  | [] => (w, None)
  | (well, x) :: rest =>
      if xpos x then
        match device_position (w_dev w) (lw_geom L) well with
        | Err e => (w, Some e)
        | Ok pos =>
            match (if asp then aspirate_well else dispense_well) w (ad_of_kw (lw_name L) pos (xq x) k) with
            | (w', None) => emit_wells asp w' L rest k
            | (w', Some e) => (w', Some e)
            end
        end
      else emit_wells asp w L rest k
  end.

Definition wells_vols (wells : arr string) (vols : arr xnum) : list string * list xnum :=
  let ws := flattenF wells in (ws, broadcast (flattenF vols) (length ws)).

Definition aspirate (s : state) (k : nat) (wells : arr string) (vols : arr xnum)
    (label : option string) (kw : kwargs) : state * option err :=
  match nth_error (st_lw s) k with
  | None => (s, Some EReject)
  | Some L =>
      let '(ws, vs) := wells_vols wells vols in
      match remove L (A1 ws) (A1 vs) label with
      | (L', Some e) => (set_lw s k L', Some e)
      | (L', None) =>
          let s1 := set_lw s k L' in
          match comment (st_wl s1) label with
          | (w, Some e) => (set_wl s1 w, Some e)
          | (w, None) =>
              let '(w', e) := emit_wells true w L' (zip ws vs) kw in
              (set_wl s1 w', e)
          end
      end
  end.

Definition dispense (s : state) (k : nat) (wells : arr string) (vols : arr xnum)
    (label : option string) (comps : option (list (option composition))) (kw : kwargs)
    : state * option err :=
  match nth_error (st_lw s) k with
  | None => (s, Some EReject)
  | Some L =>
      let '(ws, vs) := wells_vols wells vols in
      match add L (A1 ws) (A1 vs) label comps with
      | (L', Some e) => (set_lw s k L', Some e)
      | (L', None) =>
          let s1 := set_lw s k L' in
          match comment (st_wl s1) label with
          | (w, Some e) => (set_wl s1 w, Some e)
          | (w, None) =>
              let '(w', e) := emit_wells false w L' (zip ws vs) kw in
              (set_wl s1 w', e)
          end
      end
  end.

(* ------------------------------------------------------------------ transfer: plan, then execute *)

Inductive action := Step (s d : string) (v : Q) | Commit.

(** volumes of one triple *)
Definition vol_list (autosplit : bool) (m v : Q) : list Q :=
  if autosplit then partition_volume v m else [v].

(** one pass [p] over the rows of a column group: the steps with a [p]-th positive volume *)
Definition pass_steps (p : nat) (rows : list (string * string * list Q)) : list action :=
  flat_map (fun t => match nth_error (snd t) p with
                     | Some v => if Qltb 0 v then [Step (fst (fst t)) (snd (fst t)) v] else []
                     | None => []
                     end) rows.

Definition group_plan (autosplit : bool) (m : Q) (g : list triple) : list action :=
  let rows := map (fun t => (fst (fst t), snd (fst t), vol_list autosplit m (snd t))) g in
  let np := fold_right (fun t acc => Nat.max (length (snd t)) acc) 0 rows in
  (flat_map (fun p =>
              let steps := pass_steps p rows in
              (steps ++ (if (1 <? np)%nat && (1 <? length steps)%nat && negb (p =? np - 1)%nat
                         then [Commit] else []))%list)
           (seq 0 np)
   ++ (if (1 <? np)%nat then [Commit] else []))%list.

Definition plan (autosplit : bool) (m : Q) (mode : pmode) (triples : list triple) : list action :=
  flat_map (group_plan autosplit m) (partition_by_column mode triples).

(** extra pipetting pairs created by splitting *)
Definition lvh_extra (autosplit : bool) (m : Q) (triples : list triple) : nat :=
  fold_right (fun t acc => (length (vol_list autosplit m (snd t)) - 1) + acc) 0 triples.

Definition n_steps (acts : list action) : nat :=
  length (filter (fun a => match a with Step _ _ _ => true | Commit => false end) acts).

(** tip action after a step *)
Definition tip_action (w : wstate) (ws : scheme) : wstate * option err :=
  match ws with
  | SFlush => flush w
  | SReuse => (w, None)
  | SNone => match w_dev w with Fluent => flush w | _ => (w, None) end   (* deprecated None *)
  | _ => wash w ws
  end.

(** one aspirate + dispense + tip action *)
Definition exec_step (s : state) (ks kd : nat) (sw dw : string) (v : Q) (ws : scheme) (kw : kwargs)
    : state * option err :=
  match aspirate s ks (A0 sw) (A0 (XQ v)) None kw with
  | (s1, Some e) => (s1, Some e)
  | (s1, None) =>
      match nth_error (st_lw s1) ks with
      | None => (s1, Some EReject)
      | Some Ls =>
          match get_well_composition Ls sw with
          | Err e => (s1, Some e)
          | Ok c =>
              match dispense s1 kd (A0 dw) (A0 (XQ v)) None (Some [Some c]) kw with
              | (s2, Some e) => (s2, Some e)
              | (s2, None) =>
                  let '(w, e) := tip_action (st_wl s2) ws in (set_wl s2 w, e)
              end
          end
      end
  end.

Fixpoint exec (s : state) (ks kd : nat) (acts : list action) (ws : scheme) (kw : kwargs)
    : state * option err :=
  match acts with
  | [] => (s, None)
  | Commit :: rest => exec (set_wl s (fst (commit (st_wl s)))) ks kd rest ws kw
  | Step sw dw v :: rest =>
      match exec_step s ks kd sw dw v ws kw with
      | (s', None) => exec s' ks kd rest ws kw
      | (s', Some e) => (s', Some e)
      end
  end.

Definition lvh_label (label : option string) (extra : nat) : option string :=
  if (extra =? 0)%nat then label
  else match label with
       | Some l => if String.eqb l "" then Some (dec extra ++ " LVH steps")
                   else Some (l ++ " (" ++ dec extra ++ " LVH steps)")
       | None => Some (dec extra ++ " LVH steps")
       end.

Definition condense_at (s : state) (k n : nat) (label : option string) : state :=
  match nth_error (st_lw s) k with
  | Some L => set_lw s k (condense_log L n label)
  | None => s
  end.

Definition transfer (s : state) (ks : nat) (swells : arr string) (kd : nat) (dwells : arr string)
    (vols : arr Q) (label : option string) (ws : scheme) (pb : string) (kw : kwargs)
    : state * option err :=
  match w_dev (st_wl s) with
  | BaseDev => (s, Some ECompat)
  | _ =>
  match nth_error (st_lw s) ks, nth_error (st_lw s) kd with
  | Some Ls, Some Ld =>
      let sw := flattenF swells in
      let dw := flattenF dwells in
      let vs := flattenF vols in
      let nmax := Nat.max (length sw) (Nat.max (length dw) (length vs)) in
      let sw := broadcast sw nmax in
      let dw := broadcast dw nmax in
      let vs := broadcast vs nmax in
      if negb ((length sw =? length dw)%nat && (length dw =? length vs)%nat) then (s, Some EReject)
      else if existsb (fun v => Qltb v 0) vs then (s, Some EReject)
      else if existsb (fun w => match lw_index Ls w with None => true | Some _ => false end) sw
              || existsb (fun w => match lw_index Ld w with None => true | Some _ => false end) dw
           then (s, Some EReject)
      else
        match optimize_partition_by (is_trough (lw_geom Ls)) (is_trough (lw_geom Ld)) pb with
        | Err e => (s, Some EReject)
        | Ok mode =>
            match comment (st_wl s) label with
            | (w, Some e) => (set_wl s w, Some e)
            | (w, None) =>
                let triples := zip (zip sw dw) vs in
                let m := w_max w in
                let acts := plan (w_autosplit w) m mode triples in
                match exec (set_wl s w) ks kd acts ws kw with
                | (s', Some e) => (s', Some e)
                | (s', None) =>
                    let lab := lvh_label label (lvh_extra (w_autosplit w) m triples) in
                    let n := n_steps acts in
                    if (ks =? kd)%nat then (condense_at s' ks (2 * n) lab, None)
                    else (condense_at (condense_at s' ks n lab) kd n lab, None)
            end
            end
        end
  | _, _ => (s, Some EReject)
  end end.

(* ------------------------------------------------------------------ distribute *)

Record distargs := {
  d_source_column : Z;            (* non-negative; out-of-range values are refused *)
  d_volume : rvol;
  d_diti_reuse : Z;
  d_multi_disp : Z;
  d_liquid_class : ptext;
  d_label : option string;
  d_direction : string;
  d_src_id : ptext; d_src_type : ptext; d_dst_id : ptext; d_dst_type : ptext
}.

Fixpoint positions_of (d : device) (g : geom) (ws : list string) : res (list nat) :=
  match ws with
  | [] => Ok []
  | w :: r => match device_position d g w, positions_of d g r with
              | Ok p, Ok ps => Ok (p :: ps)
              | Err e, _ => Err e
              | _, Err e => Err e
              end
  end.

Definition rvol_x (v : rvol) : option xnum :=
  match v with RVInt z => Some (XQ (inject_Z z)) | RVFloat x => Some x | RVBad => None end.
Definition xmul_nat (x : xnum) (n : nat) : xnum :=
  match x with
  | XQ v => XQ (Qred (v * inject_Z (Z.of_nat n)))
  | XPInf => if (n =? 0)%nat then XNaN else XPInf
  | XNInf => if (n =? 0)%nat then XNaN else XNInf
  | XNaN => XNaN
  end.

Definition distribute (s : state) (ks kd : nat) (dwells : arr string) (a : distargs)
    : state * option err :=
  match nth_error (st_lw s) ks, nth_error (st_lw s) kd with
  | Some Ls, Some Ld =>
      match g_vrows (lw_geom Ls), rvol_x (d_volume a) with
      | None, _ => (s, Some EReject)
      | _, None => (s, Some EReject)
      | Some _, Some (XNaN) => (s, Some EReject)
      | Some _, Some xv =>
          let w := st_wl s in
          if (match xv with XQ v => Qgtb v (w_max w) | XPInf => true | _ => false end)
          then (s, Some EInvalidOp)
          else
            let nrows := n_row_ids (lw_geom Ls) in
            let col := Z.to_nat (d_source_column a) in
            let src_start := 1 + nrows * col in
            let src_end := src_start + nrows - 1 in
            let dw := flattenF dwells in
            if existsb (fun x => match lw_index Ld x with None => true | Some _ => false end) dw
            then (s, Some EReject) else
            match positions_of (w_dev w) (lw_geom Ld) dw with
            | Err e => (s, Some e)
            | Ok ps =>
                match sort_Z (map Z.of_nat ps) with
                | [] => (s, Some EReject)
                | (p0 :: _) as sorted =>
                    let plast := last sorted p0 in
                    let excl := filter (fun z => negb (existsb (Z.eqb z) sorted))
                                       (map (fun i => (p0 + Z.of_nat i)%Z) (seq 0 (Z.to_nat (plast - p0 + 1)))) in
                    if negb (col <? g_cols (lw_geom Ls))%nat then (s, Some EReject) else
                    let n_dst := length ps in
                    let srcwell := well_id 0 col in
                    match remove Ls (A0 srcwell) (A0 (xmul_nat xv n_dst)) (d_label a) with
                    | (Ls', Some e) => (set_lw s ks Ls', Some e)
                    | (Ls', None) =>
                        let s1 := set_lw s ks Ls' in
                        match get_well_composition Ls' srcwell with
                        | Err e => (s1, Some e)
                        | Ok c =>
                            match nth_error (st_lw s1) kd with
                            | None => (s1, Some EReject)
                            | Some Ld1 =>
                                match add Ld1 (A1 dw) (A0 xv) (d_label a) (Some (repeat (Some c) n_dst)) with
                                | (Ld', Some e) => (set_lw s1 kd Ld', Some e)
                                | (Ld', None) =>
                                    let s2 := set_lw s1 kd Ld' in
                                    let s2 := if (ks =? kd)%nat then condense_at s2 ks 2 (d_label a) else s2 in
                                    match comment (st_wl s2) (d_label a) with
                                    | (w1, Some e) => (set_wl s2 w1, Some e)
                                    | (w1, None) =>
                                        let '(w2, e) := reagent_distribution w1
                                          {| rd_src_label := PStr (lw_name Ls);
                                             rd_src_start := PInt (Z.of_nat src_start);
                                             rd_src_end := PInt (Z.of_nat src_end);
                                             rd_dst_label := PStr (lw_name Ld);
                                             rd_dst_start := PInt p0; rd_dst_end := PInt plast;
                                             rd_volume := d_volume a;
                                             rd_diti_reuse := d_diti_reuse a;
                                             rd_multi_disp := d_multi_disp a;
                                             rd_exclude := Some excl;
                                             rd_liquid_class := d_liquid_class a;
                                             rd_direction := d_direction a;
                                             rd_src_id := d_src_id a; rd_src_type := d_src_type a;
                                             rd_dst_id := d_dst_id a; rd_dst_type := d_dst_type a |} in
                                        (set_wl s2 w2, e)
                                    end
                                end
                            end
                        end
                    end
                end
            end
      end
  | _, _ => (s, Some EReject)
  end.
