(** Tip arguments and their bit masks (robotools/evotools/types.py, tip normalisation in
    robotools/worklists/utils.py). *)
From Robo Require Import Prelude.

(** one element of a tip argument as the user writes it *)
Inductive tipelem :=
| TInt (z : Z)        (* a plain int *)
| TTip (n : nat)      (* Tip.T<n>, n in 1..8 *)
| TAny                (* Tip.Any *)
| TOther.             (* anything else (float, str, None, ...) *)

Inductive tiparg := TipOne (e : tipelem) | TipMany (l : list tipelem).

Definition bit (n : nat) : N := N.shiftl 1 (N.of_nat n).

(** [int_to_tip]: 1..8 -> bit index 0..7 *)
Definition int_to_tip (z : Z) : option nat :=
  if ((1 <=? z) && (z <=? 8))%Z then Some (Z.to_nat z - 1) else None.

(** element of an iterable tip argument -> bit index *)
Definition elem_bit (e : tipelem) : option nat :=
  match e with
  | TInt z => int_to_tip z
  | TTip n => if ((1 <=? n) && (n <=? 8))%nat then Some (n - 1) else None
  | TAny => None
  | TOther => None
  end.

Fixpoint elems_bits (l : list tipelem) : option (list nat) :=
  match l with
  | [] => Some []
  | e :: r => match elem_bit e, elems_bits r with
              | Some b, Some bs => Some (b :: bs)
              | _, _ => None
              end
  end.

(** [sum(set(tips))] *)
Fixpoint dedup (l : list nat) : list nat :=
  match l with
  | [] => []
  | x :: r => if existsb (Nat.eqb x) r then dedup r else x :: dedup r
  end.
Definition mask_sum (l : list nat) : N := fold_right (fun n m => (bit n + m)%N) 0%N (dedup l).
(** the specification: bitwise OR *)
Definition mask_or (l : list nat) : N := fold_right (fun n m => N.lor (bit n) m) 0%N l.

(** result: [Ok None] = empty field (Tip.Any), [Ok (Some m)] = mask *)
Definition tip_mask (t : tiparg) : res (option N) :=
  match t with
  | TipOne TAny => Ok None
  | TipOne (TInt z) => match int_to_tip z with Some b => Ok (Some (bit b)) | None => Err EReject end
  | TipOne (TTip n) => match elem_bit (TTip n) with Some b => Ok (Some (bit b)) | None => Err EReject end
  | TipOne TOther => Err EReject
  | TipMany l => match elems_bits l with
                 | Some bs => Ok (Some (mask_sum bs))
                 | None => Err EReject
                 end
  end.
