(** robotools/worklists/utils.py prepare_aspirate_dispense_parameters, and the simple emitters of
    BaseWorklist (comment, wash, decontaminate, flush, commit, set_diti, aspirate_well,
    dispense_well, reagent_distribution). *)
From Robo Require Import Prelude Str Wells Utils Tips Records.
#[local] Open Scope string_scope.

Inductive ptext := PStr (s : string) | PNotStr.
Inductive pvol := PV (x : xnum) | PVBad.     (* PVBad: None or something float() refuses *)

Record adargs := {
  x_rack_label : ptext;
  x_position : pyint;
  x_volume : pvol;
  x_liquid_class : ptext;
  x_tip : tiparg;
  x_rack_id : ptext;
  x_tube_id : ptext;
  x_rack_type : ptext;
  x_forced : ptext
}.

Definition semi : ascii := ";"%char.

(** text field: a str without separator, optionally of bounded length *)
Definition text_ok (limit : bool) (t : ptext) : option string :=
  match t with
  | PStr s => if contains_char semi s then None
              else if limit && (32 <? String.length s)%nat then None
              else Some s
  | PNotStr => None
  end.

Definition max_tecan_volume : Q := 7158278.

(** volume validation: ValueError for negative / NaN / too large for the format,
    InvalidOperationError above the worklist's max_volume *)
Definition check_volume (v : pvol) (max_volume : option Q) : res Q :=
  match v with
  | PV (XQ q) =>
      if Qltb q 0 then Err EReject
      else if Qgtb q max_tecan_volume then Err EReject
      else match max_volume with
           | Some m => if Qgtb q m then Err EInvalidOp else Ok q
           | None => Ok q
           end
  | _ => Err EReject
  end.

Definition check_position (p : pyint) : res Z :=
  match p with
  | PInt z => if (z <? 0)%Z then Err EReject else Ok z
  | PNotInt => Err EReject
  end.

Definition prepare_ad (a : adargs) (max_volume : option Q) : res adfields :=
  match text_ok true (x_rack_label a) with
  | None => Err EReject
  | Some label =>
  match check_position (x_position a) with
  | Err e => Err e
  | Ok pos =>
  match check_volume (x_volume a) max_volume with
  | Err e => Err e
  | Ok v =>
  match text_ok false (x_liquid_class a) with
  | None => Err EReject
  | Some lc =>
  match tip_mask (x_tip a) with
  | Err e => Err e
  | Ok mask =>
  match text_ok true (x_rack_id a), text_ok false (x_tube_id a),
        text_ok true (x_rack_type a), text_ok true (x_forced a) with
  | Some rid, Some tid, Some rty, Some frt =>
      Ok {| ad_rack_label := label; ad_rack_id := rid; ad_rack_type := rty; ad_position := pos;
            ad_tube_id := tid; ad_volume := v; ad_liquid_class := lc; ad_tip := mask;
            ad_forced_rack_type := frt |}
  | _, _, _, _ => Err EReject
  end end end end end end.

(* ------------------------------------------------------------------ worklist state *)

Record wstate := {
  w_recs : list srec;
  w_max : Q;
  w_autosplit : bool;
  w_diti : bool;
  w_dev : device
}.
Definition emit (w : wstate) (rs : list srec) : wstate :=
  {| w_recs := w_recs w ++ rs; w_max := w_max w; w_autosplit := w_autosplit w;
     w_diti := w_diti w; w_dev := w_dev w |}.

(** [comment]: one C record per non-blank line *)
Definition comment_lines (s : string) : list string :=
  filter (fun l => negb (String.eqb l "")) (map strip_sp (split_on (ascii_of_nat 10) s)).
Definition comment (w : wstate) (c : option string) : wstate * option err :=
  match c with
  | None => (w, None)
  | Some s =>
      if String.eqb s "" then (w, None)
      else if contains_char semi s then (w, Some EReject)
      else (emit w (map RC (comment_lines s)), None)
  end.

(** wash scheme argument *)
Inductive scheme := SInt (z : Z) | SFlush | SReuse | SNone | SOther.

Definition wash (w : wstate) (s : scheme) : wstate * option err :=
  if w_diti w then (emit w [RW None], None)
  else match s with
       | SInt z => if ((1 <=? z) && (z <=? 4))%Z then (emit w [RW (Some (Z.to_nat z))], None)
                   else (w, Some EReject)
       | _ => (w, Some EReject)
       end.

Definition decontaminate (w : wstate) : wstate * option err :=
  if w_diti w then (w, Some EInvalidOp) else (emit w [RWD], None).
Definition flush (w : wstate) : wstate * option err := (emit w [RF], None).
Definition commit (w : wstate) : wstate * option err := (emit w [RB], None).
Definition set_diti (w : wstate) (i : Z) : wstate * option err :=
  if (i <? 0)%Z then (w, Some EReject) else
  match last_opt (w_recs w) with
  | None => (emit w [RS i], None)
  | Some r => if is_break_like r then (emit w [RS i], None) else (w, Some EInvalidOp)
  end.

Definition aspirate_well (w : wstate) (a : adargs) : wstate * option err :=
  match prepare_ad a (Some (w_max w)) with
  | Ok f => (emit w [RA f], None)
  | Err e => (w, Some e)
  end.
Definition dispense_well (w : wstate) (a : adargs) : wstate * option err :=
  match prepare_ad a (Some (w_max w)) with
  | Ok f => (emit w [RD f], None)
  | Err e => (w, Some e)
  end.

(* ------------------------------------------------------------------ reagent_distribution *)

Inductive rvol := RVInt (z : Z) | RVFloat (x : xnum) | RVBad.

Record rdargs := {
  rd_src_label : ptext; rd_src_start : pyint; rd_src_end : pyint;
  rd_dst_label : ptext; rd_dst_start : pyint; rd_dst_end : pyint;
  rd_volume : rvol;
  rd_diti_reuse : Z;
  rd_multi_disp : Z;
  rd_exclude : option (list Z);
  rd_liquid_class : ptext;
  rd_direction : string;
  rd_src_id : ptext; rd_src_type : ptext; rd_dst_id : ptext; rd_dst_type : ptext
}.

Definition rvol_pvol (v : rvol) : pvol :=
  match v with RVInt z => PV (XQ (inject_Z z)) | RVFloat x => PV x | RVBad => PVBad end.

Definition reagent_distribution (w : wstate) (a : rdargs) : wstate * option err :=
  let dir := if String.eqb (rd_direction a) "left_to_right" then Some false
             else if String.eqb (rd_direction a) "right_to_left" then Some true else None in
  match dir with
  | None => (w, Some EReject)
  | Some d =>
  match check_position (rd_src_start a), check_position (rd_src_end a),
        check_position (rd_dst_start a), check_position (rd_dst_end a) with
  | Ok ss, Ok se, Ok ds, Ok de =>
      if ((rd_diti_reuse a <? 0) || (rd_multi_disp a <? 0))%Z then (w, Some EReject) else
      let excl := match rd_exclude a with Some l => l | None => [] end in
      if existsb (fun x => negb ((ds <=? x) && (x <=? de))%Z) excl then (w, Some EReject) else
      match text_ok true (rd_src_label a), check_volume (rvol_pvol (rd_volume a)) (Some (w_max w)),
            text_ok true (rd_src_id a), text_ok true (rd_src_type a) with
      | None, _, _, _ => (w, Some EReject)
      | Some _, Err e, _, _ => (w, Some e)
      | Some sl, Ok v, Some sid, Some sty =>
          match text_ok true (rd_dst_label a), text_ok true (rd_dst_id a), text_ok true (rd_dst_type a),
                text_ok false (rd_liquid_class a) with
          | Some dl, Some did, Some dty, Some lc =>
              let md := if Qgtb (inject_Z (rd_multi_disp a) * v) (w_max w)
                        then Qfloor (w_max w / v) else rd_multi_disp a in
              let pv := match rd_volume a with RVInt z => PyI z | _ => PyF v end in
              (emit w [RR {| r_src_label := sl; r_src_id := sid; r_src_type := sty;
                             r_src_start := ss; r_src_end := se;
                             r_dst_label := dl; r_dst_id := did; r_dst_type := dty;
                             r_dst_start := ds; r_dst_end := de;
                             r_volume := pv; r_liquid_class := lc;
                             r_diti_reuse := rd_diti_reuse a; r_multi_disp := md;
                             r_direction := d;
                             r_exclude := sort_Z excl |}],
               None)
          | _, _, _, _ => (w, Some EReject)
          end
      | _, _, _, _ => (w, Some EReject)
      end
  | _, _, _, _ => (w, Some EReject)
  end end.
