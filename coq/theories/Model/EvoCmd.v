(** robotools/evotools/commands.py: selection bitmap and EVOware script commands;
    EvoWorklist.evo_aspirate / evo_dispense / evo_wash wrappers. *)
From Robo Require Import Prelude Str Wells Utils Labware Tips Records Partition Params Worklist.
#[local] Open Scope string_scope.

(* ------------------------------------------------------------------ selection string *)

(** faithful loop of [evo_get_selection]: (bit_counter, bit_mask, output codes) over the wells in
    column-major order *)
Definition sel_step (st : nat * N * list N) (b : bool) : nat * N * list N :=
  let '(cnt, mask, out) := st in
  let mask' := if b then N.lor mask (N.shiftl 1 (N.of_nat cnt)) else mask in
  let cnt' := S cnt in
  if (6 <? cnt')%nat then (0, 0%N, (out ++ [(mask' + 48)%N])%list) else (cnt', mask', out).
Definition sel_codes (sel : list bool) : list N :=
  let '(cnt, mask, out) := fold_left sel_step sel (0, 0%N, []) in
  if (0 <? cnt)%nat then (out ++ [(mask + 48)%N])%list else out.

Definition string_of_codes (l : list N) : string :=
  fold_right (fun n s => String (ascii_of_N n) s) EmptyString l.

(** [evo_get_selection(rows, cols, selected)]; [sel] is the selection in column-major order *)
Definition evo_get_selection (rows cols : nat) (sel : list bool) : string :=
  pad_left0_2 (to_hex (N.of_nat cols)) ++ pad_left0_2 (to_hex (N.of_nat rows)) ++ string_of_codes (sel_codes sel).

(** [evo_make_selection_array(rows, columns, wells)] read column-major; [None] = KeyError *)
Definition selection_array (rows cols : nat) (wells : list string) : option (list bool) :=
  match fold_right (fun w acc => match make_well_index rows cols w, acc with
                                 | Some rc, Some l => Some (rc :: l)
                                 | _, _ => None
                                 end) (Some []) wells with
  | None => None
  | Some idxs =>
      Some (flat_map (fun c => map (fun r => existsb (fun rc => (fst rc =? r)%nat && (snd rc =? c)%nat) idxs)
                                   (seq 0 (Nat.min 26 rows))) (seq 0 cols))
  end.

(** number of columns with at least one selected well *)
Definition selected_columns (rows cols : nat) (wells : list string) : nat :=
  length (filter (fun c => existsb (fun w => match make_well_index rows cols w with
                                             | Some rc => (snd rc =? c)%nat | None => false end) wells)
                 (seq 0 cols)).

(* ------------------------------------------------------------------ Aspirate / Dispense commands *)

(** the volume argument: a scalar, a list, or anything else.  A list consisting ONLY of Python ints is
    [CVIntList]: numpy keeps such an array integer, [np.round(.., 2)] leaves it integer and the command text
    shows plain integers ("5" where a float list shows "5.0"); every check and the labware tracking see the
    same numbers as for the float list [int_pvols l].  A list with at least one float is a [CVList]. *)
Inductive cmdvol := CVScalar (x : pvol) | CVList (l : list pvol) | CVIntList (l : list Z) | CVOther.

Definition int_pvols (l : list Z) : list pvol := map (fun z => PV (XQ (inject_Z z))) l.

Record cmdargs := {
  c_wells : arr string;
  c_grid : pyint; c_site : pyint;
  c_volume : cmdvol;
  c_liquid_class : ptext;
  c_tips : list tipelem;
  c_arm : Z
}.

Definition check_range (p : pyint) (lo hi : Z) : option Z :=
  match p with PInt z => if ((lo <=? z) && (z <=? hi))%Z then Some z else None | PNotInt => None end.

Fixpoint check_volumes (l : list pvol) (m : Q) : res (list Q) :=
  match l with
  | [] => Ok []
  | v :: r => match check_volume v (Some m) with
              | Err e => Err e
              | Ok q => match check_volumes r m with Ok qs => Ok (q :: qs) | Err e => Err e end
              end
  end.

(** tips of a script command: ints 1..8 or Tip members (Tip.Any passes the type check) *)
Definition cmd_tip_value (e : tipelem) : option Z :=
  match e with
  | TInt z => match int_to_tip z with Some b => Some (Z.of_N (bit b)) | None => None end
  | TTip n => if ((1 <=? n) && (n <=? 8))%nat then Some (Z.of_N (bit (n - 1))) else None
  | TAny => None
  | TOther => None
  end.
Fixpoint strictly_ascending_Z (l : list Z) : bool :=
  match l with
  | a :: ((b :: _) as r) => (a <? b)%Z && strictly_ascending_Z r
  | _ => true
  end.
Fixpoint strictly_ascending_str (l : list string) : bool :=
  match l with
  | a :: ((b :: _) as r) => negb (Partition.str_leb b a) && strictly_ascending_str r
  | _ => true
  end.
Fixpoint cmd_tip_values (l : list tipelem) : option (list Z) :=
  match l with
  | [] => Some []
  | e :: r => match cmd_tip_value e, cmd_tip_values r with
              | Some v, Some vs => Some (v :: vs) | _, _ => None end
  end.

(** the volume slots: for each of the eight tip values in ascending order, the next unused volume if
    that tip is among the given ones *)
Fixpoint tip_slots (tipvs : list Z) (given : list Z) (vols : list Q) : string :=
  match tipvs with
  | [] => ""
  | t :: rest =>
      if existsb (Z.eqb t) given then
        match vols with
        | v :: vr => """" ++ pyrepr_round2 v ++ """," ++ tip_slots rest given vr
        | [] => "<IndexError>"
        end
      else "0," ++ tip_slots rest given vols
  end.
(** the same for an all-int volume list: the ints are printed as they are *)
Fixpoint tip_slots_int (tipvs : list Z) (given : list Z) (vols : list Z) : string :=
  match tipvs with
  | [] => ""
  | t :: rest =>
      if existsb (Z.eqb t) given then
        match vols with
        | v :: vr => """" ++ decZ v ++ """," ++ tip_slots_int rest given vr
        | [] => "<IndexError>"
        end
      else "0," ++ tip_slots_int rest given vols
  end.
Definition eight : list Z := [1; 2; 4; 8; 16; 32; 64; 128]%Z.
Fixpoint slots_ok (tipvs : list Z) (given : list Z) (nvols : nat) : bool :=
  match tipvs with
  | [] => true
  | t :: rest => if existsb (Z.eqb t) given
                 then match nvols with O => false | S n => slots_ok rest given n end
                 else slots_ok rest given nvols
  end.

(** [commands.evo_aspirate / evo_dispense]; [n_rows] = number of row letters of the labware *)
Definition evo_command (kind : string) (n_rows n_cols : nat) (a : cmdargs) (max_volume : Q) : res string :=
  let wells := flattenF (c_wells a) in
  if negb (length wells =? length (c_tips a))%nat then Err EReject else
  if negb (strictly_ascending_str wells) then Err EReject else
  match check_range (c_grid a) 1 67, check_range (c_site a) 1 128 with
  | Some grid, Some site =>
      let vols := match c_volume a with
                  | CVList l => match check_volumes l max_volume with
                                | Err e => Err e
                                | Ok qs => if (length qs =? length wells)%nat then Ok qs else Err EReject
                                end
                  | CVIntList l => match check_volumes (int_pvols l) max_volume with
                                   | Err e => Err e
                                   | Ok qs => if (length qs =? length wells)%nat then Ok qs else Err EReject
                                   end
                  | CVScalar v => match check_volume v (Some max_volume) with
                                  | Err e => Err e
                                  | Ok q => Ok (repeat q (length wells))
                                  end
                  | CVOther => Err EReject
                  end in
      match vols with
      | Err e => Err e
      | Ok qs =>
          match text_ok false (c_liquid_class a), cmd_tip_values (c_tips a) with
          | Some lc, Some tvs =>
              if negb (strictly_ascending_Z tvs) then Err EReject else
              if negb ((c_arm a =? 0) || (c_arm a =? 1))%Z then Err EReject else
              if negb (slots_ok eight tvs (length qs)) then Err EReject else
              match selection_array n_rows n_cols wells with
              | None => Err EReject
              | Some sel =>
                  if (2 <=? selected_columns n_rows n_cols wells)%nat then Err EReject else
                  Ok ("B;" ++ kind ++ "(" ++ decZ (fold_right Z.add 0%Z tvs) ++ ",""" ++ lc ++ ""","
                      ++ match c_volume a with
                         | CVIntList l => tip_slots_int eight tvs l
                         | _ => tip_slots eight tvs qs
                         end ++ "0,0,0,0," ++ decZ grid ++ "," ++ decZ (site - 1)
                      ++ ",1,""" ++ evo_get_selection n_rows n_cols sel ++ """,0," ++ decZ (c_arm a) ++ ");")
              end
          | _, _ => Err EReject
          end
      end
  | _, _ => Err EReject
  end.

(** the worklist wrappers: tracking first, then the command *)
Definition evo_vols (v : cmdvol) : arr xnum :=
  match v with
  | CVScalar (PV x) => A0 x
  | CVList l => A1 (map (fun p => match p with PV x => x | PVBad => XNaN end) l)
  | CVIntList l => A1 (map (fun p => match p with PV x => x | PVBad => XNaN end) (int_pvols l))
  | _ => A0 XNaN
  end.

Definition evo_aspirate (s : state) (k : nat) (a : cmdargs) (label : option string) : state * option err :=
  match nth_error (st_lw s) k with
  | None => (s, Some EReject)
  | Some L =>
      let '(ws, vs) := wells_vols (c_wells a) (evo_vols (c_volume a)) in
      match remove L (A1 ws) (A1 vs) label with
      | (L', Some e) => (set_lw s k L', Some e)
      | (L', None) =>
          let s1 := set_lw s k L' in
          match comment (st_wl s1) label with
          | (w, Some e) => (set_wl s1 w, Some e)
          | (w, None) =>
              match evo_command "Aspirate" (n_row_ids (lw_geom L)) (g_cols (lw_geom L)) a (w_max w) with
              | Err e => (set_wl s1 w, Some e)
              | Ok cmd => (set_wl s1 (emit w [RCmd cmd]), None)
              end
          end
      end
  end.

Definition evo_dispense (s : state) (k : nat) (a : cmdargs) (label : option string)
    (comps : option (list (option composition))) : state * option err :=
  match nth_error (st_lw s) k with
  | None => (s, Some EReject)
  | Some L =>
      let '(ws, vs) := wells_vols (c_wells a) (evo_vols (c_volume a)) in
      match add L (A1 ws) (A1 vs) label comps with
      | (L', Some e) => (set_lw s k L', Some e)
      | (L', None) =>
          let s1 := set_lw s k L' in
          match comment (st_wl s1) label with
          | (w, Some e) => (set_wl s1 w, Some e)
          | (w, None) =>
              match evo_command "Dispense" (n_row_ids (lw_geom L)) (g_cols (lw_geom L)) a (w_max w) with
              | Err e => (set_wl s1 w, Some e)
              | Ok cmd => (set_wl s1 (emit w [RCmd cmd]), None)
              end
          end
      end
  end.

(* ------------------------------------------------------------------ Wash command *)

Inductive pyfi := FI_int (z : Z) | FI_float (x : xnum) | FI_other.   (* float-or-int argument *)

Record washargs := {
  wa_tips : list tipelem;
  wa_waste_grid : pyint; wa_waste_site : pyint;
  wa_cleaner_grid : pyint; wa_cleaner_site : pyint;
  wa_arm : Z;
  wa_waste_vol : pyfi; wa_waste_delay : pyint;
  wa_cleaner_vol : pyfi; wa_cleaner_delay : pyint;
  wa_airgap : pyint; wa_airgap_speed : pyint; wa_retract_speed : pyint;
  wa_fastwash : pyint; wa_low_volume : pyint
}.

(** [0 <= v <= 100], rounded to one decimal; ints stay ints *)
Definition wash_vol (v : pyfi) : option string :=
  match v with
  | FI_int z => if ((0 <=? z) && (z <=? 100))%Z then Some (decZ z) else None
  | FI_float (XQ q) => if Qle_bool 0 q && Qle_bool q 100 then Some (pyrepr_round1 q) else None
  | _ => None
  end.

(** the wash command accepts ints 1..8 and Tip members other than Tip.Any *)
Definition wash_tip_value (e : tipelem) : option Z := cmd_tip_value e.
Fixpoint dedup_Z (l : list Z) : list Z :=
  match l with
  | [] => []
  | x :: r => if existsb (Z.eqb x) r then dedup_Z r else x :: dedup_Z r
  end.
Fixpoint wash_tip_values (l : list tipelem) : option (list Z) :=
  match l with
  | [] => Some []
  | e :: r => match wash_tip_value e, wash_tip_values r with
              | Some v, Some vs => Some (v :: vs) | _, _ => None end
  end.

Definition evo_wash_cmd (a : washargs) : res string :=
  match wash_tip_values (wa_tips a) with
  | None => Err EReject
  | Some tvs =>
  match check_range (wa_waste_grid a) 1 67, check_range (wa_waste_site a) 1 128,
        check_range (wa_cleaner_grid a) 1 67, check_range (wa_cleaner_site a) 1 128 with
  | Some wg, Some wsite, Some cg, Some csite =>
      if negb ((wa_arm a =? 0) || (wa_arm a =? 1))%Z then Err EReject else
      match wash_vol (wa_waste_vol a), check_range (wa_waste_delay a) 0 1000,
            wash_vol (wa_cleaner_vol a), check_range (wa_cleaner_delay a) 0 1000 with
      | Some wv, Some wd, Some cv, Some cd =>
          match check_range (wa_airgap a) 0 100, check_range (wa_airgap_speed a) 1 1000,
                check_range (wa_retract_speed a) 1 100, check_range (wa_fastwash a) 0 1,
                check_range (wa_low_volume a) 0 1 with
          | Some ag, Some ags, Some rs, Some fw, Some lv =>
              Ok ("B;Wash(" ++ decZ (fold_right Z.add 0%Z (dedup_Z tvs)) ++ "," ++ decZ wg ++ "," ++ decZ (wsite - 1)
                  ++ "," ++ decZ cg ++ "," ++ decZ (csite - 1) ++ ",""" ++ wv ++ """," ++ decZ wd
                  ++ ",""" ++ cv ++ """," ++ decZ cd ++ "," ++ decZ ag ++ "," ++ decZ ags ++ ","
                  ++ decZ rs ++ "," ++ decZ fw ++ "," ++ decZ lv ++ ",1000," ++ decZ (wa_arm a) ++ ");")
          | _, _, _, _, _ => Err EReject
          end
      | _, _, _, _ => Err EReject
      end
  | _, _, _, _ => Err EReject
  end end.

Definition evo_wash (s : state) (a : washargs) : state * option err :=
  match evo_wash_cmd a with
  | Ok cmd => (set_wl s (emit (st_wl s) [RCmd cmd]), None)
  | Err e => (s, Some e)
  end.
