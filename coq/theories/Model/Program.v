(** Programs: sequences of API calls on a labware set and one worklist; [run] is what the
    correspondence check evaluates and what the property theorems quantify over. *)
From Robo Require Import Prelude Str Wells Utils Labware Tips Records Partition Params Worklist EvoCmd.

Inductive op :=
| OAdd (k : nat) (wells : arr string) (vols : arr xnum) (label : option string)
       (comps : option (list (option composition)))
| ORemove (k : nat) (wells : arr string) (vols : arr xnum) (label : option string)
| OCondense (k : nat) (n : nat) (label : option string)
| OAspirate (k : nat) (wells : arr string) (vols : arr xnum) (label : option string) (kw : kwargs)
| ODispense (k : nat) (wells : arr string) (vols : arr xnum) (label : option string)
            (comps : option (list (option composition))) (kw : kwargs)
| OTransfer (ks : nat) (swells : arr string) (kd : nat) (dwells : arr string) (vols : arr Q)
            (label : option string) (ws : scheme) (pb : string) (kw : kwargs)
| ODistribute (ks kd : nat) (dwells : arr string) (a : distargs)
| OComment (c : option string)
| OWash (s : scheme)
| ODecon
| OFlush
| OCommit
| OSetDiti (i : Z)
| OAspWell (a : adargs)
| ODispWell (a : adargs)
| OReagent (a : rdargs)
| OEvoAsp (k : nat) (a : cmdargs) (label : option string)
| OEvoDisp (k : nat) (a : cmdargs) (label : option string) (comps : option (list (option composition)))
| OEvoWash (a : washargs).

Definition on_lw (s : state) (k : nat) (f : labware -> labware * option err) : state * option err :=
  match nth_error (st_lw s) k with
  | Some L => let '(L', e) := f L in (set_lw s k L', e)
  | None => (s, Some EReject)
  end.
Definition on_wl (s : state) (f : wstate -> wstate * option err) : state * option err :=
  let '(w, e) := f (st_wl s) in (set_wl s w, e).

Definition step (s : state) (o : op) : state * option err :=
  match o with
  | OAdd k ws vs l cs => on_lw s k (fun L => add L ws vs l cs)
  | ORemove k ws vs l => on_lw s k (fun L => remove L ws vs l)
  | OCondense k n l => on_lw s k (fun L => (condense_log L n l, None))
  | OAspirate k ws vs l kw => aspirate s k ws vs l kw
  | ODispense k ws vs l cs kw => dispense s k ws vs l cs kw
  | OTransfer ks sw kd dw vs l sch pb kw => transfer s ks sw kd dw vs l sch pb kw
  | ODistribute ks kd dw a => distribute s ks kd dw a
  | OComment c => on_wl s (fun w => comment w c)
  | OWash sch => on_wl s (fun w => wash w sch)
  | ODecon => on_wl s decontaminate
  | OFlush => on_wl s flush
  | OCommit => on_wl s commit
  | OSetDiti i => on_wl s (fun w => set_diti w i)
  | OAspWell a => on_wl s (fun w => aspirate_well w a)
  | ODispWell a => on_wl s (fun w => dispense_well w a)
  | OReagent a => on_wl s (fun w => reagent_distribution w a)
  | OEvoAsp k a l => match w_dev (st_wl s) with Evo => evo_aspirate s k a l | _ => (s, Some EReject) end
  | OEvoDisp k a l cs => match w_dev (st_wl s) with Evo => evo_dispense s k a l cs | _ => (s, Some EReject) end
  | OEvoWash a => match w_dev (st_wl s) with Evo => evo_wash s a | _ => (s, Some EReject) end
  end.

(** run a whole program, collecting the outcome of every call (execution continues after a
    rejected call, as a user's script would inside try/except) *)
Fixpoint run (s : state) (ops : list op) : state * list (option err) :=
  match ops with
  | [] => (s, [])
  | o :: r => let '(s1, e) := step s o in
              let '(s2, es) := run s1 r in (s2, e :: es)
  end.

Definition init_wl (d : device) (max_volume : Q) (autosplit diti : bool) : wstate :=
  {| w_recs := []; w_max := max_volume; w_autosplit := autosplit; w_diti := diti; w_dev := d |}.
