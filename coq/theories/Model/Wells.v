(** Well ids, geometry, index map and device-specific numbering.
    robotools/liquidhandling/labware.py (wells / indices / positions),
    robotools/evotools/utils.py and robotools/fluenttools/utils.py (get_well_position),
    robotools/transform.py (make_well_array / make_well_index_dict). *)
From Robo Require Import Prelude Str.

Record geom := { g_rows : nat;            (* real rows of the volume array *)
                 g_cols : nat;
                 g_vrows : option nat }.   (* virtual rows: [Some v] for troughs *)

Definition is_trough (g : geom) : bool := match g_vrows g with Some _ => true | None => false end.

(** number of row letters: [len(row_ids)] = [n_rows] of the Python object *)
Definition n_row_ids (g : geom) : nat :=
  Nat.min 26 (match g_vrows g with Some v => v | None => g_rows g end).

(** [wells]: array of ids, row letters x columns *)
Definition wells_table (g : geom) : list (list string) :=
  map (fun r => map (fun c => well_id r c) (seq 0 (g_cols g))) (seq 0 (n_row_ids g)).

(** decompose an id of the canonical form letter + at-least-two-digit column *)
Definition id_rc (s : string) : option (nat * nat) :=
  match s with
  | String a rest =>
      let n := nat_of_ascii a in
      if ((65 <=? n) && (n <=? 90))%nat then
        if all_digits rest then
          match parse_decN rest with
          | Some col => if (1 <=? col)%N then
                          let r := n - 65 in let c := N.to_nat col - 1 in
                          if String.eqb (well_id r c) s then Some (r, c) else None
                        else None
          | None => None
          end
        else None
      else None
  | EmptyString => None
  end.

(** [labware.indices[well]]: real (row, column) index, [None] = KeyError *)
Definition well_index (g : geom) (s : string) : option (nat * nat) :=
  match id_rc s with
  | Some (r, c) =>
      if ((r <? n_row_ids g) && (c <? g_cols g))%nat then
        Some (match g_vrows g with Some _ => 0 | None => r end, c)
      else None
  | None => None
  end.

(** flat index into the row-major volume list *)
Definition flat_index (g : geom) (rc : nat * nat) : nat := fst rc * g_cols g + snd rc.

(** column-major 1-based numbering *)
Definition pos_of (R r c : nat) : nat := 1 + c * R + r.

(** [labware._positions[well]] (deprecated attribute, EVO-style) *)
Definition positions_attr (g : geom) (s : string) : option nat :=
  match id_rc s with
  | Some (r, c) =>
      if ((r <? n_row_ids g) && (c <? g_cols g))%nat then
        Some (pos_of (match g_vrows g with Some v => v | None => g_rows g end) r c)
      else None
  | None => None
  end.

(** the regex + [row_ids.index] + [column_ids.index] part shared by both devices *)
Definition single_letter_row (g : geom) (l : string) : option nat :=
  match l with
  | String a EmptyString =>
      let n := nat_of_ascii a in
      if ((65 <=? n) && (n <? 65 + n_row_ids g))%nat then Some (n - 65) else None
  | _ => None
  end.
Definition column_index (g : geom) (n : N) : option nat :=
  if ((1 <=? n) && (n <=? N.of_nat (g_cols g)))%N then Some (N.to_nat n - 1) else None.

(** robotools.evotools.get_well_position *)
Definition evo_position (g : geom) (s : string) : res nat :=
  match parse_id s with
  | None => Err EReject
  | Some (l, n) =>
      match single_letter_row g l, column_index g n with
      | Some r, Some c =>
          Ok (pos_of (match g_vrows g with Some v => v | None => n_row_ids g end) r c)
      | _, _ => Err EReject
      end
  end.

(** robotools.fluenttools.get_well_position: the row is re-read from the first character *)
Definition fluent_position (g : geom) (s : string) : res nat :=
  match parse_id s with
  | None => Err EReject
  | Some (l, n) =>
      match column_index g n with
      | None => Err EReject
      | Some c =>
          if is_trough g then Ok (1 + c)
          else match str_head s with
               | Some a => match single_letter_row g (String a EmptyString) with
                           | Some r => Ok (pos_of (n_row_ids g) r c)
                           | None => Err EReject
                           end
               | None => Err EReject
               end
      end
  end.

Inductive device := Evo | Fluent | BaseDev.

Definition device_position (d : device) (g : geom) (s : string) : res nat :=
  match d with
  | Evo => evo_position g s
  | Fluent => fluent_position g s
  | BaseDev => Err ECompat
  end.

(** transform.make_well_array / make_well_index_dict *)
Definition make_well_array (R C : nat) : list (list string) :=
  wells_table {| g_rows := R; g_cols := C; g_vrows := None |}.
Definition make_well_index (R C : nat) (s : string) : option (nat * nat) :=
  well_index {| g_rows := R; g_cols := C; g_vrows := None |} s.
