(** robotools/utils.py: DilutionPlan.  The table of ideal target concentrations (numpy
    log/exp/linspace) is an input of the model; everything after it is modelled. *)
From Robo Require Import Prelude Str Wells Utils Labware Tips Records Partition Params Worklist EvoCmd Program.
#[local] Open Scope string_scope.

(** one instruction: target column, dilution steps, source (None = stock), whole-microlitre volumes *)
Record instr := { i_col : nat; i_steps : nat; i_src : option nat; i_vols : list Z }.

Record dplan := {
  dp_instr : list instr;
  dp_x : list (list Q);          (* achieved concentrations, per prepared column *)
  dp_vmax : list Q
}.

Definition Qgeb (a b : Q) : bool := Qle_bool b a.

(** stage 1: columns prepared directly from the stock, left to right, until one is infeasible *)
Fixpoint from_stock (c : nat) (cols : list (list Q)) (vmax : list Q) (stock min_transfer : Q)
    : list instr * list (list Q) :=
  match cols, vmax with
  | col :: rest, vm :: vrest =>
      let vt := map (fun x => Qrint (vm * x / stock)) col in
      if forallb (fun v => Qgeb (inject_Z v) min_transfer) vt then
        let '(is, xs) := from_stock (S c) rest vrest stock min_transfer in
        ({| i_col := c; i_steps := 0; i_src := None; i_vols := vt |} :: is,
         map (fun v => Qred (inject_Z v / vm * stock)) vt :: xs)
      else ([], [])
  | _, _ => ([], [])
  end.

(** first usable source among the columns prepared so far *)
Fixpoint find_source (k : nat) (instrs : list instr) (xs : list (list Q)) (col : list Q) (vm min_transfer : Q)
    : option (nat * nat * list Z) :=
  match instrs, xs with
  | i :: irest, x :: xrest =>
      let vt := map (fun p => Qceiling (vm * fst p / snd p)) (zip col x) in
      if forallb (fun v => Qgeb (inject_Z v) min_transfer) vt then Some (k, i_steps i, vt)
      else find_source (S k) irest xrest col vm min_transfer
  | _, _ => None
  end.

(** stage 2: remaining columns by serial dilution *)
Fixpoint serial (c : nat) (cols : list (list Q)) (vmax : list Q) (min_transfer : Q)
    (instrs : list instr) (xs : list (list Q)) : list instr * list (list Q) :=
  match cols, vmax with
  | col :: rest, vm :: vrest =>
      match find_source 0 instrs xs col vm min_transfer with
      | Some (k, steps, vt) =>
          let srcx := nth k xs [] in
          serial (S c) rest vrest min_transfer
                 (instrs ++ [{| i_col := c; i_steps := S steps; i_src := Some k; i_vols := vt |}])
                 (xs ++ [map (fun p => Qred (inject_Z (fst p) * snd p / vm)) (zip vt srcx)])
      | None => serial (S c) rest vrest min_transfer instrs xs
      end
  | _, _ => (instrs, xs)
  end.

(** [ideal]: list of C columns with R target concentrations each; [vmax]: one value per column *)
Definition plan_core (ideal : list (list Q)) (stock : Q) (vmax : list Q) (min_transfer : Q) : res dplan :=
  let C := length ideal in
  let '(i1, x1) := from_stock 0 ideal vmax stock min_transfer in
  let n1 := length i1 in
  let '(is, xs) := serial n1 (skipn n1 ideal) (skipn n1 vmax) min_transfer i1 x1 in
  if (length xs <? C)%nat then Err EValue
  else Ok {| dp_instr := is; dp_x := xs; dp_vmax := vmax |}.

(** argument handling of __init__ in front of the planning core *)
Definition dilution_plan (stock_ge_xmax mode_ok : bool) (C : nat) (vmax : arr Q)
    (ideal : list (list Q)) (stock min_transfer : Q) : res dplan :=
  if negb stock_ge_xmax then Err EValue else
  let vm := match flattenF vmax with [x] => repeat x C | l => l end in
  if negb (length vm =? C)%nat then Err EValue
  else if negb mode_ok then Err EValue
  else plan_core ideal stock vm min_transfer.

Definition v_stock (p : dplan) : Z :=
  fold_right (fun i acc => if (i_steps i =? 0)%nat then (fold_right Z.add 0 (i_vols i) + acc)%Z else acc) 0%Z (dp_instr p).
Definition v_diluent (R : nat) (p : dplan) : Q :=
  (Qsum (map (fun v => inject_Z (Z.of_nat R) * v) (dp_vmax p)) - inject_Z (v_stock p))%Q.
Definition max_steps (p : dplan) : nat := fold_right (fun i m => Nat.max (i_steps i) m) 0 (dp_instr p).

(* ------------------------------------------------------------------ to_worklist as a program *)

Record twl_args := {
  tw_R : nat;
  tw_stock : nat; tw_stock_column : nat;
  tw_diluent : nat; tw_diluent_column : nat;
  tw_plate : nat;
  tw_dest : option nat;
  tw_v_destination : Q;
  tw_mix_threshold : Q;
  tw_mix_wash : scheme;
  tw_mix_repeat : nat;
  tw_mix_volume : Q;
  tw_lc_stock : string; tw_lc_diluent : string; tw_lc_mix : string; tw_lc_transfer : string
}.

Definition kw_lc (lc : string) : kwargs :=
  {| k_liquid_class := PStr lc; k_tip := TipOne TAny; k_rack_id := PStr ""; k_tube_id := PStr "";
     k_rack_type := PStr ""; k_forced := PStr "" |}.

Definition column_wells (R c : nat) : list string := map (fun r => well_id r c) (seq 0 R).
Definition trough_column_wells (g : geom) (c : nat) : list string := map (fun r => well_id r c) (seq 0 (n_row_ids g)).

(** operations issued for one instruction; the worklist's max_volume is needed for the mixing volume *)
Definition instr_ops (a : twl_args) (p : dplan) (wmax : Q) (gs gd : geom) (i : instr) : list op :=
  let R := tw_R a in
  let col := i_col i in
  let vm := nth col (dp_vmax p) 0%Q in
  let vsrc := map inject_Z (i_vols i) in
  let plate_col := A1 (column_wells R col) in
  let first :=
    match i_src i with
    | None => [OTransfer (tw_stock a) (A1 (cycle_wells R (trough_column_wells gs (tw_stock_column a))))
                         (tw_plate a) plate_col (A1 vsrc) (Some "Distribute from stock") (SInt 1) "auto"
                         (kw_lc (tw_lc_stock a)); OCommit]
    | Some _ => []
    end in
  let dilute :=
    [OTransfer (tw_diluent a) (A1 (cycle_wells R (trough_column_wells gd (tw_diluent_column a))))
               (tw_plate a) plate_col (A1 (map (fun v => Qred (vm - v)) vsrc))
               (Some ("Dilute column " ++ dec col)) (SInt 1) "auto" (kw_lc (tw_lc_diluent a)); OCommit] in
  let mix_vol := let mv := (vm * tw_mix_volume a)%Q in if Qle_bool wmax mv then wmax else Qred mv in
  let pct := round2c (mix_vol / vm) in
  let mixing :=
    if existsb (fun v => Qltb (tw_mix_threshold a * vm) v) vsrc then
      flat_map (fun r =>
                  [OTransfer (tw_plate a) plate_col (tw_plate a) plate_col (A0 mix_vol)
                             (Some ("Mix column " ++ dec col ++ " with " ++ decZ pct ++ " % of its volume"))
                             (if (r <? tw_mix_repeat a - 1)%nat then tw_mix_wash a else SInt 1) "auto"
                             (kw_lc (tw_lc_mix a)); OCommit]) (seq 0 (tw_mix_repeat a))
    else [] in
  let serials :=
    flat_map (fun j => match i_src j with
                       | Some s => if (s =? col)%nat then
                           [OTransfer (tw_plate a) plate_col (tw_plate a) (A1 (column_wells R (i_col j)))
                                      (A1 (map inject_Z (i_vols j)))
                                      (Some ("Transfer columns " ++ dec col ++ " -> " ++ dec (i_col j) ++ " for later dilution step"))
                                      (SInt 1) "auto" (kw_lc (tw_lc_transfer a)); OCommit]
                           else []
                       | None => []
                       end) (dp_instr p) in
  let dest :=
    match tw_dest a with
    | Some d => [OTransfer (tw_plate a) plate_col d plate_col (A0 (tw_v_destination a))
                           (Some ("Transfer column " ++ dec col ++ " to the destination plate"))
                           (SInt 1) "auto" (kw_lc (tw_lc_transfer a)); OCommit]
    | None => []
    end in
  (first ++ dilute ++ mixing ++ serials ++ dest)%list.

(** run the plan: instruction by instruction, stopping at the first refused call; a serially diluted
    column must hold exactly the planned volumes before it is filled up *)
Fixpoint run_ops (s : state) (ops : list op) : state * option err :=
  match ops with
  | [] => (s, None)
  | o :: r => match step s o with
              | (s', None) => run_ops s' r
              | (s', Some e) => (s', Some e)
              end
  end.

Definition column_ready (s : state) (a : twl_args) (i : instr) : bool :=
  match i_src i, nth_error (st_lw s) (tw_plate a) with
  | None, _ => true
  | Some _, Some L =>
      forallb (fun p => match lw_index L (fst p) with
                        | Some k => Qeq_bool (vol_at L k) (inject_Z (snd p))
                        | None => false
                        end) (zip (column_wells (tw_R a) (i_col i)) (i_vols i))
  | Some _, None => false
  end.

Fixpoint run_instrs (s : state) (a : twl_args) (p : dplan) (gs gd : geom) (is : list instr) : state * option err :=
  match is with
  | [] => (s, None)
  | i :: rest =>
      if negb (column_ready s a i) then (s, Some EReject) else
      match run_ops s (instr_ops a p (w_max (st_wl s)) gs gd i) with
      | (s', None) => run_instrs s' a p gs gd rest
      | (s', Some e) => (s', Some e)
      end
  end.

Definition to_worklist (s : state) (a : twl_args) (p : dplan) (C : nat) : state * option err :=
  match nth_error (st_lw s) (tw_plate a), nth_error (st_lw s) (tw_stock a), nth_error (st_lw s) (tw_diluent a) with
  | Some P, Some St, Some D =>
      if (n_row_ids (lw_geom P) <? tw_R a)%nat || (g_cols (lw_geom P) <? C)%nat then (s, Some EValue)
      else if match tw_dest a with
              | Some d => match nth_error (st_lw s) d with
                          | Some DP => (n_row_ids (lw_geom DP) <? tw_R a)%nat || (g_cols (lw_geom DP) <? C)%nat
                          | None => true
                          end
              | None => false
              end then (s, Some EValue)
      else if negb (is_trough (lw_geom St)) || negb (is_trough (lw_geom D)) then (s, Some EValue)
      else run_instrs s a p (lw_geom St) (lw_geom D) (dp_instr p)
  | _, _, _ => (s, Some EReject)
  end.
