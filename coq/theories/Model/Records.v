(** Structured worklist records and their rendering to the Tecan .gwl text
    (robotools/worklists/base.py record templates). *)
From Robo Require Import Prelude Str.
#[local] Open Scope string_scope.

Record adfields := {
  ad_rack_label : string;
  ad_rack_id : string;
  ad_rack_type : string;
  ad_position : Z;
  ad_tube_id : string;
  ad_volume : Q;             (* exact requested volume; rendered with two decimals *)
  ad_liquid_class : string;
  ad_tip : option N;         (* None = Tip.Any = empty field *)
  ad_forced_rack_type : string
}.

(** a number as Python formats it with [str()]: an int or a float *)
Inductive pynum := PyI (z : Z) | PyF (q : Q).
Definition pynum_q (p : pynum) : Q := match p with PyI z => inject_Z z | PyF q => q end.
Definition render_pynum (p : pynum) : string :=
  match p with PyI z => decZ z | PyF q => pyrepr_float q end.

Record rfields := {
  r_src_label : string; r_src_id : string; r_src_type : string; r_src_start : Z; r_src_end : Z;
  r_dst_label : string; r_dst_id : string; r_dst_type : string; r_dst_start : Z; r_dst_end : Z;
  r_volume : pynum;
  r_liquid_class : string;
  r_diti_reuse : Z;
  r_multi_disp : Z;
  r_direction : bool;        (* false = left_to_right = 0 *)
  r_exclude : list Z         (* sorted *)
}.

Inductive srec :=
| RA (f : adfields)
| RD (f : adfields)
| RR (f : rfields)
| RW (scheme : option nat)   (* None: "W;" (DiTi mode); Some n: "Wn;" *)
| RWD
| RF
| RB
| RC (text : string)
| RS (index : Z)
| RCmd (s : string).         (* EVOware script command, rendered as is ("B;Aspirate(...);") *)

Definition render_tip (t : option N) : string :=
  match t with None => "" | Some m => decN m end.

Definition render_ad (kind : string) (f : adfields) : string :=
  join ";" [kind; ad_rack_label f; ad_rack_id f; ad_rack_type f; decZ (ad_position f); ad_tube_id f;
            fmt2 (ad_volume f); ad_liquid_class f; ""; render_tip (ad_tip f); ad_forced_rack_type f].

Definition render_r (f : rfields) : string :=
  join ";" ([ "R"; r_src_label f; r_src_id f; r_src_type f; decZ (r_src_start f); decZ (r_src_end f);
              r_dst_label f; r_dst_id f; r_dst_type f; decZ (r_dst_start f); decZ (r_dst_end f);
              render_pynum (r_volume f); r_liquid_class f; decZ (r_diti_reuse f); decZ (r_multi_disp f);
              if r_direction f then "1" else "0" ] ++ map decZ (r_exclude f)).

Definition render (r : srec) : string :=
  match r with
  | RA f => render_ad "A" f
  | RD f => render_ad "D" f
  | RR f => render_r f
  | RW None => "W;"
  | RW (Some n) => "W" ++ dec n ++ ";"
  | RWD => "WD;"
  | RF => "F;"
  | RB => "B;"
  | RC t => "C;" ++ t
  | RS i => "S;" ++ decZ i
  | RCmd s => s
  end.

(** first character of the rendered record is "B" (what [set_diti] tests) *)
Definition is_break_like (r : srec) : bool :=
  match r with
  | RB => true
  | RCmd s => match s with String a _ => Ascii.eqb a "B"%char | EmptyString => false end
  | _ => false
  end.
