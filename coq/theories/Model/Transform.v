(** robotools/transform.py: WellShifter, WellRotator, WellRandomizer *)
From Robo Require Import Prelude Str Wells.

Definition amap {A B} (f : A -> B) (a : arr A) : arr B :=
  match a with A0 x => A0 (f x) | A1 xs => A1 (map f xs) | A2 rows => A2 (map (map f) rows) end.

(** sequence an array of results *)
Fixpoint seq_res {A} (l : list (res A)) : res (list A) :=
  match l with
  | [] => Ok []
  | Ok x :: r => match seq_res r with Ok xs => Ok (x :: xs) | Err e => Err e end
  | Err e :: _ => Err e
  end.
Definition aseq {A} (a : arr (res A)) : res (arr A) :=
  match a with
  | A0 (Ok x) => Ok (A0 x)
  | A0 (Err e) => Err e
  | A1 xs => match seq_res xs with Ok l => Ok (A1 l) | Err e => Err e end
  | A2 rows => match seq_res (map seq_res rows) with Ok l => Ok (A2 l) | Err e => Err e end
  end.

Record shifter := { sh_RA : nat; sh_CA : nat; sh_RB : nat; sh_CB : nat; sh_dr : nat; sh_dc : nat }.

(** WellShifter(shape_A, shape_B, shifted_A01) *)
Definition mk_shifter (RA CA RB CB : nat) (anchor : string) : res shifter :=
  match make_well_index RB CB anchor with
  | None => Err EReject
  | Some (dr, dc) =>
      if (RB <? RA + dr)%nat then Err EValue
      else if (CB <? CA + dc)%nat then Err EValue
      else Ok {| sh_RA := RA; sh_CA := CA; sh_RB := RB; sh_CB := CB; sh_dr := dr; sh_dc := dc |}
  end.

Definition shift1 (s : shifter) (w : string) : res string :=
  match make_well_index (sh_RA s) (sh_CA s) w with
  | Some (r, c) => Ok (well_id (r + sh_dr s) (c + sh_dc s))
  | None => Err EReject
  end.
(** on wells of B that are images of wells of A *)
Definition unshift1 (s : shifter) (w : string) : res string :=
  match make_well_index (sh_RB s) (sh_CB s) w with
  | Some (r, c) =>
      if ((sh_dr s <=? r) && (sh_dc s <=? c) && (r - sh_dr s <? sh_RA s) && (c - sh_dc s <? sh_CA s))%nat
      then Ok (well_id (r - sh_dr s) (c - sh_dc s))
      else Err EReject
  | None => Err EReject
  end.
Definition shift (s : shifter) (a : arr string) : res (arr string) := aseq (amap (shift1 s) a).
Definition unshift (s : shifter) (a : arr string) : res (arr string) := aseq (amap (unshift1 s) a).

(** WellRotator(original_shape = (R, C)) *)
Definition rotate_cw1 (R C : nat) (w : string) : res string :=
  match make_well_index R C w with
  | Some (r, c) => Ok (well_id c (R - r - 1))
  | None => Err EReject
  end.
Definition rotate_ccw1 (R C : nat) (w : string) : res string :=
  match make_well_index R C w with
  | Some (r, c) => Ok (well_id (C - c - 1) r)
  | None => Err EReject
  end.
Definition rotate_cw (R C : nat) (a : arr string) := aseq (amap (rotate_cw1 R C) a).
Definition rotate_ccw (R C : nat) (a : arr string) := aseq (amap (rotate_ccw1 R C) a).

(** WellRandomizer: the realised lookup table is an input of the model *)
Fixpoint lookup (t : list (string * string)) (w : string) : option string :=
  match t with
  | [] => None
  | (k, v) :: r => if String.eqb k w then Some v else lookup r w
  end.
Definition invert (t : list (string * string)) : list (string * string) := map (fun kv => (snd kv, fst kv)) t.
Definition randomize (t : list (string * string)) (a : arr string) : arr (option string) := amap (lookup t) a.
Definition derandomize (t : list (string * string)) (a : arr string) : arr (option string) :=
  amap (lookup (invert t)) a.

(** ** Construction of the lookup table by [WellRandomizer.__init__]: the arrays returned by the calls of
    [rng.permutation] ([draws], in call order) are the only input *)

Inductive rand_mode := RFull | RRow | RColumn.

(** [[full[:, c] for c in range(C)]] *)
Definition well_columns (R C : nat) : list (list string) :=
  map (fun c => map (fun r => well_id r c) (seq 0 (Nat.min 26 R))) (seq 0 C).

(** the arrays handed to [rng.permutation], in call order *)
Definition rand_requests (m : rand_mode) (R C : nat) : list (list string) :=
  match m with
  | RFull => [concat (make_well_array R C)]
  | RRow => make_well_array R C
  | RColumn => well_columns R C
  end.

(** [for req, draw in ...: for o, d in zip(req, draw): lookup[o] = d] *)
Definition rand_table_of (reqs draws : list (list string)) : list (string * string) :=
  concat (map (fun rd => zip (fst rd) (snd rd)) (zip reqs draws)).

Definition rand_table_full (R C : nat) (p : list string) : list (string * string) :=
  zip (concat (make_well_array R C)) p.
Definition rand_table_row (R C : nat) (ps : list (list string)) : list (string * string) :=
  rand_table_of (make_well_array R C) ps.
Definition rand_table_column (R C : nat) (ps : list (list string)) : list (string * string) :=
  rand_table_of (well_columns R C) ps.

(** the shapes on which the constructor raises IndexError: row mode indexes [full[r, :]] for r < R but
    [full] has only 26 rows; column mode indexes [full[:, c]] but [make_well_array(0, C)] is 1-dimensional *)
Definition rand_ctor_raises (m : rand_mode) (R C : nat) : bool :=
  match m with
  | RFull => false
  | RRow => (26 <? R)%nat
  | RColumn => ((R =? 0) && (0 <? C))%nat
  end.

(** [WellRandomizer((R, C), seed, mode=m).lookup], [draws] = what the calls of [rng.permutation] returned *)
Definition mk_rand_table (m : rand_mode) (R C : nat) (draws : list (list string))
  : res (list (string * string)) :=
  if rand_ctor_raises m R C then Err EReject
  else Ok (rand_table_of (rand_requests m R C) draws).

