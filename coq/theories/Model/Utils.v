(** robotools/utils.py: get_trough_wells *)
From Robo Require Import Prelude.

(** an argument that should be a Python [int] *)
Inductive pyint := PInt (z : Z) | PNotInt.

(** [(trough_wells * n_repeat)[:n]] with [n_repeat = n // len + 1] *)
Definition cycle_wells (n : nat) (l : list string) : list string :=
  firstn n (concat (repeat l (n / length l + 1))).

Definition get_trough_wells (n : pyint) (ws : arr string) : res (list string) :=
  match n with
  | PNotInt => Err EReject
  | PInt z =>
      if (z <? 0)%Z then Err EReject
      else match flattenF ws with
           | [] => Err EReject
           | l => Ok (cycle_wells (Z.to_nat z) l)
           end
  end.
