(** robotools/liquidhandling/labware.py and composition.py:
    constructors, add, remove, log, condense_log, get_well_composition. *)
From Robo Require Import Prelude Str Wells Utils.

Definition composition := list (string * Q).

Record labware := {
  lw_name : string;
  lw_geom : geom;
  lw_min : Q;
  lw_max : Q;
  lw_vols : list Q;                          (* row-major, real rows x columns *)
  lw_comp : list (string * list Q);          (* component -> fractions per real well, insertion order *)
  lw_hist : list (option string * list Q)    (* oldest first *)
}.

Definition set_vols (L : labware) (v : list Q) : labware :=
  {| lw_name := lw_name L; lw_geom := lw_geom L; lw_min := lw_min L; lw_max := lw_max L;
     lw_vols := v; lw_comp := lw_comp L; lw_hist := lw_hist L |}.
Definition set_comp (L : labware) (c : list (string * list Q)) : labware :=
  {| lw_name := lw_name L; lw_geom := lw_geom L; lw_min := lw_min L; lw_max := lw_max L;
     lw_vols := lw_vols L; lw_comp := c; lw_hist := lw_hist L |}.
Definition set_hist (L : labware) (h : list (option string * list Q)) : labware :=
  {| lw_name := lw_name L; lw_geom := lw_geom L; lw_min := lw_min L; lw_max := lw_max L;
     lw_vols := lw_vols L; lw_comp := lw_comp L; lw_hist := h |}.

Definition n_wells (g : geom) : nat := g_rows g * g_cols g.

(** [labware.indices[well]] as a flat index *)
Definition lw_index (L : labware) (w : string) : option nat :=
  match well_index (lw_geom L) w with
  | Some rc => Some (flat_index (lw_geom L) rc)
  | None => None
  end.

Definition vol_at (L : labware) (i : nat) : Q := nth i (lw_vols L) 0%Q.

(* ------------------------------------------------------------------ composition *)

Fixpoint assoc_get {A} (k : string) (l : list (string * A)) : option A :=
  match l with
  | [] => None
  | (k', v) :: r => if String.eqb k' k then Some v else assoc_get k r
  end.
Fixpoint assoc_set {A} (k : string) (v : A) (l : list (string * A)) : list (string * A) :=
  match l with
  | [] => [(k, v)]
  | (k', v') :: r => if String.eqb k' k then (k', v) :: r else (k', v') :: assoc_set k v r
  end.

(** [Labware.get_well_composition]: components with a positive fraction in this well *)
Definition well_composition_at (L : labware) (i : nat) : composition :=
  flat_map (fun kf => let f := nth i (snd kf) 0%Q in
                      if Qltb 0 f then [(fst kf, f)] else []) (lw_comp L).
Definition get_well_composition (L : labware) (w : string) : res composition :=
  match lw_index L w with
  | Some i => Ok (well_composition_at L i)
  | None => Err EReject
  end.

(** [combine_composition] (both compositions known); a zero total volume leaves A as it is *)
Definition combine_composition (vA : Q) (cA : composition) (vB : Q) (cB : composition) : composition :=
  if Qeq_bool (vA + vB) 0 then cA else
  let vf0 := map (fun kf => (fst kf, snd kf * vA)%Q) cA in
  let vf := fold_left (fun acc kf =>
                         let cur := match assoc_get (fst kf) acc with Some x => x | None => 0%Q end in
                         assoc_set (fst kf) (Qred (cur + snd kf * vB)) acc) cB vf0 in
  map (fun kv => (fst kv, Qred (snd kv / (vA + vB)))) vf.

(** write the mixed fractions of one well *)
Definition write_composition (L : labware) (i : nat) (c : composition) : labware :=
  set_comp L (fold_left (fun comp kf =>
                           let arr := match assoc_get (fst kf) comp with
                                      | Some a => a
                                      | None => repeat 0%Q (n_wells (lw_geom L))
                                      end in
                           assoc_set (fst kf) (upd arr i (snd kf)) comp) c (lw_comp L)).

(* ------------------------------------------------------------------ log *)

Definition log (L : labware) (label : option string) : labware :=
  set_hist L (lw_hist L ++ [(label, lw_vols L)]).

(** [condense_log(n, label)]; [label] as passed (default "last") *)
Definition condense_log (L : labware) (n : nat) (label : option string) : labware :=
  if (n <? 1)%nat then L else
  let h := lw_hist L in
  let len := length h in
  let label1 := match label with
                | Some s => if String.eqb s "first" then fst (nth (len - n) h (None, [])) else label
                | None => None
                end in
  let label2 := match label1 with
                | Some s => if String.eqb s "last" then fst (nth (len - 1) h (None, [])) else label1
                | None => None
                end in
  let state := snd (nth (len - 1) h (None, [])) in
  set_hist L (firstn (len - n) h ++ [(label2, state)]).

(** [Labware.report]: the labware name, then per history entry the label (when it is a non-empty string) and the
    volumes rounded to one decimal ([numpy.round(state, decimals=1)], in tenths) *)
Definition report_entries (L : labware) : list (option string * list Z) :=
  map (fun h => (match fst h with
                 | Some l => if String.eqb l "" then None else Some l
                 | None => None
                 end, map round1c (snd h))) (lw_hist L).

(* ------------------------------------------------------------------ add / remove *)

(** argument validation shared by add and remove: NaN or negative volumes are refused before any
    effect (AssertionError), +inf passes the sign check *)
Definition vol_ok (x : xnum) : bool :=
  match x with
  | XQ v => Qle_bool 0 v
  | XPInf => true
  | XNaN | XNInf => false
  end.

Definition prep_wells_vols (wells : arr string) (vols : arr xnum) : res (list (string * xnum)) :=
  let ws := flattenF wells in
  let vs := broadcast (flattenF vols) (length ws) in
  if negb (length vs =? length ws)%nat then Err EReject
  else if negb (forallb vol_ok vs) then Err EReject
  else Ok (zip ws vs).

Fixpoint add_loop (L : labware) (items : list (string * xnum * option composition)) : labware * option err :=
  match items with
  | [] => (L, None)
  | (w, x, oc) :: rest =>
      match lw_index L w with
      | None => (L, Some EReject)
      | Some i =>
          match x with
          | XQ v =>
              let v0 := vol_at L i in
              let v1 := Qred (v0 + v) in
              if Qgtb v1 (lw_max L) then (L, Some EOverflow)
              else
                let L1 := set_vols L (upd (lw_vols L) i v1) in
                let L2 := match oc with
                          | Some c => write_composition L1 i
                                        (combine_composition v0 (well_composition_at L1 i) v c)
                          | None => L1
                          end in
                add_loop L2 rest
          | _ => (L, Some EOverflow)
          end
      end
  end.

Definition add (L : labware) (wells : arr string) (vols : arr xnum) (label : option string)
    (comps : option (list (option composition))) : labware * option err :=
  match prep_wells_vols wells vols with
  | Err e => (L, Some e)
  | Ok wv =>
      let comps' := match comps with
                    | Some cs => cs
                    | None => repeat None (length wv)
                    end in
      if negb (length comps' =? length wv)%nat then (L, Some EReject)
      else
        match add_loop L (map (fun p => (fst (fst p), snd (fst p), snd p)) (zip wv comps')) with
        | (L', None) => (log L' label, None)
        | (L', Some e) => (L', Some e)
        end
  end.

Fixpoint remove_loop (L : labware) (items : list (string * xnum)) : labware * option err :=
  match items with
  | [] => (L, None)
  | (w, x) :: rest =>
      match lw_index L w with
      | None => (L, Some EReject)
      | Some i =>
          match x with
          | XQ v =>
              let v0 := vol_at L i in
              let v1 := Qred (v0 - v) in
              if Qltb v1 (lw_min L) then (L, Some EUnderflow)
              else remove_loop (set_vols L (upd (lw_vols L) i v1)) rest
          | _ => (L, Some EUnderflow)
          end
      end
  end.

Definition remove (L : labware) (wells : arr string) (vols : arr xnum) (label : option string)
    : labware * option err :=
  match prep_wells_vols wells vols with
  | Err e => (L, Some e)
  | Ok wv =>
      match remove_loop L wv with
      | (L', None) => (log L' label, None)
      | (L', Some e) => (L', Some e)
      end
  end.

(* ------------------------------------------------------------------ constructors *)

Record lw_args := {
  a_name : string;
  a_rows : pyint;
  a_cols : pyint;
  a_min : xnum;
  a_max : xnum;
  a_init : option (arr xnum);
  a_vrows : option pyint;
  a_names : list (string * option string)      (* component_names, in dict order *)
}.

Definition xfinite (x : xnum) : option Q := match x with XQ v => Some v | _ => None end.

Fixpoint all_finite (l : list xnum) : option (list Q) :=
  match l with
  | [] => Some []
  | x :: r => match xfinite x, all_finite r with
              | Some v, Some vs => Some (v :: vs)
              | _, _ => None
              end
  end.

(** initial composition: one 100 % component per non-empty real well.
    [wells]: the real well ids in row-major order; [multi]: more than one real well (rows * columns > 1) *)
Fixpoint initial_composition (name : string) (multi : bool) (n : nat)
    (names : list (string * option string)) (ws : list string) (vols : list Q) (i : nat)
    (acc : list (string * list Q)) : res (list (string * list Q)) :=
  match ws, vols with
  | w :: wr, v :: vr =>
      let given := match assoc_get w names with Some (Some s) => Some s | _ => None end in
      if Qeq_bool v 0 then
        match given with
        | Some _ => Err EValue
        | None => initial_composition name multi n names wr vr (S i) acc
        end
      else
        let cname := match given with
                     | Some s => s
                     | None => if multi then (name ++ "." ++ w)%string else name
                     end in
        let arr := match assoc_get cname acc with Some a => a | None => repeat 0%Q n end in
        initial_composition name multi n names wr vr (S i) (assoc_set cname (upd arr i 1%Q) acc)
  | _, _ => Ok acc
  end.

Definition size_ok (p : pyint) : option nat :=
  match p with
  | PInt z => if (1 <=? z)%Z then Some (Z.to_nat z) else None
  | PNotInt => None
  end.

Definition mk_labware (a : lw_args) : res labware :=
  match size_ok (a_rows a), size_ok (a_cols a) with
  | Some rows, Some cols =>
      if (26 <? rows)%nat then Err EValue else
      match xfinite (a_min a), xfinite (a_max a) with
      | Some mn, Some mx =>
          if Qltb mn 0 then Err EValue
          else if Qle_bool mx mn then Err EValue
          else
            let vr := match a_vrows a with
                      | None => Ok None
                      | Some p => if negb (rows =? 1)%nat then Err EValue
                                  else match size_ok p with
                                       | Some v => if (26 <? v)%nat then Err EValue else Ok (Some v)
                                       | None => Err EValue
                                       end
                      end in
            match vr with
            | Err e => Err e
            | Ok vrows =>
                let g := {| g_rows := rows; g_cols := cols; g_vrows := vrows |} in
                let flat := match a_init a with
                            | None => Some (repeat (XQ 0) (rows * cols))
                            | Some (A0 x) => Some (repeat x (rows * cols))
                            | Some (A1 xs) => if (length xs =? rows * cols)%nat then Some xs else None
                            | Some (A2 rs) => if (length (concat rs) =? rows * cols)%nat
                                              then Some (concat rs) else None
                            end in
                match flat with
                | None => Err EValue
                | Some xs =>
                    match all_finite xs with
                    | None => Err EValue
                    | Some vs =>
                        if existsb (fun v => Qltb v 0) vs then Err EValue
                        else if existsb (fun v => Qgtb v mx) vs then Err EValue
                        else
                          let real_ids := concat (map (fun r => map (fun c => well_id r c) (seq 0 cols))
                                                      (seq 0 rows)) in
                          if existsb (fun kn => negb (existsb (String.eqb (fst kn)) real_ids)) (a_names a)
                          then Err EValue
                          else
                            let vs' := map Qred vs in
                            match initial_composition (a_name a) (1 <? rows * cols)%nat (rows * cols)
                                    (a_names a) real_ids vs' 0 [] with
                            | Err e => Err e
                            | Ok comp =>
                                Ok {| lw_name := a_name a; lw_geom := g; lw_min := mn; lw_max := mx;
                                      lw_vols := vs'; lw_comp := comp;
                                      lw_hist := [(Some "initial"%string, vs')] |}
                            end
                    end
                end
            end
      | _, _ => Err EValue
      end
  | _, _ => Err EValue
  end.

(** Trough(...) *)
Inductive colnames := CNone | CStr (s : string) | CList (l : list (option string)).

Record trough_args := {
  t_name : string;
  t_vrows : pyint;
  t_cols : pyint;
  t_min : xnum;
  t_max : xnum;
  t_init : arr xnum;                 (* scalar or per-column list (a 2-D argument has the wrong shape) *)
  t_colnames : colnames
}.

Definition xnum_is_zero (x : xnum) : bool := match x with XQ v => Qeq_bool v 0 | _ => false end.
Definition xnum_pos (x : xnum) : bool := match x with XQ v => Qltb 0 v | XPInf => true | _ => false end.

Fixpoint trough_names (name : string) (multi : bool) (c : nat)
    (cn : list (option string)) (iv : list xnum) : list (string * option string) :=
  match cn, iv with
  | n :: nr, v :: vr =>
      let cname := match n with
                   | Some s => Some s
                   | None => if xnum_pos v
                             then Some (if multi then (name ++ ".column_" ++ pad2 (c + 1))%string else name)
                             else None
                   end in
      (well_id 0 c, cname) :: trough_names name multi (S c) nr vr
  | _, _ => []
  end.

Definition mk_trough (a : trough_args) : res labware :=
  match t_cols a with
  | PNotInt => Err EValue
  | PInt zc =>
      let ncol := Z.to_nat zc in
      let cn := match t_colnames a with
                | CNone => repeat None ncol
                | CStr s => [Some s]
                | CList l => l
                end in
      let iv := match t_init a with
                | A0 x => Some (repeat x ncol)
                | A1 xs => Some xs
                | A2 _ => None
                end in
      match iv with
      | None => Err EValue
      | Some ivs =>
          if (zc <? 0)%Z then Err EValue
          else if negb (length cn =? ncol)%nat then Err EValue
          else if negb (length ivs =? ncol)%nat then Err EValue
          else if existsb (fun p => match fst p with Some _ => xnum_is_zero (snd p) | None => false end)
                          (zip cn ivs) then Err EValue
          else
            mk_labware {| a_name := t_name a; a_rows := PInt 1; a_cols := t_cols a;
                          a_min := t_min a; a_max := t_max a;
                          a_init := Some (A1 ivs);
                          a_vrows := Some (t_vrows a);
                          a_names := trough_names (t_name a) (1 <? ncol)%nat 0 cn ivs |}
      end
  end.
