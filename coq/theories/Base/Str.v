(** Strings, number printing and parsing as the Python code does it
    (f-strings with [:02d], [:.2f], [repr(float)], [str.split], [str.strip], [str.join]). *)
From Robo Require Import Prelude.
From Coq Require Import DecimalString DecimalN.

#[local] Open Scope string_scope.

(** decimal printing of naturals: stdlib decimal conversion, so the stdlib round-trip lemmas apply *)
Definition decN (n : N) : string := NilEmpty.string_of_uint (N.to_uint n).
Definition dec (n : nat) : string := decN (N.of_nat n).
Definition decZ (z : Z) : string :=
  match z with
  | Zneg p => String "-" (decN (Npos p))
  | _ => decN (Z.to_N z)
  end.
Definition parse_decN (s : string) : option N :=
  match s with
  | EmptyString => None
  | _ => match NilEmpty.uint_of_string s with Some d => Some (N.of_uint d) | None => None end
  end.

(** [f"{n:02d}"] *)
Definition pad2N (n : N) : string := if (n <? 10)%N then String "0" (decN n) else decN n.
Definition pad2 (n : nat) : string := pad2N (N.of_nat n).

(** the 26 row letters *)
Definition row_letter (r : nat) : ascii := ascii_of_nat (65 + r).
Definition well_id (r c : nat) : string := String (row_letter r) (pad2 (c + 1)).

(** character classes of the well-id regex [^([a-zA-Z]+?)(\d+?)$] (ASCII part of Latin-1) *)
Definition is_digit (a : ascii) : bool := let n := nat_of_ascii a in ((48 <=? n) && (n <=? 57))%nat.
Definition is_letter (a : ascii) : bool :=
  let n := nat_of_ascii a in (((65 <=? n) && (n <=? 90)) || ((97 <=? n) && (n <=? 122)))%nat.
Fixpoint all_digits (s : string) : bool :=
  match s with EmptyString => true | String a r => is_digit a && all_digits r end.
Fixpoint split_letters (s : string) : string * string :=
  match s with
  | EmptyString => (EmptyString, EmptyString)
  | String a r => if is_letter a then let '(l, d) := split_letters r in (String a l, d)
                  else (EmptyString, s)
  end.
(** the regex match: Some (letters, int(digits)) *)
Definition parse_id (s : string) : option (string * N) :=
  let '(l, d) := split_letters s in
  match l, d with
  | EmptyString, _ => None
  | _, EmptyString => None
  | _, _ => if all_digits d then match parse_decN d with Some n => Some (l, n) | None => None end
            else None
  end.

(** generic string helpers *)
Fixpoint contains_char (c : ascii) (s : string) : bool :=
  match s with EmptyString => false | String a r => Ascii.eqb a c || contains_char c r end.

Fixpoint split_on_aux (c : ascii) (s : string) (cur : string) : list string :=
  match s with
  | EmptyString => [cur]
  | String a r => if Ascii.eqb a c then cur :: split_on_aux c r EmptyString
                  else split_on_aux c r (cur ++ String a EmptyString)
  end.
(** [s.split(c)] for a one-character separator *)
Definition split_on (c : ascii) (s : string) : list string := split_on_aux c s EmptyString.

Fixpoint join (sep : string) (l : list string) : string :=
  match l with
  | [] => EmptyString
  | [x] => x
  | x :: r => x ++ sep ++ join sep r
  end.

(** the characters [str.strip()] removes, restricted to Latin-1: [c.isspace()] holds for
    \t \n \x0b \x0c \r \x1c-\x1f, the space, \x85 (NEL) and \xa0 (no-break space) *)
Definition py_isspace (a : ascii) : bool :=
  let n := nat_of_ascii a in
  ((9 <=? n) && (n <=? 13) || (28 <=? n) && (n <=? 32) || (n =? 133) || (n =? 160))%nat.
Fixpoint lstrip_sp (s : string) : string :=
  match s with
  | String a r => if py_isspace a then lstrip_sp r else s
  | EmptyString => EmptyString
  end.
Fixpoint rev_string_aux (s acc : string) : string :=
  match s with EmptyString => acc | String a r => rev_string_aux r (String a acc) end.
Definition rev_string (s : string) : string := rev_string_aux s EmptyString.
(** [s.strip()] for Latin-1 strings *)
Definition strip_sp (s : string) : string := rev_string (lstrip_sp (rev_string (lstrip_sp s))).

Definition str_head (s : string) : option ascii :=
  match s with String a _ => Some a | EmptyString => None end.
Definition str_tail (s : string) : string :=
  match s with String _ r => r | EmptyString => EmptyString end.

(** [to_hex] of evotools.utils, recursion on fuel *)
Definition hex_digit (n : N) : ascii :=
  if (n <? 10)%N then ascii_of_N (48 + n) else ascii_of_N (55 + n).
Fixpoint to_hex_fuel (fuel : nat) (n : N) : string :=
  match fuel with
  | O => EmptyString
  | S f => let x := (n mod 16)%N in let rest := (n / 16)%N in
           if (rest =? 0)%N then String (hex_digit x) EmptyString
           else to_hex_fuel f rest ++ String (hex_digit x) EmptyString
  end.
Definition to_hex (n : N) : string := to_hex_fuel (S (N.to_nat (N.log2 n))) n.
(** [f"{s:0>2}"] *)
Definition pad_left0_2 (s : string) : string :=
  match String.length s with
  | 0 => "00"
  | 1 => String "0" s
  | _ => s
  end.

(** rounding to integers: round-half-even, as [numpy.round] / [rint] *)
Definition Qrint (q : Q) : Z :=
  let f := Qfloor q in
  let d := (q - inject_Z f)%Q in
  match Qcompare d (1 # 2) with
  | Lt => f
  | Gt => (f + 1)%Z
  | Eq => if Z.even f then f else (f + 1)%Z
  end.
(** [numpy.round(v, 2)] as a number of hundredths *)
Definition round2c (v : Q) : Z := Qrint (v * 100)%Q.
Definition round1c (v : Q) : Z := Qrint (v * 10)%Q.

(** print [n / 10^k] ([n >= 0]) with exactly [k] fractional digits *)
Definition pad_zeros (k : nat) (s : string) : string :=
  (fix go (n : nat) : string := match n with O => s | S n' => String "0" (go n') end)
    (k - String.length s).
Definition frac_digits (n : N) (k : nat) : string :=
  let s := decN (n mod (10 ^ N.of_nat k))%N in
  pad_zeros k s.
Definition fixed_dec (n : N) (k : nat) : string :=
  decN (n / 10 ^ N.of_nat k)%N ++ "." ++ frac_digits n k.

(** [f"{numpy.round(v, 2):.2f}"] for [v >= 0] *)
Definition fmt2 (v : Q) : string := fixed_dec (Z.to_N (round2c v)) 2.

(** strip trailing zeros of a fractional-digit string, keeping at least one digit *)
Fixpoint rstrip0_rev (s : string) : string :=
  match s with
  | String a r => if Ascii.eqb a "0"%char then
                    match r with EmptyString => s | _ => rstrip0_rev r end
                  else s
  | EmptyString => EmptyString
  end.
Definition rstrip0 (s : string) : string := rev_string (rstrip0_rev (rev_string s)).

(** [repr] of a non-negative float whose value is exactly [n / 10^k] and whose shortest
    round-trip representation is that terminating decimal (DESIGN 3.3) *)
Definition repr_dec (n : N) (k : nat) : string :=
  decN (n / 10 ^ N.of_nat k)%N ++ "." ++
  match k with O => "0" | _ => rstrip0 (frac_digits n k) end.

(** [repr(float)] of a non-negative dyadic rational (exact binary64 value) *)
Definition pyrepr_float (q : Q) : string :=
  let q' := Qred q in
  let k := N.to_nat (N.log2 (Npos (Qden q'))) in
  repr_dec (Z.to_N (Qnum q') * 5 ^ N.of_nat k)%N k.

(** [repr] of [numpy.round(v, 2)] resp. [numpy.round(v, 1)] converted to a Python float / numpy scalar *)
Definition pyrepr_round2 (v : Q) : string := repr_dec (Z.to_N (round2c v)) 2.
Definition pyrepr_round1 (v : Q) : string := repr_dec (Z.to_N (round1c v)) 1.

(** bytes <-> string (for Latin-1 text shipped by the harness) *)
Definition bs (l : list Z) : string :=
  fold_right (fun z s => String (ascii_of_N (Z.to_N z)) s) EmptyString l.
