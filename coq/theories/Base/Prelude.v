(** Common imports and small list helpers shared by the whole development.
    Stdlib only.  [List] is imported last so that unqualified [length], [concat], ...
    are the list versions; string functions are written qualified. *)
From Coq Require Export ZArith NArith QArith Qround Qabs Ascii String Bool Arith Lia List.
Export ListNotations.
#[global] Open Scope nat_scope.

(** Error classes observable at the API (DESIGN section 3.4). *)
Inductive err := EOverflow | EUnderflow | EInvalidOp | EValue | ECompat | EReject.

Definition err_eqb (a b : err) : bool :=
  match a, b with
  | EOverflow, EOverflow | EUnderflow, EUnderflow | EInvalidOp, EInvalidOp
  | EValue, EValue | ECompat, ECompat | EReject, EReject => true
  | _, _ => false
  end.

(** [EReject] in the model means "any exception". *)
Definition err_match (model impl : err) : bool :=
  match model with EReject => true | _ => err_eqb model impl end.

Definition oerr_match (model impl : option err) : bool :=
  match model, impl with
  | None, None => true
  | Some a, Some b => err_match a b
  | _, _ => false
  end.

(** A result type for pure functions that may raise. *)
Inductive res (A : Type) := Ok (a : A) | Err (e : err).
Arguments Ok {A} a.
Arguments Err {A} e.

Definition res_bind {A B} (r : res A) (f : A -> res B) : res B :=
  match r with Ok a => f a | Err e => Err e end.

(** list update *)
Fixpoint upd {A} (l : list A) (i : nat) (x : A) : list A :=
  match l, i with
  | [], _ => []
  | _ :: r, O => x :: r
  | y :: r, S j => y :: upd r j x
  end.

Fixpoint zip {A B} (l1 : list A) (l2 : list B) : list (A * B) :=
  match l1, l2 with
  | a :: r1, b :: r2 => (a, b) :: zip r1 r2
  | _, _ => []
  end.

Fixpoint last_opt {A} (l : list A) : option A :=
  match l with [] => None | [x] => Some x | _ :: r => last_opt r end.

(** numpy-like array arguments: scalar, 1-D, 2-D (list of rows). *)
Inductive arr (A : Type) := A0 (x : A) | A1 (xs : list A) | A2 (rows : list (list A)).
Arguments A0 {A} x.
Arguments A1 {A} xs.
Arguments A2 {A} rows.

(** column-major flattening of a list of rows (rectangular input assumed by the generators;
    on ragged input: heads of the rows that still have elements, as a total function) *)
Fixpoint heads {A} (rows : list (list A)) : list A :=
  match rows with
  | [] => []
  | [] :: r => heads r
  | (x :: _) :: r => x :: heads r
  end.
Fixpoint tails {A} (rows : list (list A)) : list (list A) :=
  match rows with
  | [] => []
  | [] :: r => tails r
  | (_ :: t) :: r => t :: tails r
  end.
Fixpoint colmajor_fuel {A} (fuel : nat) (rows : list (list A)) : list A :=
  match fuel with
  | O => []
  | S f => match heads rows with
           | [] => []
           | hs => hs ++ colmajor_fuel f (tails rows)
           end
  end.
Definition colmajor {A} (rows : list (list A)) : list A :=
  colmajor_fuel (S (fold_right (fun r m => Nat.max (length r) m) 0 rows)) rows.

(** [numpy.array(x).flatten("F")] *)
Definition flattenF {A} (a : arr A) : list A :=
  match a with A0 x => [x] | A1 xs => xs | A2 rows => colmajor rows end.

(** [numpy.array(x).flatten()] (row-major) *)
Definition flattenC {A} (a : arr A) : list A :=
  match a with A0 x => [x] | A1 xs => xs | A2 rows => concat rows end.

(** [if len(v) == 1: v = repeat(v, n)] *)
Definition broadcast {A} (vs : list A) (n : nat) : list A :=
  match vs with [x] => repeat x n | _ => vs end.

(** Q helpers *)
Definition Qltb (a b : Q) : bool := negb (Qle_bool b a).
Definition Qgtb (a b : Q) : bool := negb (Qle_bool a b).
Definition Qsum (l : list Q) : Q := fold_right Qplus 0%Q l.

(** API-boundary numbers: a finite float is a rational; NaN and the infinities are separate. *)
Inductive xnum := XQ (q : Q) | XNaN | XPInf | XNInf.

(** index of the first element satisfying [p] *)
Fixpoint find_index {A} (p : A -> bool) (l : list A) : option nat :=
  match l with
  | [] => None
  | x :: r => if p x then Some 0 else match find_index p r with Some i => Some (S i) | None => None end
  end.

(** insertion sort on integers ([sorted(...)] of a list of ints) *)
Fixpoint insert_Z (x : Z) (l : list Z) : list Z :=
  match l with
  | [] => [x]
  | y :: r => if (y <=? x)%Z then y :: insert_Z x r else x :: l
  end.
Definition sort_Z (l : list Z) : list Z := fold_left (fun acc x => insert_Z x acc) l [].
