(** C02 — volume limits: no operation leaves a well above max_volume / below min_volume / negative;
    an addition that would exceed max_volume raises VolumeOverflowError, a removal that would undercut
    min_volume raises VolumeUnderflowError, the offending well unchanged; directly or through any
    worklist method.  Statements only; proofs live in Proofs/LabwareProofs.v.

    Definitions used (Spec/Invariants.v): [wf_labware L] = [wf_shape L] (well-formed geometry, arrays of
    the right size, non-empty history) and [vol_inv L] (0 <= min < max, every well in [0, max]);
    [wf_state s] = every labware of the state is [wf_labware].
    From Proofs/LabwareProofs.v: [vols_ok_a items] / [vols_ok_r items] = every volume of the loop items
    passes [vol_ok] (what [prep_wells_vols] guarantees); [add_items wv comps] = the loop argument of [add].

    Worklist level (audit item M5; proofs in Proofs/WorklistLevelProofs.v).  For [aspirate], [dispense],
    [evo_aspirate], [evo_dispense], [distribute], [transfer]: (1) POST of an accepted call, (2) the exact
    conditions of VolumeUnderflowError / VolumeOverflowError, in both directions, (3) what a rejected call
    leaves behind.  Definitions used there, stated below in this file: [record_error],
    [remove_underflows_at], [add_overflows_at], [remove_stops_at], [add_stops_at]; from
    Proofs/PlanProofs.v: [t_src] / [t_dst] / [t_vol] / [t_triples] = the broadcast source ids, destination
    ids, volumes of a [transfer] call and their zip; from Proofs/WorklistLevelProofs.v: [dist_src a] = the
    id "A<column+1>" of the source well of [distribute], [transfer_valid] and [dist_ready] = the argument
    checks of [transfer] / [distribute] pass (spelled out in [C02_transfer_valid_def] / [C02_dist_ready_def]),
    [transfer_run] = what [transfer] does after the checks (run the plan with [exec], then condense the
    histories). *)
From Robo Require Import Prelude Str Wells Utils Labware Tips Records Partition Params Worklist EvoCmd
  Program Invariants LabwareProofs PlanProofs WorklistLevelProofs.
#[local] Open Scope Q_scope.

(* ------------------------------------------------------------------ preservation *)

(** [add] keeps the invariant for all arguments, accepted or rejected (partial effects included) *)
Theorem C02_add_preserves : forall L wells vols label comps,
  wf_labware L -> wf_labware (fst (add L wells vols label comps)).
Proof. exact add_wf. Qed.
Print Assumptions C02_add_preserves.

Theorem C02_remove_preserves : forall L wells vols label,
  wf_labware L -> wf_labware (fst (remove L wells vols label)).
Proof. exact remove_wf. Qed.
Print Assumptions C02_remove_preserves.

Theorem C02_condense_preserves : forall L n label,
  wf_labware L -> wf_labware (condense_log L n label).
Proof. exact condense_log_wf. Qed.
Print Assumptions C02_condense_preserves.

(** every operation of a program (add, remove, condense, aspirate, dispense, transfer, distribute, the
    record-only operations, evo_aspirate, evo_dispense, evo_wash), accepted or rejected *)
Theorem C02_step_preserves : forall s o, wf_state s -> wf_state (fst (step s o)).
Proof. exact step_wf. Qed.
Print Assumptions C02_step_preserves.

(** every reachable state: any history of calls, including rejected ones *)
Theorem C02_reachable : forall ops s, wf_state s -> wf_state (fst (run s ops)).
Proof. exact run_wf. Qed.
Print Assumptions C02_reachable.

(** the individual worklist methods *)
Theorem C02_aspirate_preserves : forall s k wells vols label kw,
  wf_state s -> wf_state (fst (aspirate s k wells vols label kw)).
Proof. exact aspirate_wf. Qed.
Print Assumptions C02_aspirate_preserves.

Theorem C02_dispense_preserves : forall s k wells vols label comps kw,
  wf_state s -> wf_state (fst (dispense s k wells vols label comps kw)).
Proof. exact dispense_wf. Qed.
Print Assumptions C02_dispense_preserves.

Theorem C02_transfer_preserves : forall s ks sw kd dw vols label ws pb kw,
  wf_state s -> wf_state (fst (transfer s ks sw kd dw vols label ws pb kw)).
Proof. exact transfer_wf. Qed.
Print Assumptions C02_transfer_preserves.

Theorem C02_distribute_preserves : forall s ks kd dwells a,
  wf_state s -> wf_state (fst (distribute s ks kd dwells a)).
Proof. exact distribute_wf. Qed.
Print Assumptions C02_distribute_preserves.

Theorem C02_evo_aspirate_preserves : forall s k a label,
  wf_state s -> wf_state (fst (evo_aspirate s k a label)).
Proof. exact evo_aspirate_wf. Qed.
Print Assumptions C02_evo_aspirate_preserves.

Theorem C02_evo_dispense_preserves : forall s k a label comps,
  wf_state s -> wf_state (fst (evo_dispense s k a label comps)).
Proof. exact evo_dispense_wf. Qed.
Print Assumptions C02_evo_dispense_preserves.

(* ------------------------------------------------------------------ post-conditions of accepted calls *)

(** after an accepted [add] every addressed well exists and holds at most max_volume; limits and geometry
    are unchanged *)
Theorem C02_add_post : forall L wells vols label comps L',
  add L wells vols label comps = (L', None) -> wf_labware L ->
  lw_geom L' = lw_geom L /\ lw_min L' = lw_min L /\ lw_max L' = lw_max L /\
  forall w, In w (flattenF wells) ->
    exists i, lw_index L' w = Some i /\ (i < length (lw_vols L'))%nat /\
              0 <= vol_at L' i /\ vol_at L' i <= lw_max L'.
Proof. exact add_post. Qed.
Print Assumptions C02_add_post.

(** after an accepted [remove] every addressed well holds at least min_volume *)
Theorem C02_remove_post : forall L wells vols label L',
  remove L wells vols label = (L', None) -> wf_labware L ->
  lw_geom L' = lw_geom L /\ lw_min L' = lw_min L /\ lw_max L' = lw_max L /\
  forall w, In w (flattenF wells) ->
    exists i, lw_index L' w = Some i /\ (i < length (lw_vols L'))%nat /\
              lw_min L <= vol_at L' i /\ vol_at L' i <= lw_max L.
Proof. exact remove_post. Qed.
Print Assumptions C02_remove_post.

(* ------------------------------------------------------------------ exact error conditions *)

(** VolumeOverflowError is raised exactly at the first element that is infinite or does not fit; [L'] is
    the state reached by the accepted prefix, so the offending well (and every later one) is unchanged by
    the rejected element.  For the validated volumes that [add] passes to the loop. *)
Theorem C02_overflow_exact : forall L items L', vols_ok_a items ->
  (add_loop L items = (L', Some EOverflow) <->
   exists pre w x oc post i,
     items = (pre ++ (w, x, oc) :: post)%list /\ add_loop L pre = (L', None) /\
     lw_index L' w = Some i /\
     (x = XPInf \/ exists v, x = XQ v /\ lw_max L < vol_at L' i + v)).
Proof. exact add_loop_overflow_exact. Qed.
Print Assumptions C02_overflow_exact.

(** without the validation hypothesis the same right-hand side is too narrow: a NaN that reached the loop
    would be reported as an overflow (it never does: see [C02_add_bad_volume]) *)
Theorem C02_overflow_exact_unguarded_refuted :
  exists L items L',
    add_loop L items = (L', Some EOverflow) /\
    ~ (exists pre w x oc post i,
         items = (pre ++ (w, x, oc) :: post)%list /\ add_loop L pre = (L', None) /\
         lw_index L' w = Some i /\
         (x = XPInf \/ exists v, x = XQ v /\ lw_max L < vol_at L' i + v)).
Proof. exact add_loop_overflow_unguarded_refuted. Qed.
Print Assumptions C02_overflow_exact_unguarded_refuted.

(** the characterisation for all inputs of the loop: "not a finite number, or does not fit" *)
Theorem C02_overflow_exact_general : forall L items L',
  add_loop L items = (L', Some EOverflow) <->
  exists pre w x oc post i,
    items = (pre ++ (w, x, oc) :: post)%list /\ add_loop L pre = (L', None) /\
    lw_index L' w = Some i /\
    match x with XQ v => lw_max L < vol_at L' i + v | _ => True end.
Proof. exact add_loop_overflow_general. Qed.
Print Assumptions C02_overflow_exact_general.

Theorem C02_underflow_exact : forall L items L', vols_ok_r items ->
  (remove_loop L items = (L', Some EUnderflow) <->
   exists pre w x post i,
     items = (pre ++ (w, x) :: post)%list /\ remove_loop L pre = (L', None) /\
     lw_index L' w = Some i /\
     (x = XPInf \/ exists v, x = XQ v /\ vol_at L' i - v < lw_min L)).
Proof. exact remove_loop_underflow_exact. Qed.
Print Assumptions C02_underflow_exact.

Theorem C02_underflow_exact_unguarded_refuted :
  exists L items L',
    remove_loop L items = (L', Some EUnderflow) /\
    ~ (exists pre w x post i,
         items = (pre ++ (w, x) :: post)%list /\ remove_loop L pre = (L', None) /\
         lw_index L' w = Some i /\
         (x = XPInf \/ exists v, x = XQ v /\ vol_at L' i - v < lw_min L)).
Proof. exact remove_loop_underflow_unguarded_refuted. Qed.
Print Assumptions C02_underflow_exact_unguarded_refuted.

Theorem C02_underflow_exact_general : forall L items L',
  remove_loop L items = (L', Some EUnderflow) <->
  exists pre w x post i,
    items = (pre ++ (w, x) :: post)%list /\ remove_loop L pre = (L', None) /\
    lw_index L' w = Some i /\
    match x with XQ v => vol_at L' i - v < lw_min L | _ => True end.
Proof. exact remove_loop_underflow_general. Qed.
Print Assumptions C02_underflow_exact_general.

(** the same at the level of the calls: a call rejected with VolumeOverflowError returns the state reached
    by the accepted prefix of its (well, volume) pairs, in which the next pair does not fit *)
Theorem C02_add_overflow : forall L wells vols label comps L',
  add L wells vols label comps = (L', Some EOverflow) ->
  exists wv pre w x oc post i,
    prep_wells_vols wells vols = Ok wv /\
    add_items wv comps = (pre ++ (w, x, oc) :: post)%list /\ add_loop L pre = (L', None) /\
    lw_index L' w = Some i /\
    (x = XPInf \/ exists v, x = XQ v /\ 0 <= v /\ lw_max L < vol_at L' i + v).
Proof. exact add_overflow. Qed.
Print Assumptions C02_add_overflow.

Theorem C02_remove_underflow : forall L wells vols label L',
  remove L wells vols label = (L', Some EUnderflow) ->
  exists wv pre w x post i,
    prep_wells_vols wells vols = Ok wv /\
    wv = (pre ++ (w, x) :: post)%list /\ remove_loop L pre = (L', None) /\
    lw_index L' w = Some i /\
    (x = XPInf \/ exists v, x = XQ v /\ 0 <= v /\ vol_at L' i - v < lw_min L).
Proof. exact remove_underflow. Qed.
Print Assumptions C02_remove_underflow.

(** error classes: an addition never raises VolumeUnderflowError, a removal never VolumeOverflowError *)
Theorem C02_add_loop_errors : forall L items L' e,
  add_loop L items = (L', Some e) -> e = EOverflow \/ e = EReject.
Proof. exact add_loop_errors. Qed.
Print Assumptions C02_add_loop_errors.

Theorem C02_remove_loop_errors : forall L items L' e,
  remove_loop L items = (L', Some e) -> e = EUnderflow \/ e = EReject.
Proof. exact remove_loop_errors. Qed.
Print Assumptions C02_remove_loop_errors.

Theorem C02_add_errors : forall L wells vols label comps L' e,
  add L wells vols label comps = (L', Some e) -> e = EOverflow \/ e = EReject.
Proof. exact add_errors. Qed.
Print Assumptions C02_add_errors.

Theorem C02_remove_errors : forall L wells vols label L' e,
  remove L wells vols label = (L', Some e) -> e = EUnderflow \/ e = EReject.
Proof. exact remove_errors. Qed.
Print Assumptions C02_remove_errors.

(** NaN, -inf and negative volumes are refused before any effect *)
Theorem C02_vol_ok_false : forall x,
  vol_ok x = false <-> x = XNaN \/ x = XNInf \/ exists v, x = XQ v /\ v < 0.
Proof. exact vol_ok_false_cases. Qed.
Print Assumptions C02_vol_ok_false.

Theorem C02_add_bad_volume : forall L wells vols label comps,
  (exists x, In x (broadcast (flattenF vols) (length (flattenF wells))) /\ vol_ok x = false) ->
  add L wells vols label comps = (L, Some EReject).
Proof. exact add_bad_volume. Qed.
Print Assumptions C02_add_bad_volume.

Theorem C02_remove_bad_volume : forall L wells vols label,
  (exists x, In x (broadcast (flattenF vols) (length (flattenF wells))) /\ vol_ok x = false) ->
  remove L wells vols label = (L, Some EReject).
Proof. exact remove_bad_volume. Qed.
Print Assumptions C02_remove_bad_volume.

(* ================================================================== worklist level (M5) *)

(** errors of the record-writing part of a call (positions, texts, tips, max_volume of the worklist):
    never a volume-limit error *)
Definition record_error (e : err) : Prop := e = EReject \/ e = EInvalidOp \/ e = ECompat.

(** VolumeUnderflowError of a removal: the arguments passed validation, [L'] is the labware after the
    accepted prefix [pre] of the (well, volume) pairs, and the next pair does not fit in [L'] *)
Definition remove_underflows_at (L : labware) (wells : arr string) (vols : arr xnum) (L' : labware) : Prop :=
  exists pre w x post i,
    prep_wells_vols wells vols = Ok (pre ++ (w, x) :: post)%list /\ remove_loop L pre = (L', None) /\
    lw_index L' w = Some i /\
    (x = XPInf \/ exists v, x = XQ v /\ 0 <= v /\ vol_at L' i - v < lw_min L).

(** VolumeOverflowError of an addition ([comps_of wv comps] = the compositions paired with the wells) *)
Definition add_overflows_at (L : labware) (wells : arr string) (vols : arr xnum)
    (comps : option (list (option composition))) (L' : labware) : Prop :=
  exists wv pre w x oc post i,
    prep_wells_vols wells vols = Ok wv /\ length (comps_of wv comps) = length wv /\
    add_items wv comps = (pre ++ (w, x, oc) :: post)%list /\ add_loop L pre = (L', None) /\
    lw_index L' w = Some i /\
    (x = XPInf \/ exists v, x = XQ v /\ 0 <= v /\ lw_max L < vol_at L' i + v).

(** any rejection of a removal with error [e]: either the arguments are refused and nothing happens, or
    the pairs [pre] before the refused one [it] have been applied *)
Definition remove_stops_at (L : labware) (wells : arr string) (vols : arr xnum) (L' : labware) (e : err)
    : Prop :=
  (prep_wells_vols wells vols = Err EReject /\ L' = L /\ e = EReject) \/
  exists pre it post,
    prep_wells_vols wells vols = Ok (pre ++ it :: post)%list /\ remove_loop L pre = (L', None) /\
    remove_loop L' [it] = (L', Some e).

Definition add_stops_at (L : labware) (wells : arr string) (vols : arr xnum)
    (comps : option (list (option composition))) (L' : labware) (e : err) : Prop :=
  (prep_wells_vols wells vols = Err EReject /\ L' = L /\ e = EReject) \/
  (exists wv, prep_wells_vols wells vols = Ok wv /\ length (comps_of wv comps) <> length wv /\
              L' = L /\ e = EReject) \/
  exists wv pre it post,
    prep_wells_vols wells vols = Ok wv /\ length (comps_of wv comps) = length wv /\
    add_items wv comps = (pre ++ it :: post)%list /\ add_loop L pre = (L', None) /\
    add_loop L' [it] = (L', Some e).

(** these predicates are exactly the rejections of the direct calls *)
Theorem C02_remove_underflow_iff : forall L wells vols label L',
  remove L wells vols label = (L', Some EUnderflow) <-> remove_underflows_at L wells vols L'.
Proof. exact remove_underflow_iff. Qed.
Print Assumptions C02_remove_underflow_iff.

Theorem C02_add_overflow_iff : forall L wells vols label comps L',
  add L wells vols label comps = (L', Some EOverflow) <-> add_overflows_at L wells vols comps L'.
Proof. exact add_overflow_iff. Qed.
Print Assumptions C02_add_overflow_iff.

Theorem C02_remove_rejected_iff : forall L wells vols label L' e,
  remove L wells vols label = (L', Some e) <-> remove_stops_at L wells vols L' e.
Proof. exact remove_stopped_iff. Qed.
Print Assumptions C02_remove_rejected_iff.

Theorem C02_add_rejected_iff : forall L wells vols label comps L' e,
  add L wells vols label comps = (L', Some e) <-> add_stops_at L wells vols comps L' e.
Proof. exact add_stopped_iff. Qed.
Print Assumptions C02_add_rejected_iff.

(** the two argument-check predicates of Proofs/WorklistLevelProofs.v, spelled out (definitional) *)
Theorem C02_transfer_valid_def : forall s ks kd swells dwells vols label pb Ls Ld mode w,
  transfer_valid s ks kd swells dwells vols label pb Ls Ld mode w <->
  (w_dev (st_wl s) <> BaseDev /\
   nth_error (st_lw s) ks = Some Ls /\ nth_error (st_lw s) kd = Some Ld /\
   length (t_src swells dwells vols) = length (t_dst swells dwells vols) /\
   length (t_dst swells dwells vols) = length (t_vol swells dwells vols) /\
   (forall v, In v (t_vol swells dwells vols) -> 0 <= v) /\
   (forall x, In x (t_src swells dwells vols) -> lw_index Ls x <> None) /\
   (forall x, In x (t_dst swells dwells vols) -> lw_index Ld x <> None) /\
   optimize_partition_by (is_trough (lw_geom Ls)) (is_trough (lw_geom Ld)) pb = Ok mode /\
   comment (st_wl s) label = (w, None)).
Proof. exact transfer_valid_def. Qed.
Print Assumptions C02_transfer_valid_def.

Theorem C02_dist_ready_def : forall s ks kd dwells a Ls Ld v,
  dist_ready s ks kd dwells a Ls Ld v <->
  (wf_state s /\ w_dev (st_wl s) <> BaseDev /\
   nth_error (st_lw s) ks = Some Ls /\ nth_error (st_lw s) kd = Some Ld /\
   g_vrows (lw_geom Ls) <> None /\ rvol_x (d_volume a) = Some (XQ v) /\ v <= w_max (st_wl s) /\
   flattenF dwells <> [] /\ (forall w, In w (flattenF dwells) -> lw_index Ld w <> None) /\
   (Z.to_nat (d_source_column a) < g_cols (lw_geom Ls))%nat).
Proof. exact dist_ready_def. Qed.
Print Assumptions C02_dist_ready_def.

(** the arguments of [transfer] that are refused leave the state alone: [transfer_valid] holds for every call
    that got past the checks (converse: [transfer_valid] implies the call runs its plan) *)
Theorem C02_transfer_cases : forall s ks kd swells dwells vols label ws pb kw s' e,
  transfer s ks swells kd dwells vols label ws pb kw = (s', e) ->
  (s' = s /\ (e = Some EReject \/ e = Some ECompat)) \/
  exists Ls Ld mode w,
    transfer_valid s ks kd swells dwells vols label pb Ls Ld mode w /\
    transfer_run s ks kd swells dwells vols label ws kw mode w = (s', e).
Proof. exact transfer_cases. Qed.
Print Assumptions C02_transfer_cases.

Theorem C02_transfer_valid_runs : forall s ks kd swells dwells vols label ws pb kw Ls Ld mode w,
  transfer_valid s ks kd swells dwells vols label pb Ls Ld mode w ->
  transfer s ks swells kd dwells vols label ws pb kw
  = transfer_run s ks kd swells dwells vols label ws kw mode w.
Proof. exact transfer_valid_eq. Qed.
Print Assumptions C02_transfer_valid_runs.

(* ------------------------------------------------------------------ (1) POST of accepted worklist calls *)

(** [aspirate]: every addressed well exists and holds between min_volume and max_volume *)
Theorem C02_aspirate_post : forall s k wells vols label kw s',
  aspirate s k wells vols label kw = (s', None) -> wf_state s ->
  exists L L', nth_error (st_lw s) k = Some L /\ nth_error (st_lw s') k = Some L' /\
    lw_geom L' = lw_geom L /\ lw_min L' = lw_min L /\ lw_max L' = lw_max L /\
    forall w, In w (flattenF wells) ->
      exists i, lw_index L' w = Some i /\ (i < length (lw_vols L'))%nat /\
                lw_min L' <= vol_at L' i /\ vol_at L' i <= lw_max L'.
Proof. exact aspirate_post. Qed.
Print Assumptions C02_aspirate_post.

Theorem C02_evo_aspirate_post : forall s k a label s',
  evo_aspirate s k a label = (s', None) -> wf_state s ->
  exists L L', nth_error (st_lw s) k = Some L /\ nth_error (st_lw s') k = Some L' /\
    lw_geom L' = lw_geom L /\ lw_min L' = lw_min L /\ lw_max L' = lw_max L /\
    forall w, In w (flattenF (c_wells a)) ->
      exists i, lw_index L' w = Some i /\ (i < length (lw_vols L'))%nat /\
                lw_min L' <= vol_at L' i /\ vol_at L' i <= lw_max L'.
Proof. exact evo_aspirate_post. Qed.
Print Assumptions C02_evo_aspirate_post.

(** [dispense]: every addressed well exists and holds between 0 and max_volume *)
Theorem C02_dispense_post : forall s k wells vols label comps kw s',
  dispense s k wells vols label comps kw = (s', None) -> wf_state s ->
  exists L L', nth_error (st_lw s) k = Some L /\ nth_error (st_lw s') k = Some L' /\
    lw_geom L' = lw_geom L /\ lw_min L' = lw_min L /\ lw_max L' = lw_max L /\
    forall w, In w (flattenF wells) ->
      exists i, lw_index L' w = Some i /\ (i < length (lw_vols L'))%nat /\
                0 <= vol_at L' i /\ vol_at L' i <= lw_max L'.
Proof. exact dispense_post. Qed.
Print Assumptions C02_dispense_post.

Theorem C02_evo_dispense_post : forall s k a label comps s',
  evo_dispense s k a label comps = (s', None) -> wf_state s ->
  exists L L', nth_error (st_lw s) k = Some L /\ nth_error (st_lw s') k = Some L' /\
    lw_geom L' = lw_geom L /\ lw_min L' = lw_min L /\ lw_max L' = lw_max L /\
    forall w, In w (flattenF (c_wells a)) ->
      exists i, lw_index L' w = Some i /\ (i < length (lw_vols L'))%nat /\
                0 <= vol_at L' i /\ vol_at L' i <= lw_max L'.
Proof. exact evo_dispense_post. Qed.
Print Assumptions C02_evo_dispense_post.

(** the lower bound min_volume is a property of removals only: after an accepted [dispense] an addressed
    well may still be below min_volume (a well that started below it) *)
Theorem C02_dispense_post_min_refuted :
  exists s k wells vols label comps kw s',
    dispense s k wells vols label comps kw = (s', None) /\ wf_state s /\
    ~ (exists L L', nth_error (st_lw s) k = Some L /\ nth_error (st_lw s') k = Some L' /\
         lw_geom L' = lw_geom L /\ lw_min L' = lw_min L /\ lw_max L' = lw_max L /\
         forall w, In w (flattenF wells) ->
           exists i, lw_index L' w = Some i /\ (i < length (lw_vols L'))%nat /\
                     lw_min L' <= vol_at L' i /\ vol_at L' i <= lw_max L').
Proof. exact dispense_post_min_refuted. Qed.
Print Assumptions C02_dispense_post_min_refuted.

(** [distribute]: the source well (labware [ks]) is still at or above min_volume and every destination well
    (labware [kd]) within [0, max_volume]; [Lsf], [Ldf] are the two labware after the call *)
Theorem C02_distribute_post : forall s ks kd dwells a s',
  distribute s ks kd dwells a = (s', None) -> wf_state s ->
  exists Ls Ld Lsf Ldf,
    nth_error (st_lw s) ks = Some Ls /\ nth_error (st_lw s) kd = Some Ld /\
    nth_error (st_lw s') ks = Some Lsf /\ nth_error (st_lw s') kd = Some Ldf /\
    (lw_geom Lsf = lw_geom Ls /\ lw_min Lsf = lw_min Ls /\ lw_max Lsf = lw_max Ls) /\
    (lw_geom Ldf = lw_geom Ld /\ lw_min Ldf = lw_min Ld /\ lw_max Ldf = lw_max Ld) /\
    (exists i, lw_index Lsf (dist_src a) = Some i /\ (i < length (lw_vols Lsf))%nat /\
               lw_min Lsf <= vol_at Lsf i /\ vol_at Lsf i <= lw_max Lsf) /\
    forall w, In w (flattenF dwells) ->
      exists i, lw_index Ldf w = Some i /\ (i < length (lw_vols Ldf))%nat /\
                0 <= vol_at Ldf i /\ vol_at Ldf i <= lw_max Ldf.
Proof. exact distribute_post. Qed.
Print Assumptions C02_distribute_post.

(** [transfer]: all source and destination wells exist and are within [0, max_volume]; every source well
    from which a positive volume was requested is at or above min_volume (a request of volume 0 plans no
    step; with auto_split the plan needs a positive max_volume, see C14_transfer_ledger_refuted) *)
Theorem C02_transfer_post : forall s ks kd swells dwells vols label ws pb kw s',
  transfer s ks swells kd dwells vols label ws pb kw = (s', None) -> wf_state s ->
  exists Ls Ld Lsf Ldf,
    nth_error (st_lw s) ks = Some Ls /\ nth_error (st_lw s) kd = Some Ld /\
    nth_error (st_lw s') ks = Some Lsf /\ nth_error (st_lw s') kd = Some Ldf /\
    (lw_geom Lsf = lw_geom Ls /\ lw_min Lsf = lw_min Ls /\ lw_max Lsf = lw_max Ls) /\
    (lw_geom Ldf = lw_geom Ld /\ lw_min Ldf = lw_min Ld /\ lw_max Ldf = lw_max Ld) /\
    (forall x, In x (t_src swells dwells vols) ->
       exists i, lw_index Lsf x = Some i /\ (i < length (lw_vols Lsf))%nat /\
                 0 <= vol_at Lsf i /\ vol_at Lsf i <= lw_max Lsf) /\
    (forall x, In x (t_dst swells dwells vols) ->
       exists i, lw_index Ldf x = Some i /\ (i < length (lw_vols Ldf))%nat /\
                 0 <= vol_at Ldf i /\ vol_at Ldf i <= lw_max Ldf) /\
    (w_autosplit (st_wl s) = false \/ 0 < w_max (st_wl s) ->
     forall sw dw v, In (sw, dw, v) (t_triples swells dwells vols) -> 0 < v ->
       exists i, lw_index Lsf sw = Some i /\ lw_min Lsf <= vol_at Lsf i).
Proof. exact transfer_post. Qed.
Print Assumptions C02_transfer_post.

(** limits, geometry, names and array sizes never change, whatever the outcome ([lims L] = these five) *)
Theorem C02_transfer_limits_unchanged : forall s ks kd swells dwells vols label ws pb kw s' e,
  transfer s ks swells kd dwells vols label ws pb kw = (s', e) ->
  map (fun L => (lw_name L, lw_geom L, lw_min L, lw_max L, length (lw_vols L))) (st_lw s') =
  map (fun L => (lw_name L, lw_geom L, lw_min L, lw_max L, length (lw_vols L))) (st_lw s).
Proof. exact transfer_lims. Qed.
Print Assumptions C02_transfer_limits_unchanged.

(* ------------------------------------------------------------------ (2) exact error conditions, worklist level *)

(** [aspirate] raises VolumeUnderflowError exactly when the direct removal on labware [k] does; the state is
    then the one with the accepted prefix applied ([set_lw s k L']: worklist and other labware untouched).
    Argument validation comes first: the right-hand side contains [prep_wells_vols ... = Ok ...]. *)
Theorem C02_aspirate_underflow : forall s k wells vols label kw s' L,
  nth_error (st_lw s) k = Some L ->
  (aspirate s k wells vols label kw = (s', Some EUnderflow) <->
   exists L', remove_underflows_at L wells vols L' /\ s' = set_lw s k L').
Proof. exact aspirate_underflow_iff. Qed.
Print Assumptions C02_aspirate_underflow.

Theorem C02_evo_aspirate_underflow : forall s k a label s' L,
  nth_error (st_lw s) k = Some L ->
  (evo_aspirate s k a label = (s', Some EUnderflow) <->
   exists L', remove_underflows_at L (c_wells a) (evo_vols (c_volume a)) L' /\ s' = set_lw s k L').
Proof. exact evo_aspirate_underflow_iff. Qed.
Print Assumptions C02_evo_aspirate_underflow.

Theorem C02_dispense_overflow : forall s k wells vols label comps kw s' L,
  nth_error (st_lw s) k = Some L ->
  (dispense s k wells vols label comps kw = (s', Some EOverflow) <->
   exists L', add_overflows_at L wells vols comps L' /\ s' = set_lw s k L').
Proof. exact dispense_overflow_iff. Qed.
Print Assumptions C02_dispense_overflow.

Theorem C02_evo_dispense_overflow : forall s k a label comps s' L,
  nth_error (st_lw s) k = Some L ->
  (evo_dispense s k a label comps = (s', Some EOverflow) <->
   exists L', add_overflows_at L (c_wells a) (evo_vols (c_volume a)) comps L' /\ s' = set_lw s k L').
Proof. exact evo_dispense_overflow_iff. Qed.
Print Assumptions C02_evo_dispense_overflow.

(** error classes: a removing call never raises VolumeOverflowError, an adding call never
    VolumeUnderflowError *)
Theorem C02_aspirate_no_overflow : forall s k wells vols label kw,
  snd (aspirate s k wells vols label kw) <> Some EOverflow.
Proof. exact aspirate_no_overflow. Qed.
Print Assumptions C02_aspirate_no_overflow.

Theorem C02_evo_aspirate_no_overflow : forall s k a label,
  snd (evo_aspirate s k a label) <> Some EOverflow.
Proof. exact evo_aspirate_no_overflow. Qed.
Print Assumptions C02_evo_aspirate_no_overflow.

Theorem C02_dispense_no_underflow : forall s k wells vols label comps kw,
  snd (dispense s k wells vols label comps kw) <> Some EUnderflow.
Proof. exact dispense_no_underflow. Qed.
Print Assumptions C02_dispense_no_underflow.

Theorem C02_evo_dispense_no_underflow : forall s k a label comps,
  snd (evo_dispense s k a label comps) <> Some EUnderflow.
Proof. exact evo_dispense_no_underflow. Qed.
Print Assumptions C02_evo_dispense_no_underflow.

(** [distribute], VolumeUnderflowError: nothing has happened, and the source well does not hold
    n * v above its minimum (n = number of destination ids, v = the volume per destination) *)
Theorem C02_distribute_underflow : forall s ks kd dwells a s',
  distribute s ks kd dwells a = (s', Some EUnderflow) ->
  s' = s /\
  exists Ls v i, nth_error (st_lw s) ks = Some Ls /\ rvol_x (d_volume a) = Some (XQ v) /\
    lw_index Ls (dist_src a) = Some i /\
    vol_at Ls i - inject_Z (Z.of_nat (length (flattenF dwells))) * v < lw_min Ls.
Proof. exact distribute_underflow. Qed.
Print Assumptions C02_distribute_underflow.

(** the converse, given that the argument checks pass ([dist_ready]) and the volume is not negative *)
Theorem C02_distribute_underflow_conv : forall s ks kd dwells a Ls Ld v i,
  dist_ready s ks kd dwells a Ls Ld v -> 0 <= v -> lw_index Ls (dist_src a) = Some i ->
  vol_at Ls i - inject_Z (Z.of_nat (length (flattenF dwells))) * v < lw_min Ls ->
  distribute s ks kd dwells a = (s, Some EUnderflow).
Proof. exact distribute_underflow_conv. Qed.
Print Assumptions C02_distribute_underflow_conv.

(** [distribute], VolumeOverflowError: the source has been drained by n * v and its history entry written
    ([Ls']), the destinations before the offending one have been filled ([Ld']), no record is written *)
Theorem C02_distribute_overflow : forall s ks kd dwells a s',
  distribute s ks kd dwells a = (s', Some EOverflow) ->
  exists Ls Ld v Ls' c Ld1 Ld',
    nth_error (st_lw s) ks = Some Ls /\ nth_error (st_lw s) kd = Some Ld /\
    rvol_x (d_volume a) = Some (XQ v) /\
    remove Ls (A0 (dist_src a)) (A0 (xmul_nat (XQ v) (length (flattenF dwells)))) (d_label a) = (Ls', None) /\
    nth_error (st_lw (set_lw s ks Ls')) kd = Some Ld1 /\
    add_overflows_at Ld1 (A1 (flattenF dwells)) (A0 (XQ v))
                     (Some (repeat (Some c) (length (flattenF dwells)))) Ld' /\
    s' = set_lw (set_lw s ks Ls') kd Ld'.
Proof. exact distribute_overflow. Qed.
Print Assumptions C02_distribute_overflow.

Theorem C02_distribute_overflow_conv : forall s ks kd dwells a Ls Ld v Ls' i Ld1 Ld',
  dist_ready s ks kd dwells a Ls Ld v ->
  remove Ls (A0 (dist_src a)) (A0 (xmul_nat (XQ v) (length (flattenF dwells)))) (d_label a) = (Ls', None) ->
  lw_index Ls' (dist_src a) = Some i ->
  nth_error (st_lw (set_lw s ks Ls')) kd = Some Ld1 ->
  add_overflows_at Ld1 (A1 (flattenF dwells)) (A0 (XQ v))
                   (Some (repeat (Some (well_composition_at Ls' i)) (length (flattenF dwells)))) Ld' ->
  distribute s ks kd dwells a = (set_lw (set_lw s ks Ls') kd Ld', Some EOverflow).
Proof. exact distribute_overflow_conv. Qed.
Print Assumptions C02_distribute_overflow_conv.

(** [transfer], VolumeUnderflowError, both directions: the arguments were accepted ([transfer_valid]), [s']
    is the state after the planned steps [pre] before the offending one (their liquid moved, their records
    written), and in [s'] the source well of the next step holds less than min_volume + its volume *)
Theorem C02_transfer_underflow : forall s ks kd swells dwells vols label ws pb kw s',
  transfer s ks swells kd dwells vols label ws pb kw = (s', Some EUnderflow) <->
  exists Ls Ld mode w pre sw dw v post L i,
    transfer_valid s ks kd swells dwells vols label pb Ls Ld mode w /\
    plan (w_autosplit w) (w_max w) mode (t_triples swells dwells vols)
      = (pre ++ Step sw dw v :: post)%list /\
    exec (set_wl s w) ks kd pre ws kw = (s', None) /\
    nth_error (st_lw s') ks = Some L /\ lw_index L sw = Some i /\ vol_at L i - v < lw_min L.
Proof. exact transfer_underflow_iff. Qed.
Print Assumptions C02_transfer_underflow.

(** [transfer], VolumeOverflowError, both directions: as above, but the aspirate of the offending step has
    been applied ([s'] is the state after it): the liquid has left the source, the A record is written *)
Theorem C02_transfer_overflow : forall s ks kd swells dwells vols label ws pb kw s',
  transfer s ks swells kd dwells vols label ws pb kw = (s', Some EOverflow) <->
  exists Ls Ld mode w pre sw dw v post s1 L i,
    transfer_valid s ks kd swells dwells vols label pb Ls Ld mode w /\
    plan (w_autosplit w) (w_max w) mode (t_triples swells dwells vols)
      = (pre ++ Step sw dw v :: post)%list /\
    exec (set_wl s w) ks kd pre ws kw = (s1, None) /\
    aspirate s1 ks (A0 sw) (A0 (XQ v)) None kw = (s', None) /\
    nth_error (st_lw s') kd = Some L /\ lw_index L dw = Some i /\ lw_max L < vol_at L i + v.
Proof. exact transfer_overflow_iff. Qed.
Print Assumptions C02_transfer_overflow.

(* ------------------------------------------------------------------ (3) what a rejected call leaves behind *)

(** in every state reached by any call, accepted or rejected, every well of every labware is within
    [0, max_volume] (with [C02_step_preserves]: all labware stay well-formed) *)
Theorem C02_step_wells : forall s o j L i, wf_state s ->
  nth_error (st_lw (fst (step s o))) j = Some L -> 0 <= vol_at L i /\ vol_at L i <= lw_max L.
Proof. exact step_wells. Qed.
Print Assumptions C02_step_wells.

(** a rejected [aspirate]: either the removal itself was rejected - then the state is [set_lw s k L'] with
    [L'] the labware after the accepted prefix (history and worklist unchanged) - or the removal was
    accepted in full (volumes removed, history entry written) and the record part raised *)
Theorem C02_aspirate_rejected : forall s k wells vols label kw s' e L,
  aspirate s k wells vols label kw = (s', Some e) -> nth_error (st_lw s) k = Some L ->
  (exists L', remove_stops_at L wells vols L' e /\ s' = set_lw s k L' /\ lw_hist L' = lw_hist L /\
              (e = EUnderflow \/ e = EReject)) \/
  (exists L', remove L wells vols label = (L', None) /\ st_lw s' = upd (st_lw s) k L' /\ record_error e).
Proof. exact aspirate_rejected. Qed.
Print Assumptions C02_aspirate_rejected.

Theorem C02_aspirate_rejected_conv : forall s k wells vols label kw L L' e,
  nth_error (st_lw s) k = Some L -> remove_stops_at L wells vols L' e ->
  aspirate s k wells vols label kw = (set_lw s k L', Some e).
Proof. exact aspirate_rejected_conv. Qed.
Print Assumptions C02_aspirate_rejected_conv.

Theorem C02_evo_aspirate_rejected : forall s k a label s' e L,
  evo_aspirate s k a label = (s', Some e) -> nth_error (st_lw s) k = Some L ->
  (exists L', remove_stops_at L (c_wells a) (evo_vols (c_volume a)) L' e /\ s' = set_lw s k L' /\
              lw_hist L' = lw_hist L /\ (e = EUnderflow \/ e = EReject)) \/
  (exists L', remove L (c_wells a) (evo_vols (c_volume a)) label = (L', None) /\
              st_lw s' = upd (st_lw s) k L' /\ record_error e).
Proof. exact evo_aspirate_rejected. Qed.
Print Assumptions C02_evo_aspirate_rejected.

Theorem C02_evo_aspirate_rejected_conv : forall s k a label L L' e,
  nth_error (st_lw s) k = Some L -> remove_stops_at L (c_wells a) (evo_vols (c_volume a)) L' e ->
  evo_aspirate s k a label = (set_lw s k L', Some e).
Proof. exact evo_aspirate_rejected_conv. Qed.
Print Assumptions C02_evo_aspirate_rejected_conv.

Theorem C02_dispense_rejected : forall s k wells vols label comps kw s' e L,
  dispense s k wells vols label comps kw = (s', Some e) -> nth_error (st_lw s) k = Some L ->
  (exists L', add_stops_at L wells vols comps L' e /\ s' = set_lw s k L' /\ lw_hist L' = lw_hist L /\
              (e = EOverflow \/ e = EReject)) \/
  (exists L', add L wells vols label comps = (L', None) /\ st_lw s' = upd (st_lw s) k L' /\ record_error e).
Proof. exact dispense_rejected. Qed.
Print Assumptions C02_dispense_rejected.

Theorem C02_dispense_rejected_conv : forall s k wells vols label comps kw L L' e,
  nth_error (st_lw s) k = Some L -> add_stops_at L wells vols comps L' e ->
  dispense s k wells vols label comps kw = (set_lw s k L', Some e).
Proof. exact dispense_rejected_conv. Qed.
Print Assumptions C02_dispense_rejected_conv.

Theorem C02_evo_dispense_rejected : forall s k a label comps s' e L,
  evo_dispense s k a label comps = (s', Some e) -> nth_error (st_lw s) k = Some L ->
  (exists L', add_stops_at L (c_wells a) (evo_vols (c_volume a)) comps L' e /\ s' = set_lw s k L' /\
              lw_hist L' = lw_hist L /\ (e = EOverflow \/ e = EReject)) \/
  (exists L', add L (c_wells a) (evo_vols (c_volume a)) label comps = (L', None) /\
              st_lw s' = upd (st_lw s) k L' /\ record_error e).
Proof. exact evo_dispense_rejected. Qed.
Print Assumptions C02_evo_dispense_rejected.

Theorem C02_evo_dispense_rejected_conv : forall s k a label comps L L' e,
  nth_error (st_lw s) k = Some L -> add_stops_at L (c_wells a) (evo_vols (c_volume a)) comps L' e ->
  evo_dispense s k a label comps = (set_lw s k L', Some e).
Proof. exact evo_dispense_rejected_conv. Qed.
Print Assumptions C02_evo_dispense_rejected_conv.

(** a rejected [distribute]: nothing happened (arguments refused, or the source does not hold n * v), or the
    source has been drained and then either the addition stopped at some destination, or both labware
    were updated in full and the record part raised *)
Theorem C02_distribute_rejected : forall s ks kd dwells a s' e,
  distribute s ks kd dwells a = (s', Some e) ->
  (s' = s /\ (record_error e \/ e = EUnderflow)) \/
  (exists Ls xv Ls' c Ld1 Ld',
     nth_error (st_lw s) ks = Some Ls /\ rvol_x (d_volume a) = Some xv /\
     remove Ls (A0 (dist_src a)) (A0 (xmul_nat xv (length (flattenF dwells)))) (d_label a) = (Ls', None) /\
     nth_error (st_lw (set_lw s ks Ls')) kd = Some Ld1 /\
     ((add_stops_at Ld1 (A1 (flattenF dwells)) (A0 xv)
                    (Some (repeat (Some c) (length (flattenF dwells)))) Ld' e /\
       (e = EOverflow \/ e = EReject) /\ s' = set_lw (set_lw s ks Ls') kd Ld') \/
      (add Ld1 (A1 (flattenF dwells)) (A0 xv) (d_label a)
           (Some (repeat (Some c) (length (flattenF dwells)))) = (Ld', None) /\
       st_lw s' = st_lw (if (ks =? kd)%nat
                         then condense_at (set_lw (set_lw s ks Ls') kd Ld') ks 2 (d_label a)
                         else set_lw (set_lw s ks Ls') kd Ld') /\
       record_error e))).
Proof. exact distribute_rejected. Qed.
Print Assumptions C02_distribute_rejected.

(** a rejected [transfer]: nothing happened (arguments refused), or the planned steps [pre] have been
    executed in full and the next step failed ([exec_step]: aspirate, then dispense, then the tip action) *)
Theorem C02_transfer_rejected : forall s ks kd swells dwells vols label ws pb kw s' e,
  transfer s ks swells kd dwells vols label ws pb kw = (s', Some e) ->
  (s' = s /\ (e = EReject \/ e = ECompat)) \/
  exists Ls Ld mode w pre sw dw v post s1,
    transfer_valid s ks kd swells dwells vols label pb Ls Ld mode w /\
    plan (w_autosplit w) (w_max w) mode (t_triples swells dwells vols)
      = (pre ++ Step sw dw v :: post)%list /\
    exec (set_wl s w) ks kd pre ws kw = (s1, None) /\
    exec_step s1 ks kd sw dw v ws kw = (s', Some e).
Proof. exact transfer_rejected. Qed.
Print Assumptions C02_transfer_rejected.

(* ------------------------------------------------------------------ non-vacuity *)

(** [ex_plate]: 2 x 3 plate, min 10, max 100, every well at 50; [ex_trough]: 8 virtual rows x 2 columns *)
Example C02_example_wf : wf_labware ex_plate /\ wf_labware ex_trough.
Proof. split; [exact ex_plate_wf|exact ex_trough_wf]. Qed.

(** accepted: exactly up to the limit *)
Example C02_example_accepted :
  let r := add ex_plate (A1 ["A01"; "B02"]%string) (A0 (XQ 50)) (Some "x"%string) None in
  snd r = None /\ lw_vols (fst r) = [100; 50; 50; 50; 100; 50].
Proof. vm_compute. split; reflexivity. Qed.

(** rejected: the third element (A01 again) does not fit; the first two have been applied *)
Example C02_example_overflow :
  let r := add ex_plate (A1 ["A01"; "B02"; "A01"]%string) (A1 [XQ 30; XQ 10; XQ 30]) None None in
  snd r = Some EOverflow /\ lw_vols (fst r) = [80; 50; 50; 50; 60; 50].
Proof. vm_compute. split; reflexivity. Qed.

Example C02_example_underflow :
  let r := remove ex_plate (A1 ["A01"; "B02"; "A01"]%string) (A1 [XQ 30; XQ 10; XQ 30]) None in
  snd r = Some EUnderflow /\ lw_vols (fst r) = [20; 50; 50; 50; 40; 50].
Proof. vm_compute. split; reflexivity. Qed.

Example C02_example_infinite :
  add ex_plate (A0 "A01"%string) (A0 XPInf) None None = (ex_plate, Some EOverflow) /\
  remove ex_plate (A0 "A01"%string) (A0 XPInf) None = (ex_plate, Some EUnderflow) /\
  add ex_plate (A1 ["A01"; "B02"]%string) (A1 [XQ 30; XNaN]) None None = (ex_plate, Some EReject).
Proof. vm_compute. repeat split; reflexivity. Qed.

(** a program state and a program with accepted and rejected worklist calls *)
Definition C02_ex_state : state :=
  {| st_lw := [ex_trough; ex_plate]; st_wl := init_wl Evo 950 true false |}.

Example C02_example_state : wf_state C02_ex_state.
Proof. constructor; [exact ex_trough_wf|constructor; [exact ex_plate_wf|constructor]]. Qed.

Example C02_example_run :
  let r := run C02_ex_state
    [OTransfer 0 (A0 "A01") 1 (A1 ["A01"; "B01"]) (A0 40) (Some "t") SFlush "auto" kw_default;
     ODistribute 0 1 (A1 ["A02"; "B02"])
       {| d_source_column := 0; d_volume := RVInt 70; d_diti_reuse := 1; d_multi_disp := 1;
          d_liquid_class := PStr "W"; d_label := None; d_direction := "left_to_right";
          d_src_id := PStr ""; d_src_type := PStr ""; d_dst_id := PStr ""; d_dst_type := PStr "" |}]%string in
  snd r = [None; Some EOverflow] /\
  map lw_vols (st_lw (fst r)) = [[19780; 5000]; [90; 50; 50; 90; 50; 50]].
Proof. vm_compute. split; reflexivity. Qed.

(* ------------------------------------------------------------------ non-vacuity, worklist level *)

(** observable summary of an outcome: volumes of all labware, error, number of records, history lengths *)
Definition C02_obs (r : state * option err) : list (list Q) * option err * nat * list nat :=
  (map lw_vols (st_lw (fst r)), snd r, length (w_recs (st_wl (fst r))),
   map (fun L => length (lw_hist L)) (st_lw (fst r))).

(** accepted [aspirate] down to exactly min_volume (plate: min 10); comment + two A records *)
Example C02_example_aspirate_accepted :
  C02_obs (aspirate C02_ex_state 1 (A1 ["A01"; "B02"]%string) (A0 (XQ 40)) (Some "x"%string) kw_default)
  = ([[20000; 5000]; [10; 50; 50; 50; 10; 50]], None, 3%nat, [1%nat; 2%nat]).
Proof. vm_compute. reflexivity. Qed.

(** VolumeUnderflowError at the third pair (A01 again): two pairs applied, no record, no history entry *)
Example C02_example_aspirate_underflow :
  C02_obs (aspirate C02_ex_state 1 (A1 ["A01"; "B02"; "A01"]%string) (A1 [XQ 30; XQ 10; XQ 30])
                    (Some "x"%string) kw_default)
  = ([[20000; 5000]; [20; 50; 50; 50; 40; 50]], Some EUnderflow, 0%nat, [1%nat; 1%nat]).
Proof. vm_compute. reflexivity. Qed.

Example C02_example_dispense_overflow :
  C02_obs (dispense C02_ex_state 1 (A1 ["A01"; "B02"; "A01"]%string) (A1 [XQ 30; XQ 10; XQ 30])
                    None None kw_default)
  = ([[20000; 5000]; [80; 50; 50; 50; 60; 50]], Some EOverflow, 0%nat, [1%nat; 1%nat]).
Proof. vm_compute. reflexivity. Qed.

(** a record error after the labware part was accepted: 960 > max_volume 950 of the worklist; the trough
    has lost the liquid and gained a history entry, the comment is written, the call raises
    InvalidOperationError (second case of [C02_aspirate_rejected]) *)
Example C02_example_aspirate_record_error :
  C02_obs (aspirate C02_ex_state 0 (A0 "A01"%string) (A0 (XQ 960)) (Some "x"%string) kw_default)
  = ([[19040; 5000]; [50; 50; 50; 50; 50; 50]], Some EInvalidOp, 1%nat, [2%nat; 1%nat]).
Proof. vm_compute. reflexivity. Qed.

Definition C02_ex_cmd (ws : list string) (v : Q) : cmdargs :=
  {| c_wells := A1 ws; c_grid := PInt 1; c_site := PInt 1; c_volume := CVScalar (PV (XQ v));
     c_liquid_class := PStr "W"; c_tips := [TInt 1; TInt 2]; c_arm := 0%Z |}.

Example C02_example_evo :
  C02_obs (evo_aspirate C02_ex_state 1 (C02_ex_cmd ["A01"; "B01"]%string 20) None)
  = ([[20000; 5000]; [30; 50; 50; 30; 50; 50]], None, 1%nat, [1%nat; 2%nat]) /\
  C02_obs (evo_aspirate C02_ex_state 1 (C02_ex_cmd ["A01"; "B01"]%string 45) None)
  = ([[20000; 5000]; [50; 50; 50; 50; 50; 50]], Some EUnderflow, 0%nat, [1%nat; 1%nat]) /\
  C02_obs (evo_dispense C02_ex_state 1 (C02_ex_cmd ["A01"; "B01"]%string 50) None None)
  = ([[20000; 5000]; [100; 50; 50; 100; 50; 50]], None, 1%nat, [1%nat; 2%nat]) /\
  C02_obs (evo_dispense C02_ex_state 1 (C02_ex_cmd ["A01"; "B01"]%string 55) None None)
  = ([[20000; 5000]; [50; 50; 50; 50; 50; 50]], Some EOverflow, 0%nat, [1%nat; 1%nat]).
Proof. vm_compute. repeat split; reflexivity. Qed.

(** [transfer] plate -> trough, A01 twice with 30: the first step is done (A, D, F records; both histories),
    the second would leave 20 - 30 < 10: VolumeUnderflowError, state after the first step *)
Example C02_example_transfer_underflow :
  C02_obs (transfer C02_ex_state 1 (A1 ["A01"; "A01"]%string) 0 (A1 ["A01"; "A01"]%string) (A1 [30; 30])
                    None SFlush "auto"%string kw_default)
  = ([[20030; 5000]; [20; 50; 50; 50; 50; 50]], Some EUnderflow, 3%nat, [2%nat; 2%nat]).
Proof. vm_compute. reflexivity. Qed.

(** [transfer] trough -> plate, 30 twice into A01: the second dispense would give 110 > 100:
    VolumeOverflowError; the second aspirate has been applied (trough at 19940, 4 records) *)
Example C02_example_transfer_overflow :
  C02_obs (transfer C02_ex_state 0 (A0 "A01"%string) 1 (A1 ["A01"; "A01"]%string) (A0 30)
                    None SFlush "auto"%string kw_default)
  = ([[19940; 5000]; [80; 50; 50; 50; 50; 50]], Some EOverflow, 4%nat, [3%nat; 2%nat]).
Proof. vm_compute. reflexivity. Qed.

Definition C02_ex_dargs (col v : Z) : distargs :=
  {| d_source_column := col; d_volume := RVInt v; d_diti_reuse := 1; d_multi_disp := 1;
     d_liquid_class := PStr "W"; d_label := None; d_direction := "left_to_right"%string;
     d_src_id := PStr ""; d_src_type := PStr ""; d_dst_id := PStr ""; d_dst_type := PStr "" |}.

(** [distribute] from column 2 of the trough (5000, min 1000): accepted; 5 x 900 > 4000: underflow, nothing
    happens; 2 x 900 into wells at 50 (max 100): overflow, the trough has been drained and logged *)
Example C02_example_distribute :
  C02_obs (distribute C02_ex_state 0 1 (A1 ["A02"; "B02"; "A02"]%string) (C02_ex_dargs 1 10))
  = ([[20000; 4970]; [50; 70; 50; 50; 60; 50]], None, 1%nat, [2%nat; 2%nat]) /\
  C02_obs (distribute C02_ex_state 0 1 (A1 ["A02"; "B02"; "A01"; "B01"; "A03"]%string) (C02_ex_dargs 1 900))
  = ([[20000; 5000]; [50; 50; 50; 50; 50; 50]], Some EUnderflow, 0%nat, [1%nat; 1%nat]) /\
  C02_obs (distribute C02_ex_state 0 1 (A1 ["A02"; "B02"]%string) (C02_ex_dargs 1 900))
  = ([[20000; 3200]; [50; 50; 50; 50; 50; 50]], Some EOverflow, 0%nat, [2%nat; 1%nat]).
Proof. vm_compute. repeat split; reflexivity. Qed.

(** the hypotheses of the converse theorems are satisfiable *)
Example C02_example_dist_ready :
  dist_ready C02_ex_state 0 1 (A1 ["A02"; "B02"]%string) (C02_ex_dargs 1 900) ex_trough ex_plate 900.
Proof.
  unfold dist_ready. split; [exact C02_example_state|]. vm_compute.
  repeat split; try discriminate; try lia.
  intros w [<-|[<-|[]]]; discriminate.
Qed.
