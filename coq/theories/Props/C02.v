(** C02 — volume limits: no operation leaves a well above max_volume / below min_volume / negative;
    an addition that would exceed max_volume raises VolumeOverflowError, a removal that would undercut
    min_volume raises VolumeUnderflowError, the offending well unchanged; directly or through any
    worklist method.  Statements only; proofs live in Proofs/LabwareProofs.v.

    Definitions used (Spec/Invariants.v): [wf_labware L] = [wf_shape L] (well-formed geometry, arrays of
    the right size, non-empty history) and [vol_inv L] (0 <= min < max, every well in [0, max]);
    [wf_state s] = every labware of the state is [wf_labware].
    From Proofs/LabwareProofs.v: [vols_ok_a items] / [vols_ok_r items] = every volume of the loop items
    passes [vol_ok] (what [prep_wells_vols] guarantees); [add_items wv comps] = the loop argument of [add]. *)
From Robo Require Import Prelude Str Wells Utils Labware Tips Records Partition Params Worklist EvoCmd
  Program Invariants LabwareProofs.
#[local] Open Scope Q_scope.

(* ------------------------------------------------------------------ preservation *)

(** [add] keeps the invariant for all arguments, accepted or rejected (partial effects included) *)
Theorem C02_add_preserves : forall L wells vols label comps,
  wf_labware L -> wf_labware (fst (add L wells vols label comps)).
Proof. exact add_wf. Qed.
Print Assumptions C02_add_preserves.

Theorem C02_remove_preserves : forall L wells vols label,
  wf_labware L -> wf_labware (fst (remove L wells vols label)).
Proof. exact remove_wf. Qed.
Print Assumptions C02_remove_preserves.

Theorem C02_condense_preserves : forall L n label,
  wf_labware L -> wf_labware (condense_log L n label).
Proof. exact condense_log_wf. Qed.
Print Assumptions C02_condense_preserves.

(** every operation of a program (add, remove, condense, aspirate, dispense, transfer, distribute, the
    record-only operations, evo_aspirate, evo_dispense, evo_wash), accepted or rejected *)
Theorem C02_step_preserves : forall s o, wf_state s -> wf_state (fst (step s o)).
Proof. exact step_wf. Qed.
Print Assumptions C02_step_preserves.

(** every reachable state: any history of calls, including rejected ones *)
Theorem C02_reachable : forall ops s, wf_state s -> wf_state (fst (run s ops)).
Proof. exact run_wf. Qed.
Print Assumptions C02_reachable.

(** the individual worklist methods *)
Theorem C02_aspirate_preserves : forall s k wells vols label kw,
  wf_state s -> wf_state (fst (aspirate s k wells vols label kw)).
Proof. exact aspirate_wf. Qed.
Print Assumptions C02_aspirate_preserves.

Theorem C02_dispense_preserves : forall s k wells vols label comps kw,
  wf_state s -> wf_state (fst (dispense s k wells vols label comps kw)).
Proof. exact dispense_wf. Qed.
Print Assumptions C02_dispense_preserves.

Theorem C02_transfer_preserves : forall s ks sw kd dw vols label ws pb kw,
  wf_state s -> wf_state (fst (transfer s ks sw kd dw vols label ws pb kw)).
Proof. exact transfer_wf. Qed.
Print Assumptions C02_transfer_preserves.

Theorem C02_distribute_preserves : forall s ks kd dwells a,
  wf_state s -> wf_state (fst (distribute s ks kd dwells a)).
Proof. exact distribute_wf. Qed.
Print Assumptions C02_distribute_preserves.

Theorem C02_evo_aspirate_preserves : forall s k a label,
  wf_state s -> wf_state (fst (evo_aspirate s k a label)).
Proof. exact evo_aspirate_wf. Qed.
Print Assumptions C02_evo_aspirate_preserves.

Theorem C02_evo_dispense_preserves : forall s k a label comps,
  wf_state s -> wf_state (fst (evo_dispense s k a label comps)).
Proof. exact evo_dispense_wf. Qed.
Print Assumptions C02_evo_dispense_preserves.

(* ------------------------------------------------------------------ post-conditions of accepted calls *)

(** after an accepted [add] every addressed well exists and holds at most max_volume; limits and geometry
    are unchanged *)
Theorem C02_add_post : forall L wells vols label comps L',
  add L wells vols label comps = (L', None) -> wf_labware L ->
  lw_geom L' = lw_geom L /\ lw_min L' = lw_min L /\ lw_max L' = lw_max L /\
  forall w, In w (flattenF wells) ->
    exists i, lw_index L' w = Some i /\ (i < length (lw_vols L'))%nat /\
              0 <= vol_at L' i /\ vol_at L' i <= lw_max L'.
Proof. exact add_post. Qed.
Print Assumptions C02_add_post.

(** after an accepted [remove] every addressed well holds at least min_volume *)
Theorem C02_remove_post : forall L wells vols label L',
  remove L wells vols label = (L', None) -> wf_labware L ->
  lw_geom L' = lw_geom L /\ lw_min L' = lw_min L /\ lw_max L' = lw_max L /\
  forall w, In w (flattenF wells) ->
    exists i, lw_index L' w = Some i /\ (i < length (lw_vols L'))%nat /\
              lw_min L <= vol_at L' i /\ vol_at L' i <= lw_max L.
Proof. exact remove_post. Qed.
Print Assumptions C02_remove_post.

(* ------------------------------------------------------------------ exact error conditions *)

(** VolumeOverflowError is raised exactly at the first element that is infinite or does not fit; [L'] is
    the state reached by the accepted prefix, so the offending well (and every later one) is unchanged by
    the rejected element.  For the validated volumes that [add] passes to the loop. *)
Theorem C02_overflow_exact : forall L items L', vols_ok_a items ->
  (add_loop L items = (L', Some EOverflow) <->
   exists pre w x oc post i,
     items = (pre ++ (w, x, oc) :: post)%list /\ add_loop L pre = (L', None) /\
     lw_index L' w = Some i /\
     (x = XPInf \/ exists v, x = XQ v /\ lw_max L < vol_at L' i + v)).
Proof. exact add_loop_overflow_exact. Qed.
Print Assumptions C02_overflow_exact.

(** without the validation hypothesis the same right-hand side is too narrow: a NaN that reached the loop
    would be reported as an overflow (it never does: see [C02_add_bad_volume]) *)
Theorem C02_overflow_exact_unguarded_refuted :
  exists L items L',
    add_loop L items = (L', Some EOverflow) /\
    ~ (exists pre w x oc post i,
         items = (pre ++ (w, x, oc) :: post)%list /\ add_loop L pre = (L', None) /\
         lw_index L' w = Some i /\
         (x = XPInf \/ exists v, x = XQ v /\ lw_max L < vol_at L' i + v)).
Proof. exact add_loop_overflow_unguarded_refuted. Qed.
Print Assumptions C02_overflow_exact_unguarded_refuted.

(** the characterisation for all inputs of the loop: "not a finite number, or does not fit" *)
Theorem C02_overflow_exact_general : forall L items L',
  add_loop L items = (L', Some EOverflow) <->
  exists pre w x oc post i,
    items = (pre ++ (w, x, oc) :: post)%list /\ add_loop L pre = (L', None) /\
    lw_index L' w = Some i /\
    match x with XQ v => lw_max L < vol_at L' i + v | _ => True end.
Proof. exact add_loop_overflow_general. Qed.
Print Assumptions C02_overflow_exact_general.

Theorem C02_underflow_exact : forall L items L', vols_ok_r items ->
  (remove_loop L items = (L', Some EUnderflow) <->
   exists pre w x post i,
     items = (pre ++ (w, x) :: post)%list /\ remove_loop L pre = (L', None) /\
     lw_index L' w = Some i /\
     (x = XPInf \/ exists v, x = XQ v /\ vol_at L' i - v < lw_min L)).
Proof. exact remove_loop_underflow_exact. Qed.
Print Assumptions C02_underflow_exact.

Theorem C02_underflow_exact_unguarded_refuted :
  exists L items L',
    remove_loop L items = (L', Some EUnderflow) /\
    ~ (exists pre w x post i,
         items = (pre ++ (w, x) :: post)%list /\ remove_loop L pre = (L', None) /\
         lw_index L' w = Some i /\
         (x = XPInf \/ exists v, x = XQ v /\ vol_at L' i - v < lw_min L)).
Proof. exact remove_loop_underflow_unguarded_refuted. Qed.
Print Assumptions C02_underflow_exact_unguarded_refuted.

Theorem C02_underflow_exact_general : forall L items L',
  remove_loop L items = (L', Some EUnderflow) <->
  exists pre w x post i,
    items = (pre ++ (w, x) :: post)%list /\ remove_loop L pre = (L', None) /\
    lw_index L' w = Some i /\
    match x with XQ v => vol_at L' i - v < lw_min L | _ => True end.
Proof. exact remove_loop_underflow_general. Qed.
Print Assumptions C02_underflow_exact_general.

(** the same at the level of the calls: a call rejected with VolumeOverflowError returns the state reached
    by the accepted prefix of its (well, volume) pairs, in which the next pair does not fit *)
Theorem C02_add_overflow : forall L wells vols label comps L',
  add L wells vols label comps = (L', Some EOverflow) ->
  exists wv pre w x oc post i,
    prep_wells_vols wells vols = Ok wv /\
    add_items wv comps = (pre ++ (w, x, oc) :: post)%list /\ add_loop L pre = (L', None) /\
    lw_index L' w = Some i /\
    (x = XPInf \/ exists v, x = XQ v /\ 0 <= v /\ lw_max L < vol_at L' i + v).
Proof. exact add_overflow. Qed.
Print Assumptions C02_add_overflow.

Theorem C02_remove_underflow : forall L wells vols label L',
  remove L wells vols label = (L', Some EUnderflow) ->
  exists wv pre w x post i,
    prep_wells_vols wells vols = Ok wv /\
    wv = (pre ++ (w, x) :: post)%list /\ remove_loop L pre = (L', None) /\
    lw_index L' w = Some i /\
    (x = XPInf \/ exists v, x = XQ v /\ 0 <= v /\ vol_at L' i - v < lw_min L).
Proof. exact remove_underflow. Qed.
Print Assumptions C02_remove_underflow.

(** error classes: an addition never raises VolumeUnderflowError, a removal never VolumeOverflowError *)
Theorem C02_add_loop_errors : forall L items L' e,
  add_loop L items = (L', Some e) -> e = EOverflow \/ e = EReject.
Proof. exact add_loop_errors. Qed.
Print Assumptions C02_add_loop_errors.

Theorem C02_remove_loop_errors : forall L items L' e,
  remove_loop L items = (L', Some e) -> e = EUnderflow \/ e = EReject.
Proof. exact remove_loop_errors. Qed.
Print Assumptions C02_remove_loop_errors.

Theorem C02_add_errors : forall L wells vols label comps L' e,
  add L wells vols label comps = (L', Some e) -> e = EOverflow \/ e = EReject.
Proof. exact add_errors. Qed.
Print Assumptions C02_add_errors.

Theorem C02_remove_errors : forall L wells vols label L' e,
  remove L wells vols label = (L', Some e) -> e = EUnderflow \/ e = EReject.
Proof. exact remove_errors. Qed.
Print Assumptions C02_remove_errors.

(** NaN, -inf and negative volumes are refused before any effect *)
Theorem C02_vol_ok_false : forall x,
  vol_ok x = false <-> x = XNaN \/ x = XNInf \/ exists v, x = XQ v /\ v < 0.
Proof. exact vol_ok_false_cases. Qed.
Print Assumptions C02_vol_ok_false.

Theorem C02_add_bad_volume : forall L wells vols label comps,
  (exists x, In x (broadcast (flattenF vols) (length (flattenF wells))) /\ vol_ok x = false) ->
  add L wells vols label comps = (L, Some EReject).
Proof. exact add_bad_volume. Qed.
Print Assumptions C02_add_bad_volume.

Theorem C02_remove_bad_volume : forall L wells vols label,
  (exists x, In x (broadcast (flattenF vols) (length (flattenF wells))) /\ vol_ok x = false) ->
  remove L wells vols label = (L, Some EReject).
Proof. exact remove_bad_volume. Qed.
Print Assumptions C02_remove_bad_volume.

(* ------------------------------------------------------------------ non-vacuity *)

(** [ex_plate]: 2 x 3 plate, min 10, max 100, every well at 50; [ex_trough]: 8 virtual rows x 2 columns *)
Example C02_example_wf : wf_labware ex_plate /\ wf_labware ex_trough.
Proof. split; [exact ex_plate_wf|exact ex_trough_wf]. Qed.

(** accepted: exactly up to the limit *)
Example C02_example_accepted :
  let r := add ex_plate (A1 ["A01"; "B02"]%string) (A0 (XQ 50)) (Some "x"%string) None in
  snd r = None /\ lw_vols (fst r) = [100; 50; 50; 50; 100; 50].
Proof. vm_compute. split; reflexivity. Qed.

(** rejected: the third element (A01 again) does not fit; the first two have been applied *)
Example C02_example_overflow :
  let r := add ex_plate (A1 ["A01"; "B02"; "A01"]%string) (A1 [XQ 30; XQ 10; XQ 30]) None None in
  snd r = Some EOverflow /\ lw_vols (fst r) = [80; 50; 50; 50; 60; 50].
Proof. vm_compute. split; reflexivity. Qed.

Example C02_example_underflow :
  let r := remove ex_plate (A1 ["A01"; "B02"; "A01"]%string) (A1 [XQ 30; XQ 10; XQ 30]) None in
  snd r = Some EUnderflow /\ lw_vols (fst r) = [20; 50; 50; 50; 40; 50].
Proof. vm_compute. split; reflexivity. Qed.

Example C02_example_infinite :
  add ex_plate (A0 "A01"%string) (A0 XPInf) None None = (ex_plate, Some EOverflow) /\
  remove ex_plate (A0 "A01"%string) (A0 XPInf) None = (ex_plate, Some EUnderflow) /\
  add ex_plate (A1 ["A01"; "B02"]%string) (A1 [XQ 30; XNaN]) None None = (ex_plate, Some EReject).
Proof. vm_compute. repeat split; reflexivity. Qed.

(** a program state and a program with accepted and rejected worklist calls *)
Definition C02_ex_state : state :=
  {| st_lw := [ex_trough; ex_plate]; st_wl := init_wl Evo 950 true false |}.

Example C02_example_state : wf_state C02_ex_state.
Proof. constructor; [exact ex_trough_wf|constructor; [exact ex_plate_wf|constructor]]. Qed.

Example C02_example_run :
  let r := run C02_ex_state
    [OTransfer 0 (A0 "A01") 1 (A1 ["A01"; "B01"]) (A0 40) (Some "t") SFlush "auto" kw_default;
     ODistribute 0 1 (A1 ["A02"; "B02"])
       {| d_source_column := 0; d_volume := RVInt 70; d_diti_reuse := 1; d_multi_disp := 1;
          d_liquid_class := PStr "W"; d_label := None; d_direction := "left_to_right";
          d_src_id := PStr ""; d_src_type := PStr ""; d_dst_id := PStr ""; d_dst_type := PStr "" |}]%string in
  snd r = [None; Some EOverflow] /\
  map lw_vols (st_lw (fst r)) = [[19780; 5000]; [90; 50; 50; 90; 50; 50]].
Proof. vm_compute. split; reflexivity. Qed.
