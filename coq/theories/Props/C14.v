(** C14 — DilutionPlan: for every parameter set for which a plan is returned, all transfer volumes are
    whole microlitres with min_transfer <= v (and v <= vmax of the target column: FALSE, finding F11a),
    every column is prepared from the stock or from a column prepared earlier, (the plan never draws
    more from a column than it holds: FALSE, finding F11b), and the reported concentrations equal
    those implied by the instructions in exact arithmetic.  to_worklist issues, per instruction, the
    transfers described below; the volumes it requests from the stock add up to v_stock, those
    requested from the diluent to at most v_diluent; requests that cannot be met raise ValueError
    instead of returning a partial plan.
    Statements only; proofs live in Proofs/DilutionProofs.v and Proofs/DilutionExecProofs.v.

    Stock and diluent: the documented configuration of [to_worklist] is ONE trough that holds the
    stock in column [stock_column] and the diluent in column [diluent_column]; two different troughs
    are possible as well.  The execution theorems (C14_exec_requested, C14_exec_volumes,
    C14_exec_concentration, C14_exec_destination_volumes, C14_exec_destination) cover both.

    Conventions: [ideal] is the table of target concentrations (C columns of R values), an input of
    the model; [plan_core ideal stock vmax min_transfer] is the planner behind the argument checks of
    [dilution_plan] (C14_dilution_plan); volumes are integers (type Z) by construction. *)
From Robo Require Import Prelude Str Wells Utils Labware Tips Records Partition Params Worklist EvoCmd
  Program Dilution Invariants Mixing DilutionProofs DilutionExecProofs CtorProofs MixingProofs.

(** the instruction for column c; planned volume, reported concentration and target of well (r, c) *)
Definition no_instr : instr := {| i_col := 0; i_steps := 0; i_src := None; i_vols := [] |}.
Definition instr_at (p : dplan) (c : nat) : instr := nth c (dp_instr p) no_instr.
Definition vol (p : dplan) (c r : nat) : Z := nth r (i_vols (instr_at p c)) 0%Z.
Definition conc (p : dplan) (c r : nat) : Q := nth r (nth c (dp_x p) []) 0%Q.
Definition target (ideal : list (list Q)) (c r : nat) : Q := nth r (nth c ideal []) 0%Q.
Definition src (p : dplan) (c : nat) : option nat := i_src (instr_at p c).
Definition steps (p : dplan) (c : nat) : nat := i_steps (instr_at p c).
(** [ideal] has R rows in every column *)
Definition rows (R : nat) (ideal : list (list Q)) : Prop := Forall (fun col => length col = R) ideal.
Definition all_pos (l : list Q) : Prop := Forall (fun v => (0 < v)%Q) l.
Definition sumZ (l : list Z) : Z := fold_right Z.add 0%Z l.

(* ------------------------------------------------------------------------------------------ *)
(** * the plan *)

(** every column is prepared exactly once, in order, without gaps; a request that cannot be met is
    refused with ValueError, never answered by a partial plan *)
Theorem C14_complete : forall ideal stock vmax mt,
  (forall p, plan_core ideal stock vmax mt = Ok p ->
     dp_vmax p = vmax /\ length (dp_instr p) = length ideal /\ length (dp_x p) = length ideal /\
     length ideal <= length vmax /\
     forall c, c < length ideal -> i_col (instr_at p c) = c) /\
  (forall e, plan_core ideal stock vmax mt = Err e -> e = EValue).
Proof. exact c14_complete. Qed.
Print Assumptions C14_complete.

(** one volume and one concentration per row *)
Theorem C14_shape : forall ideal stock vmax mt p R,
  plan_core ideal stock vmax mt = Ok p -> rows R ideal ->
  forall c, c < length ideal ->
  length (i_vols (instr_at p c)) = R /\ length (nth c (dp_x p) []) = R.
Proof. exact c14_shape. Qed.
Print Assumptions C14_shape.

(** min_transfer <= v for every planned volume (whole microlitres by type) *)
Theorem C14_whole_min : forall ideal stock vmax mt p R,
  plan_core ideal stock vmax mt = Ok p -> rows R ideal ->
  forall c r, c < length ideal -> r < R -> (mt <= inject_Z (vol p c r))%Q.
Proof. exact c14_whole_min. Qed.
Print Assumptions C14_whole_min.

(** the same without any assumption on the shape of [ideal] *)
Theorem C14_whole_min_all : forall ideal stock vmax mt p,
  plan_core ideal stock vmax mt = Ok p ->
  forall i v, In i (dp_instr p) -> In v (i_vols i) -> (mt <= inject_Z v)%Q.
Proof. exact plan_vols_min. Qed.
Print Assumptions C14_whole_min_all.

(** every column is prepared from the stock (0 dilution steps) or from a column prepared EARLIER
    (one step more than its source); the stock-prepared columns form a prefix *)
Theorem C14_order : forall ideal stock vmax mt p,
  plan_core ideal stock vmax mt = Ok p ->
  exists n1, n1 <= length ideal /\
  forall c, c < length ideal ->
    (c < n1 /\ src p c = None /\ steps p c = 0) \/
    (n1 <= c /\ exists k, k < c /\ src p c = Some k /\ steps p c = S (steps p k)).
Proof. exact c14_order. Qed.
Print Assumptions C14_order.

(** the planner is greedy: the stock prefix ends at the first column with a volume below
    min_transfer, and a serially diluted column takes the LEFTMOST source for which all volumes
    reach min_transfer *)
Theorem C14_greedy : forall ideal stock vmax mt p R,
  plan_core ideal stock vmax mt = Ok p -> rows R ideal ->
  exists n1, n1 <= length ideal /\
  (forall c, c < length ideal -> (c < n1 <-> src p c = None)) /\
  (n1 < length ideal ->
     exists r, r < R /\ (inject_Z (Qrint (nth n1 vmax 0 * target ideal n1 r / stock)) < mt)%Q) /\
  (forall c k k', c < length ideal -> src p c = Some k -> k' < k ->
     exists r, r < R /\ (inject_Z (Qceiling (nth c vmax 0 * target ideal c r / conc p k' r)) < mt)%Q).
Proof. exact c14_greedy. Qed.
Print Assumptions C14_greedy.

(** the reported concentrations are those implied by the instructions, in exact arithmetic *)
Theorem C14_x : forall ideal stock vmax mt p R,
  plan_core ideal stock vmax mt = Ok p -> rows R ideal ->
  forall c r, c < length ideal -> r < R ->
  match src p c with
  | None => (conc p c r == inject_Z (vol p c r) / nth c vmax 0 * stock)%Q
  | Some k => k < c /\ (conc p c r == inject_Z (vol p c r) * conc p k r / nth c vmax 0)%Q
  end.
Proof. exact c14_x. Qed.
Print Assumptions C14_x.

(** ... and positive (so that the divisions above and below are genuine) *)
Theorem C14_x_positive : forall ideal stock vmax mt p R,
  plan_core ideal stock vmax mt = Ok p -> rows R ideal ->
  (0 < mt)%Q -> (0 < stock)%Q -> all_pos vmax ->
  forall c r, c < length ideal -> r < R -> (0 < conc p c r)%Q.
Proof. exact c14_x_pos. Qed.
Print Assumptions C14_x_positive.

(** the plan is within rounding of the ideal table: stock columns are rounded to the nearest
    microlitre, serial columns rounded up *)
Theorem C14_near_target : forall ideal stock vmax mt p R,
  plan_core ideal stock vmax mt = Ok p -> rows R ideal ->
  (0 < mt)%Q -> (0 < stock)%Q -> all_pos vmax ->
  forall c r, c < length ideal -> r < R ->
  match src p c with
  | None => (Qabs (inject_Z (vol p c r) - nth c vmax 0 * target ideal c r / stock) <= 1#2)%Q
  | Some k => k < c /\ (0 < conc p k r)%Q /\
      (0 <= inject_Z (vol p c r) - nth c vmax 0 * target ideal c r / conc p k r)%Q /\
      (inject_Z (vol p c r) - nth c vmax 0 * target ideal c r / conc p k r < 1)%Q
  end.
Proof. exact c14_near_target. Qed.
Print Assumptions C14_near_target.

(* ------------------------------------------------------------------------------------------ *)
(** * F11a: [v <= vmax] is false *)

(** The full statement
      forall ideal stock vmax mt p R, plan_core ideal stock vmax mt = Ok p -> rows R ideal ->
        length vmax = length ideal -> 0 < mt -> 0 < stock -> all_pos vmax ->
        (all targets in (0, stock]) ->
        forall c r, c < length ideal -> r < R -> inject_Z (vol p c r) <= nth c vmax 0
    is refuted: with per-column vmax [10; 5], stock 10, min_transfer 4 and targets
    [[6.4; 6.3]; [6.2; 6.1]] column 1 is diluted from column 0 with 6 uL into a 5 uL column. *)
Theorem C14_vmax_refuted :
  exists ideal stock vmax mt p R c r,
    plan_core ideal stock vmax mt = Ok p /\
    length vmax = length ideal /\ rows R ideal /\
    (0 < mt)%Q /\ (0 < stock)%Q /\ all_pos vmax /\
    Forall (Forall (fun x => (0 < x)%Q /\ (x <= stock)%Q)) ideal /\
    c < length ideal /\ r < R /\
    (nth c vmax 0 < inject_Z (vol p c r))%Q.
Proof. exact c14_vmax_refuted. Qed.
Print Assumptions C14_vmax_refuted.

(** also for a column prepared from the stock, when vmax is not a whole number: vmax = 3.5,
    target = stock: 4 uL are planned *)
Theorem C14_vmax_refuted_fractional :
  exists ideal stock vmax mt p R c r,
    plan_core ideal stock vmax mt = Ok p /\
    length vmax = length ideal /\ rows R ideal /\
    (0 < mt)%Q /\ (0 < stock)%Q /\ all_pos vmax /\
    Forall (Forall (fun x => (0 < x)%Q /\ (x <= stock)%Q)) ideal /\
    c < length ideal /\ r < R /\ src p c = None /\
    (nth c vmax 0 < inject_Z (vol p c r))%Q.
Proof. exact c14_vmax_refuted_fractional. Qed.
Print Assumptions C14_vmax_refuted_fractional.

(** what holds instead: v exceeds the exact volume by at most 1/2 (stock) resp. by less than 1
    (serial); v <= vmax if vmax of the target column is a whole number n and the target concentration
    is not above that of the source (stock resp. source column) *)
Theorem C14_vmax_partial : forall ideal stock vmax mt p R,
  plan_core ideal stock vmax mt = Ok p -> rows R ideal ->
  (0 < mt)%Q -> (0 < stock)%Q -> all_pos vmax ->
  forall c r, c < length ideal -> r < R ->
  match src p c with
  | None =>
      (inject_Z (vol p c r) <= nth c vmax 0 * target ideal c r / stock + (1#2))%Q /\
      forall n : Z, (nth c vmax 0 == inject_Z n)%Q -> (target ideal c r <= stock)%Q -> (vol p c r <= n)%Z
  | Some k =>
      k < c /\
      (inject_Z (vol p c r) < nth c vmax 0 * target ideal c r / conc p k r + 1)%Q /\
      forall n : Z, (nth c vmax 0 == inject_Z n)%Q -> (target ideal c r <= conc p k r)%Q -> (vol p c r <= n)%Z
  end.
Proof. exact c14_vmax_partial. Qed.
Print Assumptions C14_vmax_partial.

(* ------------------------------------------------------------------------------------------ *)
(** * F11b: the volume budget of a source column is not respected *)

(** total volume the plan draws from well (r, k) for the preparation of later columns *)
Definition drawn_from (p : dplan) (k r : nat) : Z :=
  sumZ (map (fun i => nth r (i_vols i) 0%Z)
            (filter (fun i => match i_src i with Some s => s =? k | None => false end) (dp_instr p))).

(** The full statement
      forall ideal stock vmax mt p R, plan_core ideal stock vmax mt = Ok p -> rows R ideal -> ... ->
        forall k r, k < length ideal -> r < R -> inject_Z (drawn_from p k r) <= nth k vmax 0
    is refuted: targets [[10]; [8]; [6.4]], stock 1000, vmax 1000 everywhere, min_transfer 10:
    columns 1 and 2 are both diluted from column 0, with 800 + 640 uL out of 1000
    (executing this plan fails with an underflow, see C14_budget_example). *)
Theorem C14_budget_refuted :
  exists ideal stock vmax mt p R k r,
    plan_core ideal stock vmax mt = Ok p /\
    length vmax = length ideal /\ rows R ideal /\
    (0 < mt)%Q /\ (0 < stock)%Q /\ all_pos vmax /\
    Forall (Forall (fun x => (0 < x)%Q /\ (x <= stock)%Q)) ideal /\
    k < length ideal /\ r < R /\
    (nth k vmax 0 < inject_Z (drawn_from p k r))%Q.
Proof. exact c14_budget_refuted. Qed.
Print Assumptions C14_budget_refuted.

(** what holds instead: a SINGLE dilution step never takes more than its source column holds, if both
    columns have the same whole-microlitre vmax and the target is not above the source *)
Theorem C14_budget_partial : forall ideal stock vmax mt p R,
  plan_core ideal stock vmax mt = Ok p -> rows R ideal ->
  (0 < mt)%Q -> (0 < stock)%Q -> all_pos vmax ->
  forall c k r (n : Z), c < length ideal -> r < R -> src p c = Some k ->
  (nth c vmax 0 == inject_Z n)%Q -> (nth k vmax 0 == inject_Z n)%Q ->
  (target ideal c r <= conc p k r)%Q ->
  (inject_Z (vol p c r) <= nth k vmax 0)%Q.
Proof. exact c14_budget_partial. Qed.
Print Assumptions C14_budget_partial.

(* ------------------------------------------------------------------------------------------ *)
(** * v_stock, v_diluent *)

Definition from_stock_col (i : instr) : bool := match i_src i with None => true | Some _ => false end.

(** v_stock is the sum of all volumes of the stock-prepared columns, v_diluent what is missing to
    fill R rows of every column to vmax *)
Theorem C14_v_stock_diluent : forall ideal stock vmax mt p,
  plan_core ideal stock vmax mt = Ok p ->
  v_stock p = sumZ (concat (map i_vols (filter from_stock_col (dp_instr p)))) /\
  forall R, (v_diluent R p == inject_Z (Z.of_nat R) * Qsum vmax - inject_Z (v_stock p))%Q.
Proof. exact c14_v_stock_diluent. Qed.
Print Assumptions C14_v_stock_diluent.

(* ------------------------------------------------------------------------------------------ *)
(** * to_worklist *)

Section Operations.
Variables (a : twl_args) (p : dplan) (wmax : Q) (gs gd : geom).
Local Open Scope string_scope.

Definition plate_column (c : nat) : arr string := A1 (column_wells (tw_R a) c).
Definition vmax_of (i : instr) : Q := nth (i_col i) (dp_vmax p) 0%Q.
Definition fed_from (c : nat) (j : instr) : bool :=
  match i_src j with Some s => (s =? c)%nat | None => false end.

(** the five kinds of transfers *)
Definition t_stock (i : instr) : op :=
  OTransfer (tw_stock a) (A1 (cycle_wells (tw_R a) (trough_column_wells gs (tw_stock_column a))))
            (tw_plate a) (plate_column (i_col i)) (A1 (map inject_Z (i_vols i)))
            (Some "Distribute from stock") (SInt 1) "auto" (kw_lc (tw_lc_stock a)).
Definition t_dilute (i : instr) : op :=
  OTransfer (tw_diluent a) (A1 (cycle_wells (tw_R a) (trough_column_wells gd (tw_diluent_column a))))
            (tw_plate a) (plate_column (i_col i))
            (A1 (map (fun v => Qred (vmax_of i - v)%Q) (map inject_Z (i_vols i))))
            (Some ("Dilute column " ++ dec (i_col i))) (SInt 1) "auto" (kw_lc (tw_lc_diluent a)).
Definition mixing_volume (i : instr) : Q :=
  let mv := (vmax_of i * tw_mix_volume a)%Q in if Qle_bool wmax mv then wmax else Qred mv.
Definition mixing_needed (i : instr) : bool :=
  existsb (fun v => Qltb (tw_mix_threshold a * vmax_of i)%Q v) (map inject_Z (i_vols i)).
Definition t_mix (i : instr) (ws : scheme) : op :=
  OTransfer (tw_plate a) (plate_column (i_col i)) (tw_plate a) (plate_column (i_col i))
            (A0 (mixing_volume i))
            (Some ("Mix column " ++ dec (i_col i) ++ " with "
                   ++ decZ (round2c (mixing_volume i / vmax_of i)%Q) ++ " % of its volume"))
            ws "auto" (kw_lc (tw_lc_mix a)).
Definition t_serial (i j : instr) : op :=
  OTransfer (tw_plate a) (plate_column (i_col i)) (tw_plate a) (plate_column (i_col j))
            (A1 (map inject_Z (i_vols j)))
            (Some ("Transfer columns " ++ dec (i_col i) ++ " -> " ++ dec (i_col j) ++ " for later dilution step"))
            (SInt 1) "auto" (kw_lc (tw_lc_transfer a)).
Definition t_dest (i : instr) (d : nat) : op :=
  OTransfer (tw_plate a) (plate_column (i_col i)) d (plate_column (i_col i)) (A0 (tw_v_destination a))
            (Some ("Transfer column " ++ dec (i_col i) ++ " to the destination plate"))
            (SInt 1) "auto" (kw_lc (tw_lc_transfer a)).

(** the operations issued for one instruction, in order: (stock columns only) the planned volumes from
    the stock trough; [vmax - v] of diluent; if some [v > mix_threshold * vmax], [mix_repeat] mixing
    transfers within the column, washed with [mix_wash] between them and with scheme 1 after the
    last; one transfer per column that is prepared from this one, with that column's planned volumes;
    optionally the transfer to the destination plate.  Every transfer is followed by a commit. *)
Theorem C14_exec_structure : forall i : instr,
  instr_ops a p wmax gs gd i =
  ((match i_src i with None => [t_stock i; OCommit] | Some _ => [] end) ++
   [t_dilute i; OCommit] ++
   (if mixing_needed i then
      flat_map (fun r => [t_mix i (if (r <? tw_mix_repeat a - 1)%nat then tw_mix_wash a else SInt 1); OCommit])
               (seq 0 (tw_mix_repeat a))
    else []) ++
   flat_map (fun j => [t_serial i j; OCommit]) (filter (fed_from (i_col i)) (dp_instr p)) ++
   (match tw_dest a with Some d => [t_dest i d; OCommit] | None => [] end))%list.
Proof. exact (c14_exec_structure a p wmax gs gd). Qed.

End Operations.
Print Assumptions C14_exec_structure.

(** the columns fed from column c are later columns of the plan *)
Theorem C14_exec_serial_later : forall ideal stock vmax mt p c j,
  plan_core ideal stock vmax mt = Ok p -> In j (filter (fed_from c) (dp_instr p)) ->
  i_src j = Some c /\ c < i_col j /\ i_col j < length ideal /\ instr_at p (i_col j) = j.
Proof. exact c14_serial_later. Qed.
Print Assumptions C14_exec_serial_later.

(** to_worklist refuses (ValueError) a plate with fewer than R rows or C columns, a missing or too
    small destination plate and non-trough stock / diluent labware; otherwise it runs the instructions *)
Definition bad_destination (s : state) (a : twl_args) (C : nat) : Prop :=
  exists d, tw_dest a = Some d /\
    match nth_error (st_lw s) d with
    | Some DP => n_row_ids (lw_geom DP) < tw_R a \/ g_cols (lw_geom DP) < C
    | None => True
    end.

Theorem C14_exec_refusals : forall s a p C P St D,
  nth_error (st_lw s) (tw_plate a) = Some P -> nth_error (st_lw s) (tw_stock a) = Some St ->
  nth_error (st_lw s) (tw_diluent a) = Some D ->
  ((n_row_ids (lw_geom P) < tw_R a \/ g_cols (lw_geom P) < C) -> to_worklist s a p C = (s, Some EValue)) /\
  (bad_destination s a C -> to_worklist s a p C = (s, Some EValue)) /\
  ((is_trough (lw_geom St) = false \/ is_trough (lw_geom D) = false) ->
     to_worklist s a p C = (s, Some EValue)) /\
  (tw_R a <= n_row_ids (lw_geom P) -> C <= g_cols (lw_geom P) -> ~ bad_destination s a C ->
   is_trough (lw_geom St) = true -> is_trough (lw_geom D) = true ->
   to_worklist s a p C = run_instrs s a p (lw_geom St) (lw_geom D) (dp_instr p)).
Proof. exact to_worklist_cases. Qed.
Print Assumptions C14_exec_refusals.

(** all operations of a list of instructions, the i-th one issued with [max_volume = nth i wms] *)
Definition ops_of (a : twl_args) (p : dplan) (gs gd : geom) (is : list instr) (wms : list Q) : list op :=
  flat_map (fun iw => instr_ops a p (snd iw) gs gd (fst iw)) (zip is wms).

(** a run of the instructions in which nothing is refused is a run of their operations, in order *)
Theorem C14_exec_run : forall a p gs gd is s s',
  run_instrs s a p gs gd is = (s', None) ->
  exists wms, length wms = length is /\ run_ops s (ops_of a p gs gd is wms) = (s', None).
Proof. exact run_instrs_ops. Qed.
Print Assumptions C14_exec_run.

(** volume requested from labware k by one operation (with the broadcasting of [transfer]) and by a
    list of operations *)
Definition transfer_volume (sw dw : arr string) (vs : arr Q) : Q :=
  let n := Nat.max (length (flattenF sw)) (Nat.max (length (flattenF dw)) (length (flattenF vs))) in
  Qsum (broadcast (flattenF vs) n).
Definition requested_from (k : nat) (ops : list op) : Q :=
  Qsum (map (fun o => match o with
                      | OTransfer ks sw _ dw vs _ _ _ _ => if ks =? k then transfer_volume sw dw vs else 0%Q
                      | _ => 0%Q
                      end) ops).

(** the (source, destination, volume) triples of a [transfer] call: arguments flattened column-major,
    singletons broadcast *)
Definition transfer_triples (sw dw : arr string) (vs : arr Q) : list triple :=
  let n := Nat.max (length (flattenF sw)) (Nat.max (length (flattenF dw)) (length (flattenF vs))) in
  zip (zip (broadcast (flattenF sw) n) (broadcast (flattenF dw) n)) (broadcast (flattenF vs) n).

(** the same by COLUMN of the source labware (stock and diluent may be two columns of one trough):
    [well_in_column col w]: the id [w] names a well of column [col], whatever its row letter;
    [column_volume]: what one [transfer] call requests from the wells of column [col] of its source;
    [requested_from_column k col ops]: what the operations request from column [col] of labware [k] *)
Definition well_in_column (col : nat) (w : string) : bool :=
  match id_rc w with Some rc => (snd rc =? col)%nat | None => false end.
Definition column_volume (col : nat) (sw dw : arr string) (vs : arr Q) : Q :=
  Qsum (map snd (filter (fun t => well_in_column col (fst (fst t))) (transfer_triples sw dw vs))).
Definition requested_from_column (k col : nat) (ops : list op) : Q :=
  Qsum (map (fun o => match o with
                      | OTransfer ks sw _ dw vs _ _ _ _ => if ks =? k then column_volume col sw dw vs else 0%Q
                      | _ => 0%Q
                      end) ops).

(** The operations of a plan request exactly v_stock from the stock column and
    R * sum vmax - (all planned volumes) = v_diluent - (serial volumes) <= v_diluent from the diluent
    column.  Stock and diluent are two different labware OR two different columns of one trough
    (the documented configuration); [gs], [gd] are the geometries of the stock and the diluent labware
    (with at least one row letter, as every trough has).

    The state-level counterpart (volumes actually moved, via the volume ledger of [transfer]) is
    C14_exec_volumes at the end of this file: after [to_worklist s a p C = (s', None)] on a plate that
    is empty in the used region, well (r, c) of the plate holds exactly
    [vmax c - drawn_from p c r - (v_destination if a destination is given)], the stock column lost
    exactly [v_stock p] and the diluent column exactly the second sum; C14_exec_concentration gives
    the tracked composition, C14_exec_destination the wells of the destination plate.
    C14_exec_example and C14_exec_same_trough_example check this on concrete runs. *)
Theorem C14_exec_requested : forall ideal stock vmax mt p R a gs gd wms,
  plan_core ideal stock vmax mt = Ok p -> rows R ideal ->
  length vmax = length ideal -> tw_R a = R ->
  tw_plate a <> tw_stock a -> tw_plate a <> tw_diluent a ->
  (tw_stock a <> tw_diluent a \/ tw_stock_column a <> tw_diluent_column a) ->
  0 < n_row_ids gs -> 0 < n_row_ids gd ->
  length wms = length (dp_instr p) ->
  (requested_from_column (tw_stock a) (tw_stock_column a) (ops_of a p gs gd (dp_instr p) wms)
     == inject_Z (v_stock p))%Q /\
  (requested_from_column (tw_diluent a) (tw_diluent_column a) (ops_of a p gs gd (dp_instr p) wms) ==
     inject_Z (Z.of_nat R) * Qsum vmax - inject_Z (sumZ (concat (map i_vols (dp_instr p)))))%Q /\
  (requested_from_column (tw_diluent a) (tw_diluent_column a) (ops_of a p gs gd (dp_instr p) wms) ==
     v_diluent R p
     - inject_Z (sumZ (concat (map i_vols (filter (fun i => negb (from_stock_col i)) (dp_instr p))))))%Q /\
  ((0 <= mt)%Q ->
   (requested_from_column (tw_diluent a) (tw_diluent_column a) (ops_of a p gs gd (dp_instr p) wms)
      <= v_diluent R p)%Q).
Proof. exact c14_exec_requested_columns. Qed.
Print Assumptions C14_exec_requested.

(** with two different LABWARE the same holds for everything requested from the stock labware resp.
    the diluent labware, whatever the wells (for one trough this measure cannot tell stock from
    diluent, hence the column-wise statement above) *)
Theorem C14_exec_requested_labware : forall ideal stock vmax mt p R a gs gd wms,
  plan_core ideal stock vmax mt = Ok p -> rows R ideal ->
  length vmax = length ideal -> tw_R a = R ->
  tw_plate a <> tw_stock a -> tw_plate a <> tw_diluent a -> tw_stock a <> tw_diluent a ->
  length wms = length (dp_instr p) ->
  (requested_from (tw_stock a) (ops_of a p gs gd (dp_instr p) wms) == inject_Z (v_stock p))%Q /\
  (requested_from (tw_diluent a) (ops_of a p gs gd (dp_instr p) wms) ==
     inject_Z (Z.of_nat R) * Qsum vmax - inject_Z (sumZ (concat (map i_vols (dp_instr p)))))%Q /\
  (requested_from (tw_diluent a) (ops_of a p gs gd (dp_instr p) wms) ==
     v_diluent R p
     - inject_Z (sumZ (concat (map i_vols (filter (fun i => negb (from_stock_col i)) (dp_instr p))))))%Q /\
  ((0 <= mt)%Q -> (requested_from (tw_diluent a) (ops_of a p gs gd (dp_instr p) wms) <= v_diluent R p)%Q).
Proof. exact c14_exec_requested. Qed.
Print Assumptions C14_exec_requested_labware.

(* ------------------------------------------------------------------------------------------ *)
(** * the argument checks in front of the planner *)

(** [dilution_plan] returns a plan only for stock >= xmax, a known mode and one vmax per column (a
    scalar is repeated), and then it is the plan of [plan_core]: all theorems above apply; every
    refusal is a ValueError *)
Theorem C14_dilution_plan : forall stock_ge_xmax mode_ok C vmax ideal stock mt,
  (forall p, dilution_plan stock_ge_xmax mode_ok C vmax ideal stock mt = Ok p ->
     stock_ge_xmax = true /\ mode_ok = true /\ length (vmax_columns C vmax) = C /\
     plan_core ideal stock (vmax_columns C vmax) mt = Ok p) /\
  (forall e, dilution_plan stock_ge_xmax mode_ok C vmax ideal stock mt = Err e -> e = EValue) /\
  (stock_ge_xmax = false \/ mode_ok = false \/ length (vmax_columns C vmax) <> C ->
     dilution_plan stock_ge_xmax mode_ok C vmax ideal stock mt = Err EValue).
Proof.
  exact (fun sg mo C vmax ideal stock mt =>
           conj (dilution_plan_ok sg mo C vmax ideal stock mt)
                (conj (dilution_plan_err sg mo C vmax ideal stock mt)
                      (dilution_plan_refuses sg mo C vmax ideal stock mt))).
Qed.
Print Assumptions C14_dilution_plan.

(* ------------------------------------------------------------------------------------------ *)
(** * examples *)

Local Open Scope Q_scope.

(** a 2 x 4 plan: two columns from the stock, column 2 from column 0, column 3 from column 2 *)
Definition ex_ideal : list (list Q) := [[100; 80]; [50; 40]; [10; 8]; [2; 1]].
Definition ex_plan : dplan :=
  {| dp_instr := [ {| i_col := 0; i_steps := 0; i_src := None; i_vols := [200; 160]%Z |};
                   {| i_col := 1; i_steps := 0; i_src := None; i_vols := [100; 80]%Z |};
                   {| i_col := 2; i_steps := 1; i_src := Some 0%nat; i_vols := [20; 20]%Z |};
                   {| i_col := 3; i_steps := 2; i_src := Some 2%nat; i_vols := [40; 25]%Z |} ];
     dp_x := [[100; 80]; [50; 40]; [10; 8]; [2; 1]];
     dp_vmax := [200; 200; 200; 200] |}.

Example C14_example :
  plan_core ex_ideal 100 [200; 200; 200; 200] 20 = Ok ex_plan /\
  dilution_plan true true 4 (A0 200) ex_ideal 100 20 = Ok ex_plan /\
  rows 2 ex_ideal /\
  v_stock ex_plan = 540%Z /\ Qred (v_diluent 2 ex_plan) = 1060 /\ max_steps ex_plan = 2%nat /\
  (* an unreachable request: 1/1000 of the stock in one step with min_transfer 20 of 200 uL *)
  plan_core [[100]; [1#10]] 100 [200; 200] 20 = Err EValue.
Proof. vm_compute. repeat split; repeat constructor. Qed.

(** the plans of the two refutations *)
Example C14_refuted_plans :
  plan_core [[32#5; 63#10]; [31#5; 61#10]] 10 [10; 5] 4 =
    Ok {| dp_instr := [ {| i_col := 0; i_steps := 0; i_src := None; i_vols := [6; 6]%Z |};
                        {| i_col := 1; i_steps := 1; i_src := Some 0%nat; i_vols := [6; 6]%Z |} ];
          dp_x := [[6; 6]; [36#5; 36#5]]; dp_vmax := [10; 5] |} /\
  plan_core [[10]; [8]; [32#5]] 1000 [1000; 1000; 1000] 10 =
    Ok {| dp_instr := [ {| i_col := 0; i_steps := 0; i_src := None; i_vols := [10]%Z |};
                        {| i_col := 1; i_steps := 1; i_src := Some 0%nat; i_vols := [800]%Z |};
                        {| i_col := 2; i_steps := 1; i_src := Some 0%nat; i_vols := [640]%Z |} ];
          dp_x := [[10]; [8]; [32#5]]; dp_vmax := [1000; 1000; 1000] |}.
Proof. vm_compute. split; reflexivity. Qed.

(** executing the 2 x 4 plan on an empty 2 x 4 plate (labware 0) with a stock trough (1) and a diluent
    trough (2) of 20000 uL each: nothing is refused; plate volumes (row-major) are vmax minus what
    later columns took, the stock lost v_stock = 540, the diluent 955 = v_diluent - 105 *)
Local Open Scope string_scope.
Definition ex_args (R : nat) : twl_args :=
  {| tw_R := R; tw_stock := 1; tw_stock_column := 0; tw_diluent := 2; tw_diluent_column := 0;
     tw_plate := 0; tw_dest := None; tw_v_destination := 0; tw_mix_threshold := 1#20;
     tw_mix_wash := SInt 2; tw_mix_repeat := 2; tw_mix_volume := 4#5;
     tw_lc_stock := "Water_DispZmax-1_AspZmax-1"; tw_lc_diluent := "Water_DispZmax-1_AspZmax-1";
     tw_lc_mix := "Water_DispZmax-1_AspZmax-1"; tw_lc_transfer := "Water_DispZmax-1_AspZmax-1" |}.
Definition ex_plate (R C : Z) (vmax : Q) : res labware :=
  mk_labware {| a_name := "plate"; a_rows := PInt R; a_cols := PInt C; a_min := XQ 0; a_max := XQ vmax;
                a_init := None; a_vrows := None; a_names := [] |}.
Definition ex_trough (name : string) : res labware :=
  mk_trough {| t_name := name; t_vrows := PInt 8; t_cols := PInt 1; t_min := XQ 1000; t_max := XQ 30000;
               t_init := A0 (XQ 20000); t_colnames := CNone |}.
(** final volumes of the three labwares and the outcome *)
Definition ex_run (plate : res labware) (R C : nat) (plan : res dplan) : option (list (list Q) * option err) :=
  match plate, ex_trough "stock", ex_trough "water", plan with
  | Ok P, Ok St, Ok D, Ok p =>
      let s := {| st_lw := [P; St; D]; st_wl := init_wl Evo 950 true false |} in
      let '(s', e) := to_worklist s (ex_args R) p C in
      Some (map lw_vols (st_lw s'), e)
  | _, _, _, _ => None
  end.

Example C14_exec_example :
  ex_run (ex_plate 2 4 300) 2 4 (Ok ex_plan)
  = Some ([[180; 200; 160; 200; 180; 200; 175; 200]; [19460]; [19045]], None) /\
  (* a plate with too few columns is refused *)
  ex_run (ex_plate 2 3 300) 2 4 (Ok ex_plan)
  = Some ([[0; 0; 0; 0; 0; 0]; [20000]; [20000]], Some EValue).
Proof. vm_compute. split; reflexivity. Qed.

(** F11b at run time: the plan of C14_budget_refuted is returned, but its execution stops with an
    underflow when column 2 asks for 640 uL of the 200 uL left in column 0 *)
Example C14_budget_example :
  ex_run (ex_plate 1 3 1500) 1 3 (plan_core [[10]; [8]; [32#5]] 1000 [1000; 1000; 1000] 10)
  = Some ([[200; 800; 0]; [19990]; [19010]], Some EUnderflow).
Proof. vm_compute. reflexivity. Qed.

(* ------------------------------------------------------------------------------------------ *)
(** * the volume ledger of [transfer] ("C04 for transfers") and the volumes after [to_worklist] *)

(** ([transfer_triples]: see above) well id [w] names the real well with flat index [i] of labware [L] *)
Definition is_well (L : labware) (i : nat) (w : string) : bool :=
  match lw_index L w with Some k => (k =? i)%nat | None => false end.
(** total volume the triples take out of / put into the real well [i] of [L] *)
Definition taken_from (L : labware) (i : nat) (T : list triple) : Q :=
  Qsum (map snd (filter (fun t => is_well L i (fst (fst t))) T)).
Definition put_into (L : labware) (i : nat) (T : list triple) : Q :=
  Qsum (map snd (filter (fun t => is_well L i (snd (fst t))) T)).

(** The full statement
      forall s ks sw kd dw vols label ws pb kw s',
        transfer s ks sw kd dw vols label ws pb kw = (s', None) -> wf_state s ->
        length (st_lw s') = length (st_lw s) /\
        forall j L, nth_error (st_lw s) j = Some L ->
          exists L', nth_error (st_lw s') j = Some L' /\ lw_geom L' = lw_geom L /\
            forall i, vol_at L' i == vol_at L i
                        - (if j =? ks then taken_from L i (transfer_triples sw dw vols) else 0)
                        + (if j =? kd then put_into L i (transfer_triples sw dw vols) else 0)
    is refuted: on a worklist with max_volume = -2 and auto_split, [partition_volume 5 (-2)] is one
    non-positive piece, no step is planned, the transfer of 5 uL is accepted and nothing moves. *)
Theorem C14_transfer_ledger_refuted :
  exists s ks sw kd dw vols label ws pb kw s' L L',
    transfer s ks sw kd dw vols label ws pb kw = (s', None) /\ wf_state s /\
    nth_error (st_lw s) ks = Some L /\ nth_error (st_lw s') ks = Some L' /\
    ~ (vol_at L' 0 == vol_at L 0
                      - (if (ks =? ks)%nat then taken_from L 0 (transfer_triples sw dw vols) else 0)
                      + (if (ks =? kd)%nat then put_into L 0 (transfer_triples sw dw vols) else 0))%Q.
Proof. exact c14_transfer_ledger_refuted. Qed.
Print Assumptions C14_transfer_ledger_refuted.

(** what holds: on a worklist with a positive max_volume, an accepted transfer keeps the number and
    the geometry of the labware and changes the volume of every real well [i] of every labware [j] by
    exactly what the requested triples say: minus the volumes of the triples whose source well is
    [(ks, i)], plus those whose destination well is [(kd, i)] (several ids of a trough column name the
    same real well; a well onto itself nets to zero) *)
Theorem C14_transfer_ledger_partial : forall s ks sw kd dw vols label ws pb kw s',
  transfer s ks sw kd dw vols label ws pb kw = (s', None) -> wf_state s -> (0 < w_max (st_wl s))%Q ->
  length (st_lw s') = length (st_lw s) /\
  forall j L, nth_error (st_lw s) j = Some L ->
    exists L', nth_error (st_lw s') j = Some L' /\ lw_geom L' = lw_geom L /\
      forall i, (vol_at L' i == vol_at L i
                               - (if (j =? ks)%nat then taken_from L i (transfer_triples sw dw vols) else 0)
                               + (if (j =? kd)%nat then put_into L i (transfer_triples sw dw vols) else 0))%Q.
Proof. exact c14_transfer_ledger. Qed.
Print Assumptions C14_transfer_ledger_partial.

(** A run of [to_worklist] without refusal, on a worklist with positive max_volume (necessary, see
    above), with the plate (not a trough) different from the stock labware, the diluent labware and the
    optional destination plate, the destination plate different from all of them, and the used
    region of the plate empty.  Stock and diluent may be the SAME trough (the documented
    configuration: two columns of one trough) or two troughs; no hypothesis relates them.  [C] is
    arbitrary (the checks of to_worklist and the accepted transfers imply all that is needed).
    (a) the stock column lost exactly v_stock;
    (b) the diluent column lost exactly R * sum vmax - (all planned volumes), which is at most
        v_diluent;
        no other well of the trough(s) changed: if stock and diluent are one labware ([St = D],
        [St' = D']) both formulas describe all its wells, each column losing its own amount (and the
        sum of both, should the two columns coincide);
    (c) plate well (r, c) holds vmax[c] minus what later columns drew from it minus v_destination if a
        destination plate is given; the mixing transfers change nothing. *)
Theorem C14_exec_volumes : forall ideal stock vmax mt p R a C s s' P St D,
  plan_core ideal stock vmax mt = Ok p -> rows R ideal -> length vmax = length ideal -> tw_R a = R ->
  to_worklist s a p C = (s', None) -> wf_state s -> (0 < w_max (st_wl s))%Q ->
  tw_plate a <> tw_stock a -> tw_plate a <> tw_diluent a ->
  (forall d, tw_dest a = Some d -> d <> tw_plate a /\ d <> tw_stock a /\ d <> tw_diluent a) ->
  nth_error (st_lw s) (tw_plate a) = Some P -> nth_error (st_lw s) (tw_stock a) = Some St ->
  nth_error (st_lw s) (tw_diluent a) = Some D ->
  is_trough (lw_geom P) = false ->
  (forall r c, (r < R)%nat -> (c < length ideal)%nat -> (vol_at P (r * g_cols (lw_geom P) + c) == 0)%Q) ->
  exists P' St' D',
    nth_error (st_lw s') (tw_plate a) = Some P' /\ nth_error (st_lw s') (tw_stock a) = Some St' /\
    nth_error (st_lw s') (tw_diluent a) = Some D' /\
    lw_geom P' = lw_geom P /\ lw_geom St' = lw_geom St /\ lw_geom D' = lw_geom D /\
    (forall i, (vol_at St' i ==
                vol_at St i
                - (if (i =? tw_stock_column a)%nat then inject_Z (v_stock p) else 0)
                - (if ((tw_diluent a =? tw_stock a) && (i =? tw_diluent_column a))%nat
                   then inject_Z (Z.of_nat R) * Qsum vmax - inject_Z (sumZ (concat (map i_vols (dp_instr p))))
                   else 0))%Q) /\
    (forall i, (vol_at D' i ==
                vol_at D i
                - (if (i =? tw_diluent_column a)%nat
                   then inject_Z (Z.of_nat R) * Qsum vmax - inject_Z (sumZ (concat (map i_vols (dp_instr p))))
                   else 0)
                - (if ((tw_stock a =? tw_diluent a) && (i =? tw_stock_column a))%nat
                   then inject_Z (v_stock p) else 0))%Q) /\
    ((0 <= mt)%Q ->
     (inject_Z (Z.of_nat R) * Qsum vmax - inject_Z (sumZ (concat (map i_vols (dp_instr p))))
      <= v_diluent R p)%Q) /\
    (forall r c, (r < R)%nat -> (c < length ideal)%nat ->
       lw_index P (well_id r c) = Some (r * g_cols (lw_geom P) + c)%nat /\
       (vol_at P' (r * g_cols (lw_geom P) + c) ==
          nth c vmax 0 - inject_Z (drawn_from p c r)
          - (match tw_dest a with Some _ => tw_v_destination a | None => 0 end))%Q).
Proof. exact c14_exec_volumes. Qed.
Print Assumptions C14_exec_volumes.

(** (d) the destination plate [d] (not a trough): every well (r, c), r < R, c < C, received exactly
    v_destination; its geometry is unchanged *)
Theorem C14_exec_destination_volumes : forall ideal stock vmax mt p R a C s s' d DP,
  plan_core ideal stock vmax mt = Ok p -> rows R ideal -> tw_R a = R ->
  to_worklist s a p C = (s', None) -> wf_state s -> (0 < w_max (st_wl s))%Q ->
  tw_dest a = Some d -> d <> tw_plate a -> d <> tw_stock a -> d <> tw_diluent a ->
  nth_error (st_lw s) d = Some DP -> is_trough (lw_geom DP) = false ->
  exists DP', nth_error (st_lw s') d = Some DP' /\ lw_geom DP' = lw_geom DP /\
    forall r c, (r < R)%nat -> (c < length ideal)%nat ->
      lw_index DP (well_id r c) = Some (r * g_cols (lw_geom DP) + c)%nat /\
      (vol_at DP' (r * g_cols (lw_geom DP) + c) ==
         vol_at DP (r * g_cols (lw_geom DP) + c) + tw_v_destination a)%Q.
Proof. exact c14_exec_destination_volumes. Qed.
Print Assumptions C14_exec_destination_volumes.

(** the hypotheses of C14_exec_volumes hold for the run of C14_exec_example (whose final volumes are
    those the theorem predicts: 200 - 20 = 180 in column 0, 200 - 40 resp. 200 - 25 in column 2,
    20000 - 540 in the stock, 20000 - (2 * 800 - 645) in the diluent) *)
Example C14_exec_volumes_example : forall P St D,
  ex_plate 2 4 300 = Ok P -> ex_trough "stock" = Ok St -> ex_trough "water" = Ok D ->
  let s := {| st_lw := [P; St; D]; st_wl := init_wl Evo 950 true false |} in
  plan_core ex_ideal 100 [200; 200; 200; 200] 20 = Ok ex_plan /\ rows 2 ex_ideal /\
  wf_state s /\ 0 < w_max (st_wl s) /\ is_trough (lw_geom P) = false /\
  (forall r c, (r < 2)%nat -> (c < 4)%nat -> vol_at P (r * g_cols (lw_geom P) + c) == 0) /\
  snd (to_worklist s (ex_args 2) ex_plan 4) = None.
Proof.
  intros P St D HP HSt HD s.
  split; [vm_compute; reflexivity|]. split; [repeat constructor|].
  split.
  { repeat apply Forall_cons;
      [exact (mk_labware_wf _ _ HP)|exact (mk_trough_wf _ _ HSt)|exact (mk_trough_wf _ _ HD)|apply Forall_nil]. }
  subst s. vm_compute in HP, HSt, HD. injection HP as <-. injection HSt as <-. injection HD as <-.
  split; [reflexivity|]. split; [reflexivity|]. split.
  - intros [|[|r]] c Hr Hc; [| |lia]; destruct c as [|[|[|[|c]]]]; try lia; vm_compute; reflexivity.
  - vm_compute. reflexivity.
Qed.

(** max_volume > 0 is needed in C14_exec_volumes as well: with max_volume = -2 (and no mixing) the
    one-column plan is "executed" without refusal and without moving anything *)
Definition ex_args_nomix (R : nat) : twl_args :=
  {| tw_R := R; tw_stock := 1; tw_stock_column := 0; tw_diluent := 2; tw_diluent_column := 0;
     tw_plate := 0; tw_dest := None; tw_v_destination := 0; tw_mix_threshold := 2;
     tw_mix_wash := SInt 2; tw_mix_repeat := 2; tw_mix_volume := 4#5;
     tw_lc_stock := "Water"; tw_lc_diluent := "Water"; tw_lc_mix := "Water"; tw_lc_transfer := "Water" |}.
Example C14_exec_negative_max_example :
  match ex_plate 2 1 300, ex_trough "stock", ex_trough "water", plan_core [[100; 80]] 100 [200] 20 with
  | Ok P, Ok St, Ok D, Ok p =>
      let s := {| st_lw := [P; St; D]; st_wl := init_wl Evo (-(2)) true false |} in
      let '(s', e) := to_worklist s (ex_args_nomix 2) p 1 in
      Some (map lw_vols (st_lw s'), e, v_stock p)
  | _, _, _, _ => None
  end = Some ([[0; 0]; [20000]; [20000]], None, 360%Z).
Proof. vm_compute. reflexivity. Qed.

(* ------------------------------------------------------------------------------------------ *)
(** * the tracked composition after [to_worklist] *)

(** Under the hypotheses of C14_exec_volumes, with every vmax positive, the mixing invariant of C05 for
    the initial labware ([st_inv], established by the constructors and kept by every operation), the
    stock column consisting 100 % of component [k] and the diluent column containing none of it: the
    fraction of [k] that the plate reports for well (r, c) after the run, times the stock
    concentration, is the concentration x[c][r] reported by the plan ([frac L k i] is the entry of
    the component table of [L], Spec/Mixing.v).  Follows the execution instruction by instruction:
    a column is filled from the stock or from an already finished column, filled up with diluent,
    mixed (a well onto itself: no change), and afterwards only gives liquid away.
    Stock and diluent may be two columns of ONE trough ([tw_stock a = tw_diluent a], [St = D]) or two
    troughs: no hypothesis relates them (the two hypotheses on the fractions exclude that they are
    the same well). *)
Theorem C14_exec_concentration : forall ideal stock vmax mt p R a C s s' P St D k,
  plan_core ideal stock vmax mt = Ok p -> rows R ideal -> length vmax = length ideal -> tw_R a = R ->
  all_pos vmax ->
  to_worklist s a p C = (s', None) -> wf_state s -> st_inv s -> (0 < w_max (st_wl s))%Q ->
  tw_plate a <> tw_stock a -> tw_plate a <> tw_diluent a ->
  (forall d, tw_dest a = Some d -> d <> tw_plate a /\ d <> tw_stock a /\ d <> tw_diluent a) ->
  nth_error (st_lw s) (tw_plate a) = Some P -> nth_error (st_lw s) (tw_stock a) = Some St ->
  nth_error (st_lw s) (tw_diluent a) = Some D ->
  is_trough (lw_geom P) = false ->
  (forall r c, (r < R)%nat -> (c < length ideal)%nat -> (vol_at P (r * g_cols (lw_geom P) + c) == 0)%Q) ->
  (frac St k (tw_stock_column a) == 1)%Q -> (frac D k (tw_diluent_column a) == 0)%Q ->
  exists P', nth_error (st_lw s') (tw_plate a) = Some P' /\
    forall r c, (r < R)%nat -> (c < length ideal)%nat ->
      (frac P' k (r * g_cols (lw_geom P) + c) * stock == conc p c r)%Q.
Proof. exact c14_exec_concentration. Qed.
Print Assumptions C14_exec_concentration.

(** the additional hypotheses hold for the run of C14_exec_example; the reported fractions of the
    component "stock" (in %, row-major) are the planned concentrations *)
Example C14_exec_concentration_example : forall P St D,
  ex_plate 2 4 300 = Ok P -> ex_trough "stock" = Ok St -> ex_trough "water" = Ok D ->
  let s := {| st_lw := [P; St; D]; st_wl := init_wl Evo 950 true false |} in
  st_inv s /\ all_pos [200; 200; 200; 200] /\
  frac St "stock" 0 == 1 /\ frac D "stock" 0 == 0 /\
  match nth_error (st_lw (fst (to_worklist s (ex_args 2) ex_plan 4))) 0 with
  | Some P' => map (fun i => Qred (frac P' "stock" i * 100)) (seq 0 8) = [100; 50; 10; 2; 80; 40; 8; 1]
  | None => False
  end.
Proof.
  intros P St D HP HSt HD s.
  split.
  { repeat apply Forall_cons;
      [exact (mk_labware_mix_inv _ _ HP)|exact (mk_trough_mix_inv _ _ HSt)|exact (mk_trough_mix_inv _ _ HD)
      |apply Forall_nil]. }
  split; [repeat constructor|].
  subst s. vm_compute in HP, HSt, HD. injection HP as <-. injection HSt as <-. injection HD as <-.
  split; [vm_compute; reflexivity|]. split; [vm_compute; reflexivity|].
  vm_compute. reflexivity.
Qed.

(* ------------------------------------------------------------------------------------------ *)
(** * the destination plate *)

(** Under the hypotheses of C14_exec_concentration, with a destination plate [d] (not a trough,
    different from the plate and the trough(s)) that is empty in the used region and
    [0 < v_destination]: after the run EVERY well (r, c) of the destination plate holds exactly
    [v_destination] with exactly the reported concentration x[c][r].  (The transfer of column c to
    the destination plate is the last operation of instruction c, after the serial transfers out of
    column c, when the column has its final composition.) *)
Theorem C14_exec_destination : forall ideal stock vmax mt p R a C s s' P St D d DP k,
  plan_core ideal stock vmax mt = Ok p -> rows R ideal -> length vmax = length ideal -> tw_R a = R ->
  all_pos vmax ->
  to_worklist s a p C = (s', None) -> wf_state s -> st_inv s -> (0 < w_max (st_wl s))%Q ->
  tw_plate a <> tw_stock a -> tw_plate a <> tw_diluent a ->
  tw_dest a = Some d -> d <> tw_plate a -> d <> tw_stock a -> d <> tw_diluent a ->
  nth_error (st_lw s) (tw_plate a) = Some P -> nth_error (st_lw s) (tw_stock a) = Some St ->
  nth_error (st_lw s) (tw_diluent a) = Some D -> nth_error (st_lw s) d = Some DP ->
  is_trough (lw_geom P) = false -> is_trough (lw_geom DP) = false ->
  (forall r c, (r < R)%nat -> (c < length ideal)%nat -> (vol_at P (r * g_cols (lw_geom P) + c) == 0)%Q) ->
  (forall r c, (r < R)%nat -> (c < length ideal)%nat -> (vol_at DP (r * g_cols (lw_geom DP) + c) == 0)%Q) ->
  (frac St k (tw_stock_column a) == 1)%Q -> (frac D k (tw_diluent_column a) == 0)%Q ->
  (0 < tw_v_destination a)%Q ->
  exists DP', nth_error (st_lw s') d = Some DP' /\ lw_geom DP' = lw_geom DP /\
    forall r c, (r < R)%nat -> (c < length ideal)%nat ->
      lw_index DP (well_id r c) = Some (r * g_cols (lw_geom DP) + c)%nat /\
      (vol_at DP' (r * g_cols (lw_geom DP) + c) == tw_v_destination a)%Q /\
      (frac DP' k (r * g_cols (lw_geom DP) + c) * stock == conc p c r)%Q.
Proof. exact c14_exec_destination. Qed.
Print Assumptions C14_exec_destination.

(** the documented configuration: ONE trough (labware 1) with the stock in column 0 and the diluent in
    column 1, an empty 2 x 4 plate (labware 0) and an empty 2 x 4 destination plate (labware 2),
    v_destination = 50.  The hypotheses of C14_exec_volumes, C14_exec_concentration,
    C14_exec_destination_volumes and C14_exec_destination hold; nothing is refused; the trough
    columns lost 540 = v_stock and 955; every plate well holds 50 less than in C14_exec_example; every
    destination well holds 50; plate and destination plate report the planned concentrations *)
Local Open Scope Q_scope.
Definition ex_args_same (R : nat) : twl_args :=
  {| tw_R := R; tw_stock := 1; tw_stock_column := 0; tw_diluent := 1; tw_diluent_column := 1;
     tw_plate := 0; tw_dest := Some 2%nat; tw_v_destination := 50; tw_mix_threshold := 1#20;
     tw_mix_wash := SInt 2; tw_mix_repeat := 2; tw_mix_volume := 4#5;
     tw_lc_stock := "Water"; tw_lc_diluent := "Water"; tw_lc_mix := "Water"; tw_lc_transfer := "Water" |}.
Definition ex_trough2 : res labware :=
  mk_trough {| t_name := "reagents"; t_vrows := PInt 8; t_cols := PInt 2; t_min := XQ 1000; t_max := XQ 30000;
               t_init := A0 (XQ 20000); t_colnames := CList [Some "stock"; Some "water"] |}.
Definition ex_dest : res labware :=
  mk_labware {| a_name := "dest"; a_rows := PInt 2; a_cols := PInt 4; a_min := XQ 0; a_max := XQ 100;
                a_init := None; a_vrows := None; a_names := [] |}.

Example C14_exec_same_trough_example : forall P T DP,
  ex_plate 2 4 300 = Ok P -> ex_trough2 = Ok T -> ex_dest = Ok DP ->
  let s := {| st_lw := [P; T; DP]; st_wl := init_wl Evo 950 true false |} in
  let a := ex_args_same 2 in
  tw_stock a = tw_diluent a /\ tw_stock_column a <> tw_diluent_column a /\
  tw_plate a <> tw_stock a /\ tw_dest a = Some 2%nat /\ 0 < tw_v_destination a /\
  wf_state s /\ st_inv s /\ 0 < w_max (st_wl s) /\
  is_trough (lw_geom P) = false /\ is_trough (lw_geom DP) = false /\
  (forall r c, (r < 2)%nat -> (c < 4)%nat -> vol_at P (r * g_cols (lw_geom P) + c) == 0) /\
  (forall r c, (r < 2)%nat -> (c < 4)%nat -> vol_at DP (r * g_cols (lw_geom DP) + c) == 0) /\
  frac T "stock" 0 == 1 /\ frac T "stock" 1 == 0 /\
  snd (to_worklist s a ex_plan 4) = None /\
  map lw_vols (st_lw (fst (to_worklist s a ex_plan 4)))
  = [[130; 150; 110; 150; 130; 150; 125; 150]; [19460; 19045]; [50; 50; 50; 50; 50; 50; 50; 50]] /\
  map (fun L => map (fun i => Qred (frac L "stock" i * 100)) (seq 0 8))
      (firstn 1 (st_lw (fst (to_worklist s a ex_plan 4))) ++ skipn 2 (st_lw (fst (to_worklist s a ex_plan 4))))
  = [[100; 50; 10; 2; 80; 40; 8; 1]; [100; 50; 10; 2; 80; 40; 8; 1]].
Proof.
  intros P T DP HP HT HDP s a.
  split; [reflexivity|]. split; [discriminate|]. split; [discriminate|]. split; [reflexivity|].
  split; [reflexivity|].
  split.
  { repeat apply Forall_cons;
      [exact (mk_labware_wf _ _ HP)|exact (mk_trough_wf _ _ HT)|exact (mk_labware_wf _ _ HDP)|apply Forall_nil]. }
  split.
  { repeat apply Forall_cons;
      [exact (mk_labware_mix_inv _ _ HP)|exact (mk_trough_mix_inv _ _ HT)|exact (mk_labware_mix_inv _ _ HDP)
      |apply Forall_nil]. }
  subst s a. vm_compute in HP, HT, HDP. injection HP as <-. injection HT as <-. injection HDP as <-.
  split; [reflexivity|]. split; [reflexivity|]. split; [reflexivity|].
  split.
  { intros [|[|r]] c Hr Hc; [| |lia]; destruct c as [|[|[|[|c]]]]; try lia; vm_compute; reflexivity. }
  split.
  { intros [|[|r]] c Hr Hc; [| |lia]; destruct c as [|[|[|[|c]]]]; try lia; vm_compute; reflexivity. }
  split; [vm_compute; reflexivity|]. split; [vm_compute; reflexivity|].
  split; [vm_compute; reflexivity|]. split; vm_compute; reflexivity.
Qed.
