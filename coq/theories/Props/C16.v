(** C16 — device equivalence.  Running the same sequence of device-independent operations through an
    EvoWorklist and a FluentWorklist leaves all labware with identical volumes, compositions and histories,
    rejects the same operations with the same error, and produces record lists that are identical except
    for the well positions of records that address a trough.  A worklist of the generic base type refuses
    operations that need device-specific numbering.  Statements only; proofs live in Proofs/DeviceProofs.v.

    Definitions used (Proofs/DeviceProofs.v, first section):
    [dev_indep o]        the op is not OEvoAsp / OEvoDisp / OEvoWash, and a transfer does not use the
                         deprecated wash scheme None (which flushes on Fluent and does nothing on EVO);
    [troughs_of lws n]   some labware of [lws] named [n] is a trough;
    [rec_sim T r1 r2]    r1 = r2, or both are A (both are D) records that agree in every field but
                         [ad_position] and whose rack label satisfies [T], or both are R records that agree
                         in every field but the well ranges and the exclusion list, where the source range
                         may differ only if [T] holds of the source label and the destination range and
                         exclusion list only if [T] holds of the destination label ([ad_sim], [r_sim]);
    [state_sim s1 s2]    same labware list (Leibniz: volumes, compositions, histories), same max_volume /
                         auto_split / diti_mode, [s1] is an EVO and [s2] a Fluent worklist, and the record
                         lists are related by [Forall2 (rec_sim (troughs_of (st_lw s1)))];
    [plain_rec r]        r is a C, W, WD, F, B or S record; [raw_record_op o]: o is OAspWell / ODispWell /
                         OReagent (the emitters that take caller-computed positions);
    [lsig L]             (name, geometry) of a labware.
    No well-formedness of the labware, no distinctness of the names and no condition on the ids passed to
    the operations is needed for the theorems ([distribute] refuses destination ids unknown to the
    destination labware before it computes any position); with distinct names [troughs_of] identifies THE
    labware of that name (C16_troughs_meaning). *)
From Robo Require Import Prelude Str Wells Utils Labware Tips Records Partition Params Worklist EvoCmd
  Program Invariants DeviceProofs.

(* ------------------------------------------------------------------ positions *)

(** an id of the labware is accepted by both numberings; the numbers are equal unless the labware is a
    trough *)
Theorem C16_positions : forall g s, well_index g s <> None ->
  exists p1 p2, evo_position g s = Ok p1 /\ fluent_position g s = Ok p2 /\
                (is_trough g = false -> p1 = p2).
Proof. exact positions_known. Qed.
Print Assumptions C16_positions.

(** on a trough with [v] virtual rows: column-major over the virtual rows on the EVO, the column on the
    Fluent *)
Theorem C16_positions_trough : forall g v s, g_vrows g = Some v -> well_index g s <> None ->
  exists r c, r < n_row_ids g /\ c < g_cols g /\ s = well_id r c /\
    evo_position g s = Ok (1 + c * v + r) /\ fluent_position g s = Ok (1 + c).
Proof. exact positions_trough. Qed.
Print Assumptions C16_positions_trough.

(** any string: what the EVO numbering accepts the Fluent numbering accepts too (same number off troughs) *)
Theorem C16_positions_evo_fluent : forall g s p, evo_position g s = Ok p ->
  exists p', fluent_position g s = Ok p' /\ (is_trough g = false -> p' = p).
Proof. exact evo_ok_fluent_ok. Qed.
Print Assumptions C16_positions_evo_fluent.

(** the full statement "for every id both numberings accept or both refuse" is false:
      forall g s, wf_geom g ->
        (exists p1 p2, evo_position g s = Ok p1 /\ fluent_position g s = Ok p2) \/
        (exists e1 e2, evo_position g s = Err e1 /\ fluent_position g s = Err e2)
    fails for "AB01" on a 2 x 3 plate: the Fluent numbering re-reads the row from the first character *)
Theorem C16_positions_refuted :
  exists g s, wf_geom g /\ fluent_position g s = Ok 1 /\ evo_position g s = Err EReject.
Proof. exact positions_agree_refuted. Qed.
Print Assumptions C16_positions_refuted.

(* ------------------------------------------------------------------ lock step *)

(** with distinct labware names, [troughs_of] tells whether the labware of that name is a trough *)
Theorem C16_troughs_meaning : forall lws L, NoDup (map lw_name lws) -> In L lws ->
  troughs_of lws (lw_name L) = is_trough (lw_geom L).
Proof. exact troughs_of_spec. Qed.
Print Assumptions C16_troughs_meaning.

(** one operation, accepted or rejected: same outcome, simulation preserved (so the partial effects of a
    rejected operation are the same on both devices); names and geometries never change *)
Theorem C16_step : forall s1 s2 o,
  state_sim s1 s2 -> dev_indep o ->
  let '(s1', e1) := step s1 o in let '(s2', e2) := step s2 o in
  state_sim s1' s2' /\ e1 = e2 /\ map lsig (st_lw s1') = map lsig (st_lw s1).
Proof. exact step_state_sim. Qed.
Print Assumptions C16_step.

(** any program of device-independent operations *)
Theorem C16_run : forall ops s1 s2,
  state_sim s1 s2 -> Forall dev_indep ops ->
  let '(s1', es1) := run s1 ops in let '(s2', es2) := run s2 ops in
  state_sim s1' s2' /\ es1 = es2 /\ map lsig (st_lw s1') = map lsig (st_lw s1).
Proof. exact run_state_sim. Qed.
Print Assumptions C16_run.

(** the starting point: the same labware, an empty EVO and an empty Fluent worklist with the same settings *)
Theorem C16_init : forall lws max_volume autosplit diti,
  state_sim {| st_lw := lws; st_wl := init_wl Evo max_volume autosplit diti |}
            {| st_lw := lws; st_wl := init_wl Fluent max_volume autosplit diti |}.
Proof. exact init_state_sim. Qed.
Print Assumptions C16_init.

(** the two together: equal final labware, equal outcome lists, record lists related w.r.t. the troughs
    of the initial labware list *)
Theorem C16_run_init : forall lws max_volume autosplit diti ops,
  Forall dev_indep ops ->
  let r1 := run {| st_lw := lws; st_wl := init_wl Evo max_volume autosplit diti |} ops in
  let r2 := run {| st_lw := lws; st_wl := init_wl Fluent max_volume autosplit diti |} ops in
  st_lw (fst r1) = st_lw (fst r2) /\ snd r1 = snd r2 /\
  Forall2 (rec_sim (troughs_of lws)) (w_recs (st_wl (fst r1))) (w_recs (st_wl (fst r2))).
Proof. exact run_init_sim. Qed.
Print Assumptions C16_run_init.

(** without troughs the two worklists are identical *)
Theorem C16_no_trough_identical : forall s1 s2, state_sim s1 s2 ->
  (forall L, In L (st_lw s1) -> is_trough (lw_geom L) = false) ->
  w_recs (st_wl s1) = w_recs (st_wl s2).
Proof. exact no_trough_identical. Qed.
Print Assumptions C16_no_trough_identical.

Theorem C16_run_no_trough_identical : forall ops s1 s2,
  state_sim s1 s2 -> Forall dev_indep ops ->
  (forall L, In L (st_lw s1) -> is_trough (lw_geom L) = false) ->
  w_recs (st_wl (fst (run s1 ops))) = w_recs (st_wl (fst (run s2 ops))) /\
  st_lw (fst (run s1 ops)) = st_lw (fst (run s2 ops)) /\
  snd (run s1 ops) = snd (run s2 ops).
Proof. exact run_no_trough_identical. Qed.
Print Assumptions C16_run_no_trough_identical.

(* ------------------------------------------------------------------ the base type *)

(** [transfer] is refused outright *)
Theorem C16_base_transfer : forall s ks sw kd dw vols label ws pb kw,
  w_dev (st_wl s) = BaseDev ->
  transfer s ks sw kd dw vols label ws pb kw = (s, Some ECompat).
Proof. exact base_transfer. Qed.
Print Assumptions C16_base_transfer.

(** [aspirate] / [dispense]: once the labware call and the comment have gone through, the first positive
    volume is refused at the position lookup; nothing but the comment reaches the worklist *)
Theorem C16_base_aspirate : forall s k wells vols label kw L L' w,
  w_dev (st_wl s) = BaseDev ->
  nth_error (st_lw s) k = Some L ->
  remove L (A1 (fst (wells_vols wells vols))) (A1 (snd (wells_vols wells vols))) label = (L', None) ->
  comment (st_wl s) label = (w, None) ->
  aspirate s k wells vols label kw =
  ({| st_lw := upd (st_lw s) k L'; st_wl := w |},
   if existsb (fun it => xpos (snd it)) (zip (fst (wells_vols wells vols)) (snd (wells_vols wells vols)))
   then Some ECompat else None).
Proof. exact base_aspirate. Qed.
Print Assumptions C16_base_aspirate.

Theorem C16_base_dispense : forall s k wells vols label comps kw L L' w,
  w_dev (st_wl s) = BaseDev ->
  nth_error (st_lw s) k = Some L ->
  add L (A1 (fst (wells_vols wells vols))) (A1 (snd (wells_vols wells vols))) label comps = (L', None) ->
  comment (st_wl s) label = (w, None) ->
  dispense s k wells vols label comps kw =
  ({| st_lw := upd (st_lw s) k L'; st_wl := w |},
   if existsb (fun it => xpos (snd it)) (zip (fst (wells_vols wells vols)) (snd (wells_vols wells vols)))
   then Some ECompat else None).
Proof. exact base_dispense. Qed.
Print Assumptions C16_base_dispense.

(** [distribute] computes the destination positions right after its argument checks (trough source,
    volume, destination ids known to the destination labware): refused without any effect *)
Theorem C16_base_distribute : forall s ks kd dwells a Ls Ld v xv,
  w_dev (st_wl s) = BaseDev ->
  nth_error (st_lw s) ks = Some Ls -> nth_error (st_lw s) kd = Some Ld ->
  g_vrows (lw_geom Ls) = Some v -> rvol_x (d_volume a) = Some xv -> xv <> XNaN ->
  (match xv with XQ q => Qgtb q (w_max (st_wl s)) | XPInf => true | _ => false end) = false ->
  flattenF dwells <> [] ->
  (forall w, In w (flattenF dwells) -> lw_index Ld w <> None) ->
  distribute s ks kd dwells a = (s, Some ECompat).
Proof. exact base_distribute. Qed.
Print Assumptions C16_base_distribute.

Theorem C16_base_distribute_no_effect : forall s ks kd dwells a,
  w_dev (st_wl s) = BaseDev -> fst (distribute s ks kd dwells a) = s.
Proof. exact base_distribute_state. Qed.
Print Assumptions C16_base_distribute_no_effect.

(** the wanted statement "on the base type no step appends an A, D or R record",
      forall s o, w_dev (st_wl s) = BaseDev ->
        exists rs, w_recs (st_wl (fst (step s o))) = w_recs (st_wl s) ++ rs /\ Forall plain_rec rs,
    is false: [aspirate_well], [dispense_well] and [reagent_distribution] take their positions from the
    caller and work on every worklist type *)
Theorem C16_base_records_refuted :
  exists s o, w_dev (st_wl s) = BaseDev /\
    ~ (exists rs, w_recs (st_wl (fst (step s o))) = (w_recs (st_wl s) ++ rs)%list /\ Forall plain_rec rs).
Proof. exact base_no_position_records_refuted. Qed.
Print Assumptions C16_base_records_refuted.

(** every other operation appends C / W / WD / F / B / S records only, and the worklist stays a base
    worklist *)
Theorem C16_base_records_partial : forall s o,
  w_dev (st_wl s) = BaseDev -> ~ raw_record_op o ->
  w_dev (st_wl (fst (step s o))) = BaseDev /\
  exists rs, w_recs (st_wl (fst (step s o))) = (w_recs (st_wl s) ++ rs)%list /\ Forall plain_rec rs.
Proof.
  exact (fun s o Hd Hr => match base_step_ext s o Hd Hr with
                          | conj Hdev Hrs => conj (eq_trans Hdev Hd) Hrs end).
Qed.
Print Assumptions C16_base_records_partial.

Theorem C16_base_run : forall ops s,
  w_dev (st_wl s) = BaseDev -> Forall (fun o => ~ raw_record_op o) ops ->
  w_dev (st_wl (fst (run s ops))) = BaseDev /\
  exists rs, w_recs (st_wl (fst (run s ops))) = (w_recs (st_wl s) ++ rs)%list /\ Forall plain_rec rs.
Proof.
  exact (fun ops s Hd Hr => match base_run_ext ops s Hd Hr with
                            | conj Hdev Hrs => conj (eq_trans Hdev Hd) Hrs end).
Qed.
Print Assumptions C16_base_run.

(* ------------------------------------------------------------------ non-vacuity *)

#[local] Open Scope string_scope.

(** [ex16_state d]: a trough with 4 virtual rows x 2 columns and a 2 x 3 plate, worklist of device [d]
    with max_volume 100 and auto_split; [ex16_prog]: a transfer from the trough (wells A01 and C01) into the
    plate with 150 ul split into 2 x 75, a distribute from trough column 2 into A02 and B03, an aspirate
    of 1000 > max_volume (InvalidOperationError after the removal and the comment) and an aspirate whose
    second well underflows (VolumeUnderflowError after the first well has been removed) *)
Example C16_example_hyps :
  state_sim (ex16_state Evo) (ex16_state Fluent) /\
  Forall dev_indep ex16_prog /\
  wf_state (ex16_state Evo) /\ NoDup (map lw_name (st_lw (ex16_state Evo))).
Proof. exact ex16_hyps. Qed.

Example C16_example_run :
  let r1 := run (ex16_state Evo) ex16_prog in
  let r2 := run (ex16_state Fluent) ex16_prog in
  st_lw (fst r1) = st_lw (fst r2) /\
  map lw_vols (st_lw (fst r1)) = [[19820; 1400]; [200; 70; 50; 80; 50; 70]]%Q /\
  snd r1 = [None; None; Some EInvalidOp; Some EUnderflow] /\
  snd r2 = [None; None; Some EInvalidOp; Some EUnderflow] /\
  map render (w_recs (st_wl (fst r1))) =
    ["C;t"; "A;trough;;;1;;75.00;;;;"; "D;plate;;;1;;75.00;;;;"; "W1;";
     "A;trough;;;3;;30.00;;;;"; "D;plate;;;2;;30.00;;;;"; "W1;"; "B;";
     "A;trough;;;1;;75.00;;;;"; "D;plate;;;1;;75.00;;;;"; "W1;"; "B;";
     "C;dist"; "R;trough;;;5;8;plate;;;3;6;20;W;1;1;0;4;5"; "C;too much"] /\
  map render (w_recs (st_wl (fst r2))) =
    ["C;t"; "A;trough;;;1;;75.00;;;;"; "D;plate;;;1;;75.00;;;;"; "W1;";
     "A;trough;;;1;;30.00;;;;"; "D;plate;;;2;;30.00;;;;"; "W1;"; "B;";
     "A;trough;;;1;;75.00;;;;"; "D;plate;;;1;;75.00;;;;"; "W1;"; "B;";
     "C;dist"; "R;trough;;;5;8;plate;;;3;6;20;W;1;1;0;4;5"; "C;too much"].
Proof. vm_compute. repeat split; reflexivity. Qed.

(** destination ids unknown to the destination labware ("AB01" on the plate, which the Fluent numbering
    alone would accept): refused on both devices before any effect *)
Example C16_example_unknown_id :
  step (ex16_state Evo) ex16_unknown_1 = (ex16_state Evo, Some EReject) /\
  step (ex16_state Fluent) ex16_unknown_1 = (ex16_state Fluent, Some EReject) /\
  step (ex16_state Evo) ex16_unknown_2 = (ex16_state Evo, Some EReject) /\
  step (ex16_state Fluent) ex16_unknown_2 = (ex16_state Fluent, Some EReject).
Proof. vm_compute. repeat split; reflexivity. Qed.

(** a destination that is a trough: the R records differ in the destination range *)
Example C16_example_trough_destination :
  let o := ODistribute 0 0 (A1 ["B01"; "D01"]) (ex16_dist 20) in
  let r1 := step (ex16_state Evo) o in
  let r2 := step (ex16_state Fluent) o in
  st_lw (fst r1) = st_lw (fst r2) /\ snd r1 = None /\ snd r2 = None /\
  map render (w_recs (st_wl (fst r1))) = ["C;dist"; "R;trough;;;5;8;trough;;;2;4;20;W;1;1;0;3"] /\
  map render (w_recs (st_wl (fst r2))) = ["C;dist"; "R;trough;;;5;8;trough;;;1;1;20;W;1;1;0"].
Proof. vm_compute. repeat split; reflexivity. Qed.

(** the base type: the transfer and the distribute are refused without effect, the aspirate is refused
    after the volume has been removed and the comment written *)
Example C16_example_base :
  let r := run (ex16_state BaseDev)
             [OTransfer 0 (A0 "A01") 1 (A0 "A01") (A0 30%Q) None SFlush "auto" kw_default;
              ODistribute 0 1 (A1 ["A02"; "B03"]) (ex16_dist 20);
              OAspirate 0 (A0 "A01") (A0 (XQ 1000)) (Some "base") kw_default] in
  snd r = [Some ECompat; Some ECompat; Some ECompat] /\
  map lw_vols (st_lw (fst r)) = [[19000; 5000]; [50; 50; 50; 50; 50; 50]]%Q /\
  map render (w_recs (st_wl (fst r))) = ["C;base"].
Proof. vm_compute. repeat split; reflexivity. Qed.
