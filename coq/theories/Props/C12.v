(** C12 — the EVOware well-selection string decodes, by the EVOware rule, to exactly the selected
    wells and the labware dimensions.  The decoder ([decode_codes], [parse_hex2], [decode_selection])
    is the independent specification in Spec/SelDecode.v.
    Statements only; proofs live in Proofs/SelProofs.v. *)
From Robo Require Import Prelude Str EvoCmd SelDecode SelProofs.

(** decoding the character codes of a selection gives the selection back (every subset, every size) *)
Theorem C12_codes_roundtrip : forall sel : list bool,
  decode_codes (length sel) (sel_codes sel) = sel.
Proof. exact sel_codes_roundtrip. Qed.
Print Assumptions C12_codes_roundtrip.

(** one character per seven wells, rounded up *)
Theorem C12_length : forall sel : list bool, length (sel_codes sel) = (length sel + 6) / 7.
Proof. exact sel_codes_length. Qed.
Print Assumptions C12_length.

(** every code is 48 + a 7-bit value; the codes cover the selection with fewer than 7 spare bits,
    and all spare (padding) bits are zero *)
Theorem C12_range_padding : forall sel : list bool,
  (forall c, In c (sel_codes sel) -> (48 <= c < 176)%N) /\
  length sel <= 7 * length (sel_codes sel) < length sel + 7 /\
  decode_codes (7 * length (sel_codes sel)) (sel_codes sel) =
  sel ++ repeat false (7 * length (sel_codes sel) - length sel).
Proof. exact sel_codes_range_padding. Qed.
Print Assumptions C12_range_padding.

(** distinct selections of the same labware give distinct codes *)
Theorem C12_injective : forall sel sel' : list bool,
  length sel = length sel' -> sel_codes sel = sel_codes sel' -> sel = sel'.
Proof. exact sel_codes_injective. Qed.
Print Assumptions C12_injective.

(** the whole string: dimensions and wells are recovered, and the length is 4 + ceil(R*C/7).
    (Dimensions up to 255 = two hex digits; this includes the wanted range 1..255.) *)
Theorem C12_roundtrip : forall (rows cols : nat) (sel : list bool),
  rows < 256 -> cols < 256 -> length sel = rows * cols ->
  decode_selection (evo_get_selection rows cols sel) = Some (rows, cols, sel) /\
  String.length (evo_get_selection rows cols sel) = 4 + (rows * cols + 6) / 7.
Proof. exact evo_get_selection_roundtrip. Qed.
Print Assumptions C12_roundtrip.

(** distinct (geometry, selection) pairs give distinct strings *)
Theorem C12_string_injective : forall rows cols sel rows' cols' sel',
  rows < 256 -> cols < 256 -> rows' < 256 -> cols' < 256 ->
  length sel = rows * cols -> length sel' = rows' * cols' ->
  evo_get_selection rows cols sel = evo_get_selection rows' cols' sel' ->
  rows = rows' /\ cols = cols' /\ sel = sel'.
Proof. exact evo_get_selection_injective. Qed.
Print Assumptions C12_string_injective.

(** the two-digit hex header *)
Theorem C12_hex : forall n : N, (n < 256)%N ->
  String.length (pad_left0_2 (to_hex n)) = 2 /\ parse_hex2 (pad_left0_2 (to_hex n)) = Some n.
Proof. exact hex_header. Qed.
Print Assumptions C12_hex.

(** non-vacuity: a 3 x 4 labware (12 wells, column-major), wells A1, C1, B3, C4 selected:
    header "0403"; wells 0..6 have bits 0 and 2 set (48 + 5 = '5'), wells 7..11 have bits 0 and 4
    set (48 + 17 = 'A') *)
Example C12_example :
  let sel := [true; false; true;  false; false; false;  false; true; false;  false; false; true] in
  evo_get_selection 3 4 sel = String "0" (String "4" (String "0" (String "3"
                                (String "5" (String "A" EmptyString))))) /\
  sel_codes sel = [53%N; 65%N] /\
  decode_selection (evo_get_selection 3 4 sel) = Some (3, 4, sel).
Proof. vm_compute. repeat split; reflexivity. Qed.

(** a 16 x 24 plate (hex digits above 9) with every well selected: 55 codes of 127+48, the last 6 bits *)
Example C12_example_384 :
  let s := evo_get_selection 16 24 (repeat true 384) in
  String.length s = 59 /\ decode_selection s = Some (16, 24, repeat true 384) /\
  substring 0 4 s = String "1" (String "8" (String "1" (String "0" EmptyString))) /\
  last (sel_codes (repeat true 384)) 0%N = 111%N.
Proof. vm_compute. repeat split; reflexivity. Qed.
